-------------------------- MODULE StaticServeTrace --------------------------
(* Trace validation for C15.  One execution = the requests sent to one real application
   (one add_static configuration) or against one set of real files; every event is one
   request/response pair observed on the wire of a real RequestHandler.

   cfg    = [part |-> "a", follow, show, ae]            or  [part |-> "b"]
   event a: [segs, status, kind, marker, listing]
   event b: [size, method, rk, ra, rb, ifr, im, inm, ius, ims,
             status, body, clen, crk, crs, cre, crn, mp]

   The verdict is total and does not stop at the first failure: every event is judged and
   the failures are aggregated PER CLAUSE as <<clause, count, up to MaxPos positions>>, so a
   rare clause can never be crowded out by a frequent one.  TraceBatch!Verdict prints
   <<consumed, first failing clause, <<number of failing events, aggregated failures>>>>. *)
EXTENDS StaticServe, TraceBatch

VARIABLES tid, l, fails, nfail
tvars == <<tid, l, fails, nfail>>

MaxPos == 4

Find(fs, c) == LET I == {i \in 1..Len(fs) : fs[i][1] = c} IN IF I = {} THEN 0 ELSE CHOOSE i \in I : TRUE
Record(fs, c, pos) ==
    IF c = "" THEN fs
    ELSE LET i == Find(fs, c) IN
         IF i = 0 THEN Append(fs, <<c, 1, <<pos>>>>)
         ELSE [fs EXCEPT ![i] = <<c, @[2] + 1, IF Len(@[3]) < MaxPos THEN Append(@[3], pos) ELSE @[3]>>]

ReqA(c, e) == [segs |-> e.segs, follow |-> c.follow, show |-> c.show, ae |-> c.ae]
RespA(e) == [status |-> e.status, kind |-> e.kind, marker |-> e.marker, listing |-> SeqToSet(e.listing)]
ReqB(e) == [size |-> e.size, method |-> e.method, rk |-> e.rk, ra |-> e.ra, rb |-> e.rb, ifr |-> e.ifr,
            im |-> e.im, inm |-> e.inm, ius |-> e.ius, ims |-> e.ims]
RespB(e) == [status |-> e.status, body |-> e.body, clen |-> e.clen, crk |-> e.crk, crs |-> e.crs,
             cre |-> e.cre, crn |-> e.crn, mp |-> e.mp]

Judge(c, e) == IF c.part = "a" THEN JudgeA(ReqA(c, e), RespA(e)) ELSE JudgeB(ReqB(e), RespB(e))

TInit ==
    /\ tid \in 1..NTraces
    /\ l = 0
    /\ fails = <<>>
    /\ nfail = 0
    /\ Verdict(tid, 0, "", <<0, <<>>>>)

TNext ==
    /\ l < NEvents(tid)
    /\ LET c == Judge(Cfg(tid), Events(tid)[l + 1])
           f2 == Record(fails, c, l + 1)
           n2 == IF c # "" THEN nfail + 1 ELSE nfail
       IN /\ l' = l + 1
          /\ fails' = f2
          /\ nfail' = n2
          /\ UNCHANGED tid
          /\ Verdict(tid, l + 1, IF f2 = <<>> THEN "" ELSE f2[1][1], <<n2, f2>>)

TSpec == TInit /\ [][TNext]_tvars
=============================================================================
