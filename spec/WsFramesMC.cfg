SPECIFICATION Spec
CONSTANTS
  MaxMsg = 4
  Compress = TRUE
  Decode = TRUE
  PendMax = 3
  ExpMax = 3
  AccMax = 5
  Alphabet = "full"
INVARIANT InvSelf
INVARIANT InvFailCodes
INVARIANT InvDeadAgree
INVARIANT InvRetained
INVARIANT InvType
INVARIANT InvAssembly
VIEW View
CHECK_DEADLOCK FALSE
