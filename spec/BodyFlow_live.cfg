\* liveness under weak fairness of every party, no state constraint
\*   java ... tlc2.TLC -workers 16 -config BodyFlow_live.cfg BodyFlow
SPECIFICATION FairSpec
CONSTANTS
  Mode = "Chunked"
  Codec = "zlib"
  Side = "client"
  Limit = 1
  Big = 6
  MaxPieces = 2
  MaxUnits = 2
  ReadSizes = {0, 1, 3, 1000}
  ClientMax = 2
  WithMembers = FALSE
  WithCorrupt = FALSE
  WithTrunc = FALSE
  MidChunkCuts = TRUE
  ZeroUnits = TRUE
  ClearStalePause = TRUE
  EofKeepsParser = TRUE
  UseBudget = TRUE
  ResumeReenters = TRUE
  PauseReachesParser = TRUE
  KeepPending = TRUE
  CheckEachChunk = TRUE
  ErrChecked = TRUE
  PendingCountsAvail = TRUE
  LineKeepsLimits = TRUE
PROPERTY Progress
PROPERTY ReachesEof
