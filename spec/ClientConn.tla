------------------------------ MODULE ClientConn ------------------------------
(* C06 - one pooled client connection and the exchanges that use it.

   Implementation-shaped model of aiohttp.client_proto.ResponseHandler together
   with the pooling decisions of aiohttp.connector (BaseConnector._release /
   _get) and the client calls that drive them (_connect_and_send_request:
   connect -> set_response_params -> send -> ClientResponse.start -> body ->
   release).  The peer is an adversary: it may answer, answer early, send
   surplus bytes (a complete extra response or a fragment of one) at any moment
   - also while the connection idles in the pool - or close.

   Every byte is stamped with the EPOCH in which it arrived: the index of the
   request that owned the connection at that moment, 0 when nobody did.  A parsed
   message carries the set of epochs of its bytes.

   Requests are issued one after the other: 1, 2, ... NReq (HTTP/1.1 without
   pipelining: the pool hands a connection to one request at a time).

   IdleGuard = TRUE models the repaired code: a connection that receives bytes
   while it idles in the pool closes itself, so it is never handed out again.
   IdleGuard = FALSE is the code as found: the bytes are parsed by the parser
   left over from the previous exchange and the resulting message is delivered
   to the NEXT request (response mix-up, DESIGN section 5 item 6).

   PartialGuard = TRUE is the ideal design in which a fragment of a surplus
   message retained by the parser at release time also forbids pooling;
   PartialGuard = FALSE is the code (named deviation
   Dev_C06_partial_surplus_pooled): should_close does not see the parser's
   private buffer; the fragment is dropped with the old parser when the next
   exchange installs a new one, and the connection is reused.                   *)
EXTENDS Naturals, Sequences, FiniteSets, TLC

CONSTANTS NReq, MaxPeer, IdleGuard, PartialGuard

VARIABLES st, owner, nextReq, hasParser, partial, buffer, tail, payload, scFlag,
          reqSt, got, dirty, peerBudget, replied, reused

vars == <<st, owner, nextReq, hasParser, partial, buffer, tail, payload, scFlag,
          reqSt, got, dirty, peerBudget, replied, reused>>

Reqs == 1..NReq
None == [ep |-> {}, for |-> 99]

Init ==
    /\ st = "fresh"                 \* fresh | owned | pooled | closed
    /\ owner = 0
    /\ nextReq = 1
    /\ hasParser = FALSE            \* ResponseHandler._parser is not None
    /\ partial = {}                 \* epochs of the bytes of an incomplete message inside the parser
    /\ buffer = <<>>                \* DataQueue._buffer: parsed messages not yet read
    /\ tail = {}                    \* ResponseHandler._tail (bytes received while there is no parser)
    /\ payload = "none"             \* body of the last parsed message: none | open | eof
    /\ scFlag = FALSE               \* ResponseHandler._should_close
    /\ reqSt = [j \in Reqs |-> "new"]   \* new | acquired | sent | headers | done | failed
    /\ got = [j \in Reqs |-> None]
    /\ dirty = "no"                 \* why the connection may not be reused ("no" = clean)
    /\ peerBudget = MaxPeer
    /\ replied = [j \in Reqs |-> "no"]  \* what the peer sent for request j: no | head | all
    /\ reused = "no"                \* history: the connection was handed out although dirty (why)

Connected == st # "closed"

\* ResponseHandler.should_close
ShouldClose ==
    \/ scFlag
    \/ payload = "open"
    \/ buffer # <<>>
    \/ tail # {}
    \/ (PartialGuard /\ partial # {})

MarkDirty(why) == IF dirty = "no" THEN why ELSE dirty

(* ---------------------------------------------------------------- client *)
\* connector.connect() returns this connection; set_response_params() installs a new parser
Acquire(j) ==
    /\ j = nextReq /\ reqSt[j] = "new"
    /\ st \in {"fresh", "pooled"}
    /\ owner' = j
    /\ st' = "owned"
    /\ hasParser' = TRUE
    /\ partial' = tail              \* the old parser (and its fragment) is dropped; _tail is fed to the new one
    /\ tail' = {}
    /\ payload' = "none"
    /\ reqSt' = [reqSt EXCEPT ![j] = "acquired"]
    /\ reused' = IF dirty # "no" /\ reused = "no" THEN dirty ELSE reused
    /\ UNCHANGED <<nextReq, buffer, scFlag, got, dirty, peerBudget, replied>>

SendReq(j) ==
    /\ owner = j /\ reqSt[j] = "acquired" /\ Connected
    /\ reqSt' = [reqSt EXCEPT ![j] = "sent"]
    /\ UNCHANGED <<st, owner, nextReq, hasParser, partial, buffer, tail, payload, scFlag, got, dirty, peerBudget, replied, reused>>

\* ClientResponse.start(): protocol.read() pops the next parsed message
Start(j) ==
    /\ owner = j /\ reqSt[j] \in {"acquired", "sent"}
    /\ buffer # <<>>
    /\ got' = [got EXCEPT ![j] = Head(buffer)]
    /\ buffer' = Tail(buffer)
    /\ reqSt' = [reqSt EXCEPT ![j] = "headers"]
    /\ UNCHANGED <<st, owner, nextReq, hasParser, partial, tail, payload, scFlag, dirty, peerBudget, replied, reused>>

\* body read to EOF -> _response_eof -> Connection.release() -> BaseConnector._release()
Release(j) ==
    /\ owner = j /\ reqSt[j] = "headers" /\ payload = "eof"
    /\ reqSt' = [reqSt EXCEPT ![j] = "done"]
    /\ owner' = 0
    /\ nextReq' = j + 1
    /\ st' = IF ShouldClose \/ ~Connected THEN "closed" ELSE "pooled"
    /\ UNCHANGED <<hasParser, partial, buffer, tail, payload, scFlag, got, dirty, peerBudget, replied, reused>>

\* the caller gives up (cancel, timeout, error, close() with unread body): Connection.close()
Abandon(j) ==
    /\ owner = j /\ reqSt[j] \in {"acquired", "sent", "headers"}
    /\ reqSt' = [reqSt EXCEPT ![j] = "failed"]
    /\ owner' = 0
    /\ nextReq' = j + 1
    /\ st' = "closed"
    /\ UNCHANGED <<hasParser, partial, buffer, tail, payload, scFlag, got, dirty, peerBudget, replied, reused>>

(* ------------------------------------------------------------------ peer *)
\* bytes arriving while the connection idles in the pool
IdleArrival(whole) ==
    /\ st = "pooled" /\ peerBudget > 0
    /\ peerBudget' = peerBudget - 1
    /\ dirty' = MarkDirty("idle-data")
    /\ IF IdleGuard
       THEN /\ st' = "closed" /\ scFlag' = TRUE
            /\ UNCHANGED <<partial, buffer, payload>>
       ELSE /\ UNCHANGED <<st, scFlag>>
            /\ IF whole
               THEN /\ buffer' = Append(buffer, [ep |-> partial \cup {0}, for |-> 0])
                    /\ partial' = {}
                    /\ payload' = "eof"
               ELSE /\ partial' = partial \cup {0}
                    /\ UNCHANGED <<buffer, payload>>
    /\ UNCHANGED <<owner, nextReq, hasParser, tail, reqSt, got, replied, reused>>

\* the response head for the request that owns the connection (possibly before the request was sent)
ReplyHead(j) ==
    /\ owner = j /\ st = "owned" /\ replied[j] = "no" /\ payload # "open"
    /\ replied' = [replied EXCEPT ![j] = "head"]
    /\ buffer' = Append(buffer, [ep |-> partial \cup {j}, for |-> j])
    /\ partial' = {}
    /\ payload' = "open"
    /\ UNCHANGED <<st, owner, nextReq, hasParser, tail, scFlag, reqSt, got, dirty, peerBudget, reused>>

ReplyBodyEnd(j) ==
    /\ owner = j /\ st = "owned" /\ replied[j] = "head" /\ payload = "open"
    /\ replied' = [replied EXCEPT ![j] = "all"]
    /\ payload' = "eof"
    /\ UNCHANGED <<st, owner, nextReq, hasParser, partial, buffer, tail, scFlag, reqSt, got, dirty, peerBudget, reused>>

\* surplus bytes after the end of the response, before the connection was released
Surplus(j, whole) ==
    /\ owner = j /\ st = "owned" /\ replied[j] = "all" /\ peerBudget > 0
    /\ peerBudget' = peerBudget - 1
    /\ dirty' = MarkDirty(IF whole THEN "surplus" ELSE "partial-surplus")
    /\ IF whole
       THEN /\ buffer' = Append(buffer, [ep |-> partial \cup {j}, for |-> 0])
            /\ partial' = {}
       ELSE /\ partial' = partial \cup {j}
            /\ UNCHANGED buffer
    /\ UNCHANGED <<st, owner, nextReq, hasParser, tail, payload, scFlag, reqSt, got, replied, reused>>

PeerClose ==
    /\ st \in {"owned", "pooled"} /\ peerBudget > 0
    /\ peerBudget' = peerBudget - 1
    /\ st' = "closed"
    /\ scFlag' = TRUE
    /\ dirty' = MarkDirty("peer-close")
    /\ UNCHANGED <<owner, nextReq, hasParser, partial, buffer, tail, payload, reqSt, got, replied, reused>>

Next ==
    \/ \E j \in Reqs : Acquire(j) \/ SendReq(j) \/ Start(j) \/ Release(j) \/ Abandon(j)
                        \/ ReplyHead(j) \/ ReplyBodyEnd(j)
    \/ \E j \in Reqs, w \in BOOLEAN : Surplus(j, w)
    \/ \E w \in BOOLEAN : IdleArrival(w)
    \/ PeerClose

Spec == Init /\ [][Next]_vars

(* -------------------------------------------------------------- properties *)
\* a response handed to request j consists only of bytes that arrived while j owned the connection
NoMix == \A j \in Reqs : got[j] # None => got[j].ep = {j}

\* ... and is the message the peer sent for j
RightMessage == \A j \in Reqs : got[j] # None => got[j].for = j

\* a connection that saw bytes outside an exchange / beyond a response is never handed out again
NoReuseAfterDirty == reused = "no"

\* the form used when PartialGuard = FALSE (code as it is): everything except partial surplus
NoReuseAfterDirtyButPartial == reused \in {"no", "partial-surplus"}
=============================================================================
