----------------------------- MODULE UrlDispatch -----------------------------
(* C14 - URL dispatch follows the documented resolution rule.

   Reference machine (oracle).  Nothing here is a string or a regex: a path is a
   sequence of segments, a segment is a sequence of code points, a template is a
   sequence of parts with a trailing-slash flag, a route table is a sequence
   (registration order) of entries.  Resolve(table, host, path, method) computes what
   docs/web_reference.rst "Resource" (lookup steps 1-4, "Fixed paths are preferred ...",
   "resolved in order of registration"), Application.add_subapp ("if request's path
   starts with prefix then further resolving is passed to subapp") and
   Application.add_domain say the router answers:

       Match(i, vars)   entry i handles the request, vars = extracted variables
       NotAllowed(S)    405 with allowed methods S
       NotFound         404

   Data
     segment   Seq(Nat)                       "a" = <<97>>, "" = <<>>
     path      non-empty Seq(segment)         "/" = <<"">>, "/a/" = <<"a","">>, "/a//b" = <<"a","","b">>
     part      [k, s, n]   k = "lit"   literal segment s
                           k = "var"   {n}            default regex [^{}/]+
                           k = "mid"   s{n}           variable starting mid-segment after literal s
                           k = "num"   {n:\d+}        regex-constrained variable
                           k = "tail"  {n:.*}         last part; matches the rest of the path (may be empty)
                           k = "static" add_static prefix: last part; matches zero or more segments -> "filename"
     template  [parts, slash]                 "/" = [<<>>, TRUE], "/a/" = [<<Lit a>>, TRUE]
     entry     [tpl, methods, app, domain]    methods: subset of {"GET","POST",...,"*"}
                                              app: chain of sub-application prefixes (<<>> = the
                                                   application itself), each prefix a Seq(segment)
                                              domain: "" or the add_domain() domain the chain hangs under
     The applications are the groups of entries with the same (domain, app); a
     sub-application is registered in its parent at the position of its first entry.

   Deviations of the code from this rule that are known are written as separate
   switches of the option record (never folded into the rule):
     opt.merge = FALSE  Dev_SubAppDropsAllowed: the 404/405 of a prefixed sub-app replaces the
                        methods collected from the parent's earlier path-matching candidates
     opt.deadq = TRUE   Dev_QuotedLiteralUnreachable: a dynamic resource / static prefix /
                        sub-app prefix whose literal text needs percent-quoting never matches
   opt.df is DomainFirst (doc/code discrepancy: docs step 3 consult domain sub-apps after
   the index, the code consults them first).                                          *)
EXTENDS Naturals, Sequences, FiniteSets, TLC

CONSTANT DomainFirst

Take(q, k) == SubSeq(q, 1, k)
Drop(q, k) == SubSeq(q, k + 1, Len(q))
IsPrefix(p, q) == Len(p) <= Len(q) /\ Take(q, Len(p)) = p
Range(q) == {q[i] : i \in DOMAIN q}

RECURSIVE Flat(_)
Flat(qq) == IF qq = <<>> THEN <<>> ELSE Head(qq) \o Flat(Tail(qq))

RECURSIVE JoinSlash(_)
JoinSlash(segs) ==
    IF segs = <<>> THEN <<>>
    ELSE IF Len(segs) = 1 THEN segs[1]
    ELSE segs[1] \o <<47>> \o JoinSlash(Tail(segs))

RECURSIVE SortedSeq(_)
SortedSeq(S) ==
    IF S = {} THEN <<>>
    ELSE LET m == CHOOSE x \in S : \A y \in S : x <= y IN <<m>> \o SortedSeq(S \ {m})

(* ------------------------------------------------------------------ templates *)
Lit(s) == [k |-> "lit", s |-> s, n |-> ""]
Var(n) == [k |-> "var", s |-> <<>>, n |-> n]
MidVar(s, n) == [k |-> "mid", s |-> s, n |-> n]
Num(n) == [k |-> "num", s |-> <<>>, n |-> n]
TailVar(n) == [k |-> "tail", s |-> <<>>, n |-> n]
StaticTail == [k |-> "static", s |-> <<>>, n |-> "filename"]
Tpl(parts, slash) == [parts |-> parts, slash |-> slash]

IsDynamic(tpl) == \E j \in DOMAIN tpl.parts : tpl.parts[j].k # "lit"
IsPlain(tpl) == ~IsDynamic(tpl)
IsStatic(tpl) == \E j \in DOMAIN tpl.parts : tpl.parts[j].k = "static"
EmptyCapable(tpl) == \E j \in DOMAIN tpl.parts : tpl.parts[j].k \in {"tail", "static"}

\* the template as one part per path segment: "/" and a trailing slash are a final empty literal
TplSegs(tpl) == IF tpl.slash \/ tpl.parts = <<>> THEN Append(tpl.parts, Lit(<<>>)) ELSE tpl.parts

WellFormedTpl(tpl) ==
    /\ \A j \in DOMAIN tpl.parts :
         /\ tpl.parts[j].k \in {"tail", "static"} => (j = Len(tpl.parts) /\ ~tpl.slash)
         /\ tpl.parts[j].k = "lit" => tpl.parts[j].s # <<>>
         /\ tpl.parts[j].k = "mid" => tpl.parts[j].s # <<>>
         /\ tpl.parts[j].k = "static" => (j > 1 /\ \A i \in 1..(j - 1) : tpl.parts[i].k = "lit")
    /\ \A i, j \in DOMAIN tpl.parts :      \* a regex group name can be defined once
         (i # j /\ tpl.parts[i].k # "lit" /\ tpl.parts[j].k # "lit") => tpl.parts[i].n # tpl.parts[j].n

(* FixedKey: the documented index key = literal segments before the first variable-bearing
   part (a mid-segment variable makes its whole segment variable); trailing slash dropped.
   web_urldispatcher.py UrlDispatcher._get_resource_index_key                           *)
RECURSIVE LeadLits(_)
LeadLits(ps) == IF ps # <<>> /\ Head(ps).k = "lit" THEN <<Head(ps).s>> \o LeadLits(Tail(ps)) ELSE <<>>
FixedKey(tpl) == LeadLits(tpl.parts)

(* characters yarl leaves unquoted in a path: unreserved, sub-delims, ":" "@"            *)
SafeChar == (48..57) \cup (65..90) \cup (97..122) \cup {45, 46, 95, 126}
              \cup {33, 36, 38, 39, 40, 41, 42, 43, 44, 59, 61} \cup {58, 64}
NeedsQuote(seg) == \E j \in DOMAIN seg : seg[j] \notin SafeChar
NeedsQuoteSegs(segs) == \E j \in DOMAIN segs : NeedsQuote(segs[j])

(* a variable with the default regex [^{}/]+ : non-empty, no brace.  A "/" obtained by
   decoding %2F is part of the value, not a separator.                                   *)
VarOK(seg) == seg # <<>> /\ \A j \in DOMAIN seg : seg[j] \notin {123, 125}
AllDigits(seg) == seg # <<>> /\ \A j \in DOMAIN seg : seg[j] \in 48..57

No == [ok |-> FALSE, vars |-> <<>>]
Yes(vs) == [ok |-> TRUE, vars |-> vs]

MatchSeg(p, seg, dead) ==
    CASE p.k = "lit" -> IF seg = p.s /\ ~(dead /\ NeedsQuote(p.s)) THEN Yes(<<>>) ELSE No
      [] p.k = "var" -> IF VarOK(seg) THEN Yes(<< <<p.n, seg>> >>) ELSE No
      [] p.k = "num" -> IF AllDigits(seg) THEN Yes(<< <<p.n, seg>> >>) ELSE No
      [] p.k = "mid" -> IF /\ Len(seg) > Len(p.s)
                           /\ Take(seg, Len(p.s)) = p.s
                           /\ VarOK(Drop(seg, Len(p.s)))
                           /\ ~(dead /\ NeedsQuote(p.s))
                        THEN Yes(<< <<p.n, Drop(seg, Len(p.s))>> >>) ELSE No
      [] OTHER -> No

(* Matches: does the template match the whole path, and with which variables
   (sequence of <<name, value>> in template order)                                      *)
RECURSIVE MatchParts(_, _, _)
MatchParts(ps, segs, dead) ==
    IF ps = <<>> THEN (IF segs = <<>> THEN Yes(<<>>) ELSE No)
    ELSE LET p == Head(ps) IN
         IF p.k = "tail" THEN      \* "/a/{t:.*}" needs the slash: at least one (maybe empty) segment
             (IF Len(segs) >= 1 /\ Len(ps) = 1 THEN Yes(<< <<p.n, JoinSlash(segs)>> >>) ELSE No)
         ELSE IF p.k = "static" THEN   \* "/s", "/s/", "/s/x/y"
             (IF Len(ps) = 1 THEN Yes(<< <<p.n, JoinSlash(segs)>> >>) ELSE No)
         ELSE IF segs = <<>> THEN No
         ELSE LET one == MatchSeg(p, Head(segs), dead) IN
              IF ~one.ok THEN No
              ELSE LET rest == MatchParts(Tail(ps), Tail(segs), dead) IN
                   IF rest.ok THEN Yes(one.vars \o rest.vars) ELSE No

Matches(tpl, path) == MatchParts(TplSegs(tpl), path, FALSE)

(* an entry inside sub-applications matches prefix ++ template *)
MatchEntryD(e, path, deadq) ==
    LET fp == Flat(e.app) IN
    IF ~IsPrefix(fp, path) THEN No
    ELSE MatchParts(TplSegs(e.tpl), Drop(path, Len(fp)), deadq /\ IsDynamic(e.tpl))
MatchEntry(e, path) == MatchEntryD(e, path, FALSE)

HasMethod(ms, m) == m \in ms \/ "*" \in ms

(* ------------------------------------------------------------------ results *)
NotFound == [t |-> "404", i |-> 0, vars |-> <<>>, allowed |-> {}]
NotAllowed(S) == [t |-> "405", i |-> 0, vars |-> <<>>, allowed |-> S]
Match(i, vs) == [t |-> "match", i |-> i, vars |-> vs, allowed |-> {}]
ErrOf(S) == IF S = {} THEN NotFound ELSE NotAllowed(S)

(* ------------------------------------------------------------------ applications *)
InCtx(e, dom, ap) == e.domain = dom /\ IsPrefix(ap, e.app)
ChildOf(T, i, ap) == Take(T[i].app, Len(ap) + 1)
IsRouteHead(T, i, dom, ap) == T[i].domain = dom /\ T[i].app = ap
IsSubHead(T, i, dom, ap) ==
    /\ InCtx(T[i], dom, ap) /\ Len(T[i].app) > Len(ap)
    /\ ~\E j \in 1..(i - 1) : InCtx(T[j], dom, ChildOf(T, i, ap))
IsDomHead(T, i) == T[i].domain # "" /\ ~\E j \in 1..(i - 1) : T[j].domain = T[i].domain

\* index key of a resource of application (dom, ap): route -> prefix ++ FixedKey, sub-app -> its prefix
HeadKey(T, i, ap) ==
    IF T[i].app = ap THEN Flat(ap) \o FixedKey(T[i].tpl) ELSE Flat(ChildOf(T, i, ap))

(* docs step 1+2: "checks the index from longest to shortest ('/one/two/three', '/one/two',
   ..., '/')"; within one key the resources are tried in registration order.  The visited
   keys are the prefixes Take(path, k), k = Len(path) .. 0, so a resource is a candidate iff
   its key is a prefix of the path, and the candidates are ordered by decreasing key length,
   then by registration number (computed as one numeric rank and sorted).                *)
Walk(T, dom, ap, path) ==
    LET n == Len(T) + 1
        H == {i \in DOMAIN T :
                /\ IsRouteHead(T, i, dom, ap) \/ IsSubHead(T, i, dom, ap)
                /\ IsPrefix(HeadKey(T, i, ap), path)}
        ranks == SortedSeq({(Len(path) - Len(HeadKey(T, i, ap))) * n + i : i \in H})
    IN [j \in DOMAIN ranks |-> ranks[j] % n]
RECURSIVE Reverse(_)
Reverse(sq) == IF sq = <<>> THEN <<>> ELSE Append(Reverse(Tail(sq)), Head(sq))

(* q = [opt, T, hosts, path, method]; hosts = the add_domain() domains the Host header matches.  Scan tries the candidates in walk order:
   - a resource whose path matches and which has a route for the method wins;
   - a resource whose path matches but not the method contributes its methods to the 405 set;
   - a prefixed sub-application reached through its index key takes over ("further
     resolving is passed to subapp"): its answer is final; an error answer keeps the
     methods already collected (405 lists the complete set).                              *)
RECURSIVE Scan(_, _, _, _, _), ResolveApp(_, _, _)
Scan(q, dom, ap, cands, acc) ==
    IF cands = <<>> THEN ErrOf(acc)
    ELSE LET i == Head(cands)
             e == q.T[i]
         IN IF e.app = ap THEN
                LET m == MatchEntryD(e, q.path, q.opt.deadq) IN
                IF ~m.ok THEN Scan(q, dom, ap, Tail(cands), acc)
                ELSE IF HasMethod(e.methods, q.method) THEN Match(i, m.vars)
                ELSE Scan(q, dom, ap, Tail(cands),
                          IF q.opt.mut = "lastallowed" THEN e.methods ELSE acc \cup e.methods)
            ELSE LET child == ChildOf(q.T, i, ap) IN
                IF q.opt.deadq /\ NeedsQuoteSegs(Flat(child)) THEN Scan(q, dom, ap, Tail(cands), acc)
                ELSE LET r == ResolveApp(q, dom, child) IN
                     IF r.t = "match" \/ ~q.opt.merge THEN r ELSE ErrOf(acc \cup r.allowed)

ResolveApp(q, dom, ap) ==
    LET w == Walk(q.T, dom, ap, q.path) IN
    Scan(q, dom, ap, IF q.opt.mut = "shortfirst" THEN Reverse(w) ELSE w, {})

(* add_domain: a domain sub-application whose domain matches the Host header takes the
   request over (first registered wins).  DomainFirst: before the index (code), else after
   an unsuccessful index lookup (docs step 3).                                            *)
ResolveRoot(q) ==
    LET idx == ResolveApp(q, "", <<>>)
        doms == SortedSeq({i \in DOMAIN q.T : IsDomHead(q.T, i) /\ q.T[i].domain \in q.hosts})
    IN IF doms = <<>> THEN idx
       ELSE LET dr == ResolveApp(q, q.T[doms[1]].domain, <<>>) IN
            IF q.opt.df THEN dr
            ELSE IF idx.t = "match" THEN idx
            ELSE IF dr.t = "match" THEN dr
            ELSE ErrOf(idx.allowed \cup dr.allowed)

\* opt.mut: spec-level mutants for the self-test only ("" = the rule)
Ideal(df) == [df |-> df, merge |-> TRUE, deadq |-> FALSE, mut |-> ""]
ResolveOpt(opt, T, hosts, path, method) ==
    ResolveRoot([opt |-> opt, T |-> T, hosts |-> hosts, path |-> path, method |-> method])
\* host given as the (single) domain it matches, or any other string
Resolve(T, host, path, method) == ResolveOpt(Ideal(DomainFirst), T, {host}, path, method)

(* ------------------------------------------------------------------ Host header vs domain rule
   add_domain(domain): "if request.headers['host'] matches the pattern domain".  Both are
   host[:port] texts (code points).  The rule is normalised when registered (lower case,
   trailing dots dropped, the default port 80 dropped); the header matches iff the host
   names are equal ignoring case and the ports are equal, an absent port and the rule's
   dropped :80 being the same.  Whether a header that spells ":80" explicitly matches a
   port-less rule is not documented: both answers are permitted (p80).                   *)
LowerCp(s) == [j \in DOMAIN s |-> IF s[j] \in 65..90 THEN s[j] + 32 ELSE s[j]]
RECURSIVE StripDots(_)
StripDots(s) == IF s # <<>> /\ s[Len(s)] = 46 THEN StripDots(Take(s, Len(s) - 1)) ELSE s
LastColon(s) == LET C == {j \in DOMAIN s : s[j] = 58} IN
                IF C = {} THEN 0 ELSE CHOOSE j \in C : \A k \in C : k <= j
SplitPort(s) ==
    LET k == LastColon(s) IN
    IF k > 0 /\ k < Len(s) /\ AllDigits(Drop(s, k))
    THEN [name |-> Take(s, k - 1), port |-> Drop(s, k)]
    ELSE [name |-> s, port |-> <<>>]
Port80 == <<56, 48>>
RuleOf(cp) == LET r == SplitPort(LowerCp(StripDots(cp))) IN
              [name |-> r.name, port |-> IF r.port = Port80 THEN <<>> ELSE r.port]
HostMatches(rulecp, hostcp, p80) ==
    LET r == RuleOf(rulecp)
        h == SplitPort(LowerCp(hostcp))
    IN /\ h.name = r.name
       /\ h.port = r.port \/ (p80 /\ h.port = Port80 /\ r.port = <<>>)

VarSet(vs) == Range(vs)
SameResult(a, b) == a.t = b.t /\ a.i = b.i /\ VarSet(a.vars) = VarSet(b.vars) /\ a.allowed = b.allowed

(* ------------------------------------------------------------------ registration rules
   add_route reuses the last resource when the same path is added again, and refuses a
   method that is already covered (RuntimeError "Added route will never be executed");
   an application must be complete before add_subapp: its entries are contiguous.        *)
Contiguous(T) ==
    \A i, k \in DOMAIN T : \A j \in DOMAIN T :
        (i < j /\ j < k) =>
            /\ (T[i].domain # "" /\ T[k].domain = T[i].domain) => T[j].domain = T[i].domain
            /\ \A d \in 1..Len(T[i].app) :
                  (/\ T[k].domain = T[i].domain
                   /\ Len(T[k].app) >= d /\ Take(T[k].app, d) = Take(T[i].app, d))
                  => (/\ T[j].domain = T[i].domain
                      /\ Len(T[j].app) >= d /\ Take(T[j].app, d) = Take(T[i].app, d))
SameResource(T, i, j) ==      \* i < j registered into the same resource object
    /\ T[i].tpl = T[j].tpl /\ T[i].app = T[j].app /\ T[i].domain = T[j].domain
    /\ \A m \in i..j : T[m].tpl = T[i].tpl /\ T[m].app = T[i].app /\ T[m].domain = T[i].domain
ValidTable(T) ==
    /\ \A i \in DOMAIN T :
         /\ WellFormedTpl(T[i].tpl) /\ T[i].methods # {}
         /\ IsStatic(T[i].tpl) => T[i].methods = {"GET", "HEAD"}
    /\ Contiguous(T)
    /\ \A i, j \in DOMAIN T :
         (i < j /\ SameResource(T, i, j)) =>
             /\ T[i].methods \cap T[j].methods = {}
             /\ "*" \notin T[i].methods
             /\ ~IsStatic(T[i].tpl)

(* ------------------------------------------------------------------ properties of the rule
   Stated on a query record  x = [T, host, path, method, res]  with res = Resolve(...).    *)
SameApp(a, b) == a.app = b.app /\ a.domain = b.domain
KeyOfEntry(e) == Flat(e.app) \o FixedKey(e.tpl)
Serves(e, path, method) == MatchEntry(e, path).ok /\ HasMethod(e.methods, method)

(* "Fixed paths are preferred over variable paths": a variable resource is never chosen
   while a fixed path of the same application serves the request - except the one case the
   index itself creates: a trailing "{t:.*}"/static part can match the empty rest, then
   "/a/b/" and "/a/b/{t:.*}" share the key /a/b and registration order decides.            *)
FixedBeatsVariable(x) ==
    x.res.t = "match" /\ IsDynamic(x.T[x.res.i].tpl) =>
        \A j \in DOMAIN x.T :
            (/\ SameApp(x.T[j], x.T[x.res.i]) /\ IsPlain(x.T[j].tpl)
             /\ Serves(x.T[j], x.path, x.method))
            => (/\ EmptyCapable(x.T[x.res.i].tpl)
                /\ KeyOfEntry(x.T[j]) = KeyOfEntry(x.T[x.res.i])
                /\ x.res.i < j)

(* longest fixed prefix first *)
LongestKeyFirst(x) ==
    x.res.t = "match" =>
        \A j \in DOMAIN x.T :
            (SameApp(x.T[j], x.T[x.res.i]) /\ Serves(x.T[j], x.path, x.method))
            => Len(KeyOfEntry(x.T[j])) <= Len(KeyOfEntry(x.T[x.res.i]))

(* "resolved in order of registration" among resources with the same fixed prefix *)
RegistrationOrderAmongEqualKeys(x) ==
    x.res.t = "match" =>
        \A j \in DOMAIN x.T :
            (/\ SameApp(x.T[j], x.T[x.res.i])
             /\ KeyOfEntry(x.T[j]) = KeyOfEntry(x.T[x.res.i])
             /\ Serves(x.T[j], x.path, x.method))
            => x.res.i <= j

(* the extracted variables are those of the chosen template *)
VarsAreTemplateVars(x) ==
    x.res.t = "match" =>
        LET m == MatchEntry(x.T[x.res.i], x.path) IN
        m.ok /\ m.vars = x.res.vars /\ HasMethod(x.T[x.res.i].methods, x.method)

IsFlat(T) == \A i \in DOMAIN T : T[i].app = <<>> /\ T[i].domain = ""
PathMatching(T, path) == {j \in DOMAIN T : MatchEntry(T[j], path).ok}
UnionMethods(T, S) == UNION {T[j].methods : j \in S}

(* 404 only if no resource matches the path; 405 only if some resource matches the path
   and none the method, and then with the union over ALL path-matching resources.
   Exact for tables without sub-applications; with sub-applications the take-over rule
   hides resources, so there the 405 set is only required to be sound and to exclude the
   requested method.                                                                      *)
NotAllowedIsComplete(x) ==
    LET pm == PathMatching(x.T, x.path)
        served == {j \in pm : HasMethod(x.T[j].methods, x.method)}
    IN /\ IsFlat(x.T) =>
            /\ x.res.t = "404" <=> pm = {}
            /\ x.res.t = "405" <=> (pm # {} /\ served = {})
            /\ x.res.t = "405" => x.res.allowed = UnionMethods(x.T, pm)
            /\ x.res.t = "match" <=> served # {}
       /\ x.res.t = "405" =>
            /\ x.res.allowed # {} /\ x.method \notin x.res.allowed /\ "*" \notin x.res.allowed
            /\ x.res.allowed \subseteq UnionMethods(x.T, pm)
       /\ x.res.t = "match" => x.res.i \in served
       /\ x.res.t # "405" => x.res.allowed = {}

(* the answer depends on registration order only among equal keys: swapping two
   neighbouring entries of the same application with different keys changes nothing
   (up to the renaming of the two indices).                                              *)
Swap(T, k) == [j \in DOMAIN T |-> IF j = k THEN T[k + 1] ELSE IF j = k + 1 THEN T[k] ELSE T[j]]
Rename(r, k) == IF r.t # "match" THEN r
                ELSE [r EXCEPT !.i = IF r.i = k THEN k + 1 ELSE IF r.i = k + 1 THEN k ELSE r.i]
Deterministic(x) ==
    \A k \in 1..(Len(x.T) - 1) :
        (/\ SameApp(x.T[k], x.T[k + 1])
         /\ KeyOfEntry(x.T[k]) # KeyOfEntry(x.T[k + 1]))
        => SameResult(Rename(Resolve(Swap(x.T, k), x.host, x.path, x.method), k), x.res)

(* ------------------------------------------------------------------ Canon
   Request-target spelling -> path.  raw is the sequence of code points of the path part
   of the request target (starts with "/").  Split at literal "/" only; every segment is
   percent-decoded once and the bytes read as UTF-8.  "%2F" therefore yields a "/" inside a
   segment (never a separator), "%25" a "%", "%252F" the three characters "%2F".          *)
HexVal(c) == IF c \in 48..57 THEN c - 48
             ELSE IF c \in 65..70 THEN c - 55
             ELSE IF c \in 97..102 THEN c - 87 ELSE 16
Utf8Enc(c) ==
    IF c < 128 THEN <<c>>
    ELSE IF c < 2048 THEN <<192 + (c \div 64), 128 + (c % 64)>>
    ELSE IF c < 65536 THEN <<224 + (c \div 4096), 128 + ((c \div 64) % 64), 128 + (c % 64)>>
    ELSE <<240 + (c \div 262144), 128 + ((c \div 4096) % 64), 128 + ((c \div 64) % 64), 128 + (c % 64)>>

RECURSIVE PctBytes(_)
PctBytes(s) ==
    IF s = <<>> THEN <<>>
    ELSE IF s[1] = 37 /\ Len(s) >= 3 /\ HexVal(s[2]) < 16 /\ HexVal(s[3]) < 16
         THEN <<16 * HexVal(s[2]) + HexVal(s[3])>> \o PctBytes(Drop(s, 3))
    ELSE Utf8Enc(s[1]) \o PctBytes(Tail(s))

Cont(b, j) == Len(b) >= j /\ b[j] \in 128..191
RECURSIVE Utf8Dec(_)
Utf8Dec(b) ==
    IF b = <<>> THEN <<>>
    ELSE IF b[1] < 128 THEN <<b[1]>> \o Utf8Dec(Tail(b))
    ELSE IF b[1] \in 194..223 /\ Cont(b, 2)
         THEN <<(b[1] - 192) * 64 + (b[2] - 128)>> \o Utf8Dec(Drop(b, 2))
    ELSE IF b[1] \in 224..239 /\ Cont(b, 2) /\ Cont(b, 3)
         THEN <<(b[1] - 224) * 4096 + (b[2] - 128) * 64 + (b[3] - 128)>> \o Utf8Dec(Drop(b, 3))
    ELSE IF b[1] \in 240..244 /\ Cont(b, 2) /\ Cont(b, 3) /\ Cont(b, 4)
         THEN <<(b[1] - 240) * 262144 + (b[2] - 128) * 4096 + (b[3] - 128) * 64 + (b[4] - 128)>>
              \o Utf8Dec(Drop(b, 4))
    ELSE <<65533>> \o Utf8Dec(Tail(b))      \* malformed: outside what the drivers generate

DecodeSeg(s) == Utf8Dec(PctBytes(s))

RECURSIVE SplitAt(_, _, _)
SplitAt(s, c, cur) ==
    IF s = <<>> THEN <<cur>>
    ELSE IF Head(s) = c THEN <<cur>> \o SplitAt(Tail(s), c, <<>>)
    ELSE SplitAt(Tail(s), c, Append(cur, Head(s)))

Canon(raw) ==
    LET pieces == SplitAt(raw, 47, <<>>)        \* pieces[1] is the empty text before the first "/"
    IN [j \in 1..(Len(pieces) - 1) |-> DecodeSeg(pieces[j + 1])]

PathOnly(raw) == SplitAt(raw, 63, <<>>)[1]      \* drop "?query"

(* path-normalising redirects never leave the site: Location = "/" followed by neither
   "/" nor "\" (browsers read "/\" as "//": a protocol-relative URL)                      *)
OnSite(loc) == loc # <<>> /\ loc[1] = 47 /\ (Len(loc) = 1 \/ loc[2] \notin {47, 92})
=============================================================================
