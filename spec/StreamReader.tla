---------------------------- MODULE StreamReader ----------------------------
(* C08 - aiohttp.streams.StreamReader: exact ordered delivery with back-pressure.

   Reference machine in "acceptor" style.  The whole reader is one record `s`;
   Apply(s, e) consumes one event e (a producer call, a consumer call, a consumer
   return, or "the consumer is blocked") and yields the next state together with
       bad   - name of the violated PROPERTY clause ("" if none)
       drift - name of a violated REFINEMENT clause ("" if none): the code still
               satisfies C08 but no longer follows this model step for step.
   The same Apply drives
     * the bounded model (StreamReaderMC): events are generated from a small
       alphabet, the reference supplies the results, TLC checks the invariants
       in every reachable state and every interleaving of producer/consumer;
     * trace validation (StreamReaderTrace): events recorded from the real
       aiohttp.streams.StreamReader are pushed through Apply.

   State (names follow streams.py):
     pend    bytes fed and not yet consumed, in order      (_buffer flattened)
     pieces  lengths of the buffered pieces                 (_buffer, _buffer_offset)
     fed     total_bytes;  cursor  _cursor
     chunked begin_http_chunk_receiving() was called; bounds = _http_chunk_splits
     ends    history: offsets at which the producer ended a chunk
     eof, exc, paused (protocol._reading_paused as seen by the mock protocol)
     low, high, hiC, loC   water marks
     op, n, acc   consumer call in progress (op = "none" when idle), its argument and
                  the bytes it has already taken from the buffer
     blocked      the consumer is suspended in _wait()
*)
EXTENDS Naturals, Integers, Sequences, FiniteSets, TLC

Sep == 10                       \* b"\n"
Big == 1000000000               \* stands for sys.maxsize

Min(a, b) == IF a < b THEN a ELSE b
Max(a, b) == IF a > b THEN a ELSE b
Take(q, k) == SubSeq(q, 1, k)
Drop(q, k) == SubSeq(q, k + 1, Len(q))

RECURSIVE DropPieces(_, _)
DropPieces(ps, k) ==            \* remove k bytes from the front of the piece list
    IF k = 0 \/ ps = <<>> THEN ps
    ELSE IF Head(ps) <= k THEN DropPieces(Tail(ps), k - Head(ps))
    ELSE <<Head(ps) - k>> \o Tail(ps)

RECURSIVE DropBelow(_, _)
DropBelow(bs, c) ==             \* drop chunk ends strictly below the cursor
    IF bs # <<>> /\ Head(bs) < c THEN DropBelow(Tail(bs), c) ELSE bs

RECURSIVE IndexOf(_, _, _)
IndexOf(q, x, i) ==             \* least index >= i holding x, 0 if none
    IF i > Len(q) THEN 0 ELSE IF q[i] = x THEN i ELSE IndexOf(q, x, i + 1)

Init0(limit) ==
    [pend |-> <<>>, pieces |-> <<>>, fed |-> 0, cursor |-> 0,
     chunked |-> FALSE, bounds |-> <<>>, ends |-> {},
     eof |-> FALSE, exc |-> FALSE, paused |-> FALSE,
     low |-> limit, high |-> 2 * limit,
     hiC |-> Max(4, limit \div 16), loC |-> Max(4, limit \div 16) \div 2,
     op |-> "none", n |-> 0, acc |-> <<>>, blocked |-> FALSE, desync |-> FALSE, unread |-> FALSE]

Size(s) == Len(s.pend)

RaiseMarks(s, n) == IF n > s.low THEN [s EXCEPT !.low = n, !.high = 2 * n] ELSE s

\* take k >= 1 bytes off the buffer (one or more _read_nowait_chunk calls)
Consume(s, k) ==
    LET c2 == s.cursor + k
        b2 == DropBelow(s.bounds, c2)
        sz == Len(s.pend) - k
        resume == sz < s.low /\ (~s.chunked \/ Len(b2) < s.loC)
    IN [s EXCEPT !.pend = Drop(s.pend, k), !.pieces = DropPieces(s.pieces, k),
                 !.cursor = c2, !.bounds = b2,
                 !.paused = IF resume THEN FALSE ELSE s.paused]

Idle(s) == [s EXCEPT !.op = "none", !.n = 0, !.acc = <<>>, !.blocked = FALSE]

NoRet == [done |-> FALSE, data |-> <<>>, flag |-> FALSE, err |-> ""]
Ret(d, f, e) == [done |-> TRUE, data |-> d, flag |-> f, err |-> e]

(* Progress(s): run the consumer coroutine until it returns or suspends.  Result
   [s, r] where r.done tells whether the call returned, with which data/flag/err. *)
Progress(s) ==
    LET avail == Len(s.pend) IN
    CASE s.op = "none" -> [s |-> s, r |-> NoRet]
      [] s.exc -> [s |-> Idle(s), r |-> Ret(<<>>, FALSE, "exc")]
      [] s.op = "read" ->
            IF avail > 0 THEN
                LET k == Min(s.n, avail)
                IN [s |-> Idle(Consume(s, k)), r |-> Ret(Take(s.pend, k), FALSE, "")]
            ELSE IF s.eof THEN [s |-> Idle(s), r |-> Ret(<<>>, FALSE, "")]
            ELSE [s |-> [s EXCEPT !.blocked = TRUE], r |-> NoRet]
      [] s.op = "readany" ->
            IF avail > 0 THEN [s |-> Idle(Consume(s, avail)), r |-> Ret(s.pend, FALSE, "")]
            ELSE IF s.eof THEN [s |-> Idle(s), r |-> Ret(<<>>, FALSE, "")]
            ELSE [s |-> [s EXCEPT !.blocked = TRUE], r |-> NoRet]
      [] s.op = "readall" ->
            LET s1 == IF avail > 0
                      THEN [Consume(s, avail) EXCEPT !.acc = s.acc \o s.pend]
                      ELSE s
            IN IF s1.eof THEN [s |-> Idle(s1), r |-> Ret(s1.acc, FALSE, "")]
               ELSE [s |-> [s1 EXCEPT !.blocked = TRUE], r |-> NoRet]
      [] s.op = "readexactly" ->
            LET rem == s.n - Len(s.acc)
                k == Min(rem, avail)
                s1 == IF k > 0 THEN [Consume(s, k) EXCEPT !.acc = s.acc \o Take(s.pend, k)]
                      ELSE s
                rem1 == s.n - Len(s1.acc)
            IN IF rem1 <= 0 THEN [s |-> Idle(s1), r |-> Ret(s1.acc, FALSE, "")]
               ELSE IF s1.eof /\ Len(s1.pend) = 0
                    THEN [s |-> Idle(s1), r |-> Ret(s1.acc, FALSE, "incomplete")]
               ELSE [s |-> [s1 EXCEPT !.blocked = TRUE], r |-> NoRet]
      [] s.op = "readuntil" ->
            \* s.n = max_size.  Whole pieces are taken until one holds the separator.
            LET i == IndexOf(s.pend, Sep, 1)
                k == IF i > 0 THEN i ELSE avail
                s1 == IF k > 0 THEN [Consume(s, k) EXCEPT !.acc = s.acc \o Take(s.pend, k)]
                      ELSE s
            IN IF Len(s1.acc) > s.n /\ k > 0
               THEN [s |-> [Idle(s1) EXCEPT !.desync = TRUE], r |-> Ret(<<>>, FALSE, "toolong")]
               ELSE IF i > 0 \/ s1.eof THEN [s |-> Idle(s1), r |-> Ret(s1.acc, FALSE, "")]
               ELSE [s |-> [s1 EXCEPT !.blocked = TRUE], r |-> NoRet]
      [] s.op = "readchunk" ->
            IF s.bounds # <<>> THEN          \* DropBelow keeps only ends >= cursor
                LET b == Head(s.bounds)
                    k == b - s.cursor
                    s0 == [s EXCEPT !.bounds = Tail(s.bounds)]
                IN IF k = 0 THEN [s |-> Idle(s0), r |-> Ret(<<>>, TRUE, "")]
                   ELSE [s |-> Idle(Consume(s0, k)), r |-> Ret(Take(s.pend, k), TRUE, "")]
            ELSE IF avail > 0 THEN
                LET k == Head(s.pieces)
                IN [s |-> Idle(Consume(s, k)), r |-> Ret(Take(s.pend, k), FALSE, "")]
            ELSE IF s.eof THEN [s |-> Idle(s), r |-> Ret(<<>>, FALSE, "")]
            ELSE [s |-> [s EXCEPT !.blocked = TRUE], r |-> NoRet]
      [] OTHER -> [s |-> s, r |-> NoRet]

(* ------------------------------------------------------------------------ *)
(* Producer side and consumer calls: state change before the consumer runs.  *)
Stim(s, e) ==
    CASE e.ev = "feed" ->
            IF Len(e.data) = 0 THEN s
            ELSE LET s1 == [s EXCEPT !.pend = s.pend \o e.data,
                                     !.pieces = Append(s.pieces, Len(e.data)),
                                     !.fed = s.fed + Len(e.data)]
                 IN [s1 EXCEPT !.paused = IF Len(s1.pend) > s1.high THEN TRUE ELSE s.paused]
      [] e.ev = "begin" -> [s EXCEPT !.chunked = TRUE]
      [] e.ev = "end" ->
            LET pos == IF s.bounds # <<>> THEN s.bounds[Len(s.bounds)] ELSE 0 IN
            IF s.fed = pos THEN [s EXCEPT !.ends = s.ends \cup {s.fed}]
            ELSE LET b2 == Append(s.bounds, s.fed)
                 IN [s EXCEPT !.bounds = b2, !.ends = s.ends \cup {s.fed},
                              !.paused = IF Len(b2) > s.hiC THEN TRUE ELSE s.paused]
      [] e.ev = "eof" -> [s EXCEPT !.eof = TRUE, !.paused = FALSE]
      [] e.ev = "setexc" -> [s EXCEPT !.exc = TRUE]
      [] e.ev = "endexc" ->
            \* end_http_chunk_receiving() immediately followed by set_exception(), both before the
            \* woken consumer runs (one data_received call that completes a chunk and then fails)
            LET pos == IF s.bounds # <<>> THEN s.bounds[Len(s.bounds)] ELSE 0
                s1 == IF s.fed = pos THEN [s EXCEPT !.ends = s.ends \cup {s.fed}]
                      ELSE LET b2 == Append(s.bounds, s.fed)
                           IN [s EXCEPT !.bounds = b2, !.ends = s.ends \cup {s.fed},
                                        !.paused = IF Len(b2) > s.hiC THEN TRUE ELSE s.paused]
            IN [s1 EXCEPT !.exc = TRUE]
      [] e.ev = "unread" ->
            IF Len(e.data) = 0 THEN s
            ELSE [s EXCEPT !.pend = e.data \o s.pend, !.pieces = <<Len(e.data)>> \o s.pieces,
                           !.cursor = s.cursor - Len(e.data), !.unread = TRUE]
      [] e.ev = "call" ->
            LET s1 == CASE e.op = "read" /\ e.via = "iter" -> RaiseMarks(s, e.n)  \* iter_chunked(n)
                        [] s.exc -> s      \* every read API raises before touching the marks
                        [] e.op = "read" -> RaiseMarks(s, e.n)
                        [] e.op = "readall" -> RaiseMarks(s, Big)
                        [] e.op = "readexactly" -> RaiseMarks(s, e.n)
                        [] OTHER -> s
                n1 == IF e.op = "readuntil" /\ e.n = 0 THEN s.high ELSE e.n
            IN [s1 EXCEPT !.op = e.op, !.n = n1, !.acc = <<>>, !.blocked = FALSE]
      [] OTHER -> s

IsStim(e) == e.ev \in {"feed", "begin", "end", "eof", "setexc", "endexc", "unread", "call"}

\* legality of a stimulus (the harness / model never issues illegal ones)
Legal(s, e) ==
    CASE e.ev = "feed" -> ~s.eof
      [] e.ev = "begin" -> s.fed = 0 /\ ~s.chunked
      [] e.ev = "end" -> s.chunked /\ ~s.eof
      [] e.ev = "eof" -> ~s.eof
      [] e.ev = "setexc" -> ~s.exc
      [] e.ev = "endexc" -> s.chunked /\ ~s.eof /\ ~s.exc
      [] e.ev = "unread" -> ~s.chunked /\ s.op = "none"
      [] e.ev = "call" -> s.op = "none"
      [] e.ev = "nowait" -> s.op = "none"
      [] OTHER -> TRUE

(* ------------------------------------------------------------------------ *)
(* Property clauses on a consumer return.  before = state in which the consumer
   ran (stimulus applied), ref = what the reference machine returns, e = what the
   code returned.  Permissive where C08 itself is: any non-empty prefix of the
   available bytes is "exact ordered delivery".                               *)
RetClause(before, ref, e) ==
    LET avail == Len(before.pend)
        k == Len(e.rdata)
        got == before.acc \o before.pend       \* bytes this call may draw from, in order
    IN
    IF e.rerr # "" THEN
        IF e.rerr = "exc" THEN (IF before.exc THEN "" ELSE "SpuriousError")
        ELSE IF e.rerr = "incomplete" THEN
            (IF before.op = "readexactly" /\ before.eof /\ Len(got) < before.n
                 /\ e.rdata = got THEN "" ELSE "IncompleteReadWrong")
        ELSE IF e.rerr = "toolong" THEN
            (IF before.op = "readuntil" /\ ref.err = "toolong" THEN "" ELSE "LineTooLongWrong")
        ELSE "UnexpectedException"
    ELSE IF before.exc THEN "ErrorNotSticky"
    ELSE IF ref.err # "" THEN "ErrorNotRaised"
    ELSE IF k > Len(got) \/ e.rdata # Take(got, k) THEN "Conservation"
    ELSE CASE before.op \in {"read", "nowait"} ->
                IF before.n >= 0 /\ k > before.n THEN "ReadTooMuch"
                ELSE IF k = 0 /\ avail > 0 /\ before.n # 0 THEN "EmptyReadWithData"
                ELSE IF k = 0 /\ before.op = "read" /\ ~before.eof /\ before.n # 0 THEN "EofBeforeEnd"
                ELSE ""
           [] before.op = "readany" ->
                IF k = 0 /\ avail > 0 THEN "EmptyReadWithData"
                ELSE IF k = 0 /\ ~before.eof THEN "EofBeforeEnd" ELSE ""
           [] before.op = "readall" ->
                IF ~before.eof THEN "EofBeforeEnd"
                ELSE IF k # Len(got) THEN "ReadAllIncomplete" ELSE ""
           [] before.op = "readexactly" ->
                IF k # before.n THEN "ReadExactlyLength" ELSE ""
           [] before.op = "readuntil" ->
                IF e.rdata # ref.data THEN "ReadUntilWrong" ELSE ""
           [] before.op = "readchunk" ->
                IF e.rflag THEN
                    (IF before.cursor + k \in before.ends
                        /\ before.bounds # <<>> /\ before.cursor + k = Head(before.bounds)
                     THEN "" ELSE "ChunkBoundaryWrong")
                ELSE IF before.bounds # <<>> THEN "ChunkBoundaryMissed"
                ELSE IF k = 0 /\ (avail > 0 \/ ~before.eof) THEN "EofBeforeEnd"
                ELSE ""
           [] OTHER -> "UnknownOp"

\* state after the code's return: follow the code's (permitted) choice of k
AfterRet(before, ref, e) ==
    IF e.rerr # "" \/ before.op \in {"readall", "readexactly", "readuntil"} THEN ref.s
    ELSE LET k == Len(e.rdata) - 0
             s0 == IF before.op = "readchunk" /\ e.rflag /\ before.bounds # <<>>
                   THEN [before EXCEPT !.bounds = Tail(before.bounds)] ELSE before
         IN IF k = Len(ref.r.data) THEN ref.s
            ELSE IF k > 0 /\ k <= Len(before.pend) THEN Idle(Consume(s0, k))
            ELSE Idle(s0)

(* Flow-control clauses evaluated on the observation that accompanies each event
   (taken when the loop is idle).  obs.paused is what the protocol was last told. *)
FlowClause(s, e, consumed) ==
    IF ~("obs" \in DOMAIN e) THEN ""
    ELSE LET o == e.obs IN
         IF s.desync THEN ""
         ELSE IF Len(s.pend) > s.high /\ ~s.eof /\ ~s.unread /\ ~o.paused THEN "NotPausedAboveHigh"
         ELSE IF s.blocked /\ Len(s.pend) = 0 /\ ~s.eof /\ ~s.exc /\ o.paused THEN "StuckPaused"
         ELSE IF consumed /\ Len(s.pend) < s.low /\ s.bounds = <<>> /\ o.paused THEN "NotResumedBelowLow"
         ELSE IF s.eof /\ o.at_eof # (Len(s.pend) = 0) THEN "EofFlagWrong"
         ELSE IF ~s.eof /\ o.at_eof THEN "EofBeforeEnd"
         ELSE ""

DriftClause(s, e) ==
    IF ~("obs" \in DOMAIN e) \/ s.desync THEN ""
    ELSE LET o == e.obs IN
         IF o.paused # s.paused THEN "paused"
         ELSE IF o.low # s.low \/ o.high # s.high THEN "watermarks"
         ELSE IF "size" \in DOMAIN o /\ o.size # Len(s.pend) THEN "size"
         ELSE ""

(* ------------------------------------------------------------------------ *)
(* Apply: one recorded event.
     stimulus events: feed/begin/end/eof/setexc/unread/call  + field `then`:
        "ret"     the consumer returned during this event; rdata/rflag/rerr hold its result
        "block"   a consumer call is in progress and suspended after this event
        "none"    no consumer call in progress
     nowait: synchronous read_nowait(n) with result                            *)
Apply(s, e) ==
    \* after a LineTooLong error the number of bytes the failed call consumed is unspecified:
    \* the reference has lost track of the buffer and judges nothing further in this execution
    IF s.desync THEN [s |-> s, bad |-> "", drift |-> ""]
    ELSE IF ~Legal(s, e) THEN [s |-> s, bad |-> "IllegalStimulus", drift |-> ""]
    ELSE IF "serr" \in DOMAIN e /\ e.serr # "" THEN [s |-> s, bad |-> "StimulusRaised", drift |-> ""]
    ELSE IF e.ev = "nowait" THEN
        LET before == [s EXCEPT !.op = "nowait", !.n = e.n]
            avail == Len(s.pend)
            kk == IF e.n < 0 THEN avail ELSE Min(e.n, avail)
            ref == IF s.exc THEN [s |-> s, r |-> Ret(<<>>, FALSE, "exc")]
                   ELSE IF kk = 0 THEN [s |-> s, r |-> Ret(<<>>, FALSE, "")]
                   ELSE [s |-> Consume(s, kk), r |-> Ret(Take(s.pend, kk), FALSE, "")]
            c == RetClause(before, [ref.r EXCEPT !.done = TRUE], e)
            s2 == IF c # "" THEN s
                  ELSE IF e.rerr # "" THEN s
                  ELSE IF Len(e.rdata) = 0 THEN s ELSE Consume(s, Len(e.rdata))
            f == IF c # "" THEN c ELSE FlowClause(s2, e, Len(e.rdata) > 0)
        IN [s |-> s2, bad |-> f,
            drift |-> IF f = "" /\ Len(e.rdata) # kk /\ e.rerr = "" THEN "nowait-size"
                      ELSE IF f = "" THEN DriftClause(s2, e) ELSE ""]
    ELSE
        LET s1 == Stim(s, e)
            pr == Progress(s1)
            inCall == s1.op # "none"
        IN
        IF e.then = "ret" THEN
            IF ~inCall THEN [s |-> s1, bad |-> "ReturnWithoutCall", drift |-> ""]
            ELSE LET c == RetClause(s1, pr.r, e)
                     s2 == AfterRet(s1, pr, e)
                     consumed == Len(s2.pend) < Len(s1.pend)
                     f == IF c # "" THEN c
                          ELSE IF ~pr.r.done THEN
                               \* the reference would still be waiting: only legal if the code
                               \* returned bytes that really were available
                               "SpuriousReturn"
                          ELSE FlowClause(s2, e, consumed)
                 IN [s |-> s2, bad |-> f,
                     drift |-> IF f # "" THEN ""
                               ELSE IF pr.r.done /\ (e.rerr # pr.r.err \/ (e.rerr = "" /\ e.rdata # pr.r.data))
                                    THEN "result-differs"
                               ELSE DriftClause(s2, e)]
        ELSE IF e.then = "block" THEN
            IF ~inCall THEN [s |-> s1, bad |-> "BlockWithoutCall", drift |-> ""]
            ELSE IF pr.r.done THEN [s |-> pr.s, bad |-> "ReaderStuck", drift |-> ""]
            ELSE LET f == FlowClause(pr.s, e, Len(pr.s.pend) < Len(s1.pend))
                 IN [s |-> pr.s, bad |-> f, drift |-> IF f = "" THEN DriftClause(pr.s, e) ELSE ""]
        ELSE \* "none"
            IF inCall THEN [s |-> s1, bad |-> "CallVanished", drift |-> ""]
            ELSE LET f == FlowClause(s1, e, FALSE)
                 IN [s |-> s1, bad |-> f, drift |-> IF f = "" THEN DriftClause(s1, e) ELSE ""]

(* ------------------------------------------------------------------------ *)
(* Invariants of the reference itself (checked by TLC on the bounded model).  *)
SizeInv(s) == Len(s.pend) = s.fed - s.cursor   \* holds while unread_data is not used
PiecesInv(s) ==
    LET RECURSIVE Sum(_)
        Sum(q) == IF q = <<>> THEN 0 ELSE Head(q) + Sum(Tail(q))
    IN Sum(s.pieces) = Len(s.pend) /\ \A i \in 1..Len(s.pieces) : s.pieces[i] > 0
BoundsInv(s) ==
    /\ \A i \in 1..Len(s.bounds) : s.bounds[i] >= s.cursor /\ s.bounds[i] <= s.fed
                                    /\ s.bounds[i] \in s.ends
    /\ \A i \in 1..(Len(s.bounds) - 1) : s.bounds[i] < s.bounds[i + 1]
NoStuckPause(s) == ~(s.blocked /\ Len(s.pend) = 0 /\ ~s.eof /\ ~s.exc /\ s.paused)
PauseAboveHigh(s) == (Len(s.pend) > s.high /\ ~s.eof) => s.paused
BlockedOnlyWhenEmpty(s) ==
    s.blocked => /\ s.op # "none"
                 /\ (s.op \in {"read", "readany", "readall", "readexactly", "readuntil"} => Len(s.pend) = 0)
                 /\ ~s.eof
=============================================================================
