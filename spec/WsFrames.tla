------------------------------ MODULE WsFrames ------------------------------
(* C12 / C11 - RFC 6455 (+ RFC 7692 permessage-deflate) reference frame reader.

   Reference machine in "acceptor" style, byte level and resumable.  The reader
   state is one record `r`; the byte stream is a sequence S of 0..255 that is never
   copied: r.pos is the number of bytes consumed so far and `avail` the number of
   bytes the network has delivered.  Step(r, S, avail, c, Infl, rej) consumes ONE
   unit (2 header bytes | 16-bit length | 64-bit length | mask key | the whole
   payload of the current frame) when that unit is completely available and yields
       [r |-> next state, out |-> what became observable]
   CanStep tells whether a unit is available; a feed of n bytes is "avail += n, then
   Step while CanStep".  Nothing in the state depends on where the network cut the
   stream, which is the segmentation independence claimed by C12 (TLC checks it in
   WsFramesMC: chunked feeding == byte-at-a-time feeding).

   The same Step drives
     * WsFramesMC    bounded model over a frame-lexeme alphabet (internal invariants,
                     agreement with an independent frame-level rule table)
     * WsFramesTrace validation of executions of the real aiohttp WebSocketReader
     * WsSendTrace   parsing of the bytes the real WebSocketWriter put on the wire.

   c    = [compress |-> permessage-deflate negotiated, decode |-> decode_text,
           max |-> max_msg_size (0 = unlimited)]
   Infl(k, full)  the k-th inflate call of this execution (uninterpreted codec: its
           results are supplied by the harness / by a toy codec in the model):
           [has, inp, ok, outlen, utf8, out, full (the output is the complete inflation of inp)]
   rej  which way to go at a point where the property PERMITS either outcome
           (message size exactly max_msg_size): TRUE = reject with 1009.

   64-bit frame lengths are handled as 16-bit limbs (TLC integers are 32 bit):
   a length >= 2^31 is represented by Big and can never be satisfied by a stream.

   Failure: r.failed is the SET of close codes an implementation may report for the
   violation (non-empty <=> failed), r.why names the violated rule, r.fend is the
   stream offset at which the offending frame ends (Big if unknown/unbounded).  An
   implementation may detect a violation anywhere between the point where the
   reference sees it (the earliest possible) and the end of the offending frame.
   Code 1 stands for "an exception that carries no close code".                     *)
EXTENDS Naturals, Integers, Sequences, FiniteSets, TLC, Bitwise

Big == 2000000000

OpCont == 0
OpText == 1
OpBin == 2
OpClose == 8
OpPing == 9
OpPong == 10
KnownOps == {0, 1, 2, 8, 9, 10}            \* RFC 6455 5.2: 3-7 and 11-15 are reserved
IsCtl(op) == op >= 8

NoCode == 1

\* Self-test hook: a model config may override Mut (CONSTANT Mut <- ...) to disable one
\* mechanism of the reference; TLC must then report a violated invariant.
Mut == "none"
DeflateTail == <<0, 0, 255, 255>>           \* RFC 7692 7.2.2

(* TLC evaluates a LET definition (and an operator argument) anew at every use.  Binding
   a value through a singleton set evaluates it once:  One({Body(x) : x \in {expr}}).     *)
One(set) == CHOOSE x \in set : TRUE

(* ---------------------------------------------------------------- UTF-8 --- *)
(* RFC 3629 well-formedness, stated position-wise (no recursion, linear):
   every lead byte is followed by exactly the continuation bytes it announces
   (with the restricted second-byte ranges that exclude over-long forms,
   surrogates and code points above U+10FFFF), and every continuation byte is
   covered by a lead byte.                                                    *)
IsCont(b) == b >= 128 /\ b <= 191
Utf8Len(b) == IF b < 128 THEN 1
              ELSE IF b >= 194 /\ b <= 223 THEN 2
              ELSE IF b >= 224 /\ b <= 239 THEN 3
              ELSE IF b >= 240 /\ b <= 244 THEN 4
              ELSE 0                         \* continuation byte or never-valid byte
SecondOK(b1, b2) ==
    CASE b1 = 224 -> b2 >= 160 /\ b2 <= 191
      [] b1 = 237 -> b2 >= 128 /\ b2 <= 159
      [] b1 = 240 -> b2 >= 144 /\ b2 <= 191
      [] b1 = 244 -> b2 >= 128 /\ b2 <= 143
      [] OTHER -> IsCont(b2)
Utf8Valid(s) ==
    LET n == Len(s) IN
    \A i \in 1..n :
        LET b == s[i] IN
        IF IsCont(b) THEN
            \/ (i >= 2 /\ Utf8Len(s[i - 1]) >= 2)
            \/ (i >= 3 /\ IsCont(s[i - 1]) /\ Utf8Len(s[i - 2]) >= 3)
            \/ (i >= 4 /\ IsCont(s[i - 1]) /\ IsCont(s[i - 2]) /\ Utf8Len(s[i - 3]) = 4)
        ELSE LET k == Utf8Len(b) IN
             /\ k >= 1
             /\ i + k - 1 <= n
             /\ (k >= 2 => SecondOK(b, s[i + 1]))
             /\ \A j \in 2..(k - 1) : IsCont(s[i + j])

(* ------------------------------------------------------------- close codes - *)
(* RFC 6455 7.4: 1000-1003, 1007-1011 defined; 1012-1014 IANA registered;
   3000-4999 libraries/private use.  1004, 1005, 1006, 1015 MUST NOT appear on
   the wire; 0-999 unused; 1016-2999 reserved.                                 *)
ValidCloseCode(code) ==
    \/ (code >= 1000 /\ code <= 1003)
    \/ (code >= 1007 /\ code <= 1014)
    \/ (code >= 3000 /\ code <= 4999)

(* What the FIRST header byte alone already settles (an implementation may reject on it without
   waiting for the second byte).  inMsg: a fragmented message is in progress.                    *)
FirstByteBad(b1, inMsg, compress) ==
    LET fin == b1 >= 128
        rsv1 == (b1 \div 64) % 2 = 1
        op == b1 % 16
    IN \/ (b1 \div 16) % 4 # 0
       \/ (rsv1 /\ ~compress)
       \/ op \notin KnownOps
       \/ (IsCtl(op) /\ (~fin \/ rsv1))
       \/ (op = OpCont /\ (rsv1 \/ ~inMsg))
       \/ (op \in {OpText, OpBin} /\ inMsg)

(* ------------------------------------------------------------------ state --- *)
Init0 ==
    [ph |-> "H", pos |-> 0, hstart |-> 0,
     fin |-> FALSE, rsv1 |-> FALSE, op |-> 0, masked |-> FALSE, enc |-> 7, need |-> 0,
     key |-> <<0, 0, 0, 0>>,
     inMsg |-> FALSE, msgOp |-> 0, msgComp |-> FALSE, msgAcc |-> <<>>,
     failed |-> {}, why |-> "", fend |-> 0, ninfl |-> 0, nframes |-> 0]

NoneOut == [k |-> "none", m |-> [t |-> 0, data |-> <<>>, code |-> 0]]
HdrOut == [NoneOut EXCEPT !.k = "hdr"]       \* progress inside a frame header
FrameOut == [NoneOut EXCEPT !.k = "frame"]   \* a frame was consumed, nothing delivered
FailOut == [NoneOut EXCEPT !.k = "fail"]
MsgOut(t, data, code) == [k |-> "msg", m |-> [t |-> t, data |-> data, code |-> code]]
BadInflOut == [NoneOut EXCEPT !.k = "badinfl"]  \* inflater was given other bytes than payload ++ 00 00 ff ff
NoInflOut == [NoneOut EXCEPT !.k = "noinfl"]    \* a compressed message completed but nothing was inflated
TruncInflOut == [NoneOut EXCEPT !.k = "truncinfl"]  \* a message within the size limit was inflated only in part

Failed(r) == r.failed # {}

CanStep(r, avail) ==
    LET a == avail - r.pos IN
    CASE r.ph = "H" -> a >= 2
      [] r.ph = "L16" -> a >= 2
      [] r.ph = "L64" -> a >= 8
      [] r.ph = "M" -> a >= 4
      [] r.ph = "P" -> r.need # Big /\ a >= r.need
      [] OTHER -> FALSE                      \* "F": failed; the latch - nothing is consumed any more

Fail(r, codes, why, fend) ==
    [r |-> [r EXCEPT !.ph = IF Mut = "nolatch" THEN "H" ELSE "F", !.failed = codes, !.why = why, !.fend = fend],
     out |-> FailOut]

\* bytes a reader has to keep for the incomplete frame / message (property C12: <= max + constant)
Retained(r, avail) == IF Failed(r) THEN 0 ELSE (avail - r.pos) + Len(r.msgAcc)

Unmask(p, key) == [i \in 1..Len(p) |-> p[i] ^^ key[((i - 1) % 4) + 1]]

(* ----------------------------------------------------- length known: 5.2 ---- *)
(* The size cap is decided here, at the frame header, before any payload byte has
   to be retained (GHSA-xcgm-r5h9-7989): cumulative length above max_msg_size ->
   1009 (required; applies to the wire length of compressed frames as well, or the
   memory bound could not hold); exactly max_msg_size -> either outcome.           *)
LenDone(r, c, rej) ==
    LET data == ~IsCtl(r.op)
        acc == IF data /\ r.inMsg THEN Len(r.msgAcc) ELSE 0   \* (a doomed interleaved frame counts too)
        total == IF r.need = Big THEN Big ELSE acc + r.need
        over == Mut # "nocap" /\ data /\ c.max > 0 /\ total > c.max
        atcap == Mut # "nocap" /\ data /\ c.max > 0 /\ total >= c.max
        hend == r.pos + (IF r.masked THEN 4 ELSE 0)
        fend == IF r.need = Big THEN Big ELSE hend + r.need
    IN IF Failed(r)                 \* doomed frame: only its end (and a second reason) is of interest
       THEN [r |-> [r EXCEPT !.ph = "F", !.fend = fend,
                             !.failed = IF atcap THEN @ \cup {1009} ELSE @],
             out |-> HdrOut]
       ELSE IF over \/ (atcap /\ rej) THEN Fail(r, {1009}, IF over THEN "too-big" ELSE "at-cap", fend)
       ELSE [r |-> [r EXCEPT !.ph = IF r.masked THEN "M" ELSE "P"], out |-> HdrOut]

(* -------------------------------------------------- header bytes: 5.2, 5.4, 5.5 *)
StepH(r, S, c, rej) ==
    LET b1 == S[r.pos + 1]
        b2 == S[r.pos + 2]
        fin == b1 >= 128
        rsv1 == (b1 \div 64) % 2 = 1
        rsv2 == (b1 \div 32) % 2 = 1
        rsv3 == (b1 \div 16) % 2 = 1
        op == b1 % 16
        masked == b2 >= 128
        l7 == b2 % 128
        why == IF rsv2 \/ rsv3 THEN "rsv23"                               \* 5.2 RSV2/3: no extension defines them
               ELSE IF rsv1 /\ ~c.compress THEN "rsv1-not-negotiated"     \* 5.2
               ELSE IF op \notin KnownOps THEN "opcode"                    \* 5.2
               ELSE IF IsCtl(op) /\ ~fin THEN "control-fragmented"         \* 5.5
               ELSE IF IsCtl(op) /\ l7 > 125 THEN "control-too-long"       \* 5.5
               ELSE IF IsCtl(op) /\ rsv1 THEN "rsv1-control"               \* RFC 7692 6.1
               ELSE IF op = OpCont /\ rsv1 THEN "rsv1-continuation"        \* RFC 7692 6.1
               ELSE IF op = OpCont /\ ~r.inMsg /\ Mut # "nocont" THEN "continuation-without-start"   \* 5.4
               ELSE IF op \in {OpText, OpBin} /\ r.inMsg                   \* 5.4: no interleaving
                    THEN (IF ~fin THEN "interleave-nonfin"
                          ELSE IF r.msgAcc = <<>> THEN "interleave-fin-empty"
                          ELSE "interleave-fin")
               ELSE ""
        r1 == [r EXCEPT !.pos = r.pos + 2, !.hstart = r.pos, !.fin = fin, !.rsv1 = rsv1, !.op = op,
                        !.masked = masked, !.nframes = r.nframes + 1,
                        !.enc = IF l7 = 126 THEN 16 ELSE IF l7 = 127 THEN 64 ELSE 7,
                        !.failed = IF why = "" THEN {} ELSE {1002}, !.why = why, !.fend = Big]
    IN IF l7 = 126 THEN [r |-> [r1 EXCEPT !.ph = "L16"], out |-> IF why = "" THEN HdrOut ELSE FailOut]
       ELSE IF l7 = 127 THEN [r |-> [r1 EXCEPT !.ph = "L64"], out |-> IF why = "" THEN HdrOut ELSE FailOut]
       ELSE LET d == LenDone([r1 EXCEPT !.need = l7], c, rej)
            IN [r |-> d.r, out |-> IF why = "" THEN d.out ELSE FailOut]

StepL16(r, S, c, rej) ==
    LET n == S[r.pos + 1] * 256 + S[r.pos + 2]
    IN LenDone([r EXCEPT !.pos = r.pos + 2, !.need = n], c, rej)

StepL64(r, S, c, rej) ==
    LET B(i) == S[r.pos + i]
        hi == <<B(1) * 256 + B(2), B(3) * 256 + B(4)>>       \* limbs of 16 bits
        lo == <<B(5) * 256 + B(6), B(7) * 256 + B(8)>>
        top == hi[1] >= 32768                                 \* 5.2: most significant bit MUST be 0
        fits == hi = <<0, 0>> /\ lo[1] < 32768
        n == IF fits THEN lo[1] * 65536 + lo[2] ELSE Big
        r1 == [r EXCEPT !.pos = r.pos + 8, !.need = n]
    IN IF top /\ ~Failed(r) THEN Fail(r1, {1002, 1009}, "len64-topbit", Big)
       ELSE IF top THEN [r |-> [r1 EXCEPT !.ph = "F", !.fend = Big, !.failed = @ \cup {1009}], out |-> HdrOut]
       ELSE LenDone(r1, c, rej)

StepM(r, S) ==
    [r |-> [r EXCEPT !.pos = r.pos + 4, !.ph = "P", !.key = SubSeq(S, r.pos + 1, r.pos + 4)],
     out |-> HdrOut]

(* ------------------------------------------------------ a complete frame ---- *)
DataDone(r, r0, full, mop, mcomp, c, Infl(_, _), rej) ==
    IF ~r.fin THEN
        [r |-> [r0 EXCEPT !.inMsg = TRUE, !.msgOp = mop, !.msgComp = mcomp, !.msgAcc = full],
         out |-> FrameOut]
    ELSE
        LET rd == [r0 EXCEPT !.inMsg = FALSE, !.msgAcc = <<>>, !.msgComp = FALSE] IN
        IF mcomp THEN                                                  \* RFC 7692 7.2.2
            LET k == r.ninfl + 1
                o == Infl(k, full)
                rk == [rd EXCEPT !.ninfl = k]
            IN IF ~o.has THEN [r |-> rk, out |-> NoInflOut]
               ELSE IF o.inp # full \o DeflateTail THEN [r |-> rk, out |-> BadInflOut]
               ELSE IF ~o.ok THEN Fail(rk, {NoCode, 1002, 1007, 1009}, "inflate-error", r.pos)
               \* the inflater may stop early only to prove that the message exceeds max_msg_size
               ELSE IF ~o.full /\ (c.max = 0 \/ o.outlen <= c.max) THEN [r |-> rk, out |-> TruncInflOut]
               ELSE IF c.max > 0 /\ o.outlen > c.max THEN Fail(rk, {1009}, "inflated-too-big", r.pos)
               ELSE IF c.max > 0 /\ o.outlen = c.max /\ rej THEN Fail(rk, {1009}, "at-cap", r.pos)
               ELSE IF mop = OpText /\ c.decode /\ ~o.utf8 THEN Fail(rk, {1007}, "text-utf8", r.pos)
               ELSE [r |-> rk, out |-> MsgOut(mop, o.out, 0)]
        ELSE IF mop = OpText /\ c.decode /\ ~Utf8Valid(full)           \* 5.6, 8.1
             THEN Fail(rd, {1007}, "text-utf8", r.pos)
        ELSE [r |-> rd, out |-> MsgOut(mop, full, 0)]

FrameDone(r, payload, c, Infl(_, _), rej) ==
    LET r0 == [r EXCEPT !.ph = "H"]
        n == Len(payload)
    IN
    IF r.op \in {OpPing, OpPong} THEN [r |-> r0, out |-> MsgOut(r.op, payload, 0)]
    ELSE IF r.op = OpClose THEN                                            \* 5.5.1, 7.4
        IF n = 0 THEN [r |-> r0, out |-> MsgOut(OpClose, <<>>, 0)]
        ELSE IF n = 1 THEN Fail(r0, {1002}, "close-len1", r.pos)
        ELSE LET code == payload[1] * 256 + payload[2]
                 reason == SubSeq(payload, 3, n)
                 uok == Utf8Valid(reason)
             IN IF ~ValidCloseCode(code)
                THEN Fail(r0, IF uok THEN {1002} ELSE {1002, 1007},
                          IF code = 1006 THEN "close-code-1006" ELSE "close-code", r.pos)
                ELSE IF ~uok THEN Fail(r0, {1007}, "close-reason-utf8", r.pos)
                ELSE [r |-> r0, out |-> MsgOut(OpClose, reason, code)]
    ELSE                                                                   \* data frame, 5.4 / 5.6
        LET first == r.op # OpCont
            mop == IF first THEN r.op ELSE r.msgOp
            mcomp == IF first THEN r.rsv1 ELSE r.msgComp
        IN One({DataDone(r, r0, full, mop, mcomp, c, Infl, rej) :
                    full \in {IF first THEN payload ELSE r.msgAcc \o payload}})

StepP(r, S, c, Infl(_, _), rej) ==
    One({FrameDone(r2, payload, c, Infl, rej) :
            r2 \in {[r EXCEPT !.pos = r.pos + r.need]},
            payload \in {IF r.masked THEN Unmask(SubSeq(S, r.pos + 1, r.pos + r.need), r.key)
                         ELSE SubSeq(S, r.pos + 1, r.pos + r.need)}})

Step(r, S, avail, c, Infl(_, _), rej) ==
    CASE r.ph = "H" -> StepH(r, S, c, rej)
      [] r.ph = "L16" -> StepL16(r, S, c, rej)
      [] r.ph = "L64" -> StepL64(r, S, c, rej)
      [] r.ph = "M" -> StepM(r, S)
      [] r.ph = "P" -> StepP(r, S, c, Infl, rej)
      [] OTHER -> [r |-> r, out |-> NoneOut]

(* ------------------------------------------------------- writer framing ------ *)
(* RFC 6455 5.2: "the minimal number of bytes MUST be used to encode the length".  *)
MinimalEnc(n) == IF n < 126 THEN 7 ELSE IF n < 65536 THEN 16 ELSE 64
=============================================================================
