SPECIFICATION Spec
CONSTANTS
  Tasks = {"t1", "t2", "t3"}
  Keys = {"k1"}
  KeyOf <- KeyOf1
  L = 1
  Lh = 0
  Handoff = FALSE
  MaxCancel = 1
  MaxFail = 1
  AllowClose = TRUE
  AllowPeerClose = TRUE
INVARIANT HarnessLimit
INVARIANT LimitInv
INVARIANT Accounting
INVARIANT NoLostWake
INVARIANT NoLeak
INVARIANT IdleDistinct
CHECK_DEADLOCK FALSE
PROPERTY CloseFailsAll
