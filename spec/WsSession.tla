------------------------------ MODULE WsSession ------------------------------
(* C13 - WebSocket sessions close cleanly in every interleaving.

   Implementation-shaped model of aiohttp.web_ws.WebSocketResponse (Side = "server")
   and aiohttp.client_ws.ClientWebSocketResponse (Side = "client") together with
   _websocket.reader_py.WebSocketDataQueue, _websocket.writer.WebSocketWriter (no
   compression: send_frame never suspends), web_protocol.RequestHandler.connection_lost
   and client_proto.ResponseHandler.connection_lost (both end in reader.feed_eof();
   WebSocketResponse._cancel(exc) is never called in this tree: _current_request is the
   BaseRequest, whose own _cancel only touches the request payload).

   The whole state is ONE record `s` so that every await-free block of the code is a pure
   function  s -> s  and a task step is the composition of blocks up to the next suspension
   (Run).  asyncio is explicit: FIFO ready queue `s.ready` with the marker "|" standing
   for the _run_once boundary (handles behind the marker run in the NEXT iteration;
   network stimuli and timers enter only when the marker is at the head), futures with
   cancel semantics (wk = outcome of the awaited future, mc = Task._must_cancel), the
   asyncio.timeout() context (tmo, timers), virtual integer time `now`.

   Tasks  "R" receiver: calls receive() NRecv times,  "C" closer: close() once ("D" a second
          closer),  "S" sender: send_str() once.  pc locations are named after the awaits:
          r.* receive(), c.* server close(), k.* client close().
   Ready entries: task names, "io:<frame>" (data_received), "lost" (connection_lost),
          "tmoR"/"tmoC"/"tmoD" (Timeout._on_timeout), "hb" (_send_heartbeat), "pong"
          (_pong_not_received), "hbflush" (_flush_heartbeat_reset).

   Differences of the two classes are explicit IF Side = ... disjuncts.
   Fix* constants: FALSE = the code as found, TRUE = the ideal/repaired design
     FixRearm     client close(): one deadline around the wait loop (as the server has)
                  instead of a timeout re-armed per received message
     FixShortcut  server close(): the `if self._closing` short-cut is taken only when the
                  peer's close frame was really consumed (not when _closing was set by the
                  CLOSING wake-up message of this very close())
     FixCwCancel  server close(): CancelledError while awaiting _close_wait also sets
                  1006 and closes the transport (as every other cancel point does)
     FixEofCode   receive(): the EofStream handler does not overwrite the close code of a
                  session that is already closed (it writes 1000 over a 1006)
   Mut* constants are self-test mutants.                                                  *)
EXTENDS Naturals, Sequences, FiniteSets, TLC

CONSTANTS Side, AutoClose, AutoPing, NRecv, RecvTimeout, CloseTimeout, Heartbeat, MaxTime,
          TaskSet, PeerKinds, MaxPeer, MaxDrop, MaxCancel, MaxLocalClose, MaxPause,
          FixRearm, FixShortcut, FixCwCancel, FixEofCode, MutNoFinally, MutNoWriterClosing

VARIABLE s

PeerCode == 4001        \* close code the scripted peer uses
ErrCode  == 1002        \* WebSocketError.code of the protocol error the peer can provoke
NotIn    == 99
Tasks    == {"R", "C", "D", "S", "B"}
Mark     == "|"

TmoId(t) == CASE t = "R" -> "tmoR" [] t = "C" -> "tmoC" [] t = "D" -> "tmoD" [] OTHER -> "tmoS"
TmoTask(e) == CASE e = "tmoR" -> "R" [] e = "tmoC" -> "C" [] e = "tmoD" -> "D" [] OTHER -> "S"
IoEntry(f) == CASE f = "data" -> "io:data" [] f = "ping" -> "io:ping" [] f = "pong" -> "io:pong"
                [] f = "close" -> "io:close" [] OTHER -> "io:bad"
IoFrameOf(e) == CASE e = "io:data" -> "data" [] e = "io:ping" -> "ping" [] e = "io:pong" -> "pong"
                  [] e = "io:close" -> "close" [] OTHER -> "bad"
IoEntries == {"io:data", "io:ping", "io:pong", "io:close", "io:bad"}
Stimuli == IoEntries \cup {"lost", "resume"}

Init ==
  s = [ closed |-> FALSE, closing |-> FALSE, code |-> 0, waiting |-> FALSE,
        cw |-> "none", cwTask |-> "none", exc |-> FALSE, lostN |-> 0, wclosing |-> FALSE,
        q |-> <<>>, eof |-> FALSE, qexc |-> "none", rw |-> "none", deaf |-> FALSE,
        wire |-> <<>>, tclosing |-> FALSE, lost |-> FALSE,
        needReset |-> FALSE, hbWhen |-> Heartbeat,
        ready |-> <<Mark>>,
        timers |-> IF Heartbeat > 0 THEN {[id |-> "hb", at |-> Heartbeat]} ELSE {},
        now |-> 0, cpu |-> "none",
        pc |-> [t \in Tasks |-> "new"], wk |-> [t \in Tasks |-> "none"],
        mc |-> [t \in Tasks |-> FALSE], xc |-> [t \in Tasks |-> FALSE],
        tmo |-> [t \in Tasks |-> "none"], after |-> [t \in Tasks |-> "none"],
        res |-> [t \in Tasks |-> <<>>], nrecv |-> 0, cstart |-> NotIn,
        nPeer |-> 0, peerDone |-> FALSE, nDrop |-> 0, nCancel |-> 0,
        why |-> {}, gotClose |-> FALSE, sc |-> FALSE, cwc |-> FALSE, eo |-> FALSE,
        paused |-> FALSE, dw |-> "none", nLocal |-> 0, nPause |-> 0,
        bdone |-> FALSE, bcb |-> FALSE, ocan |-> FALSE, berr |-> FALSE, bug |-> "none" ]

(* ------------------------------------------------------------ small helpers *)
Remove(sq, e) == SelectSeq(sq, LAMBDA x : x # e)
InSeq(sq, e) == \E i \in 1..Len(sq) : sq[i] = e
Why(st, w) == [st EXCEPT !.why = @ \cup {w}]

\* a future awaited by task t is resolved with outcome o: call_soon(task.__wakeup)
WakeTask(st, t, o) == [st EXCEPT !.wk[t] = o, !.ready = Append(@, t)]

\* WebSocketDataQueue._release_waiter
Rel(st) ==
  IF st.rw = "none" THEN st
  ELSE LET t == st.rw IN
       IF st.wk[t] = "none" THEN WakeTask([st EXCEPT !.rw = "none"], t, "ok")
       ELSE [st EXCEPT !.rw = "none"]
\* WebSocketDataQueue.feed_data
Feed(st, m) == Rel([st EXCEPT !.q = Append(@, m)])
\* WebSocketDataQueue.set_exception: the waiter receives the exception itself
QSetExc(st, kind) ==
  LET s1 == [st EXCEPT !.eof = TRUE, !.qexc = kind] IN
  IF s1.rw = "none" THEN s1
  ELSE LET t == s1.rw IN
       IF s1.wk[t] = "none" THEN WakeTask([s1 EXCEPT !.rw = "none"], t, kind)
       ELSE [s1 EXCEPT !.rw = "none"]
\* WebSocketDataQueue.feed_eof (clears _exception)
FeedEof(st) == [Rel([st EXCEPT !.eof = TRUE]) EXCEPT !.qexc = "none"]

HbIds == {"hb", "pong"}
\* _cancel_heartbeat
CancelHb(st) ==
  [st EXCEPT !.timers = {x \in @ : x.id \notin HbIds},
             !.ready = SelectSeq(@, LAMBDA e : e \notin {"hb", "pong", "hbflush"}),
             !.needReset = FALSE]
CancelPong(st) ==
  [st EXCEPT !.timers = {x \in @ : x.id # "pong"}, !.ready = Remove(@, "pong")]
HbScheduled(st) == (\E x \in st.timers : x.id = "hb") \/ InSeq(st.ready, "hb")
\* _reset_heartbeat (calculate_timeout_when rounds up to a whole second: identity on integer time)
ResetHb(st) ==
  IF Heartbeat = 0 THEN st
  ELSE LET s1 == [CancelPong(st) EXCEPT !.hbWhen = st.now + Heartbeat] IN
       IF HbScheduled(s1) THEN s1
       ELSE [s1 EXCEPT !.timers = @ \cup {[id |-> "hb", at |-> s1.hbWhen]}]

\* transport.close() through the protocol (skipped once connection_lost has run: transport is None)
CloseTransport(st) ==
  IF st.lost \/ st.tclosing THEN st
  ELSE [st EXCEPT !.tclosing = TRUE, !.ready = Append(@, "lost")]

\* asyncio.timeout(): __aenter__ / __aexit__
Arm(st, t, d) == [st EXCEPT !.timers = @ \cup {[id |-> TmoId(t), at |-> st.now + d]}, !.tmo[t] = "armed"]
Disarm(st, t) == [st EXCEPT !.timers = {x \in @ : x.id # TmoId(t)}, !.ready = Remove(@, TmoId(t)),
                            !.tmo[t] = "none"]

(* ------------------------------------------------------------ task endings *)
Finish(st, t, r) ==
  [st EXCEPT !.pc[t] = "done", !.res[t] = Append(@, r), !.cpu = "none", !.after[t] = "none",
             !.cstart = IF t = "C" THEN NotIn ELSE @]

\* receive() returns m; the harness receiver calls receive() again at once (NRecv calls in all)
RRet(st, t, m) ==
  LET s1 == [st EXCEPT !.res[t] = Append(@, m), !.nrecv = @ + 1] IN
  IF s1.nrecv < NRecv THEN [s1 EXCEPT !.pc[t] = "r.top"]
  ELSE [s1 EXCEPT !.pc[t] = "done", !.cpu = "none"]

\* close() returns r: to the caller task, or into receive() which then returns after[t]
CloseRet(st, t, r) ==
  IF st.after[t] = "none" THEN Finish(st, t, r)
  ELSE RRet([st EXCEPT !.after[t] = "none"], t, st.after[t])
\* CancelledError leaves close() (and receive() around it)
CloseRaise(st, t) == Finish(st, t, "Cancelled")

CloseEntry == IF Side = "server" THEN "c.top" ELSE "k.top"

\* WebSocketDataQueue.read(): suspend iff nothing buffered and not eof
ReadEnter(st, t, waitpc, gotpc) ==
  IF st.q = <<>> /\ ~st.eof
  THEN [st EXCEPT !.rw = t, !.bug = IF st.rw # "none" THEN "double-reader" ELSE @,
                  !.wk[t] = "none", !.pc[t] = waitpc, !.cpu = "none"]
  ELSE [st EXCEPT !.pc[t] = gotpc]

(* ------------------------------------------------------------ receive() *)
RTop(st, t) ==
  IF st.waiting THEN Finish(st, t, "RuntimeError")
  ELSE IF st.closed
  THEN IF Side = "server"
       THEN LET s1 == [st EXCEPT !.lostN = @ + 1] IN       \* _conn_lost counter, threshold 5
            IF s1.lostN >= 5 THEN Finish(s1, t, "RuntimeError") ELSE RRet(s1, t, "CLOSED")
       ELSE RRet(st, t, "CLOSED")
  ELSE IF st.closing
  THEN IF Side = "server" THEN RRet(st, t, "CLOSING")
       ELSE [st EXCEPT !.after[t] = "CLOSED", !.pc[t] = "k.top"]      \* await self.close()
  ELSE LET s1 == [st EXCEPT !.waiting = TRUE]
           s2 == IF RecvTimeout > 0 THEN Arm(s1, t, RecvTimeout) ELSE s1
       IN ReadEnter(s2, t, "r.read", "r.got")

\* finally: self._waiting = False; if self._close_wait: set_result(self._close_wait, None)
RFinally(st, t) ==
  LET s1 == [Disarm(st, t) EXCEPT !.waiting = FALSE] IN
  IF s1.cw = "pending" /\ ~MutNoFinally
  THEN WakeTask([s1 EXCEPT !.cw = "done"], s1.cwTask, "ok")
  ELSE s1

\* the except clauses of receive(); kind in timeout | cancelled | eof | ws | conn
RExc(st0, t, kind) ==
  LET st == RFinally(st0, t) IN
  CASE kind = "timeout" ->
         RRet(Why(IF Side = "client" THEN [st EXCEPT !.code = 1006] ELSE st, "timeout"), t, "Timeout")
    [] kind = "cancelled" ->
         Finish(IF Side = "client" THEN [st EXCEPT !.code = 1006] ELSE st, t, "Cancelled")
    [] kind = "eof" ->      \* except EofStream: self._close_code = OK; await self.close()
         LET s1 == IF FixEofCode /\ st.closed THEN st
                   ELSE [st EXCEPT !.code = 1000, !.eo = @ \/ st.closed] IN
         [s1 EXCEPT !.after[t] = "CLOSED", !.pc[t] = CloseEntry]
    [] kind = "ws" ->
         [st EXCEPT !.code = ErrCode, !.after[t] = "ERROR", !.pc[t] = CloseEntry]
    [] OTHER ->   \* "conn": server `except Exception`; client `except ClientError` (no environment action of
                  \* this model produces it any more: connection_lost ends in feed_eof() on both sides)
         IF Side = "server"
         THEN [CancelHb(st) EXCEPT !.exc = TRUE, !.closing = TRUE, !.code = 1006,
                                   !.after[t] = "ERROR", !.pc[t] = "c.top"]
         ELSE RRet([CancelHb(st) EXCEPT !.closed = TRUE, !.code = 1006], t, "CLOSED")

RMsg(st0, t, m) ==
  LET st == RFinally(st0, t) IN
  CASE m = "data" -> RRet(st, t, "DATA")
    [] m = "err"  -> RRet(st, t, "ERROR")
    [] m = "close" ->
         LET s1 == Why([CancelHb(st) EXCEPT !.closing = TRUE, !.code = PeerCode, !.gotClose = TRUE], "peerclose") IN
         IF ~s1.closed /\ AutoClose
         THEN [s1 EXCEPT !.after[t] = "CLOSE", !.pc[t] = CloseEntry]
         ELSE RRet(s1, t, "CLOSE")
    [] m = "closing" ->
         RRet([CancelHb(st) EXCEPT !.closing = TRUE, !.code = IF Side = "server" THEN 1000 ELSE @], t, "CLOSING")
    [] m = "ping" ->
         IF AutoPing
         THEN IF st.tclosing \/ st.wclosing THEN Finish(st, t, "ConnErr")     \* pong(): ClientConnectionResetError
                                                   \* (_write_websocket_frame refuses every frame after our Close frame)
              ELSE [st EXCEPT !.wire = Append(@, "pong"), !.pc[t] = "r.top"]
         ELSE RRet(st, t, "PING")
    [] OTHER ->   \* pong
         IF AutoPing THEN [st EXCEPT !.pc[t] = "r.top"] ELSE RRet(st, t, "PONG")

\* _read_from_buffer inside receive()
RGot(st, t) ==
  IF st.q # <<>> THEN RMsg([st EXCEPT !.q = Tail(@)], t, Head(st.q))
  ELSE IF st.qexc # "none" THEN RExc(st, t, st.qexc)
  ELSE RExc(st, t, "eof")

(* ------------------------------------------------------------ server close() *)
CTop(st0, t) ==
  LET st == IF t = "C" /\ st0.after[t] = "none" THEN [st0 EXCEPT !.cstart = st0.now] ELSE st0 IN
  IF st.closed THEN CloseRet(st, t, "False")
  ELSE LET s1 == CancelHb([st EXCEPT !.closed = TRUE]) IN
       IF s1.tclosing       \* writer.close(): send_frame raises; finally: writer._closing = True
       THEN CloseRet(CloseTransport(Why([s1 EXCEPT !.wclosing = TRUE, !.exc = TRUE, !.code = 1006], "senderr")), t, "True")
       ELSE LET s2 == [s1 EXCEPT !.wire = Append(@, "close"), !.wclosing = ~MutNoWriterClosing] IN
            \* if drain: await writer.drain()  - suspends while the protocol is write-paused and still has a
            \* transport (close(drain=False) is what receive() uses to answer the peer's Close frame)
            IF s2.after[t] # "CLOSE" /\ s2.paused /\ ~s2.lost
            THEN [s2 EXCEPT !.dw = t, !.wk[t] = "none", !.pc[t] = "c.drain", !.cpu = "none"]
            ELSE [s2 EXCEPT !.pc[t] = "c.post"]

\* the receive() hand-over of close(): break a blocked receive() with the CLOSING marker
CPost(st, t) ==
  IF st.waiting
  THEN [Feed([st EXCEPT !.cw = "pending", !.cwTask = t], "closing")
           EXCEPT !.wk[t] = "none", !.pc[t] = "c.cw", !.cpu = "none"]
  ELSE [st EXCEPT !.pc[t] = "c.acw"]

CAfterCw(st, t) ==
  IF st.closing /\ (~FixShortcut \/ st.gotClose)
  THEN CloseRet(CloseTransport([st EXCEPT !.sc = @ \/ ~st.gotClose]), t, "True")
  ELSE [Arm(st, t, CloseTimeout) EXCEPT !.pc[t] = "c.loop"]      \* one timeout around the loop

CFail(st, t) ==
  CloseRet(CloseTransport([Disarm(st, t) EXCEPT !.exc = TRUE, !.code = 1006]), t, "True")

CGot(st, t) ==
  IF st.q # <<>>
  THEN LET s1 == [st EXCEPT !.q = Tail(@)] IN
       IF Head(st.q) = "close"
       THEN CloseRet(CloseTransport(Why([Disarm(s1, t) EXCEPT !.code = PeerCode], "peerclose")), t, "True")
       ELSE [s1 EXCEPT !.pc[t] = "c.loop"]
  ELSE CFail(st, t)

(* ------------------------------------------------------------ client close() *)
KTop(st0, t) ==
  LET st == IF t = "C" /\ st0.after[t] = "none" THEN [st0 EXCEPT !.cstart = st0.now] ELSE st0 IN
  IF st.waiting /\ ~st.closing
  THEN [Feed(CancelHb([st EXCEPT !.cw = "pending", !.cwTask = t, !.closing = TRUE]), "closing")
           EXCEPT !.wk[t] = "none", !.pc[t] = "k.cw", !.cpu = "none"]
  ELSE [st EXCEPT !.pc[t] = "k.2"]

KFail(st, t) ==
  CloseRet(CloseTransport([Disarm(st, t) EXCEPT !.exc = TRUE, !.code = 1006]), t, "True")

K2(st, t) ==
  IF st.closed THEN CloseRet(st, t, "False")
  ELSE LET s1 == CancelHb([st EXCEPT !.closed = TRUE]) IN
       IF s1.tclosing
       THEN CloseRet(CloseTransport(Why([s1 EXCEPT !.wclosing = TRUE, !.exc = TRUE, !.code = 1006], "senderr")), t, "True")
       ELSE LET s2 == [s1 EXCEPT !.wire = Append(@, "close"), !.wclosing = ~MutNoWriterClosing] IN
            IF s2.code # 0 THEN CloseRet(CloseTransport(s2), t, "True")     \* sticky _close_code
            ELSE [(IF FixRearm THEN Arm(s2, t, CloseTimeout) ELSE s2) EXCEPT !.pc[t] = "k.loop"]

KLoop(st, t) ==
  ReadEnter(IF FixRearm THEN st ELSE Arm(st, t, CloseTimeout), t, "k.read", "k.got")

KGot(st0, t) ==
  LET st == IF FixRearm THEN st0 ELSE Disarm(st0, t) IN
  IF st.q # <<>>
  THEN LET s1 == [st EXCEPT !.q = Tail(@)] IN
       IF Head(st.q) = "close"
       THEN CloseRet(CloseTransport(Why([Disarm(s1, t) EXCEPT !.code = PeerCode], "peerclose")), t, "True")
       ELSE [s1 EXCEPT !.pc[t] = "k.loop"]
  ELSE KFail(st, t)

(* ------------------------------------------------------------ send_str() *)
STop(st, t) ==
  IF st.wclosing \/ st.tclosing THEN Finish(st, t, "ConnErr")
  ELSE Finish([st EXCEPT !.wire = Append(@, "data")], t, "OK")

(* ------------------------------------------------------------ send_bytes(large), permessage-deflate *)
\* Task "B" (only in sessions negotiated with compression): a message larger than 16 KiB.  send_frame():
\* the eager, shielded task _send_compressed_frame_async_locked takes the send lock and hands the
\* compression to the executor ("exec"); its continuation ("stask") writes the frame - _write_websocket_frame
\* refuses it once our Close frame is out; the task's done-callbacks are "bgdone" (_background_tasks.discard)
\* and "shield" (asyncio.shield's _inner_done_callback, which completes the outer future B awaits);
\* "odone" is shield's _outer_done_callback.
BTop(st, t) ==
  IF st.wclosing THEN Finish(st, t, "ConnErr")
  ELSE [st EXCEPT !.ready = Append(@, "exec"), !.bcb = TRUE, !.wk[t] = "none", !.pc[t] = "b.wait", !.cpu = "none"]

STask(st) ==
  LET err == st.wclosing \/ st.tclosing
      s1 == [st EXCEPT !.bdone = TRUE, !.berr = err, !.wire = IF err THEN @ ELSE Append(@, "data"),
                       !.ready = Append(@, "bgdone")]
  IN IF s1.bcb THEN [s1 EXCEPT !.ready = Append(@, "shield")] ELSE s1

Shield(st) ==
  IF st.ocan THEN st
  ELSE WakeTask([st EXCEPT !.ready = Append(@, "odone")], "B", IF st.berr THEN "conn" ELSE "ok")

ODone(st) == IF st.bdone THEN st ELSE [st EXCEPT !.bcb = FALSE]

(* ------------------------------------------------------------ running a task *)
Block(st, t) ==
  CASE st.pc[t] = "r.top"  -> RTop(st, t)
    [] st.pc[t] = "r.got"  -> RGot(st, t)
    [] st.pc[t] = "c.top"  -> CTop(st, t)
    [] st.pc[t] = "c.post" -> CPost(st, t)
    [] st.pc[t] = "c.acw"  -> CAfterCw(st, t)
    [] st.pc[t] = "c.loop" -> ReadEnter(st, t, "c.read", "c.got")
    [] st.pc[t] = "c.got"  -> CGot(st, t)
    [] st.pc[t] = "k.top"  -> KTop(st, t)
    [] st.pc[t] = "k.2"    -> K2(st, t)
    [] st.pc[t] = "k.loop" -> KLoop(st, t)
    [] st.pc[t] = "k.got"  -> KGot(st, t)
    [] st.pc[t] = "s.top"  -> STop(st, t)
    [] st.pc[t] = "b.top"  -> BTop(st, t)
    [] OTHER -> [st EXCEPT !.cpu = "none", !.bug = "bad-pc"]

RECURSIVE Run(_, _)
Run(st, t) == IF st.cpu = t THEN Run(Block(st, t), t) ELSE st

\* the wake-up of task t with outcome o (ok | cancel | ws | conn) at its suspension point
Wake(st0, t, o) ==
  LET isTmo == st0.tmo[t] = "fired" /\ ~st0.xc[t]     \* Timeout.__aexit__: TimeoutError iff no other cancel request
      st == [st0 EXCEPT !.xc[t] = FALSE]
      \* read(): except (CancelledError, TimeoutError): self._waiter = None  - unconditional: with two closers
      \* and a cancelled receiver this clears the waiter of ANOTHER task, which then misses its wake-up
      dropW == [st EXCEPT !.rw = "none"]
  IN
  CASE st.pc[t] = "spawned" ->
         IF o = "cancel" THEN [st EXCEPT !.pc[t] = "done", !.cpu = "none"]     \* the coroutine never starts
         ELSE [st EXCEPT !.pc[t] = CASE t = "R" -> "r.top" [] t \in {"C", "D"} -> CloseEntry [] t = "B" -> "b.top" [] OTHER -> "s.top"]
    [] st.pc[t] = "r.read" ->
         CASE o = "ok" -> [st EXCEPT !.pc[t] = "r.got"]
           [] o = "cancel" -> RExc(Why(dropW, IF isTmo THEN "timeout" ELSE "cancel"), t, IF isTmo THEN "timeout" ELSE "cancelled")
           [] OTHER -> RExc(st, t, o)
    [] st.pc[t] = "c.cw" ->
         IF o = "cancel"
         THEN IF FixCwCancel THEN CloseRaise(CloseTransport(Why([st EXCEPT !.code = 1006], "cancel")), t)
              ELSE CloseRaise(Why([st EXCEPT !.cwc = TRUE], "cancel"), t)
         ELSE [st EXCEPT !.pc[t] = "c.acw"]
    [] st.pc[t] = "c.drain" ->    \* inside the first try block of close()
         CASE o = "ok" -> [st EXCEPT !.pc[t] = "c.post"]
           [] o = "cancel" -> CloseRaise(CloseTransport(Why([st EXCEPT !.code = 1006], "cancel")), t)
           [] OTHER -> CloseRet(CloseTransport([st EXCEPT !.exc = TRUE, !.code = 1006]), t, "True")
    [] st.pc[t] = "c.read" ->
         CASE o = "ok" -> [st EXCEPT !.pc[t] = "c.got"]
           [] o = "cancel" ->
                IF isTmo THEN CFail(Why(dropW, "timeout"), t)
                ELSE CloseRaise(CloseTransport(Why([Disarm(dropW, t) EXCEPT !.code = 1006], "cancel")), t)
           [] OTHER -> CFail(st, t)
    [] st.pc[t] = "k.cw" ->
         IF o = "cancel" THEN CloseRaise(Why(st, "cancel"), t) ELSE [st EXCEPT !.pc[t] = "k.2"]
    [] st.pc[t] = "b.wait" ->
         Finish(st, t, CASE o = "ok" -> "OK" [] o = "cancel" -> "Cancelled" [] OTHER -> "ConnErr")
    [] st.pc[t] = "k.read" ->
         CASE o = "ok" -> [st EXCEPT !.pc[t] = "k.got"]
           [] o = "cancel" ->
                IF isTmo THEN KFail(Why(dropW, "timeout"), t)
                ELSE CloseRaise(CloseTransport(Why([Disarm(dropW, t) EXCEPT !.code = 1006], "cancel")), t)
           [] OTHER -> KFail(st, t)
    [] OTHER -> [st EXCEPT !.cpu = "none", !.bug = "bad-wake"]

RunTask(st, t) ==
  LET o == IF st.mc[t] THEN "cancel" ELSE st.wk[t]
      s1 == [st EXCEPT !.mc[t] = FALSE, !.wk[t] = "none", !.cpu = t]
  IN Run(Wake(s1, t, o), t)

\* Task.cancel(): cancel the pending awaited future, else set _must_cancel
DoCancel(st, t) ==
  IF st.pc[t] = "b.wait" /\ st.wk[t] = "none"       \* the outer shield future is cancelled; the inner task goes on
  THEN WakeTask([st EXCEPT !.ocan = TRUE, !.ready = Append(@, "odone")], t, "cancel")
  ELSE IF st.pc[t] \in {"r.read", "c.read", "k.read", "c.cw", "k.cw", "c.drain"} /\ st.wk[t] = "none"
  THEN LET s1 == IF st.pc[t] \in {"c.cw", "k.cw"} THEN [st EXCEPT !.cw = "cancelled"]
                 ELSE IF st.pc[t] = "c.drain" THEN [st EXCEPT !.dw = "none"]     \* the drain waiter is done (cancelled)
                 ELSE st
       IN WakeTask(s1, t, "cancel")
  ELSE [st EXCEPT !.mc[t] = TRUE]

(* ------------------------------------------------------------ callbacks *)
\* _handle_ping_pong_exception
HandlePP(st) ==
  IF st.closed THEN st
  ELSE LET s1 == Why(CloseTransport([CancelHb(st) EXCEPT !.closed = TRUE, !.code = 1006, !.exc = TRUE]), "pingpong") IN
       IF s1.waiting /\ ~s1.closing THEN Feed(s1, "err") ELSE s1

\* _send_heartbeat (the ping task is eager and never suspends: _ping_task_done runs inline)
SendHeartbeat(st) ==
  IF st.needReset THEN st
  ELSE IF st.now < st.hbWhen THEN [st EXCEPT !.timers = @ \cup {[id |-> "hb", at |-> st.hbWhen]}]
  ELSE LET s1 == [CancelPong(st) EXCEPT !.timers = @ \cup {[id |-> "pong", at |-> st.now + (Heartbeat \div 2)]}] IN
       IF s1.tclosing \/ s1.wclosing THEN HandlePP(s1) ELSE [s1 EXCEPT !.wire = Append(@, "ping")]

PongNotReceived(st) ==
  IF Side = "server" /\ st.lost THEN st ELSE HandlePP(st)

FlushReset(st) == IF st.needReset THEN [ResetHb(st) EXCEPT !.needReset = FALSE] ELSE st

\* data_received(frame)
IoFrame(st, f) ==
  IF st.tclosing \/ st.deaf THEN st
  ELSE LET s1 == IF Heartbeat > 0 /\ ~st.needReset
                 THEN [st EXCEPT !.needReset = TRUE, !.ready = Append(@, "hbflush")] ELSE st IN
       IF f = "bad"      \* WebSocketReader.feed_data: set_exception(queue, exc); the protocol stops feeding
       THEN Why([QSetExc(s1, "ws") EXCEPT !.deaf = TRUE], "proto")
       ELSE Feed(s1, f)

\* connection_lost.  Server: RequestHandler.connection_lost calls _current_request._cancel(exc) - that is
\* BaseRequest._cancel (request payload), NOT WebSocketResponse._cancel, which nothing calls in this tree -
\* and then _payload_parser.feed_eof(); the heartbeat is not cancelled.  Client: ResponseHandler.connection_lost
\* calls _payload_parser.feed_eof() unless a protocol error already detached the parser.
\* BaseProtocol.connection_lost first wakes a paused writer: set_result if the connection was closed by us
\* (exc is None), ConnectionError("Connection lost") if it was cut.
WakeDrain(st, o) ==
  IF st.dw = "none" THEN st
  ELSE IF st.wk[st.dw] = "none" THEN WakeTask([st EXCEPT !.dw = "none"], st.dw, o) ELSE [st EXCEPT !.dw = "none"]
Lost(st) ==
  IF st.lost THEN st
  ELSE LET s0 == [st EXCEPT !.lost = TRUE, !.tclosing = TRUE]
           s1 == IF s0.paused THEN WakeDrain(s0, IF "drop" \in s0.why THEN "conn" ELSE "ok") ELSE s0 IN
       IF Side = "client" /\ s1.deaf THEN s1 ELSE FeedEof(s1)

\* resume_writing()
Resume(st) == IF st.paused THEN WakeDrain([st EXCEPT !.paused = FALSE], "ok") ELSE st

\* Timeout._on_timeout: task.cancel(); state = EXPIRING
OnTimeout(st, t) == DoCancel([st EXCEPT !.tmo[t] = "fired"], t)

RunEntry(st, e) ==
  CASE e \in Tasks -> RunTask(st, e)
    [] e \in IoEntries -> IoFrame(st, IoFrameOf(e))
    [] e = "lost" -> Lost(st)
    [] e = "resume" -> Resume(st)
    [] e \in {"tmoR", "tmoC", "tmoD", "tmoS"} -> OnTimeout(st, TmoTask(e))
    [] e = "hb" -> SendHeartbeat(st)
    [] e = "pong" -> PongNotReceived(st)
    [] e = "exec" -> [st EXCEPT !.ready = Append(@, "stask")]
    [] e = "stask" -> STask(st)
    [] e = "bgdone" -> st
    [] e = "shield" -> Shield(st)
    [] e = "odone" -> ODone(st)
    [] OTHER -> FlushReset(st)

(* ------------------------------------------------------------ actions *)
AtBoundary == Head(s.ready) = Mark
Entries == Tasks \cup Stimuli \cup {"tmoR", "tmoC", "tmoD", "tmoS", "hb", "pong", "hbflush",
                                     "exec", "stask", "bgdone", "shield", "odone"}

\* one loop step: run the head handle (starting a new _run_once iteration if the marker is at the head)
Step(e) ==
  /\ Len(s.ready) > 1 \/ ~AtBoundary
  /\ LET r == IF AtBoundary THEN Append(Tail(s.ready), Mark) ELSE s.ready IN
     /\ Head(r) = e
     /\ s' = RunEntry([s EXCEPT !.ready = Tail(r)], e)

Spawn(t) ==
  /\ t \in TaskSet /\ s.pc[t] = "new"
  /\ s' = WakeTask([s EXCEPT !.pc[t] = "spawned"], t, "ok")

Cancel(t) ==
  /\ s.nCancel < MaxCancel
  /\ s.pc[t] \notin {"new", "done"} /\ ~s.mc[t] /\ s.wk[t] # "cancel"
  /\ s' = DoCancel([s EXCEPT !.nCancel = @ + 1, !.xc[t] = TRUE], t)

PeerFrame(f) ==
  /\ AtBoundary /\ f \in PeerKinds
  /\ s.nPeer < MaxPeer /\ ~s.peerDone /\ ~s.tclosing
  /\ s' = [s EXCEPT !.nPeer = @ + 1, !.peerDone = (f = "close"), !.ready = Append(@, IoEntry(f))]

DropConnection ==
  /\ AtBoundary /\ s.nDrop < MaxDrop /\ ~s.tclosing
  /\ s' = Why([s EXCEPT !.nDrop = @ + 1, !.tclosing = TRUE, !.ready = Append(@, "lost")], "drop")

\* the connection is torn down from our side by somebody else than the WebSocket object (client: session /
\* connector / protocol close(); server: request.transport.close()): transport.close(), nothing else
LocalClose ==
  /\ s.nLocal < MaxLocalClose /\ ~s.tclosing
  /\ s' = Why(CloseTransport([s EXCEPT !.nLocal = @ + 1]), "localclose")

\* write back-pressure: the transport pauses the protocol (a write filled its buffer) and resumes it later
\* (an I/O event).  Assumption: a pause does not span virtual time (Tick is disabled while paused).
PauseWriting ==
  /\ s.nPause < MaxPause /\ ~s.paused /\ ~s.tclosing
  /\ s' = [s EXCEPT !.nPause = @ + 1, !.paused = TRUE]
ResumeWriting ==
  /\ AtBoundary /\ s.paused /\ ~InSeq(s.ready, "resume")
  /\ s' = [s EXCEPT !.ready = Append(@, "resume")]

\* virtual time: only when the loop is idle apart from network events arriving right now
Perms(S) == {f \in [1..Cardinality(S) -> S] : \A i, j \in 1..Cardinality(S) : i # j => f[i] # f[j]}
DueIds == {x.id : x \in {y \in s.timers : y.at <= s.now + 1}}
AtOf(id) == (CHOOSE x \in s.timers : x.id = id).at
\* ord = the order in which timers with the same deadline are queued (heap order: unspecified)
Tick ==
  /\ AtBoundary /\ s.now < MaxTime /\ ~s.paused
  /\ \A i \in 2..Len(s.ready) : s.ready[i] \in Stimuli
  /\ \E ord \in Perms(DueIds) :
        /\ \A i, j \in 1..Len(ord) : i < j => AtOf(ord[i]) <= AtOf(ord[j])
        /\ s' = [s EXCEPT !.now = @ + 1, !.timers = {x \in @ : x.id \notin DueIds},
                          !.ready = IF DueIds = {} THEN @ ELSE Append(Tail(@) \o ord, Mark)]

Next ==
  \/ \E e \in Entries : Step(e)
  \/ \E t \in Tasks : Spawn(t) \/ Cancel(t)
  \/ \E f \in PeerKinds : PeerFrame(f)
  \/ DropConnection \/ LocalClose \/ PauseWriting \/ ResumeWriting
  \/ Tick

Spec == Init /\ [][Next]_s

(* ------------------------------------------------------------ properties *)
Count(sq, x) == Cardinality({i \in 1..Len(sq) : sq[i] = x})
InCloseLocs == {"c.top", "c.drain", "c.post", "c.cw", "c.acw", "c.loop", "c.read", "c.got",
                "k.top", "k.cw", "k.2", "k.loop", "k.read", "k.got"}
NobodyInClose == \A t \in Tasks : s.pc[t] \notin InCloseLocs
Idle == s.ready = <<Mark>> /\ s.cpu = "none"

OneCloseFrame == Count(s.wire, "close") <= 1
NoDataAfterClose ==
  \A i, j \in 1..Len(s.wire) : (i < j /\ s.wire[i] = "close") => s.wire[j] # "data"

ClosedClosesTransport == (s.closed /\ NobodyInClose) => (s.tclosing \/ s.lost)
\* as coded: the one named exception (server close() cancelled while awaiting _close_wait)
ClosedClosesTransportButCwCancel == (s.closed /\ NobodyInClose /\ ~s.cwc) => (s.tclosing \/ s.lost)

Abnormal == {"drop", "localclose", "timeout", "cancel", "pingpong", "proto", "senderr"}
AllowedCodes ==
  (IF "peerclose" \in s.why THEN {PeerCode} ELSE {})
  \cup (IF s.why \cap Abnormal # {} THEN {1006} ELSE {})
  \cup (IF "proto" \in s.why THEN {ErrCode} ELSE {})
CloseCodeRule == (s.closed /\ NobodyInClose) => s.code \in AllowedCodes
\* as coded: the named exceptions (server short-cut taken although no peer close frame was consumed;
\* EofStream handler overwriting the code of a session that is already closed)
CloseCodeRuleButShortcut == (s.closed /\ NobodyInClose /\ ~s.sc /\ ~s.cwc /\ ~s.eo) => s.code \in AllowedCodes

ReceiveNotStuck ==
  (Idle /\ s.timers = {} /\ ~s.paused) =>
     ~(s.pc["R"] = "r.read" /\ (s.closed \/ s.closing \/ s.lost \/ s.eof \/ s.qexc # "none"))
CloserNotStuck ==
  (Idle /\ s.timers = {} /\ ~s.paused) => \A t \in Tasks : s.pc[t] \notin {"c.cw", "k.cw", "c.read", "k.read", "c.drain"}

CloseBounded == s.cstart # NotIn => s.now <= s.cstart + CloseTimeout
CloseWaitResolved == s.cw = "pending" => s.waiting
NoInternalAssert == s.bug = "none"
=============================================================================
