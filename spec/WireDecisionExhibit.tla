------------------------- MODULE WireDecisionExhibit -------------------------
(* Runs WireDecision!Exhibit for the deviations in ExhibitSet only: no state exploration (one state),
   the work is the constant-level enumeration in the POSTCONDITION.  props/C02.py starts a few of these
   with disjoint ExhibitSets next to the exhaustive runs of WireDecision.                                *)
EXTENDS WireDecision

CONSTANT ExhibitSet

XInit == side = "exhibit" /\ phase = "done" /\ inp = 0 /\ out = 0 /\ rcv = 0
XSpec == XInit /\ [][FALSE]_vars
PrintSome == TLCGet("distinct") >= 0 /\ \A k \in ExhibitSet : PrintT(Exhibit(k))
=============================================================================
