-------------------------- MODULE CookieStoreTrace --------------------------
(* Trace validation for C16: executions recorded from a real aiohttp.CookieJar (and
   from a real ClientSession in front of a scripted in-memory origin) are pushed
   through CookieStore!Apply.  Per execution, cfg carries
       unsafe   CookieJar(unsafe=...)
       names    cookie names, in the order of the columns of every obs row
       battery  the fixed list of request URLs queried after every action
   Phase "prop": the execution is judged by the reference in the property
   configuration (no deviation enabled).  A cookie the code returns and the reference
   withholds is a leak (DomainLeak, HostOnlyLeak, PathLeak, SecureLeak, ExpiredSent,
   CrossSiteWrite, StaleValue, ...); a cookie the reference returns and the code
   withholds is UnderSend.  The first failure fixes the verdict (clause, position).
   Only to CLASSIFY that failure, the prefix is then walked again (phase "try") with the
   named deviations of CookieStore.tla enabled (DevSubsets, smallest sets first): expl is
   the index of the first set under which the whole prefix is accepted (0 = none).  If the
   failure is explained, the rest of the execution is judged in phase "dev" with all
   named deviations enabled, so that a later failure of another kind is still seen
   (bad2, pos2); it is reported as a violation of its own.                          *)
EXTENDS CookieStore, TraceBatch

VARIABLES tid, l, s, phase, k, v

tvars == <<tid, l, s, phase, k, v>>

\* hostOnlyKey, staleExpiry, pathAlias, domainCase, epochExpires, badMaxAge
\* Deviations repaired in /repo by `fix:` commits are no longer admissible explanations
\* (hostOnlyKey, staleExpiry, domainCase); pathAlias, epochExpires, badMaxAge are present in the code.
StillPresent == <<FALSE, FALSE, TRUE, FALSE, FALSE, FALSE>>
NoDevs == <<FALSE, FALSE, FALSE, FALSE, FALSE, FALSE>>
AllSubsets == <<
    <<FALSE, FALSE, TRUE, FALSE, FALSE, FALSE>>,
    <<FALSE, FALSE, FALSE, FALSE, TRUE, FALSE>>,
    <<FALSE, FALSE, FALSE, FALSE, FALSE, TRUE>>,
    <<TRUE, FALSE, FALSE, FALSE, FALSE, FALSE>>,
    <<FALSE, FALSE, FALSE, TRUE, FALSE, FALSE>>,
    <<FALSE, TRUE, FALSE, FALSE, FALSE, FALSE>>,
    <<FALSE, FALSE, TRUE, FALSE, TRUE, FALSE>>,
    <<FALSE, FALSE, TRUE, FALSE, FALSE, TRUE>>,
    <<TRUE, FALSE, TRUE, FALSE, FALSE, FALSE>>,
    <<FALSE, FALSE, TRUE, TRUE, FALSE, FALSE>>,
    <<FALSE, TRUE, TRUE, FALSE, FALSE, FALSE>>,
    <<FALSE, FALSE, FALSE, FALSE, TRUE, TRUE>>,
    <<TRUE, FALSE, FALSE, FALSE, TRUE, FALSE>>,
    <<FALSE, FALSE, FALSE, TRUE, TRUE, FALSE>>,
    <<FALSE, TRUE, FALSE, FALSE, TRUE, FALSE>>,
    <<TRUE, FALSE, FALSE, FALSE, FALSE, TRUE>>,
    <<FALSE, FALSE, FALSE, TRUE, FALSE, TRUE>>,
    <<FALSE, TRUE, FALSE, FALSE, FALSE, TRUE>>,
    <<TRUE, FALSE, FALSE, TRUE, FALSE, FALSE>>,
    <<TRUE, TRUE, FALSE, FALSE, FALSE, FALSE>>,
    <<FALSE, TRUE, FALSE, TRUE, FALSE, FALSE>>,
    <<FALSE, FALSE, TRUE, FALSE, TRUE, TRUE>>,
    <<TRUE, FALSE, TRUE, FALSE, TRUE, FALSE>>,
    <<FALSE, FALSE, TRUE, TRUE, TRUE, FALSE>>,
    <<FALSE, TRUE, TRUE, FALSE, TRUE, FALSE>>,
    <<TRUE, FALSE, TRUE, FALSE, FALSE, TRUE>>,
    <<FALSE, FALSE, TRUE, TRUE, FALSE, TRUE>>,
    <<FALSE, TRUE, TRUE, FALSE, FALSE, TRUE>>,
    <<TRUE, FALSE, TRUE, TRUE, FALSE, FALSE>>,
    <<TRUE, TRUE, TRUE, FALSE, FALSE, FALSE>>,
    <<FALSE, TRUE, TRUE, TRUE, FALSE, FALSE>>,
    <<TRUE, FALSE, FALSE, FALSE, TRUE, TRUE>>,
    <<FALSE, FALSE, FALSE, TRUE, TRUE, TRUE>>,
    <<FALSE, TRUE, FALSE, FALSE, TRUE, TRUE>>,
    <<TRUE, FALSE, FALSE, TRUE, TRUE, FALSE>>,
    <<TRUE, TRUE, FALSE, FALSE, TRUE, FALSE>>,
    <<FALSE, TRUE, FALSE, TRUE, TRUE, FALSE>>,
    <<TRUE, FALSE, FALSE, TRUE, FALSE, TRUE>>,
    <<TRUE, TRUE, FALSE, FALSE, FALSE, TRUE>>,
    <<FALSE, TRUE, FALSE, TRUE, FALSE, TRUE>>,
    <<TRUE, TRUE, FALSE, TRUE, FALSE, FALSE>>,
    <<TRUE, FALSE, TRUE, FALSE, TRUE, TRUE>>,
    <<FALSE, FALSE, TRUE, TRUE, TRUE, TRUE>>,
    <<FALSE, TRUE, TRUE, FALSE, TRUE, TRUE>>,
    <<TRUE, FALSE, TRUE, TRUE, TRUE, FALSE>>,
    <<TRUE, TRUE, TRUE, FALSE, TRUE, FALSE>>,
    <<FALSE, TRUE, TRUE, TRUE, TRUE, FALSE>>,
    <<TRUE, FALSE, TRUE, TRUE, FALSE, TRUE>>,
    <<TRUE, TRUE, TRUE, FALSE, FALSE, TRUE>>,
    <<FALSE, TRUE, TRUE, TRUE, FALSE, TRUE>>,
    <<TRUE, TRUE, TRUE, TRUE, FALSE, FALSE>>,
    <<TRUE, FALSE, FALSE, TRUE, TRUE, TRUE>>,
    <<TRUE, TRUE, FALSE, FALSE, TRUE, TRUE>>,
    <<FALSE, TRUE, FALSE, TRUE, TRUE, TRUE>>,
    <<TRUE, TRUE, FALSE, TRUE, TRUE, FALSE>>,
    <<TRUE, TRUE, FALSE, TRUE, FALSE, TRUE>>,
    <<TRUE, FALSE, TRUE, TRUE, TRUE, TRUE>>,
    <<TRUE, TRUE, TRUE, FALSE, TRUE, TRUE>>,
    <<FALSE, TRUE, TRUE, TRUE, TRUE, TRUE>>,
    <<TRUE, TRUE, TRUE, TRUE, TRUE, FALSE>>,
    <<TRUE, TRUE, TRUE, TRUE, FALSE, TRUE>>,
    <<TRUE, TRUE, FALSE, TRUE, TRUE, TRUE>>,
    <<TRUE, TRUE, TRUE, TRUE, TRUE, TRUE>>
>>
DevSubsets == SelectSeq(AllSubsets, LAMBDA d : \A i \in 1..6 : d[i] => StillPresent[i])
AllDevs == Len(DevSubsets)

CfDev(c, kk) ==
    LET d == IF kk = 0 THEN NoDevs ELSE DevSubsets[kk]
    IN [unsafe |-> c.unsafe,
        hosts |-> {c.battery[i].host : i \in 1..Len(c.battery)},
        paths |-> {MkPath(c.battery[i].path) : i \in 1..Len(c.battery)},
        hostOnlyEnforced |-> TRUE, saveHostOnly |-> TRUE,
        hostOnlyKey |-> d[1], staleExpiry |-> d[2], pathAlias |-> d[3], domainCase |-> d[4],
        epochExpires |-> d[5], badMaxAge |-> d[6]]

Q(b) == [host |-> b.host, path |-> MkPath(b.path), scheme |-> b.scheme]
BatteryOf(c) == [i \in 1..Len(c.battery) |-> Q(c.battery[i])]

NoV == [pos |-> 0, bad |-> "", at |-> 0, expl |-> 0, pos2 |-> 0, bad2 |-> "", at2 |-> 0]
Info(w) == <<w.at, w.expl, w.pos2, w.bad2, w.at2>>

TInit ==
    /\ tid \in 1..NTraces
    /\ l = 0
    /\ k = 0
    /\ s = Init0(CfDev(Cfg(tid), 0))
    /\ phase = "prop"
    /\ v = NoV
    /\ Verdict(tid, 0, "", Info(NoV))

Restart(kk) == l' = 0 /\ k' = kk /\ s' = Init0(CfDev(Cfg(tid), kk))

TNext ==
    /\ phase # "done"
    /\ l < NEvents(tid)
    /\ UNCHANGED tid
    /\ LET a == Apply(s, Events(tid)[l + 1], BatteryOf(Cfg(tid)), Cfg(tid).names) IN
       CASE phase = "prop" ->
              IF a.bad = "" THEN
                  /\ s' = a.s /\ l' = l + 1 /\ UNCHANGED <<phase, v, k>>
                  /\ Verdict(tid, l + 1, "", Info(NoV))
              ELSE \* first failure: the verdict; now classify it
                  LET w == [NoV EXCEPT !.pos = l, !.bad = a.bad, !.at = a.at, !.pos2 = l + 1]
                  IN /\ v' = w /\ phase' = "try" /\ Restart(1)
                     /\ Verdict(tid, w.pos, w.bad, Info(w))
         [] phase = "try" ->      \* does deviation set k accept the prefix up to the failing event?
              IF a.bad = "" /\ l + 1 < v.pos2 THEN
                  /\ s' = a.s /\ l' = l + 1 /\ UNCHANGED <<phase, v, k>>
              ELSE IF a.bad = "" THEN
                  LET w == [v EXCEPT !.expl = k]
                  IN /\ v' = w
                     /\ Verdict(tid, w.pos, w.bad, Info(w))
                     /\ IF k = AllDevs THEN s' = a.s /\ l' = l + 1 /\ k' = k /\ phase' = "dev"
                        ELSE phase' = "walk" /\ Restart(AllDevs)
              ELSE IF k < AllDevs THEN UNCHANGED <<phase, v>> /\ Restart(k + 1)
              ELSE phase' = "done" /\ UNCHANGED <<s, l, k, v>>
         [] phase = "walk" ->     \* bring the machine with all named deviations to the failing event
              IF a.bad # "" THEN  \* (it predicts a deviation the code did not show: rest not judged)
                  LET w == [v EXCEPT !.bad2 = "NotJudged"]
                  IN v' = w /\ phase' = "done" /\ UNCHANGED <<s, l, k>> /\ Verdict(tid, w.pos, w.bad, Info(w))
              ELSE /\ s' = a.s /\ l' = l + 1 /\ UNCHANGED <<v, k>>
                   /\ phase' = IF l + 1 < v.pos2 THEN "walk" ELSE "dev"
         [] OTHER ->              \* "dev": the rest of the execution under the named deviations
              LET w == IF a.bad = "" THEN [v EXCEPT !.pos2 = l + 1]
                       ELSE [v EXCEPT !.pos2 = l, !.bad2 = a.bad, !.at2 = a.at]
              IN /\ s' = a.s /\ l' = l + 1 /\ v' = w /\ UNCHANGED k
                 /\ phase' = IF a.bad = "" THEN "dev" ELSE "done"
                 /\ Verdict(tid, w.pos, w.bad, Info(w))

TSpec == TInit /\ [][TNext]_tvars

\* the reference's own invariants along every real execution
TInvNoExpired == \A c \in s.store : ~Expired(c, s.now)
TInvNoIP == NoIPUnlessUnsafe(s, <<>>)
=============================================================================
