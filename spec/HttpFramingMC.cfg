SPECIFICATION Spec
CONSTANTS
  Mode = "request"
  Lax = FALSE
  MaxLine = 64
  MaxField = 64
  MaxHeaders = 6
  UntilEof = FALSE
  WithBody = TRUE
  LexIds = {1, 3, 4, 7, 8, 9, 11, 12, 13, 14, 16, 17, 18, 19, 23, 24, 25, 26, 28, 29, 30, 31, 33, 35, 40, 41, 42, 43, 44, 47, 48}
  CutMode = FALSE
  MaxLex = 0
  MaxMsgs = 2
  MaxLines = 3
  MaxChunks = 1
  MaxPending = 0
  Mutant = ""
INVARIANT InvPartition
INVARIANT InvNoBodyWithoutFraming
INVARIANT InvOverLimitRejects
INVARIANT InvPendingBound
INVARIANT InvUnambiguous
INVARIANT InvHost
INVARIANT InvCut
PROPERTY RejectIsFinal
VIEW View
CHECK_DEADLOCK FALSE
