---------------------------- MODULE MultipartCls ----------------------------
(* C19 - classification of the contents enumerated by MultipartMC.  The POSTCONDITION
   prints, for every content over the class alphabet and every model boundary, its
   signature computed with the reference scanner's own operators: whether it honours the
   composer obligation, the deepest imitation of "CRLF--B CRLF" inside it, the length of
   a delimiter prefix at its very end and at its very start, and its CR / LF counts.
   The harness stratifies its adversarial contents over these signatures.              *)
EXTENDS Multipart

CONSTANT MaxLen1

Alpha == {13, 10, 45, 98, 120}
Bounds == {<<98>>, <<98, 120>>}
Strs(n) == UNION {[1..k -> Alpha] : k \in 0..n}

\* longest k such that the first k bytes of pat occur at position i of c
RECURSIVE PrefLen(_, _, _, _)
PrefLen(c, i, pat, k) == IF k < Len(pat) /\ i + k <= Len(c) /\ c[i + k] = pat[k + 1]
                         THEN PrefLen(c, i, pat, k + 1) ELSE k
MaxOver(S) == IF S = {} THEN 0 ELSE CHOOSE x \in S : \A y \in S : y <= x
Sig(c, B) ==
    LET pat == Delim(B) \o CRLF
        inner == MaxOver({PrefLen(c, i, pat, 0) : i \in 1..Len(c)})                  \* deepest imitation
        tail == MaxOver({k \in 0..Min(Len(c), Len(pat)) : k = 0 \/ SubSeq(c, Len(c) - k + 1, Len(c)) = Take(pat, k)})
        head == PrefLen(c, 1, DD \o B \o CRLF, 0)                                     \* after the header CRLF
    IN <<CleanLeaf(c, B), inner, tail, head,
         Cardinality({i \in 1..Len(c) : c[i] = 13}), Cardinality({i \in 1..Len(c) : c[i] = 10})>>

VARIABLE done
ClsInit == done = FALSE /\ TLCSet(1, TRUE)
ClsNext == done = FALSE /\ done' = TRUE
ClsSpec == ClsInit /\ [][ClsNext]_done
PrintClasses ==
    TLCGet(1) = TRUE /\ \A c \in Strs(MaxLen1) : \A B \in Bounds : PrintT(<<"VP", "C", c, B, Sig(c, B)>>)
=============================================================================
