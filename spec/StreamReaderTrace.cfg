SPECIFICATION TSpec
INVARIANT TInvPieces
INVARIANT TInvBounds
POSTCONDITION PrintVerdicts
CHECK_DEADLOCK FALSE
