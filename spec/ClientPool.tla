------------------------------ MODULE ClientPool ------------------------------
(* C07 - aiohttp.connector.BaseConnector: limits, no leak, no forgotten waiter.

   Implementation-shaped model.  One action per await-free block of
   connect() / _wait_for_available_connection() / _get() / _release() /
   _release_acquired() / _release_waiter() / _close_immediately(); asyncio is
   modelled by an explicit FIFO ready queue, futures with cancel semantics and a
   must-cancel flag (Task.cancel() on a task whose wake-up is already scheduled).

   Tasks   callers of connector.connect(); KeyOf[t] is the connection key.
   A connection is named after the task that created it.
   pc[t]:  new -> spawned -> (waiting <-> ...) -> creating -> holding -> done
           or failed / cancelled at any suspension point.

   Environment (the application and the network) acts between loop steps:
   Spawn, CreateOk, CreateFail, Cancel, Release(close?), PeerCloseIdle, Close.

   Handoff = TRUE models the repaired code: a waiter that was woken (its future
   was resolved) but leaves _wait_for_available_connection() by an exception
   passes the wake-up on.  Handoff = FALSE is the code as found (lost wake-up).

   ReuseChecksLimit = FALSE is the code as it is (named deviation
   Dev_C07_reuse_ignores_limit, see known_findings.json): the first thing connect()
   does is take an idle pooled connection of its key WITHOUT consulting
   _available_connections(); with two endpoints this exceeds `limit`.
   ReuseChecksLimit = TRUE is the ideal design in which that fast path is guarded.

   RequeueHandoff = TRUE models the repaired code: a waiter that was woken but finds no
   capacity for its key (it was taken meanwhile, e.g. by a waiter of the same key woken
   just before) passes the wake-up on before it queues again.  FALSE is the code as found:
   with limit_per_host, a release for key A could wake a second waiter of key B whose
   capacity the first woken B-waiter then takes; the second goes back to sleep and A's
   waiters are never woken although A has capacity (5 callers needed: KeyOf5 config).

   Traced = callers with a TraceConfig whose callbacks suspend.  TraceLeakFix /
   ReuseLeakFix = TRUE model the repaired code: a connection whose create_end /
   reuseconn trace callback is cancelled (or raises) is closed; FALSE is the code as
   found, where that connection stayed open and tracked by nobody (NoUntracked).

   Keep-alive expiry (MaxExpire > 0): TimePasses lets the clock run past keepalive_timeout,
   so every connection that is idle in the pool becomes stale (its transport is still open).
   A stale connection is never handed out: _get() pops and CLOSES it when it comes across it,
   and the _cleanup() timer (armed by the first release into an empty-handed pool, re-armed
   while the pool is not empty, cancelled by close()) closes and removes all stale and dead
   ones.  timer: off | armed | due.                                                     *)
EXTENDS Naturals, Sequences, FiniteSets, TLC

CONSTANTS Tasks, Keys, KeyOf, L, Lh, Handoff, ReuseChecksLimit, MaxCancel, MaxFail, AllowClose, AllowPeerClose,
          Traced, TraceLeakFix, ReuseLeakFix, RequeueHandoff, MaxExpire

VARIABLES pc, holds, acquired, acqHost, idle, alive, waiters, fut, cres, ready,
          mustCancel, closed, nCancel, nFail, attempts,
          stale, timer, nExpire

cvars == <<pc, holds, acquired, acqHost, idle, alive, waiters, fut, cres, ready,
          mustCancel, closed, nCancel, nFail, attempts>>
vars == <<cvars, stale, timer, nExpire>>

NoConn == "none"
Ph(t) == <<"ph", t>>           \* _TransportPlaceholder of task t
Co(c) == <<"conn", c>>         \* protocol of the connection created by task c

Init ==
    /\ pc = [t \in Tasks |-> "new"]
    /\ holds = [t \in Tasks |-> NoConn]
    /\ acquired = {}
    /\ acqHost = [k \in Keys |-> {}]
    /\ idle = [k \in Keys |-> <<>>]
    /\ alive = [t \in Tasks |-> FALSE]     \* connection created by t is open
    /\ waiters = [k \in Keys |-> <<>>]     \* FIFO of tasks whose future is queued
    /\ fut = [t \in Tasks |-> "none"]      \* none | pending | done | cancelled
    /\ cres = [t \in Tasks |-> "none"]     \* creation future: none | pending | ok | fail | cancelled
    /\ ready = <<>>
    /\ mustCancel = [t \in Tasks |-> FALSE]
    /\ closed = FALSE
    /\ nCancel = 0 /\ nFail = 0
    /\ attempts = [t \in Tasks |-> 0]
    /\ stale = {}                          \* idle connections whose keep-alive time is over
    /\ timer = "off"                       \* the _cleanup() timer handle
    /\ nExpire = 0

Min(a, b) == IF a < b THEN a ELSE b

\* _available_connections(key)
AvailWith(acq, acqH, k) ==
    LET total == IF L > 0 THEN L - Cardinality(acq) ELSE 1 IN
    IF L > 0 /\ total <= 0 THEN total
    ELSE IF Lh > 0 THEN Min(total, Lh - Cardinality(acqH[k])) ELSE total
Avail(k) == AvailWith(acquired, acqHost, k)

SeqToSet(q) == {q[i] : i \in 1..Len(q)}
Remove(q, x) == SelectSeq(q, LAMBDA y : y # x)

RECURSIVE DropDone(_, _)
DropDone(q, f) ==     \* pop waiters whose future is already done/cancelled
    IF q # <<>> /\ f[Head(q)] # "pending" THEN DropDone(Tail(q), f) ELSE q

(* _release_waiter(): wake the first live waiter of some key that has capacity.
   The code shuffles the keys, so the choice of key is nondeterministic.
   Returns the set of possible [w, f, r] outcomes (waiters, fut, ready).          *)
ReleaseWaiterOutcomes(acq, acqH, w, f, r) ==
    LET elig == {k \in Keys : AvailWith(acq, acqH, k) >= 1 /\ DropDone(w[k], f) # <<>>}
    IN IF elig = {} THEN {[w |-> w, f |-> f, r |-> r]}
       ELSE {LET q == DropDone(w[k], f)
                 t == Head(q)
             IN [w |-> [w EXCEPT ![k] = Tail(q)],
                 f |-> [f EXCEPT ![t] = "done"],
                 \* the wake-up is scheduled only if the task is suspended in `await fut`
                 \* (a traced caller may still be inside its queued_start callback)
                 r |-> IF pc[t] = "waiting" THEN Append(r, t) ELSE r] : k \in elig}

\* _release_acquired(key, handle) followed by _release_waiter()
ReleaseAcquired(k, h, w, f, r) ==
    IF closed THEN {[a |-> acquired, ah |-> acqHost, w |-> w, f |-> f, r |-> r]}
    ELSE LET a2 == acquired \ {h}
             ah2 == [acqHost EXCEPT ![k] = @ \ {h}]
         IN {[a |-> a2, ah |-> ah2, w |-> o.w, f |-> o.f, r |-> o.r] :
                o \in ReleaseWaiterOutcomes(a2, ah2, w, f, r)}

(* ---------------------------------------------------------------------- *)
(* connect(): body from the call (or from a successful wake-up) on.         *)
(* Callers in Traced have a TraceConfig whose connection_* callbacks suspend *)
(* for one loop turn (await sleep(0)): each `await trace.send_...()` is an   *)
(* extra suspension point - pcs qstart, qend, cstart, cend, reuse.           *)

\* reusable: still connected and not past its keep-alive time
Usable(c) == alive[c] /\ c \notin stale
RECURSIVE FirstAlive(_)
FirstAlive(q) == IF q = <<>> THEN <<>> ELSE IF Usable(Head(q)) THEN q ELSE FirstAlive(Tail(q))
\* the entries _get() pops before it reaches q's first reusable one: each is closed (proto.close())
Dropped(q) == {q[i] : i \in 1..(Len(q) - Len(FirstAlive(q)))}
CloseAll(S) == [c \in Tasks |-> IF c \in S THEN FALSE ELSE alive[c]]

Tr(t) == t \in Traced

\* _get(): reuse the first idle connection that is still connected, dropping dead ones
GetIdle(t, f2, r0) ==
    LET k == KeyOf[t]
        q == FirstAlive(idle[k])
    IN /\ q # <<>>
       /\ idle' = [idle EXCEPT ![k] = Tail(q)]
       /\ acquired' = acquired \cup {Co(Head(q))}
       /\ acqHost' = IF Lh > 0 THEN [acqHost EXCEPT ![k] = @ \cup {Co(Head(q))}] ELSE acqHost
       /\ holds' = [holds EXCEPT ![t] = Head(q)]
       /\ pc' = [pc EXCEPT ![t] = IF Tr(t) THEN "reuse" ELSE "holding"]   \* await send_connection_reuseconn()
       /\ ready' = IF Tr(t) THEN Append(r0, t) ELSE r0
       /\ fut' = f2
       /\ alive' = CloseAll(Dropped(idle[k]))
       /\ UNCHANGED <<waiters, cres, closed, nCancel, nFail, attempts>>

NoIdle(t) == FirstAlive(idle[KeyOf[t]]) = <<>>

Reserve(t, f2, r0) ==   \* placeholder; then (traced: await create_start;) await _create_connection()
    LET k == KeyOf[t] IN
    /\ idle' = [idle EXCEPT ![k] = <<>>]      \* dead idle connections were dropped by _get
    /\ acquired' = acquired \cup {Ph(t)}
    /\ acqHost' = IF Lh > 0 THEN [acqHost EXCEPT ![k] = @ \cup {Ph(t)}] ELSE acqHost
    /\ cres' = [cres EXCEPT ![t] = IF Tr(t) THEN "none" ELSE "pending"]
    /\ pc' = [pc EXCEPT ![t] = IF Tr(t) THEN "cstart" ELSE "creating"]
    /\ ready' = IF Tr(t) THEN Append(r0, t) ELSE r0
    /\ fut' = f2
    /\ alive' = CloseAll(SeqToSet(idle[k]))
    /\ UNCHANGED <<holds, waiters, closed, nCancel, nFail, attempts>>

Enqueue(t, front, r0) ==
    LET k == KeyOf[t] IN
    /\ waiters' = [waiters EXCEPT ![k] = IF front THEN <<t>> \o @ ELSE Append(@, t)]
    /\ fut' = [fut EXCEPT ![t] = "pending"]
    /\ pc' = [pc EXCEPT ![t] = IF Tr(t) THEN "qstart" ELSE "waiting"]      \* await send_connection_queued_start()
    /\ ready' = IF Tr(t) THEN Append(r0, t) ELSE r0
    /\ UNCHANGED <<holds, acquired, acqHost, cres, closed, nCancel, nFail>>

\* first step of connect()
ConnectBody(t, r0) ==
    \/ /\ (ReuseChecksLimit => Avail(KeyOf[t]) > 0)
       /\ GetIdle(t, fut, r0)
    \/ /\ NoIdle(t) \/ (ReuseChecksLimit /\ Avail(KeyOf[t]) <= 0)
       /\ IF Avail(KeyOf[t]) <= 0
          THEN /\ Enqueue(t, FALSE, r0)
               /\ UNCHANGED attempts
               /\ idle' = (IF NoIdle(t) THEN [idle EXCEPT ![KeyOf[t]] = <<>>] ELSE idle)
               /\ alive' = (IF NoIdle(t) THEN CloseAll(SeqToSet(idle[KeyOf[t]])) ELSE alive)
          ELSE Reserve(t, fut, r0)

\* after a wake-up (and the queued_end trace): re-check capacity
Recheck(t, r0) ==
    IF Avail(KeyOf[t]) > 0
    THEN \/ GetIdle(t, [fut EXCEPT ![t] = "none"], r0)
         \/ NoIdle(t) /\ Reserve(t, [fut EXCEPT ![t] = "none"], r0)
    ELSE \* slot was taken meanwhile: (pass the wake-up on and) queue again, at the front
         LET k == KeyOf[t]
             f0 == [fut EXCEPT ![t] = "none"]
             outs == IF RequeueHandoff /\ ~closed
                     THEN ReleaseWaiterOutcomes(acquired, acqHost, waiters, f0, r0)
                     ELSE {[w |-> waiters, f |-> f0, r |-> r0]}
         IN \E o \in outs :
              /\ waiters' = [o.w EXCEPT ![k] = <<t>> \o @]
              /\ fut' = [o.f EXCEPT ![t] = "pending"]
              /\ pc' = [pc EXCEPT ![t] = IF Tr(t) THEN "qstart" ELSE "waiting"]
              /\ ready' = IF Tr(t) THEN Append(o.r, t) ELSE o.r
              /\ attempts' = [attempts EXCEPT ![t] = @ + 1]
              /\ UNCHANGED <<holds, acquired, acqHost, alive, cres, closed, nCancel, nFail, idle>>

\* an exception (CancelledError) leaves _wait_for_available_connection(): finally pops the
\* caller's future; the repaired code passes a wake-up it had already received on
LeaveWait(t, r0) ==
    LET k == KeyOf[t]
        w1 == [waiters EXCEPT ![k] = Remove(@, t)]
        outs == IF Handoff /\ fut[t] = "done" /\ ~closed
                THEN ReleaseWaiterOutcomes(acquired, acqHost, w1, fut, r0)
                ELSE {[w |-> w1, f |-> fut, r |-> r0]}
    IN \E o \in outs :
         /\ waiters' = o.w
         /\ fut' = [o.f EXCEPT ![t] = "none"]
         /\ ready' = o.r
         /\ pc' = [pc EXCEPT ![t] = "cancelled"]
         /\ mustCancel' = [mustCancel EXCEPT ![t] = FALSE]
         /\ UNCHANGED <<holds, acquired, acqHost, idle, alive, cres, closed, nCancel, nFail, attempts>>

\* except BaseException around the creation: the placeholder is released (and a waiter woken)
DropPlaceholder(t, r0, how, closeConn) ==
    \E o \in ReleaseAcquired(KeyOf[t], Ph(t), waiters, fut, r0) :
         /\ acquired' = o.a /\ acqHost' = o.ah /\ waiters' = o.w /\ fut' = o.f /\ ready' = o.r
         /\ pc' = [pc EXCEPT ![t] = how]
         /\ alive' = IF closeConn THEN [alive EXCEPT ![t] = FALSE] ELSE alive
         /\ cres' = [cres EXCEPT ![t] = "none"]
         /\ mustCancel' = [mustCancel EXCEPT ![t] = FALSE]
         /\ UNCHANGED <<holds, idle, closed, nCancel, nFail, attempts>>

\* creation succeeded: swap the placeholder for the protocol (or fail if the connector was closed)
FinishCreate(t, r0) ==
    LET k == KeyOf[t] IN
    /\ ready' = r0 /\ UNCHANGED mustCancel
    /\ IF closed
       THEN /\ pc' = [pc EXCEPT ![t] = "failed"]       \* proto.close(); raise
            /\ alive' = [alive EXCEPT ![t] = FALSE]
            /\ UNCHANGED <<holds, acquired, acqHost>>
       ELSE /\ pc' = [pc EXCEPT ![t] = "holding"]
            /\ holds' = [holds EXCEPT ![t] = t]
            /\ acquired' = (acquired \ {Ph(t)}) \cup {Co(t)}
            /\ acqHost' = IF Lh > 0 THEN [acqHost EXCEPT ![k] = (@ \ {Ph(t)}) \cup {Co(t)}] ELSE acqHost
            /\ UNCHANGED alive
    /\ cres' = [cres EXCEPT ![t] = "none"]
    /\ UNCHANGED <<idle, waiters, fut, closed, nCancel, nFail, attempts>>

(* ---------------------------------------------------------------------- *)
(* One loop step: run the head of the ready queue.                           *)
StepCore(t) ==
    /\ ready # <<>> /\ Head(ready) = t
    /\ LET r0 == Tail(ready)
           k == KeyOf[t]
           cancelled == mustCancel[t]
       IN
       CASE pc[t] = "spawned" ->
              IF cancelled
              THEN /\ pc' = [pc EXCEPT ![t] = "cancelled"]
                   /\ mustCancel' = [mustCancel EXCEPT ![t] = FALSE]
                   /\ ready' = r0
                   /\ UNCHANGED <<holds, acquired, acqHost, idle, alive, waiters, fut, cres, closed, nCancel, nFail, attempts>>
              ELSE ConnectBody(t, r0) /\ UNCHANGED mustCancel
         [] pc[t] = "qstart" ->      \* back from the queued_start callback; now `await fut`
              IF cancelled THEN LeaveWait(t, r0)
              ELSE IF fut[t] = "done"
                   THEN \* already woken: `await fut` does not suspend; straight into queued_end
                        /\ pc' = [pc EXCEPT ![t] = "qend"] /\ ready' = Append(r0, t)
                        /\ UNCHANGED <<holds, acquired, acqHost, idle, alive, waiters, fut, cres, mustCancel, closed, nCancel, nFail, attempts>>
                   ELSE IF fut[t] = "cancelled" THEN LeaveWait(t, r0)     \* connector closed meanwhile
                   ELSE /\ pc' = [pc EXCEPT ![t] = "waiting"] /\ ready' = r0
                        /\ UNCHANGED <<holds, acquired, acqHost, idle, alive, waiters, fut, cres, mustCancel, closed, nCancel, nFail, attempts>>
         [] pc[t] = "waiting" ->
              IF cancelled \/ fut[t] = "cancelled"
              THEN LeaveWait(t, r0)       \* CancelledError out of `await fut`
              ELSE IF Tr(t)
                   THEN /\ pc' = [pc EXCEPT ![t] = "qend"] /\ ready' = Append(r0, t)   \* await queued_end
                        /\ UNCHANGED <<holds, acquired, acqHost, idle, alive, waiters, fut, cres, mustCancel, closed, nCancel, nFail, attempts>>
                   ELSE Recheck(t, r0) /\ UNCHANGED mustCancel
         [] pc[t] = "qend" ->
              IF cancelled THEN LeaveWait(t, r0)
              ELSE Recheck(t, r0) /\ UNCHANGED mustCancel
         [] pc[t] = "cstart" ->      \* back from the create_start callback; now await _create_connection()
              IF cancelled THEN DropPlaceholder(t, r0, "cancelled", FALSE)
              ELSE /\ pc' = [pc EXCEPT ![t] = "creating"] /\ cres' = [cres EXCEPT ![t] = "pending"] /\ ready' = r0
                   /\ UNCHANGED <<holds, acquired, acqHost, idle, alive, waiters, fut, mustCancel, closed, nCancel, nFail, attempts>>
         [] pc[t] = "creating" ->
              IF cres[t] = "ok" /\ ~cancelled
              THEN IF Tr(t)
                   THEN /\ pc' = [pc EXCEPT ![t] = "cend"] /\ ready' = Append(r0, t)    \* await create_end
                        /\ UNCHANGED <<holds, acquired, acqHost, idle, alive, waiters, fut, cres, mustCancel, closed, nCancel, nFail, attempts>>
                   ELSE FinishCreate(t, r0)
              ELSE \* creation failed or the task was cancelled; a connection completed concurrently is dropped
                   DropPlaceholder(t, r0, IF cancelled \/ cres[t] = "cancelled" THEN "cancelled" ELSE "failed", TRUE)
         [] pc[t] = "cend" ->
              IF cancelled
              THEN \* TraceLeakFix: the new connection is closed; code as found: it stays open, tracked by nobody
                   DropPlaceholder(t, r0, "cancelled", TraceLeakFix)
              ELSE FinishCreate(t, r0)
         [] pc[t] = "reuse" ->       \* back from the reuseconn callback
              IF cancelled
              THEN \* except BaseException: _release_acquired(key, proto); raise  - the connection taken
                   \* from the pool is neither closed nor put back (ReuseLeakFix closes it)
                   \E o \in ReleaseAcquired(k, Co(holds[t]), waiters, fut, r0) :
                        /\ acquired' = o.a /\ acqHost' = o.ah /\ waiters' = o.w /\ fut' = o.f /\ ready' = o.r
                        /\ pc' = [pc EXCEPT ![t] = "cancelled"]
                        /\ alive' = IF ReuseLeakFix THEN [alive EXCEPT ![holds[t]] = FALSE] ELSE alive
                        /\ holds' = [holds EXCEPT ![t] = NoConn]
                        /\ mustCancel' = [mustCancel EXCEPT ![t] = FALSE]
                        /\ UNCHANGED <<idle, cres, closed, nCancel, nFail, attempts>>
              ELSE /\ pc' = [pc EXCEPT ![t] = "holding"] /\ ready' = r0
                   /\ UNCHANGED <<holds, acquired, acqHost, idle, alive, waiters, fut, cres, mustCancel, closed, nCancel, nFail, attempts>>
         [] OTHER -> FALSE

(* ---------------------------------------------------------------------- *)
(* Environment                                                              *)
SpawnCore(t) ==
    /\ pc[t] = "new"
    /\ pc' = [pc EXCEPT ![t] = "spawned"]
    /\ ready' = Append(ready, t)
    /\ UNCHANGED <<holds, acquired, acqHost, idle, alive, waiters, fut, cres, mustCancel, closed, nCancel, nFail, attempts>>

CreateOkCore(t) ==
    /\ pc[t] = "creating" /\ cres[t] = "pending"
    /\ cres' = [cres EXCEPT ![t] = "ok"]
    /\ alive' = [alive EXCEPT ![t] = TRUE]
    /\ ready' = Append(ready, t)
    /\ UNCHANGED <<pc, holds, acquired, acqHost, idle, waiters, fut, mustCancel, closed, nCancel, nFail, attempts>>

CreateFailCore(t) ==
    /\ pc[t] = "creating" /\ cres[t] = "pending" /\ nFail < MaxFail
    /\ cres' = [cres EXCEPT ![t] = "fail"]
    /\ ready' = Append(ready, t)
    /\ nFail' = nFail + 1
    /\ UNCHANGED <<pc, holds, acquired, acqHost, idle, alive, waiters, fut, mustCancel, closed, nCancel, attempts>>

InReady(t) == t \in SeqToSet(ready)

CancelCore(t) ==        \* Task.cancel(): by the caller, by wait_for, or by the connect timeout
    /\ nCancel < MaxCancel
    /\ pc[t] \in {"spawned", "waiting", "creating", "qstart", "qend", "cstart", "cend", "reuse"}
    /\ ~mustCancel[t] /\ fut[t] # "cancelled" /\ cres[t] # "cancelled"
    /\ nCancel' = nCancel + 1
    /\ IF pc[t] = "waiting" /\ fut[t] = "pending"
       THEN /\ fut' = [fut EXCEPT ![t] = "cancelled"]
            /\ ready' = Append(ready, t)
            /\ UNCHANGED <<cres, mustCancel>>
       ELSE IF pc[t] = "creating" /\ cres[t] = "pending"
       THEN /\ cres' = [cres EXCEPT ![t] = "cancelled"]
            /\ ready' = Append(ready, t)
            /\ UNCHANGED <<fut, mustCancel>>
       ELSE /\ mustCancel' = [mustCancel EXCEPT ![t] = TRUE]      \* wake-up already scheduled
            /\ UNCHANGED <<fut, cres, ready>>
    /\ UNCHANGED <<pc, holds, acquired, acqHost, idle, alive, waiters, closed, nFail, attempts>>

ReleaseCore(t, close) ==       \* Connection.release() / Connection.close()
    /\ pc[t] = "holding"
    /\ LET k == KeyOf[t]
           c == holds[t]
       IN \E o \in ReleaseAcquired(k, Co(c), waiters, fut, ready) :
            /\ acquired' = o.a /\ acqHost' = o.ah /\ waiters' = o.w /\ fut' = o.f /\ ready' = o.r
            /\ IF closed \/ close \/ ~alive[c]
               THEN alive' = [alive EXCEPT ![c] = FALSE] /\ UNCHANGED idle
               ELSE idle' = [idle EXCEPT ![k] = Append(@, c)] /\ UNCHANGED alive
    /\ pc' = [pc EXCEPT ![t] = "done"]
    /\ holds' = [holds EXCEPT ![t] = NoConn]
    /\ UNCHANGED <<cres, mustCancel, closed, nCancel, nFail, attempts>>

PeerCloseIdleCore(c) ==        \* the server closes a pooled keep-alive connection
    /\ AllowPeerClose
    /\ \E k \in Keys : c \in SeqToSet(idle[k])
    /\ alive[c]
    /\ alive' = [alive EXCEPT ![c] = FALSE]
    /\ UNCHANGED <<pc, holds, acquired, acqHost, idle, waiters, fut, cres, ready, mustCancel, closed, nCancel, nFail, attempts>>

CloseCore ==                   \* connector.close() -> _close_immediately()
    /\ AllowClose /\ ~closed
    /\ closed' = TRUE
    \* idle and acquired protocols are closed; a connection whose creation has completed but which its
    \* creator has not taken over yet is unknown to the connector (FinishCreate closes it afterwards)
    /\ alive' = [c \in Tasks |-> IF pc[c] \in {"creating", "cend"} THEN alive[c] ELSE FALSE]
    /\ idle' = [k \in Keys |-> <<>>]
    /\ acquired' = {}
    /\ acqHost' = [k \in Keys |-> {}]
    /\ LET pend == {t \in Tasks : \E k \in Keys : t \in SeqToSet(waiters[k]) /\ fut[t] = "pending"}
           RECURSIVE AppendAll(_, _)
           AppendAll(r, ks) ==
              IF ks = {} THEN r
              ELSE LET k == CHOOSE x \in ks : TRUE
                   IN AppendAll(r \o SelectSeq(waiters[k], LAMBDA t : fut[t] = "pending" /\ pc[t] = "waiting"), ks \ {k})
       IN /\ fut' = [t \in Tasks |-> IF t \in pend THEN "cancelled" ELSE fut[t]]
          /\ ready' = AppendAll(ready, Keys)
    /\ waiters' = [k \in Keys |-> <<>>]
    /\ UNCHANGED <<pc, holds, cres, mustCancel, nCancel, nFail, attempts>>

IdleSet == UNION {SeqToSet(idle[k]) : k \in Keys}

(* Keep-alive bookkeeping of the steps above: a connection that leaves the pool is no longer
   stale-in-the-pool; _release() arms the _cleanup() timer when it pools a connection and no
   timer exists; close() cancels it.                                                       *)
Bookkeeping ==
    /\ stale' = stale \cap UNION {SeqToSet(idle'[k]) : k \in Keys}
    /\ timer' = IF closed' /\ ~closed THEN "off"
                ELSE IF timer = "off" /\ \E k \in Keys : Len(idle'[k]) > Len(idle[k]) THEN "armed"
                ELSE timer
    /\ UNCHANGED nExpire

\* the clock passes keepalive_timeout: everything that sits in the pool now is too old to be reused
TimePasses ==
    /\ nExpire < MaxExpire /\ ~closed
    /\ \E c \in IdleSet : Usable(c)
    /\ stale' = stale \cup {c \in IdleSet : alive[c]}
    /\ timer' = IF timer = "armed" THEN "due" ELSE timer
    /\ nExpire' = nExpire + 1
    /\ UNCHANGED cvars

\* the _cleanup() timer fires: stale and dead pooled connections are closed and dropped
Cleanup ==
    /\ timer = "due"
    /\ idle' = [k \in Keys |-> SelectSeq(idle[k], Usable)]
    /\ alive' = CloseAll({c \in IdleSet : ~Usable(c)})
    /\ stale' = stale \ IdleSet
    /\ timer' = IF \E k \in Keys : SelectSeq(idle[k], Usable) # <<>> THEN "armed" ELSE "off"
    /\ UNCHANGED <<pc, holds, acquired, acqHost, waiters, fut, cres, ready, mustCancel, closed, nCancel, nFail, attempts, nExpire>>

Step(t) == StepCore(t) /\ Bookkeeping
Spawn(t) == SpawnCore(t) /\ Bookkeeping
CreateOk(t) == CreateOkCore(t) /\ Bookkeeping
CreateFail(t) == CreateFailCore(t) /\ Bookkeeping
Cancel(t) == CancelCore(t) /\ Bookkeeping
Release(t, close) == ReleaseCore(t, close) /\ Bookkeeping
PeerCloseIdle(c) == PeerCloseIdleCore(c) /\ Bookkeeping
Close == CloseCore /\ Bookkeeping

Next ==
    \/ \E t \in Tasks : Step(t)
    \/ \E t \in Tasks : Spawn(t) \/ CreateOk(t) \/ CreateFail(t) \/ Cancel(t)
    \/ \E t \in Tasks, c \in BOOLEAN : Release(t, c)
    \/ \E c \in Tasks : PeerCloseIdle(c)
    \/ Close
    \/ TimePasses
    \/ Cleanup

Spec == Init /\ [][Next]_vars
FairSpec == Spec /\ \A t \in Tasks : WF_vars(Step(t)) /\ WF_vars(Release(t, FALSE)) /\ WF_vars(CreateOk(t))

(* ---------------------------------------------------------------------- *)
(* Properties                                                               *)
InUse == {t \in Tasks : pc[t] \in {"cstart", "creating", "cend", "reuse", "holding"}}
InUseK(k) == {t \in InUse : KeyOf[t] = k}

\* what an observer outside the connector can count
HarnessLimit ==
    ~closed => /\ (L > 0 => Cardinality(InUse) <= L)
               /\ (Lh > 0 => \A k \in Keys : Cardinality(InUseK(k)) <= Lh)

\* the connector's own books
LimitInv ==
    /\ L > 0 => Cardinality(acquired) <= L
    /\ Lh > 0 => \A k \in Keys : Cardinality(acqHost[k]) <= Lh

Accounting ==
    ~closed => acquired = {Ph(t) : t \in {x \in Tasks : pc[x] \in {"cstart", "creating", "cend"}}}
                          \cup {Co(holds[t]) : t \in {x \in Tasks : pc[x] \in {"holding", "reuse"}}}

\* every open connection is known to somebody who will close or pool it
NoUntracked ==
    \A c \in Tasks : alive[c] =>
        \/ \E k \in Keys : c \in SeqToSet(idle[k])
        \/ \E t \in Tasks : holds[t] = c /\ pc[t] \in {"holding", "reuse"}
        \/ pc[c] \in {"creating", "cend"}

\* a waiter whose future is pending, while a slot it could use is free and the loop is idle
LostWake ==
    /\ ready = <<>> /\ ~closed
    /\ \E t \in Tasks : pc[t] = "waiting" /\ fut[t] = "pending" /\ Avail(KeyOf[t]) >= 1
NoLostWake == ~LostWake

Terminal(t) == pc[t] \in {"new", "done", "failed", "cancelled"}
NoLeak ==
    (~closed /\ \A t \in Tasks : Terminal(t)) =>
        /\ acquired = {}
        /\ \A k \in Keys : acqHost[k] = {} /\ SeqToSet(waiters[k]) = {}
        /\ \A t \in Tasks : fut[t] \in {"none"} /\ cres[t] = "none"

\* close(): at the instant it returns every connection is closed and every waiter failed.
\* (connect() issued on an already closed connector is outside C07: the model keeps the
\* code's behaviour for it - it fails after creation - but states nothing about it.)
CloseStep ==
    (~closed /\ closed') =>
        /\ \A c \in Tasks : alive'[c] => pc[c] \in {"creating", "cend"}
        /\ \A k \in Keys : waiters'[k] = <<>> /\ idle'[k] = <<>>
        /\ \A t \in Tasks : fut'[t] # "pending"
        /\ \A t \in Tasks : (pc[t] = "waiting" /\ fut[t] = "pending") => t \in SeqToSet(ready')
CloseFailsAll == [][CloseStep]_vars

\* a connection past its keep-alive time is in the pool or nowhere: it is never handed out,
\* and one that _get()/_cleanup() dropped has been closed (it is covered by NoUntracked as well)
StaleStaysPooled == stale \subseteq IdleSet
TimerSane == (timer = "off" /\ ~closed) => IdleSet = {}

IdleDistinct ==
    \A k \in Keys : \A i, j \in 1..Len(idle[k]) : i # j => idle[k][i] # idle[k][j]

\* liveness (fair scheduler, holders eventually release): a waiter does not wait forever
WaiterServed == \A t \in Tasks : (pc[t] = "waiting") ~> (pc[t] # "waiting")
=============================================================================
