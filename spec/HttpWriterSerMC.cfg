SPECIFICATION SpecA
CONSTANTS
  MaxLen = 3
  MutA = ""
INVARIANT InvTodayAllowed
INVARIANT InvDecisive
INVARIANT InvInjectionVisible
INVARIANT InvRoundTrip
CHECK_DEADLOCK FALSE
