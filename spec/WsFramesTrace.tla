--------------------------- MODULE WsFramesTrace ----------------------------
(* C12 - trace validation: executions of the real aiohttp WebSocketReader +
   WebSocketDataQueue are judged against the WsFrames reference reader.

   One trace = one GROUP: the same byte stream (cfg.stream) and reader configuration
   (cfg.compress / decode / max = max_msg_size, cfg.K = allowed constant) fed to a
   fresh reader in several segmentations ("runs").  Events are feed_data calls:
     n        number of stream bytes passed in this call (the bytes themselves are
              cfg.stream[fed+1 .. fed+n]; the harness feeds exactly those)
     st, en   first / last call of a run
     msgs     messages read from the queue after this call: [t, data, code, size, wsize]
              (t = opcode; data = payload bytes, text re-encoded as UTF-8, close reason;
               code = close code)
     exc      the queue's exception after the call: 0 none, close code of a
              WebSocketError, 1 = an exception that carries no close code
     retained bytes held by the reader object after the call (all byte containers)
     rpriv    same, computed from _tail/_payload_fragments/_partial (-1 unknown)
     c0, c1   inflate calls (cfg.calls, uninterpreted codec results) made by this run
              before it started / up to and including this call
     frags, paused   fragment count / protocol paused   (refinement only)

   Property clauses (C12):
     WrongPayload / WrongMessageType / WrongCloseValue / MessageNotDelivered /
     ExtraMessage       delivered messages = reference's, call by call
     Accepted:<rule>    a violation of <rule> was not rejected (message delivered after
                        it, or the offending frame ended and no error was raised)
     SpuriousError / FailedTooEarly    error without (or before) a violation
     WrongCloseCode     error with a close code the rule does not allow
     DeliveredAfterError / ErrorNotLatched
     SegmentationDependent   final outcome differs from the group's first run
     RetainedTooMuch / InflateUnbounded   memory bound max_msg_size + K
     InflateInput / CompressedMessageNotInflated / InflateTruncated   RFC 7692 7.2.2
   Refinement (drift only): retained, fragment-pause, msg-size, inflate-crosscheck.

   Deviation mode (cfg.devs = names of rules with an OPEN known finding): a run in which
   the reference meets a violation of such a rule is not judged beyond that point
   (`tainted`) and the rule is reported in `used`.  A trace that fails with cfg.devs = {}
   and passes with the open deviations enabled is exactly that known finding.        *)
EXTENDS WsFrames, TraceBatch

VARIABLES tid, l, r, tgt, nd, cdel, cfail, sig, first, tainted, used, bad, drift

tvars == <<tid, l, r, tgt, nd, cdel, cfail, sig, first, tainted, used, bad, drift>>

C(t) == [compress |-> Cfg(t).compress, decode |-> Cfg(t).decode, max |-> Cfg(t).max]
Strm(t) == Cfg(t).stream
Devs(t) == {Cfg(t).devs[i] : i \in 1..Len(Cfg(t).devs)}

NoCall == [has |-> FALSE, inp |-> <<>>, ok |-> FALSE, outlen |-> 0, utf8 |-> FALSE, out |-> <<>>, full |-> TRUE]
None == <<"none">>

TInit ==
    /\ tid \in 1..NTraces
    /\ l = 0 /\ r = Init0 /\ tgt = 0
    /\ nd = 0 /\ cdel = 0 /\ cfail = 0 /\ sig = <<>> /\ first = None
    /\ tainted = FALSE /\ used = {}
    /\ bad = "" /\ drift = <<>>
    /\ Verdict(tid, 0, "", <<>>)

(* The reference consumes everything the call made available.  Result:
   [r, rd (messages delivered), bad (clause), dev (deviation rule met, "" if none)] *)
RECURSIVE Run(_, _, _, _, _, _)
RunK(st, avail, e, cf0, base, rd) ==
    IF st.out.k = "badinfl" THEN [r |-> st.r, rd |-> rd, bad |-> "InflateInput", dev |-> ""]
    ELSE IF st.out.k = "noinfl" THEN [r |-> st.r, rd |-> rd, bad |-> "CompressedMessageNotInflated", dev |-> ""]
    ELSE IF st.out.k = "truncinfl" THEN [r |-> st.r, rd |-> rd, bad |-> "InflateTruncated", dev |-> ""]
    ELSE IF st.out.k = "fail" /\ st.r.why \in Devs(tid) THEN [r |-> st.r, rd |-> rd, bad |-> "", dev |-> st.r.why]
    ELSE Run(st.r, avail, e, cf0, base, IF st.out.k = "msg" THEN Append(rd, st.out.m) ELSE rd)

Run(rr, avail, e, cf0, base, rd) ==
    IF ~CanStep(rr, avail) THEN [r |-> rr, rd |-> rd, bad |-> "", dev |-> ""]
    ELSE LET I(k, full) == IF e.c0 + k <= e.c1 THEN Cfg(tid).calls[e.c0 + k] ELSE NoCall
             \* at a point where C12 permits either outcome follow what the code did
             rej == e.exc = 1009 /\ cf0 = 0 /\ base = Len(rd)
         IN One({RunK(st, avail, e, cf0, base, rd) : st \in {Step(rr, Strm(tid), avail, C(tid), I, rej)}})

RECURSIVE Common(_, _, _)
Common(x, y, k) == IF k < Len(x) /\ k < Len(y) /\ x[k + 1] = y[k + 1] THEN Common(x, y, k + 1) ELSE k

Mismatch(cm, rd, rr, e, cf0) ==
    LET k == Common(cm, rd, 0)
        codeFailed == cf0 # 0 \/ e.exc # 0
    IN IF k = Len(cm) THEN (IF codeFailed THEN "FailedTooEarly" ELSE "MessageNotDelivered")
       ELSE IF k = Len(rd) THEN (IF Failed(rr) THEN "Accepted:" \o rr.why ELSE "ExtraMessage")
       ELSE IF cm[k + 1].t # rd[k + 1].t THEN "WrongMessageType"
       ELSE IF cm[k + 1].code # rd[k + 1].code THEN "WrongCloseValue"
       ELSE "WrongPayload"

MaxFrags(mx) == IF mx = 0 THEN 0 ELSE IF mx \div 256 > 1024 THEN mx \div 256 ELSE 1024

SigOf(ms) == [i \in 1..Len(ms) |-> <<ms[i].t, Len(ms[i].data), ms[i].code>>]

\* ---- one feed_data call
(* TLC re-evaluates a LET definition at every use; binding through a singleton set
   (\E x \in {expr}) evaluates it once.                                            *)
Pre(e) ==
    IF e.st THEN [r |-> Init0, t |-> 0, nd |-> 0, cd |-> 0, cf |-> 0, sig |-> <<>>, ta |-> FALSE]
    ELSE [r |-> r, t |-> tgt, nd |-> nd, cd |-> cdel, cf |-> cfail, sig |-> sig, ta |-> tainted]

Msgs(e) == [i \in 1..Len(e.msgs) |-> [t |-> e.msgs[i].t, data |-> e.msgs[i].data, code |-> e.msgs[i].code]]

EarlyHeader(rr, avail, code) ==
    /\ rr.ph = "H" /\ avail - rr.pos = 1 /\ code = 1002
    /\ FirstByteBad(Strm(tid)[rr.pos + 1], rr.inMsg, C(tid).compress)

Clause(p, q, cm, e, avail, over, ta1, cf2, outcome) ==
    LET c == C(tid)
        K == Cfg(tid).K
        failedBefore == p.cf # 0
        newFail == e.exc # 0 /\ ~failedBefore
    IN
    IF over THEN "HarnessStreamOverrun"
    ELSE IF failedBefore /\ cm # <<>> THEN "DeliveredAfterError"
    ELSE IF failedBefore /\ e.exc # p.cf THEN "ErrorNotLatched"
    ELSE IF ta1 THEN ""
    ELSE IF q.bad # "" THEN q.bad
    ELSE IF cm # q.rd THEN Mismatch(cm, q.rd, q.r, e, p.cf)
    \* (rejecting on the first header byte alone is as good as waiting for the second one)
    ELSE IF newFail /\ ~Failed(q.r) /\ ~EarlyHeader(q.r, avail, e.exc) THEN "SpuriousError"
    ELSE IF newFail /\ ~Failed(q.r) THEN ""
    ELSE IF newFail /\ e.exc \notin q.r.failed THEN "WrongCloseCode"
    ELSE IF c.max > 0 /\ e.retained > c.max + K THEN "RetainedTooMuch"
    ELSE IF c.max > 0 /\ \E i \in (e.c0 + 1)..e.c1 : Cfg(tid).calls[i].outlen > c.max + K THEN "InflateUnbounded"
    ELSE IF e.en /\ Failed(q.r) /\ cf2 = 0 /\ avail >= q.r.fend THEN "Accepted:" \o q.r.why
    ELSE IF e.en /\ first # None /\ first # outcome THEN "SegmentationDependent"
    ELSE ""

Drift(q, e, avail, cf2) ==
    LET c == C(tid) IN
    IF e.rpriv >= 0 /\ ~Failed(q.r) /\ cf2 = 0 /\ e.rpriv # Retained(q.r, avail) THEN "retained"
    ELSE IF MaxFrags(c.max) > 0 /\ e.frags > MaxFrags(c.max) /\ ~e.paused THEN "fragment-pause"
    ELSE IF \E i \in 1..Len(e.msgs) : e.msgs[i].size # e.msgs[i].wsize THEN "msg-size"
    ELSE IF \E i \in (e.c0 + 1)..e.c1 : ~Cfg(tid).calls[i].xeq THEN "inflate-crosscheck"
    ELSE ""

Feed(e) ==
    \E p \in {Pre(e)} :
    \E avail \in {p.t + e.n} :
    \E over \in {avail > Len(Strm(tid))} :
    \E q \in {IF p.ta \/ over THEN [r |-> p.r, rd |-> <<>>, bad |-> "", dev |-> ""]
              ELSE Run(p.r, avail, e, p.cf, p.cd + Len(e.msgs) - p.nd, <<>>)} :
    \E cm \in {Msgs(e)} :
    \E ta1 \in {p.ta \/ q.dev # ""} :
    \E cf2 \in {IF e.exc # 0 /\ p.cf = 0 THEN e.exc ELSE p.cf} :
    \E sig2 \in {p.sig \o SigOf(cm)} :
    \E clause \in {Clause(p, q, cm, e, avail, over, ta1, cf2, <<sig2, cf2>>)} :
    \E d \in {IF clause # "" \/ ta1 THEN "" ELSE Drift(q, e, avail, cf2)} :
    \E l2 \in {IF clause = "" THEN l + 1 ELSE l} :
    \E dr2 \in {IF d # "" /\ Len(drift) < 3 THEN Append(drift, <<l + 1, d>>) ELSE drift} :
    \E used2 \in {IF q.dev # "" THEN used \cup {q.dev} ELSE used} :
       /\ bad' = clause
       /\ drift' = dr2
       /\ l' = l2
       /\ r' = q.r
       /\ tgt' = avail
       /\ cdel' = p.cd + Len(cm)
       /\ nd' = p.nd + Len(q.rd)
       /\ cfail' = cf2
       /\ sig' = sig2
       /\ tainted' = ta1
       /\ used' = used2
       /\ first' = IF e.en /\ first = None /\ ~ta1 THEN <<sig2, cf2>> ELSE first
       /\ tid' = tid
       /\ Verdict(tid, l2, clause, IF clause = "" THEN <<dr2, used2>>
                                   ELSE <<e.seg, q.r.why, q.r.failed, e.exc>>)

TNext ==
    /\ bad = ""
    /\ l < NEvents(tid)
    /\ \E e \in {Events(tid)[l + 1]} : Feed(e)

TSpec == TInit /\ [][TNext]_tvars
=============================================================================
