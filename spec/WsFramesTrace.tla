--------------------------- MODULE WsFramesTrace ----------------------------
(* C12 - trace validation: executions of the real aiohttp WebSocketReader +
   WebSocketDataQueue are judged against the WsFrames reference reader.

   One trace = one GROUP: the same byte stream (cfg.stream) and reader configuration
   (cfg.compress / decode / max = max_msg_size, cfg.K = allowed constant) fed to a
   fresh reader in several segmentations ("runs").  Events are feed_data calls:
     n        number of stream bytes passed in this call (the bytes themselves are
              cfg.stream[fed+1 .. fed+n]; the harness checks that it fed exactly those)
     st, en   first / last call of a run
     msgs     messages newly put on the queue by this call: [t, data, code]
              (t = opcode; data = payload bytes, text re-encoded as UTF-8, close reason;
               code = close code)
     exc      the queue's exception after the call: 0 none, close code of a
              WebSocketError, 1 = an exception that carries no close code
     retained bytes held by the reader object after the call (all byte containers)
     rpriv    same, computed from _tail/_payload_fragments/_partial (-1 unknown)
     infl     inflate calls made during this call (uninterpreted codec results)
     frags, paused   fragment count / protocol paused   (refinement only)

   Property clauses (C12):
     WrongPayload / WrongMessageType / WrongCloseValue / MessageNotDelivered /
     ExtraMessage       delivered messages = reference's, call by call
     Accepted:<rule>    a violation of <rule> was not rejected (message delivered after
                        it, or the offending frame ended and no error was raised)
     SpuriousError / FailedTooEarly    error without (or before) a violation
     WrongCloseCode     error with a close code the rule does not allow
     DeliveredAfterError / ErrorNotLatched
     SegmentationDependent   final outcome differs from the group's first run
     RetainedTooMuch / InflateUnbounded   memory bound max_msg_size + K
     InflateInput / CompressedMessageNotInflated   RFC 7692 7.2.2
   Refinement (drift only): retained, fragment-pause, msg-size.                    *)
EXTENDS WsFrames, TraceBatch

VARIABLES tid, l, r, tgt, pend, calls, rd, nd, cdel, cfail, sig, first, bad, drift

tvars == <<tid, l, r, tgt, pend, calls, rd, nd, cdel, cfail, sig, first, bad, drift>>

C(t) == [compress |-> Cfg(t).compress, decode |-> Cfg(t).decode, max |-> Cfg(t).max]
Strm(t) == Cfg(t).stream

NoCall == [has |-> FALSE, inp |-> <<>>, ok |-> FALSE, outlen |-> 0, utf8 |-> FALSE, out |-> <<>>]
None == <<"none">>

TInit ==
    /\ tid \in 1..NTraces
    /\ l = 0 /\ r = Init0 /\ tgt = 0 /\ pend = FALSE /\ calls = <<>> /\ rd = <<>>
    /\ nd = 0 /\ cdel = 0 /\ cfail = 0 /\ sig = <<>> /\ first = None
    /\ bad = "" /\ drift = <<>>
    /\ Verdict(tid, 0, "", <<>>)

Keep(vs) == UNCHANGED vs

AddDrift(d) == IF d # "" /\ Len(drift) < 3 THEN Append(drift, <<l + 1, d>>) ELSE drift

\* ---- a new feed_data call (possibly the first of a run)
BeginFeed(e) ==
    LET fresh == e.st
        t0 == IF fresh THEN 0 ELSE tgt
        over == t0 + e.n > Len(Strm(tid))
    IN /\ bad' = IF over THEN "HarnessStreamOverrun" ELSE ""
       /\ tgt' = t0 + e.n
       /\ r' = IF fresh THEN Init0 ELSE r
       /\ calls' = (IF fresh THEN <<>> ELSE calls) \o e.infl
       /\ nd' = IF fresh THEN 0 ELSE nd
       /\ cdel' = IF fresh THEN 0 ELSE cdel
       /\ cfail' = IF fresh THEN 0 ELSE cfail
       /\ sig' = IF fresh THEN <<>> ELSE sig
       /\ rd' = <<>>
       /\ pend' = TRUE
       /\ UNCHANGED <<tid, l, first, drift>>
       /\ Verdict(tid, l, bad', drift)

\* ---- the reference consumes one unit of what has been fed
StepAct(e) ==
    LET I(k, full) == IF k <= Len(calls) THEN calls[k] ELSE NoCall
        \* at a point where C12 permits either outcome follow what the code did
        rej == e.exc = 1009 /\ cfail = 0 /\ cdel + Len(e.msgs) = nd + Len(rd)
        st == Step(r, Strm(tid), tgt, C(tid), I, rej)
        b == IF st.out.k = "badinfl" THEN "InflateInput"
             ELSE IF st.out.k = "noinfl" THEN "CompressedMessageNotInflated" ELSE ""
    IN /\ r' = st.r
       /\ rd' = IF st.out.k = "msg" THEN Append(rd, st.out.m) ELSE rd
       /\ bad' = b
       /\ UNCHANGED <<tid, l, tgt, pend, calls, nd, cdel, cfail, sig, first, drift>>
       /\ Verdict(tid, l, b, drift)

RECURSIVE Common(_, _, _)
Common(x, y, k) == IF k < Len(x) /\ k < Len(y) /\ x[k + 1] = y[k + 1] THEN Common(x, y, k + 1) ELSE k

Mismatch(cm, e) ==
    LET k == Common(cm, rd, 0)
        codeFailed == cfail # 0 \/ e.exc # 0
    IN IF k = Len(cm) THEN (IF codeFailed THEN "FailedTooEarly" ELSE "MessageNotDelivered")
       ELSE IF k = Len(rd) THEN (IF Failed(r) THEN "Accepted:" \o r.why ELSE "ExtraMessage")
       ELSE IF cm[k + 1].t # rd[k + 1].t THEN "WrongMessageType"
       ELSE IF cm[k + 1].code # rd[k + 1].code THEN "WrongCloseValue"
       ELSE "WrongPayload"

MaxFrags(mx) == IF mx = 0 THEN 0 ELSE IF mx \div 256 > 1024 THEN mx \div 256 ELSE 1024

SigOf(ms) == [i \in 1..Len(ms) |-> <<ms[i].t, Len(ms[i].data), ms[i].code>>]

\* ---- the reference has nothing more to do with the bytes fed so far: compare
FinishFeed(e) ==
    LET c == C(tid)
        K == Cfg(tid).K
        cm == [i \in 1..Len(e.msgs) |-> [t |-> e.msgs[i].t, data |-> e.msgs[i].data, code |-> e.msgs[i].code]]
        failedBefore == cfail # 0
        newFail == e.exc # 0 /\ ~failedBefore
        cf2 == IF newFail THEN e.exc ELSE cfail
        sig2 == sig \o SigOf(cm)
        outcome == <<sig2, cf2>>
        clause ==
            IF failedBefore /\ cm # <<>> THEN "DeliveredAfterError"
            ELSE IF failedBefore /\ e.exc # cfail THEN "ErrorNotLatched"
            ELSE IF cm # rd THEN Mismatch(cm, e)
            ELSE IF newFail /\ ~Failed(r) THEN "SpuriousError"
            ELSE IF newFail /\ e.exc \notin r.failed THEN "WrongCloseCode"
            ELSE IF c.max > 0 /\ e.retained > c.max + K THEN "RetainedTooMuch"
            ELSE IF c.max > 0 /\ \E i \in 1..Len(e.infl) : e.infl[i].outlen > c.max + K THEN "InflateUnbounded"
            ELSE IF e.en /\ Failed(r) /\ cf2 = 0 /\ tgt >= r.fend THEN "Accepted:" \o r.why
            ELSE IF e.en /\ first # None /\ first # outcome THEN "SegmentationDependent"
            ELSE ""
        d == IF clause # "" THEN ""
             ELSE IF e.rpriv >= 0 /\ ~Failed(r) /\ cf2 = 0 /\ e.rpriv # Retained(r, tgt) THEN "retained"
             ELSE IF MaxFrags(c.max) > 0 /\ e.frags > MaxFrags(c.max) /\ ~e.paused THEN "fragment-pause"
             ELSE IF \E i \in 1..Len(e.msgs) : e.msgs[i].size # e.msgs[i].wsize THEN "msg-size"
             ELSE ""
        l2 == IF clause = "" THEN l + 1 ELSE l
    IN /\ bad' = clause
       /\ drift' = AddDrift(d)
       /\ l' = l2
       /\ pend' = FALSE
       /\ cdel' = cdel + Len(cm)
       /\ nd' = nd + Len(rd)
       /\ cfail' = cf2
       /\ sig' = sig2
       /\ first' = IF e.en /\ first = None THEN outcome ELSE first
       /\ UNCHANGED <<tid, r, tgt, calls, rd>>
       /\ Verdict(tid, l2, clause, IF clause = "" THEN drift'
                                   ELSE <<e.seg, r.why, r.failed, e.exc>>)

TNext ==
    /\ bad = ""
    /\ l < NEvents(tid)
    /\ LET e == Events(tid)[l + 1]
       IN IF ~pend THEN BeginFeed(e)
          ELSE IF CanStep(r, tgt) THEN StepAct(e)
          ELSE FinishFeed(e)

TSpec == TInit /\ [][TNext]_tvars
=============================================================================
