-------------------------- MODULE HttpWriterTrace ---------------------------
(* Trace validation for C04.  Three kinds of recorded executions (cfg.kind):

     "ser"  one event: a string was supplied in one position of a message head
            through a public aiohttp path; the event carries the outcome and the
            exact bytes handed to the transport            -> HttpWriter!SerClause
     "ops"  a sequence of public calls on a real StreamWriter; cfg carries the
            mode, the serialized head and ALL bytes handed to the transport, each
            event the number of bytes on the wire after the call (the wire prefix
            is split and chunk-decoded here, in TLA+)       -> HttpWriter!WireClause
     "msg"  one event: a complete message produced by web.Response /
            StreamResponse / ClientRequest + Payload          -> HttpWriter!MsgClause

   Property clauses end the trace with a verdict; refinement clauses (the code
   no longer follows Ref / the Today table step for step) are collected as
   drift and never fail a trace.                                              *)
EXTENDS HttpWriter, TraceBatch

VARIABLES tid, l, s, wl, bad, drift

tvars == <<tid, l, s, wl, bad, drift>>

Kind(t) == Cfg(t).kind

StartState(t) ==
    IF Kind(t) = "ops"
    THEN WInit(Cfg(t).chunked, Cfg(t).length, Cfg(t).compress, Cfg(t).head)
    ELSE WInit(FALSE, None, FALSE, <<>>)

TInit ==
    /\ tid \in 1..NTraces
    /\ l = 0
    /\ s = StartState(tid)
    /\ wl = 0
    /\ bad = ""
    /\ drift = <<>>
    /\ Verdict(tid, 0, "", <<>>)

(* ---- "ser" ---- *)
SerDrift(e) ==
    IF ~e.tbl THEN ""
    ELSE LET refu == \E k \in 1..Len(e.cls) : e.cls[k] \in TodayRefuses(e.pos) IN
         IF refu # (e.out = "refused") THEN "today-outcome"
         ELSE IF e.out = "emitted" /\ e.enc # TodayEnc(e.pos)
                 /\ ~(e.pos = "form-name" /\ e.enc = "ext")      \* non-ASCII names use name*=utf-8''...
              THEN "today-encoding"
         ELSE ""
SerApply(e) == LET c == SerClause(e) IN [s |-> s, wl |-> 0, bad |-> c, drift |-> IF c = "" THEN SerDrift(e) ELSE ""]

(* ---- "msg" ---- *)
MsgApply(e) == [s |-> s, wl |-> 0, bad |-> IF e.err # "" THEN "CallRaised" ELSE MsgClause(e), drift |-> ""]

(* ---- "ops" ---- *)
Entity(st, w) ==
    LET body == Drop(w, Len(st.head)) IN
    IF st.chunked THEN ChunkDecode(body).data ELSE body

OpsApply(st, prev, e, wire) ==
    LET ev == [op |-> e.op, data |-> e.data, big |-> e.big, k |-> 0] IN
    IF ~WLegal(st, ev) THEN [s |-> st, wl |-> prev, bad |-> "IllegalStimulus", drift |-> ""]
    ELSE IF e.err # "" THEN [s |-> st, wl |-> prev, bad |-> "CallRaised", drift |-> ""]
    ELSE IF e.wlen < prev \/ e.wlen > Len(wire) THEN [s |-> st, wl |-> prev, bad |-> "WireShrank", drift |-> ""]
    ELSE
    LET s1 == Ref(st, ev, "")
        w == Take(wire, e.wlen)
        c0 == WireClause(s1, w, ~st.compress)
        ent == Entity(s1, w)
        c1 == IF c0 # "" /\ e.op = "write_eof" /\ ~st.compress /\ st.length0 # None
                 /\ StartsWith(w, st.head) /\ ent = Expected(st) \o e.data /\ ent # Expected(s1)
              THEN "LengthOverrunAtEof"          \* named deviation: write_eof(data) ignores the declared length
              ELSE c0
        c2 == IF c1 = "" /\ st.compress /\ s1.eof /\ ~st.eof /\ e.op = "write_eof"
                 /\ (Len(ent) # e.zlen \/ e.inflated # s1.app)
              THEN "CompressedDataMismatch" ELSE c1
        d == IF c2 # "" THEN ""
             ELSE IF ~st.compress /\ w # s1.wire THEN "wire-differs"
             ELSE IF ~st.compress /\ e.nwr # s1.nwr THEN "coalescing"
             ELSE IF ~st.compress /\ e.blocked # (s1.drains > st.drains) THEN "drain"
             ELSE ""
    IN [s |-> s1, wl |-> e.wlen, bad |-> c2, drift |-> d]

TNext ==
    /\ bad = ""
    /\ l < NEvents(tid)
    /\ LET e == Events(tid)[l + 1]
           a == CASE Kind(tid) = "ser" -> SerApply(e)
                  [] Kind(tid) = "msg" -> MsgApply(e)
                  [] Kind(tid) = "ops" -> OpsApply(s, wl, e, Cfg(tid).wire)
                  [] OTHER -> [s |-> s, wl |-> wl, bad |-> "UnknownTraceKind", drift |-> ""]
           d2 == IF a.drift # "" /\ Len(drift) < 3 THEN Append(drift, <<l + 1, a.drift>>) ELSE drift
           l2 == IF a.bad = "" THEN l + 1 ELSE l
       IN /\ s' = a.s
          /\ wl' = a.wl
          /\ bad' = a.bad
          /\ drift' = d2
          /\ l' = l2
          /\ UNCHANGED tid
          /\ Verdict(tid, l2, a.bad, d2)

TSpec == TInit /\ [][TNext]_tvars

\* the reference's own invariants must also hold along every real call sequence
TInvHdr == HdrOnceFirst(s)
TInvBody == s.compress \/ (ChunkedDecodes(s) /\ LengthRespected(s))
=============================================================================
