----------------------------- MODULE CookieStore -----------------------------
(* C16 - cookies are sent only where RFC 6265 scoping allows.

   Reference store in "acceptor" style (RFC 6265 s5.1.3 domain-match, s5.1.4 paths,
   s5.2 attribute processing, s5.3 storage model, s5.4 retrieval).  The whole store
   is one record `s`; Step(s, e) consumes one stimulus e (a response carrying one
   Set-Cookie header, a clock tick, clear, clear_domain, save+load, a query), and
   Judge(s, B, names, obs) compares what the code returned for a battery B of
   request URLs with what the reference store attaches, naming the violated clause.

   Hosts and domains are SEQUENCES OF LABELS (<<"a","example","com">>), paths are
   sequences of segments plus a trailing-slash flag; DomainMatch / PathMatch / IsIP
   are derived on those sequences, never on strings, so the reference cannot share
   an `endswith` / prefix mistake with the code.  The n-th Set-Cookie of a history is
   write n (wid); its value is normally the fresh integer n, so "which write produced
   the value I see" is observable.  A write may instead RE-SEND the value of an earlier
   write (same value, possibly other attributes): s5.3 step 11 replaces the stored cookie
   of that (name, domain, path), so the attributes of the latest write win.  s.vals[n] is
   the value of write n, s.fate[n] what became of it.

   Documented aiohttp behaviour that differs from a bare RFC store is a constant of
   the reference (record cf):
     cf.unsafe            FALSE: cookies from IP-address hosts are dropped and nothing
                          is sent to IP-address hosts (CookieJar(unsafe=False))
     no public-suffix list (Domain=com is accepted, also by the reference)
     a Domain attribute with a trailing dot is ignored (cookie becomes host-only;
                          cookiejar.py update_cookies "ignore domains with trailing dots")
     the shared ("","") bucket (update_cookies without URL) is outside the histories
   Mutants of the reference (for the self-test; TRUE in every property config):
     cf.hostOnlyEnforced  retrieval honours the host-only flag
     cf.saveHostOnly      save() persists the host-only flag
   Named deviations (DESIGN s2.5, "Dev_" actions), all FALSE in the property configuration.
   They describe, exactly, how cookiejar.py departs from the store model; a trace is
   re-judged with them only to CLASSIFY a failure that the property run reported:
     cf.hostOnlyKey   Dev_HostOnlyKey: the host-only flag is not a field of the cookie
                      but membership of (domain, name) in one side table
                      (_host_only_cookies): set when a cookie without Domain is stored,
                      not cleared when a Domain cookie is stored, dropped when ANY cookie
                      with that (domain, name) - whatever its path - is deleted
     cf.staleExpiry   Dev_StaleExpiry: the expiry table (_expirations) keeps the old
                      deadline when a cookie is replaced by one without Max-Age/Expires
     cf.pathAlias     Dev_PathAlias: cookie identity uses path.rstrip("/"), so Path=/p
                      and Path=/p/ share one slot
     cf.domainCase    Dev_DomainCase: the Domain attribute is compared case-sensitively
                      (s5.2.3 says: convert to lower case)
     cf.epochExpires  Dev_EpochExpires: an Expires date that parses to timestamp 0 (the classic
                      deletion header "Thu, 01 Jan 1970 00:00:00 GMT") is treated as unparsable,
                      i.e. as if the attribute were absent
     cf.badMaxAge     Dev_BadMaxAge: a Max-Age whose value is not a number (s5.2.2: ignore the
                      attribute) also hides a valid Expires of the same cookie; the expiry table
                      is left as it was (session cookie, or the deadline of the cookie it replaces)

   Session level (aiohttp/client.py ClientSession._request).  A request is a sequence of hops
   (the first URL, then every redirect target).  Event "Hop" is one request on the wire; the
   Cookie header of EVERY hop must be what the store attaches for that hop's URL at that
   time (s5.4), overridden per name by the per-request cookies (`cookies=` of the call), which
   travel with the request until a redirect leaves the origin (scheme, host) and are dropped
   from then on.  s.req holds the request in flight: origin of the last hop, the per-request
   cookies still carried (rc), those it started with (rc0), the last hop's URL.  A "Receive"
   with via = "session" is a Set-Cookie on the response to the last hop.
*)
EXTENDS Naturals, Integers, Sequences, FiniteSets, TLC

Session == 0          \* expiry of a non-persistent cookie
T0 == 10              \* model clock at the start of a history
EpochDate == 1        \* Expires = 1 Jan 1970 00:00:00 GMT (rendered literally; long before T0)

(* ---------------------------------------------------------------- domains *)
NumLabels == {"0", "1", "10"}
IsIP(h) == Len(h) = 4 /\ \A i \in 1..4 : h[i] \in NumLabels

IsLabelSuffix(d, h) ==
    Len(d) <= Len(h) /\ \A i \in 1..Len(d) : d[i] = h[Len(h) - Len(d) + i]

\* RFC 6265 s5.1.3: identical, or d is a suffix of h at a label boundary and h is a host name
DomainMatch(d, h) ==
    /\ Len(d) > 0
    /\ \/ h = d
       \/ Len(d) < Len(h) /\ IsLabelSuffix(d, h) /\ ~IsIP(h)

(* ------------------------------------------------------------------ paths *)
Root == [segs |-> <<>>, trail |-> TRUE]
MkPath(p) == IF p.segs = <<>> THEN Root ELSE [segs |-> p.segs, trail |-> p.trail]
IsSegPrefix(a, b) == Len(a) <= Len(b) /\ \A i \in 1..Len(a) : a[i] = b[i]

\* RFC 6265 s5.1.4 path-match of cookie-path c against request-path r:
\* identical; or c is a prefix of r and c ends in "/"; or c is a prefix of r and the
\* next character of r is "/".
PathMatch(c, r) ==
    /\ IsSegPrefix(c.segs, r.segs)
    /\ (c.trail /\ c.segs # <<>> /\ Len(r.segs) = Len(c.segs)) => r.trail

\* RFC 6265 s5.1.4 default-path of a request path
DefaultPath(r) ==
    IF r.segs = <<>> THEN Root
    ELSE IF r.trail THEN [segs |-> r.segs, trail |-> FALSE]
    ELSE LET m == SubSeq(r.segs, 1, Len(r.segs) - 1)
         IN IF m = <<>> THEN Root ELSE [segs |-> m, trail |-> FALSE]

StripTrail(p) == IF p.segs = <<>> THEN Root ELSE [segs |-> p.segs, trail |-> FALSE]

SecureScheme(sch) == sch \in {"https", "wss"}

(* ------------------------------------------------------------------ store *)
NoReq == [active |-> FALSE, origin |-> <<>>, rc |-> <<>>, rc0 |-> <<>>, last |-> <<>>]
Init0(cf) == [cf |-> cf, store |-> {}, now |-> T0, fate |-> <<>>, vals |-> <<>>, hok |-> {}, req |-> NoReq]

\* cf.hosts / cf.paths: the lattice of the run.  Each stored cookie carries okH / okP, the hosts and
\* paths of the lattice it domain-matches / path-matches, computed ONCE when it is stored (with
\* DomainMatch / PathMatch below); retrieval for a lattice URL is then a membership test.  This is
\* only a cache: URLs outside the lattice are matched directly.
PropertyCf(unsafe, hosts, paths) ==
    [unsafe |-> unsafe, hosts |-> hosts, paths |-> paths, hostOnlyEnforced |-> TRUE, saveHostOnly |-> TRUE,
     hostOnlyKey |-> FALSE, staleExpiry |-> FALSE, pathAlias |-> FALSE, domainCase |-> FALSE,
     epochExpires |-> FALSE, badMaxAge |-> FALSE]

Expired(c, now) == c.expiry # Session /\ c.expiry <= now

\* the host-only flag as the store sees it
HOflag(s, c) == IF s.cf.hostOnlyKey THEN <<c.domain, c.name>> \in s.hok ELSE c.hostOnly
HOeff(s, c) == s.cf.hostOnlyEnforced /\ HOflag(s, c)

SetFate(f, wids, why) == [i \in 1..Len(f) |-> IF i \in wids THEN why ELSE f[i]]

Delete(s, D, why) ==
    [s EXCEPT !.store = s.store \ D,
              !.hok = s.hok \ {<<c.domain, c.name>> : c \in D},
              !.fate = SetFate(s.fate, {c.wid : c \in D}, why)]

\* s5.3 "remove all expired cookies"
Purge(s) ==
    LET D == {c \in s.store : Expired(c, s.now)}
    IN IF D = {} THEN s ELSE Delete(s, D, "expired")

SameId(s, c, name, dom, path) ==
    /\ c.name = name
    /\ c.domain = dom
    /\ IF s.cf.pathAlias THEN StripTrail(c.path) = StripTrail(path) ELSE c.path = path

Reject(s, e, why) == [s EXCEPT !.fate = Append(s.fate, why), !.vals = Append(s.vals, e.val)]

\* s5.2 + s5.3: one Set-Cookie header received in a response from e.host, e.path
DoReceive(s, e) ==
    LET host == e.host
        da == e.dom
        \* s5.2.3: empty value -> attribute ignored; leading dot dropped (already not part of
        \* da.labels); lower-casing (da.up is only spelling).  Trailing dot: aiohttp constant.
        useAttr == da.present /\ ~da.trail /\ da.labels # <<>>
        dom == IF useAttr THEN da.labels ELSE host
        ho == ~useAttr
    IN
    IF IsIP(host) /\ ~s.cf.unsafe THEN Reject(s, e, "rejected-ip")
    ELSE IF useAttr /\ ~DomainMatch(dom, host) THEN Reject(s, e, "rejected-domain")     \* s5.3 step 6
    ELSE IF s.cf.domainCase /\ useAttr /\ da.up THEN Reject(s, e, "rejected-domain")    \* Dev_DomainCase
    ELSE
        LET path == IF e.pth.present THEN MkPath(e.pth) ELSE DefaultPath(e.path)  \* s5.2.4 / s5.3 step 7
            old == {c \in s.store : SameId(s, c, e.name, dom, path)}
            \* e.maxage: -1 absent, -2 present but not a number (s5.2.2: ignore the attribute), else seconds
            \* e.expires: 0 absent, else an absolute model time (EpochDate = "1 Jan 1970", long ago)
            inherit == IF old # {} THEN (CHOOSE c \in old : TRUE).expiry ELSE Session
            expiry == IF e.maxage >= 0 THEN s.now + e.maxage             \* s5.2.2, wins over Expires
                      ELSE IF e.maxage = -2 /\ e.expires # 0 /\ s.cf.badMaxAge THEN inherit   \* Dev_BadMaxAge
                      ELSE IF e.expires # 0 /\ ~(s.cf.epochExpires /\ e.expires = EpochDate)
                           THEN e.expires                                 \* s5.2.1
                      ELSE IF s.cf.staleExpiry THEN inherit               \* Dev_StaleExpiry
                      ELSE Session
            new == [name |-> e.name, domain |-> dom, hostOnly |-> ho, path |-> path,
                    secure |-> e.secure, expiry |-> expiry, value |-> e.val, wid |-> Len(s.fate) + 1,
                    setter |-> host,
                    okH |-> {h \in s.cf.hosts : DomainMatch(dom, h)},
                    okP |-> {q \in s.cf.paths : PathMatch(path, q)}]
            s1 == [s EXCEPT !.store = (s.store \ old) \cup {new},            \* s5.3 step 11
                            !.fate = Append(SetFate(s.fate, {c.wid : c \in old}, "overwritten"), "live"),
                            !.vals = Append(s.vals, e.val),
                            !.hok = IF ho THEN s.hok \cup {<<dom, e.name>>} ELSE s.hok]
        IN Purge(s1)

\* save() then load(): loaded cookies pass through the acceptance rules again
DoSaveLoad(s) ==
    LET saved == {[c EXCEPT !.hostOnly = (s.cf.saveHostOnly /\ HOflag(s, c))] : c \in s.store}
        kept == {c \in saved : ~IsIP(c.domain) \/ s.cf.unsafe}
        lost == {c.wid : c \in {x \in saved : IsIP(x.domain) /\ ~s.cf.unsafe}}
    IN [s EXCEPT !.store = kept,
                 !.hok = {<<c.domain, c.name>> : c \in {x \in kept : x.hostOnly}},
                 !.fate = SetFate(s.fate, lost, "cleared")]

\* one request on the wire.  start: the first hop of a new request (carrying its per-request
\* cookies e.rc); otherwise a redirect target: leaving the origin drops the per-request cookies.
Origin(e) == <<e.scheme, e.host>>
UrlOf(e) == <<e.host, MkPath(e.path), e.scheme>>
ZeroRow(r) == [i \in 1..Len(r) |-> 0]
DoHop(s, e) ==
    IF e.start
    THEN [s EXCEPT !.req = [active |-> TRUE, origin |-> Origin(e), rc |-> e.rc, rc0 |-> e.rc, last |-> UrlOf(e)]]
    ELSE [s EXCEPT !.req.rc = IF Origin(e) = s.req.origin THEN s.req.rc ELSE ZeroRow(s.req.rc),
                   !.req.origin = Origin(e), !.req.last = UrlOf(e)]

Step(s, e) ==
    CASE e.ev = "Receive" -> DoReceive(s, e)
      [] e.ev = "Tick" -> Purge([s EXCEPT !.now = s.now + e.n])
      [] e.ev = "Clear" -> [Delete(s, s.store, "cleared") EXCEPT !.hok = {}]
      \* documented: "remove all cookies that belong to the domain or its subdomains"
      [] e.ev = "ClearDomain" -> Delete(s, {c \in s.store : DomainMatch(e.d, c.domain)}, "cleared")
      [] e.ev = "SaveLoad" -> DoSaveLoad(s)
      [] e.ev = "Hop" -> DoHop(s, e)
      [] OTHER -> s

IsRejected(s, e) == e.ev = "Receive" /\ LET f == Step(s, e).fate IN f[Len(f)] \in {"rejected-ip", "rejected-domain"}

Legal(s, e) ==
    \* a fresh value (the write's own number) or the value of an earlier write
    CASE e.ev = "Receive" -> /\ e.val >= 1 /\ e.val <= Len(s.fate) + 1 /\ e.maxage >= -2 /\ e.expires >= 0
                             \* a Set-Cookie of the session's response belongs to the hop just sent
                             /\ e.via = "session" => (s.req.active /\ s.req.last = UrlOf(e))
      [] e.ev = "Hop" -> e.start \/ s.req.active
      [] e.ev = "Tick" -> e.n >= 1
      [] e.ev \in {"Clear", "ClearDomain", "SaveLoad", "Query"} -> TRUE
      [] OTHER -> FALSE

(* ---------------------------------------------------------- s5.4 retrieval *)
InDomain(s, c, h) == IF h \in s.cf.hosts THEN h \in c.okH ELSE DomainMatch(c.domain, h)
OnPath(s, c, p) == IF p \in s.cf.paths THEN p \in c.okP ELSE PathMatch(c.path, p)
DomOK(s, c, h) == IF HOeff(s, c) THEN h = c.domain ELSE InDomain(s, c, h)

Retrieve(s, q) ==
    IF IsIP(q.host) /\ ~s.cf.unsafe THEN {}
    ELSE {c \in s.store : /\ DomOK(s, c, q.host)
                          /\ OnPath(s, c, q.path)
                          /\ (c.secure => SecureScheme(q.scheme))
                          /\ ~Expired(c, s.now)}

(* --------------------------------------------------------------- judging *)
\* why value v must not appear under `name` in the answer to q
LeakName(s, q, name, v) ==
    LET writes == {w \in 1..Len(s.vals) : s.vals[w] = v} IN
    IF writes = {} THEN "Conservation"
    ELSE LET live == {c \in s.store : c.value = v /\ c.name = name} IN
         IF live = {} THEN
             IF \E c \in s.store : c.value = v THEN "Conservation"      \* a value of another name
             ELSE LET w == CHOOSE x \in writes : \A y \in writes : y <= x    \* the latest write of v
                  IN CASE s.fate[w] = "expired" -> "ExpiredSent"
                       [] s.fate[w] = "rejected-domain" -> "CrossSiteWrite"
                       [] s.fate[w] = "rejected-ip" -> "IPCookieStored"
                       [] s.fate[w] = "overwritten" -> "StaleValue"
                       [] s.fate[w] = "cleared" -> "ClearedSent"
                       [] OTHER -> "Conservation"
         ELSE LET c == CHOOSE x \in live : \A y \in live : y.wid <= x.wid IN
              IF IsIP(q.host) /\ ~s.cf.unsafe THEN "IPLeak"
              ELSE IF ~DomainMatch(c.domain, q.host) THEN "DomainLeak"
              ELSE IF HOeff(s, c) /\ q.host # c.domain THEN "HostOnlyLeak"
              ELSE IF ~PathMatch(c.path, q.path) THEN "PathLeak"
              ELSE IF c.secure /\ ~SecureScheme(q.scheme) THEN "SecureLeak"
              ELSE IF Expired(c, s.now) THEN "ExpiredSent"
              ELSE "Conservation"

\* ob[k] = value returned for names[k], 0 = no cookie of that name returned.  Where several
\* cookies of one name are sendable (different domain/path) the code returns one of them;
\* any of them is accepted (the property is about scoping, not about ordering).
QClause(s, q, ob, names) ==
    LET R == Retrieve(s, q)
        cl == [k \in 1..Len(names) |->
                  LET S == {c.value : c \in {x \in R : x.name = names[k]}} IN
                  IF ob[k] = 0 THEN (IF S = {} THEN "" ELSE "UnderSend")
                  ELSE IF ob[k] \in S THEN ""
                  ELSE LeakName(s, q, names[k], ob[k])]
        leaks == {k \in 1..Len(names) : cl[k] \notin {"", "UnderSend"}}
        unders == {k \in 1..Len(names) : cl[k] = "UnderSend"}
    IN IF leaks # {} THEN cl[CHOOSE k \in leaks : \A j \in leaks : k <= j]
       ELSE IF unders # {} THEN "UnderSend" ELSE ""

\* fast path: the answer to q is exactly what the reference allows
QOk(s, q, ob, names) ==
    LET R == Retrieve(s, q)
    IN \A k \in 1..Len(names) :
          IF ob[k] = 0 THEN \A c \in R : c.name # names[k]
          ELSE \E c \in R : c.name = names[k] /\ c.value = ob[k]

\* whole battery: a leak anywhere is reported before an under-send
Judge(s, B, names, obs) ==
    IF Len(obs) # Len(B) THEN [bad |-> "BatteryShape", at |-> 0]
    ELSE IF \A i \in 1..Len(B) : QOk(s, B[i], obs[i], names) THEN [bad |-> "", at |-> 0]
    ELSE LET wrong == {i \in 1..Len(B) : ~QOk(s, B[i], obs[i], names)}
             leaks == {i \in wrong : QClause(s, B[i], obs[i], names) # "UnderSend"}
         IN IF leaks # {} THEN LET i == CHOOSE i \in leaks : \A j \in leaks : i <= j
                               IN [bad |-> QClause(s, B[i], obs[i], names), at |-> i]
            ELSE [bad |-> "UnderSend", at |-> CHOOSE i \in wrong : \A j \in wrong : i <= j]

\* the Cookie header of a hop: per-request cookies still carried override the store, name by name
HopClause(s, q, ob, names) ==
    LET rc == s.req.rc
        Carried(k) == IF k \in DOMAIN rc THEN rc[k] ELSE 0
        Started(k) == IF k \in DOMAIN s.req.rc0 THEN s.req.rc0[k] ELSE 0
        R == Retrieve(s, q)
        cl == [k \in 1..Len(names) |->
                  IF Carried(k) # 0 THEN (IF ob[k] = Carried(k) THEN "" ELSE "ReqCookieLost")
                  ELSE IF ob[k] # 0 /\ ob[k] = Started(k) THEN "ReqCookieLeak"   \* sent on after leaving the origin
                  ELSE LET S == {c.value : c \in {x \in R : x.name = names[k]}} IN
                       IF ob[k] = 0 THEN (IF S = {} THEN "" ELSE "UnderSend")
                       ELSE IF ob[k] \in S THEN ""
                       ELSE LeakName(s, q, names[k], ob[k])]
        leaks == {k \in 1..Len(names) : cl[k] \notin {"", "UnderSend"}}
        unders == {k \in 1..Len(names) : cl[k] = "UnderSend"}
    IN IF leaks # {} THEN cl[CHOOSE k \in leaks : \A j \in leaks : k <= j]
       ELSE IF unders # {} THEN "UnderSend" ELSE ""

(* Apply: one recorded event.  e.obs is the battery answer taken after the action
   (for ev = "Query": the single answer to the event's own URL, e.g. the Cookie
   header a real ClientSession sent).                                           *)
Apply(s, e, B, names) ==
    IF ~Legal(s, e) THEN [s |-> s, bad |-> "IllegalStimulus", at |-> 0]
    ELSE IF e.ev = "Hop" THEN
        LET s2 == Step(s, e)
        IN [s |-> s2, at |-> 0,
            bad |-> HopClause(s2, [host |-> e.host, path |-> MkPath(e.path), scheme |-> e.scheme], e.obs[1], names)]
    ELSE LET s2 == Step(s, e)
             j == IF e.ev = "Query"
                  THEN Judge(s2, <<[host |-> e.host, path |-> MkPath(e.path), scheme |-> e.scheme]>>, names, e.obs)
                  ELSE Judge(s2, B, names, e.obs)
             \* a write the reference refuses had an observable effect on somebody's cookies
             b == IF j.bad = "UnderSend" /\ IsRejected(s, e) THEN "CrossSiteWrite" ELSE j.bad
         IN [s |-> s2, bad |-> b, at |-> j.at]

(* ------------------------------------------------------------------------ *)
(* Invariants of the reference itself (TLC checks them on the bounded model) *)
\* a cookie reaches host q only if q lies in the cookie's domain, the response that stored it
\* came from a host in that same domain, and host-only cookies go back to the storing host only
NoCrossSiteRead(s, B) ==
    \A i \in 1..Len(B) : \A c \in Retrieve(s, B[i]) :
        /\ DomainMatch(c.domain, B[i].host)
        /\ DomainMatch(c.domain, c.setter)
        /\ c.hostOnly => (B[i].host = c.setter /\ c.domain = c.setter)
NoExpired(s, B) ==
    /\ \A c \in s.store : ~Expired(c, s.now)
    /\ \A i \in 1..Len(B) : \A c \in Retrieve(s, B[i]) : c.expiry = Session \/ c.expiry > s.now
SecureOnlyOnSecure(s, B) ==
    \A i \in 1..Len(B) : \A c \in Retrieve(s, B[i]) : c.secure => B[i].scheme \in {"https", "wss"}
PathScoped(s, B) ==
    \A i \in 1..Len(B) : \A c \in Retrieve(s, B[i]) : PathMatch(c.path, B[i].path)
NoIPUnlessUnsafe(s, B) ==
    s.cf.unsafe \/ (\A c \in s.store : ~IsIP(c.domain) /\ ~IsIP(c.setter))
SaveLoadIsIdentity(s, B) ==
    LET t == DoSaveLoad(s)
        Sent(st, q) == {<<c.name, c.value>> : c \in Retrieve(st, q)}
    IN \A i \in 1..Len(B) : Sent(t, B[i]) = Sent(s, B[i])
\* a response from host h adds, replaces or removes only cookies whose domain h domain-matches
WriteConfined(s, s2, h) ==
    \A c \in (s.store \ s2.store) \cup (s2.store \ s.store) : DomainMatch(c.domain, h)
=============================================================================
