SPECIFICATION Spec
CONSTANTS
  Part = "a"
  MaxLen = 4
  GzLen = 2
  Space = "factored"
  RefMode = "ideal"
  SuffixClamp = TRUE
INVARIANT InvTree
INVARIANT InvA_Oracle
INVARIANT InvA_NoLinkNoEscape
INVARIANT InvA_LexPhys
INVARIANT InvA_Canonical
INVARIANT InvA_LegitViaLink
INVARIANT InvA_TargetOk
VIEW View
CHECK_DEADLOCK FALSE
