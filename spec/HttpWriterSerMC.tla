--------------------------- MODULE HttpWriterSerMC ---------------------------
(* Bounded model for C04 part (a), SerializeRule: every position x every string
   of classes up to MaxLen.
     InvTodayAllowed      what today's code does (refinement table) satisfies the
                          property, and each documented encoding decodes back;
     InvDecisive          a CR or LF written as is in a raw position is rejected
                          by the property ...
     InvInjectionVisible  ... because the independent splitter then sees another
                          line structure than the supplied one (and only then);
     InvRoundTrip         without CR/LF the splitter recovers exactly the supplied
                          start line and one field line per supplied header.     *)
EXTENDS HttpWriter

CONSTANTS MaxLen,        \* longest class string
          MutA           \* "" | "lf-only" (seeded: _safe_header forgets CR) | "dollar-anchor" | "size-chars"

(* ------------------------------------------------------------------------ *)
VARIABLES pos, place, str
varsA == <<pos, place, str>>

\* where the supplied string sits inside its token: between harmless characters of the same
\* token ("mid"), first ("start"), last ("end"), or the token is the string ("whole")
Places == {"mid", "start", "end", "whole"}

A(x) == <<x>>
Asc(t) == t                     \* byte strings are written as tuples below

RefusedPlain(p, cls) ==
    \E k \in 1..Len(cls) :
        cls[k] \in (IF MutA = "lf-only" /\ TodayEnc(p) = "raw" THEN TodayRefuses(p) \ {"CR"} ELSE TodayRefuses(p))
\* seeded "dollar-anchor": names are validated with a regex anchored by `$`, which also matches
\* before one final line feed - visible only when the string ends the token
Refused(p, cls) ==
    IF MutA = "dollar-anchor" /\ p \in {"name", "part-name"} /\ place \in {"end", "whole"}
       /\ cls # <<>> /\ cls[Len(cls)] = "LF"
    THEN RefusedPlain(p, SubSeq(cls, 1, Len(cls) - 1))
    ELSE RefusedPlain(p, cls)

\* today's encoders (only used to let the model produce what the code produces)
IsAlnum(c) == (c >= 48 /\ c <= 57) \/ (c >= 65 /\ c <= 90) \/ (c >= 97 /\ c <= 122)
Oct3(c) == <<48 + (c \div 64), 48 + ((c \div 8) % 8), 48 + (c % 8)>>
HexUp(d) == IF d < 10 THEN 48 + d ELSE 55 + d
RECURSIVE PctEnc(_, _)
PctEnc(b, i) == IF i > Len(b) THEN <<>>
                ELSE (IF IsAlnum(b[i]) THEN <<b[i]>> ELSE <<37, HexUp(b[i] \div 16), HexUp(b[i] % 16)>>) \o PctEnc(b, i + 1)
RECURSIVE CkEnc(_, _)
CkEnc(c, i) == IF i > Len(c) THEN <<>>
               ELSE (IF c[i] = 34 \/ c[i] = 92 THEN <<92, c[i]>>
                     ELSE IF c[i] < 256 /\ ~IsAlnum(c[i]) THEN <<92>> \o Oct3(c[i])
                     ELSE U8Enc(c[i])) \o CkEnc(c, i + 1)
RECURSIVE QsEnc(_, _)
QsEnc(c, i) == IF i > Len(c) THEN <<>>
               ELSE (IF ~IsAlnum(c[i]) THEN <<92, c[i]>> ELSE <<c[i]>>) \o QsEnc(c, i + 1)

Encode(enc, sup) ==
    CASE enc = "raw" -> U8EncSeq(sup)
      [] enc = "pct" -> PctEnc(U8EncSeq(sup), 1)
      [] enc = "cookie" -> IF \A k \in 1..Len(sup) : IsAlnum(sup[k]) THEN U8EncSeq(sup)
                           ELSE <<34>> \o CkEnc(sup, 1) \o <<34>>
      [] enc = "qs" -> U8EncSeq(QsEnc(sup, 1))

InStart(p) == p \in {"method", "target", "reason"}
InName(p) == p \in {"name", "cookie-name", "part-name"}

\* one other header before and one after the tested one
F1 == <<<<72, 111, 115, 116>>, <<104>>>>            \* Host: h
F3 == <<<<65>>, <<98>>>>                            \* A: b
TokA == IF place \in {"mid", "end"} THEN <<97>> ELSE <<>>        \* "a" before the string, same token
TokB == IF place \in {"mid", "start"} THEN <<98>> ELSE <<>>      \* "b" after it
SPre(p) == IF InStart(p) THEN <<83, 32>>                          \* "S "
           ELSE IF InName(p) THEN <<>>                            \* a field name starts its line
           ELSE IF p = "form-filename" \/ p = "form-name" THEN <<88, 58, 32, 110, 61, 34>>     \* X: n="
           ELSE <<88, 58, 32>>                                    \* "X: "
SPost(p) == IF InStart(p) THEN <<32, 69>>                         \* " E"
            ELSE IF InName(p) THEN <<58, 32, 118>>                \* ": v"
            ELSE IF p = "form-filename" \/ p = "form-name" THEN <<34>>
            ELSE <<>>                                             \* a field value ends its line
PreOf(p) == SPre(p) \o TokA
PostOf(p) == TokB \o SPost(p)
WireWith(p, mid) ==
    LET ln == PreOf(p) \o mid \o PostOf(p) IN
    IF InStart(p) THEN ln \o CRLF \o JoinFields(<<F1, F3>>, 1) \o CRLF
    ELSE <<83>> \o CRLF \o JoinFields(<<F1>>, 1) \o ln \o CRLF \o JoinFields(<<F3>>, 1) \o CRLF
NFields(p) == IF InStart(p) THEN 2 ELSE 3
LineOf(p) == IF InStart(p) THEN 1 ELSE 3

\* positions inside a multipart body: the writer also declares a size for what it writes.
\* seeded "size-chars": the header block is measured in characters, not in UTF-8 bytes
InBody(p) == p \in {"part-name", "part-value", "form-name", "form-filename"}
DeclaredSize(p, cls, enc, wire) ==
    IF ~InBody(p) \/ wire = <<>> THEN -1
    ELSE IF MutA = "size-chars" /\ enc = "raw" THEN Len(wire) - (Len(U8EncSeq(RepSeq(cls))) - Len(cls))
    ELSE Len(wire)
Event(p, cls, out, enc, wire) ==
    [out |-> out, wire |-> wire, sup |-> RepSeq(cls), enc |-> enc, line |-> LineOf(p),
     pre |-> PreOf(p), post |-> PostOf(p), nfields |-> NFields(p), body |-> <<>>, unit |-> "head",
     psize |-> DeclaredSize(p, cls, enc, wire)]

TodayEvent(p, cls) ==
    IF Refused(p, cls) THEN Event(p, cls, "refused", TodayEnc(p), <<>>)
    ELSE Event(p, cls, "emitted", TodayEnc(p), WireWith(p, Encode(TodayEnc(p), RepSeq(cls))))
RawEmitEvent(p, cls) == Event(p, cls, "emitted", "raw", WireWith(p, U8EncSeq(RepSeq(cls))))

HasNL(cls) == \E k \in 1..Len(cls) : cls[k] \in {"CR", "LF"}

\* an encoded token is encoded as a whole: no raw neighbours inside the quotes
InitA == pos \in Positions /\ place \in Places /\ (TodayEnc(pos) # "raw" => place = "whole") /\ str = <<>>
Extend(c) == Len(str) < MaxLen /\ str' = Append(str, c) /\ UNCHANGED <<pos, place>>
NextA == \E c \in Classes : Extend(c)
SpecA == InitA /\ [][NextA]_varsA

InvTodayAllowed == SerClause(TodayEvent(pos, str)) = ""
InvDecisive == HasNL(str) => SerClause(RawEmitEvent(pos, str)) = "CRLFEmitted"
InvInjectionVisible ==
    LET h == SplitHead(RawEmitEvent(pos, str).wire)
        hit == ~h.ok \/ Len(h.lines) # 1 + NFields(pos)
               \/ (\E k \in 1..Len(h.lines) : HasCRorLF(h.lines[k]))
               \/ Drop(RawEmitEvent(pos, str).wire, h.body - 1) # <<>>
    IN HasNL(str) <=> hit
InvRoundTrip ==
    (~HasNL(str)) =>
        LET e == RawEmitEvent(pos, str)
            h == SplitHead(e.wire)
        IN h.ok /\ Len(h.lines) = 1 + NFields(pos)
           /\ h.lines[LineOf(pos)] = PreOf(pos) \o U8EncSeq(RepSeq(str)) \o PostOf(pos)
           /\ U8Dec(U8EncSeq(RepSeq(str))) = RepSeq(str)

=============================================================================
