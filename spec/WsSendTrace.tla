---------------------------- MODULE WsSendTrace -----------------------------
(* C11 - trace validation: real WebSocketWriter -> bytes -> real WebSocketReader.

   One trace = one execution of 1..3 sender tasks (and cancellations) against one real
   WebSocketWriter on the stepping loop; the bytes it wrote were piped into real
   WebSocketReaders in several segmentations.
     cfg.mask / compress (0 | 9..15) / notakeover      writer configuration
     cfg.sent[id] = [sender, seq, op, key, ovr]         what was passed to send_frame
                    key = [len, small (payload if len <= 256 else <<>>), dig (digest string)]
     cfg.wire      all bytes given to transport.write, in order (cfg.wirefull; for
                   multi-megabyte executions only cfg.wirelen is recorded)
     cfg.runs[k] = [seg, recv (sequence of [t, key] read from the reader's queue), rerr]
                   rerr: 0 none | close code | 1 exception without a close code
     events        chronological: [ev |-> "call" | "end", id, how, mut]   how: returned|cancelled|raised
                   mut: the payload object (bytes / bytearray / memoryview, possibly sent twice) no longer
                   equals what the caller put in it (compared by the harness before and after each send)

   Phase 1  events        call/end discipline; no data frame accepted after close() returned
   Phase 2  wire          the WsFrames reference reader parses cfg.wire (one unit per step):
                          no RFC 6455 violation, FIN set, mask bit = cfg.mask, minimal length
                          encoding, RSV1 never on control frames (reference rule) and only on
                          messages that were to be compressed
   Phase 3  every run     identical payloads, exactly once, per-sender order, no reader error,
                          frame k of the wire is message k of the reader

   Clauses: CallProtocol, CallerBufferMutated, AcceptedAfterClose, WireInvalid:<rule>, WireFragmented, MaskBit,
   LengthNotMinimal, Rsv1Unexpected, DeflateTailNotRemoved, SendFailed, CallNeverEnded, WireTruncated, ReaderError, PayloadCorrupted,
   UnknownMessage, Duplicate, PerSenderOrder, Lost, SentAlthoughRaised, FrameCountMismatch,
   WireTypeMismatch, WirePayloadMismatch,
   and, each under its own name so that a known finding can match exactly:
     DecodeAfterOverrideTakeover   wrong payload / inflate error on a message that follows a
                                   per-message compress= override under context takeover
     DataAfterCloseOnWire          a data frame was written after the Close frame            *)
EXTENDS WsFrames, TraceBatch

VARIABLES tid, l, phase, status, closed, ccall, late, cpos, epos, r, frames, bad

tvars == <<tid, l, phase, status, closed, ccall, late, cpos, epos, r, frames, bad>>

Sent(t) == Cfg(t).sent
NSent(t) == Len(Cfg(t).sent)
WireC == [compress |-> TRUE, decode |-> FALSE, max |-> 0]
\* framing only: the deflate payload is opaque here (the round trip is judged in phase 3)
\* (its `out` is the last 4 bytes of the compressed payload, for the tail rule of RFC 7692 7.2.1)
DummyInfl(k, full) == [has |-> TRUE, inp |-> full \o DeflateTail, ok |-> TRUE, outlen |-> 0,
                       utf8 |-> TRUE, full |-> TRUE,
                       out |-> SubSeq(full, IF Len(full) > 4 THEN Len(full) - 3 ELSE 1, Len(full))]

TInit ==
    /\ tid \in 1..NTraces
    /\ l = 0 /\ phase = "events"
    /\ status = [i \in 1..NSent(tid) |-> "none"]
    /\ closed = FALSE /\ ccall = FALSE /\ late = {}
    /\ cpos = [i \in 1..NSent(tid) |-> 0] /\ epos = [i \in 1..NSent(tid) |-> 0]   \* event index of call / end
    /\ r = Init0 /\ frames = <<>> /\ bad = ""
    /\ Verdict(tid, 0, "", <<>>)

Stop(clause, info) ==
    /\ bad' = clause
    /\ UNCHANGED <<tid, l, phase, status, closed, ccall, late, cpos, epos, r, frames>>
    /\ Verdict(tid, l, clause, info)

(* ------------------------------------------------------------ phase 1: events -- *)
EventStep ==
    /\ phase = "events"
    /\ IF l = NEvents(tid) /\ \E i \in 1..NSent(tid) : status[i] = "called" THEN Stop("CallNeverEnded", <<>>)
       ELSE IF l = NEvents(tid) THEN
          /\ phase' = IF Cfg(tid).wirefull THEN "wire" ELSE "final"
          /\ UNCHANGED <<tid, l, status, closed, ccall, late, cpos, epos, r, frames, bad>>
          /\ Verdict(tid, l, "", <<>>)
       ELSE \E e \in {Events(tid)[l + 1]} :
          LET m == Sent(tid)[e.id]
              clause == IF e.ev = "call" /\ status[e.id] # "none" THEN "CallProtocol"
                        ELSE IF e.ev = "end" /\ status[e.id] # "called" THEN "CallProtocol"
                        \* the object handed to send_frame still holds what the caller put there
                        ELSE IF e.mut THEN "CallerBufferMutated"
                        ELSE IF e.ev = "end" /\ e.how = "returned" /\ m.op \in {1, 2} /\ e.id \in late THEN "AcceptedAfterClose"
                        \* send_frame may refuse a message only once the connection is being closed
                        ELSE IF e.ev = "end" /\ e.how = "raised" /\ ~ccall THEN "SendFailed"
                        ELSE ""
          IN IF clause # "" THEN Stop(clause, <<e.id>>)
             ELSE /\ status' = [status EXCEPT ![e.id] = IF e.ev = "call" THEN "called" ELSE e.how]
                  /\ closed' = (closed \/ (e.ev = "end" /\ m.op = 8))
                  /\ late' = IF e.ev = "call" /\ closed THEN late \cup {e.id} ELSE late
                  /\ ccall' = (ccall \/ (e.ev = "call" /\ m.op = 8))
                  /\ cpos' = IF e.ev = "call" THEN [cpos EXCEPT ![e.id] = l + 1] ELSE cpos
                  /\ epos' = IF e.ev = "end" THEN [epos EXCEPT ![e.id] = l + 1] ELSE epos
                  /\ l' = l + 1
                  /\ UNCHANGED <<tid, phase, r, frames, bad>>
                  /\ Verdict(tid, l + 1, "", <<>>)

(* -------------------------------------------------------------- phase 2: wire --- *)
FrameRec(rr, out) ==
    [op |-> out.m.t, rsv1 |-> rr.rsv1, len |-> rr.need,
     data |-> IF rr.rsv1 \/ rr.need <= 256 THEN out.m.data ELSE <<>>,   \* compressed: last 4 bytes
     code |-> out.m.code]

WireStep ==
    /\ phase = "wire"
    /\ LET S == Cfg(tid).wire
           n == Len(S)
       IN IF ~CanStep(r, n) THEN
             IF r.pos # n \/ r.ph # "H" THEN Stop("WireTruncated", <<r.pos, n>>)
             ELSE /\ phase' = "final"
                  /\ UNCHANGED <<tid, l, status, closed, ccall, late, cpos, epos, r, frames, bad>>
                  /\ Verdict(tid, l, "", <<>>)
          ELSE \E st \in {Step(r, S, n, WireC, DummyInfl, FALSE)} :
             LET rr == st.r
                 hdrDone == r.ph \in {"H", "L16", "L64"} /\ rr.ph \in {"M", "P"}
                 clause ==
                     IF Failed(rr) THEN "WireInvalid:" \o rr.why
                     ELSE IF r.ph = "H" /\ ~rr.fin THEN "WireFragmented"
                     ELSE IF r.ph = "H" /\ rr.masked # Cfg(tid).mask THEN "MaskBit"
                     ELSE IF hdrDone /\ rr.enc # MinimalEnc(rr.need) THEN "LengthNotMinimal"
                     ELSE ""
             IN IF clause # "" THEN Stop(clause, <<rr.hstart, rr.nframes>>)
                ELSE /\ r' = rr
                     /\ frames' = IF st.out.k = "msg" THEN Append(frames, FrameRec(r, st.out)) ELSE frames
                     /\ UNCHANGED <<tid, l, phase, status, closed, ccall, late, cpos, epos, bad>>
                     /\ Verdict(tid, l, "", <<>>)

(* ------------------------------------------------------------- phase 3: final --- *)
KeyEq(a, b) == a.len = b.len /\ a.small = b.small /\ a.dig = b.dig

\* identify the received messages: ids[k] = index in cfg.sent of recv[k] (0 = no such message)
RECURSIVE Assign(_, _, _)
Assign(recv, k, ids) ==
    IF k > Len(recv) THEN ids
    ELSE LET cands == {i \in 1..NSent(tid) : /\ Sent(tid)[i].op = recv[k].t
                                              /\ KeyEq(Sent(tid)[i].key, recv[k].key)
                                              /\ \A j \in 1..Len(ids) : ids[j] # i}
             \* identical payloads: prefer a message whose send_frame was actually entered
             live == {i \in cands : status[i] \in {"returned", "cancelled"}}
             pool0 == IF live # {} THEN live ELSE cands
             \* ... and, a buffer may be sent twice, one that keeps its sender's messages in order
             inOrder == {i \in pool0 : \A j \in 1..Len(ids) :
                             (ids[j] # 0 /\ Sent(tid)[ids[j]].sender = Sent(tid)[i].sender)
                                 => Sent(tid)[ids[j]].seq < Sent(tid)[i].seq}
             pool == IF inOrder # {} THEN inOrder ELSE pool0
             pick == IF cands = {} THEN 0 ELSE CHOOSE i \in pool : \A j \in pool : i <= j
         IN Assign(recv, k + 1, Append(ids, pick))

\* The named deviation (DESIGN section 5 item 10): the message at position k went wrong although every
\* per-message-override send received before it had RETURNED before the send of any message that
\* position k could be (sequential use).  An override frame that overtook a concurrent send is not it.
AfterOverride(ids, k, cands) ==
    LET ovs == {ids[j] : j \in {x \in 1..(k - 1) : ids[x] # 0 /\ Sent(tid)[ids[x]].ovr > 0}} IN
    /\ Cfg(tid).compress > 0 /\ ~Cfg(tid).notakeover
    /\ ovs # {}
    /\ \A o \in ovs : \A c \in cands : epos[o] > 0 /\ cpos[c] > epos[o]

\* sent messages (send_frame entered) not identified among the received ones that could be message x
Unmatched(ids, x) ==
    {i \in 1..NSent(tid) : /\ cpos[i] > 0 /\ \A j \in 1..Len(ids) : ids[j] # i
                            /\ (x.t = 0 \/ (Sent(tid)[i].op = x.t /\ Sent(tid)[i].key.len = x.key.len))}

RunClause2(run, ids) ==
    LET recv == run.recv
        n == Len(recv)
        unknown == {k \in 1..n : ids[k] = 0}
        firstUnknown == CHOOSE k \in unknown : \A j \in unknown : k <= j
        S == Sent(tid)
    IN
    IF unknown # {} THEN
        (IF AfterOverride(ids, firstUnknown, Unmatched(ids, recv[firstUnknown])) THEN "DecodeAfterOverrideTakeover"
         ELSE IF \E i \in 1..NSent(tid) : S[i].op = recv[firstUnknown].t /\ KeyEq(S[i].key, recv[firstUnknown].key)
              THEN "Duplicate"
         ELSE IF \E i \in 1..NSent(tid) : S[i].op = recv[firstUnknown].t /\ S[i].key.len = recv[firstUnknown].key.len
              THEN "PayloadCorrupted" ELSE "UnknownMessage")
    ELSE IF run.rerr # 0 THEN (IF AfterOverride(ids, n + 1, Unmatched(ids, [t |-> 0])) THEN "DecodeAfterOverrideTakeover" ELSE "ReaderError")
    ELSE IF \E i, j \in 1..n : i < j /\ S[ids[i]].sender = S[ids[j]].sender /\ S[ids[i]].seq >= S[ids[j]].seq
         THEN "PerSenderOrder"
    ELSE IF \E i \in 1..NSent(tid) : status[i] = "returned" /\ \A k \in 1..n : ids[k] # i THEN "Lost"
    ELSE IF \E k \in 1..n : status[ids[k]] \in {"raised", "none"} THEN "SentAlthoughRaised"
    ELSE IF ~Cfg(tid).wirefull THEN ""
    ELSE IF Len(frames) # n THEN "FrameCountMismatch"
    ELSE IF \E k \in 1..n : frames[k].op # recv[k].t THEN "WireTypeMismatch"
    ELSE IF \E k \in 1..n : ~frames[k].rsv1 /\ frames[k].op # 8 /\
                (frames[k].len # recv[k].key.len \/ (frames[k].len <= 256 /\ frames[k].data # recv[k].key.small))
         THEN "WirePayloadMismatch"
    ELSE IF \E k \in 1..n : frames[k].rsv1 /\ ~(S[ids[k]].ovr > 0 \/ Cfg(tid).compress > 0) THEN "Rsv1Unexpected"
    ELSE IF \E k \in 1..n : frames[k].rsv1 /\ frames[k].data = DeflateTail THEN "DeflateTailNotRemoved"
    ELSE ""

RunClause(run) == One({RunClause2(run, ids) : ids \in {Assign(run.recv, 1, <<>>)}})

FinalStep ==
    /\ phase = "final"
    /\ LET runs == Cfg(tid).runs
           bads == {k \in 1..Len(runs) : RunClause(runs[k]) # ""}
           wireClose == \E i, j \in 1..Len(frames) : i < j /\ frames[i].op = 8 /\ frames[j].op \in {1, 2}
           clause == IF Cfg(tid).stuck # <<>> THEN "SenderStuck"
                     ELSE IF bads # {} THEN RunClause(runs[CHOOSE k \in bads : \A j \in bads : k <= j])
                     ELSE IF wireClose THEN "DataAfterCloseOnWire"
                     ELSE ""
       IN /\ bad' = clause
          /\ phase' = "done"
          /\ UNCHANGED <<tid, l, status, closed, ccall, late, cpos, epos, r, frames>>
          /\ Verdict(tid, l, clause,
                     IF bads # {} THEN <<runs[CHOOSE k \in bads : \A j \in bads : k <= j].seg>> ELSE <<>>)

TNext == bad = "" /\ (EventStep \/ WireStep \/ FinalStep)

TSpec == TInit /\ [][TNext]_tvars
=============================================================================
