---------------------------- MODULE MultipartMC -----------------------------
(* Bounded model for C19.  TLC enumerates every part content over the class alphabet
   {CR, LF, '-', b (first boundary byte), x} up to a length bound, for <= 2 parts, short
   boundaries ("b", "bx") and one nested family, writes the body with the writer model,
   and feeds it to the operational scanner under every segmentation drawn from SegSet.

     RoundTrip         Parse(Write(parts)) = parts whenever the composer obligation holds
     SizeTruthful      the size rule equals the number of bytes of the written body
     WindowSufficient  whatever the cuts, the windowed scanner computes Parse(body)
     Terminates        bounded work per segment; every step consumes input
   HoldDelta = 1 (window one byte short) and SizeMutant = TRUE (size without the header
   block) are the self-test mutants.

   MultipartCls.tla classifies the same contents (how deep each imitates a delimiter);
   the harness draws its adversarial contents from that table.                          *)
EXTENDS Multipart

CONSTANTS MaxLen1,      \* content length bound for single-part bodies
          MaxLen2,      \* content length bound for each part of two-part bodies
          MaxLenN,      \* content length bound for the inner part of the nested family (9: family off; cfg files cannot hold negative numbers)
          WithLen,      \* also parts that carry Content-Length (truthful, and lying by +1)
          HoldDelta,    \* 0; 1 = window too short (mutant)
          SizeMutant    \* FALSE; TRUE = size rule forgets the header block (mutant)

VARIABLES b, ps, body, pos, sc, fin

vars == <<b, ps, body, pos, sc, fin>>

Alpha == {13, 10, 45, 98, 120}
Bounds == {<<98>>, <<98, 120>>}
InnerB == <<99>>                                \* "c"
Strs(n) == UNION {[1..k -> Alpha] : k \in 0..n}

HdrA == <<<<97>>, <<98>>>>                      \* a: b
CLName == HContentLength
RECURSIVE Digits(_)
Digits(n) == IF n < 10 THEN <<48 + n>> ELSE Digits(n \div 10) \o <<48 + (n % 10)>>
CTMulti == <<HContentType, SMultipart \o <<109, 105, 120, 101, 100, 59, 32>> \o SBoundaryEq \o InnerB>>

\* part spec: c content, hk header kind, inner part specs
P(c, hk) == [c |-> c, hk |-> hk, inner |-> <<>>]
HdrKinds == IF WithLen THEN {"none", "a", "len", "lie"} ELSE {"none", "a"}

RECURSIVE WriteBody(_, _)
WireOf(p) == IF p.hk = "multi" THEN WriteBody(p.inner, InnerB) ELSE p.c
HdrsOf(p) == CASE p.hk = "none" -> <<>>
               [] p.hk = "a" -> <<HdrA>>
               [] p.hk = "len" -> <<<<CLName, Digits(Len(p.c))>>>>
               [] p.hk = "lie" -> <<<<CLName, Digits(Len(p.c) + 1)>>>>
               [] p.hk = "multi" -> <<CTMulti>>
WriteBody(parts, B) ==
    Flatten([k \in 1..Len(parts) |-> WritePartBytes(HdrsOf(parts[k]), WireOf(parts[k]), B)]) \o CloseBytes(B)

RECURSIVE SizeOf(_, _)
SizeOf(parts, B) ==
    LET RECURSIVE Sum(_)
        Sum(k) == IF k = 0 THEN 0
                  ELSE PartSize(HdrsOf(parts[k]),
                                IF parts[k].hk = "multi" THEN SizeOf(parts[k].inner, InnerB) ELSE Len(parts[k].c),
                                B, ~SizeMutant) + Sum(k - 1)
    IN Sum(Len(parts)) + CloseSize(B)

\* what the reader must deliver
RECURSIVE Expected(_)
Expected(parts) ==
    [ok |-> TRUE,
     parts |-> [k \in 1..Len(parts) |->
                  [hdrs |-> HdrsOf(parts[k]), content |-> WireOf(parts[k]),
                   bylen |-> parts[k].hk = "len" /\ Len(parts[k].c) > 0,
                   multi |-> parts[k].hk = "multi",
                   sub |-> IF parts[k].hk = "multi" THEN Expected(parts[k].inner) ELSE <<>>]]]

\* composer obligation on the part specs
RECURSIVE Obliged(_, _)
Obliged(parts, B) ==
    \A k \in 1..Len(parts) :
        LET p == parts[k] IN
        /\ p.hk # "lie"
        /\ IF p.hk = "multi" THEN CleanLeaf(WireOf(p), B) /\ Obliged(p.inner, InnerB)
           ELSE (p.hk = "len" /\ Len(p.c) > 0) \/ CleanLeaf(p.c, B)

PartLists ==
    {<<P(c, hk)>> : c \in Strs(MaxLen1), hk \in HdrKinds}
    \cup {<<P(c1, "none"), P(c2, hk)>> : c1 \in Strs(MaxLen2), c2 \in Strs(MaxLen2), hk \in HdrKinds}
    \cup (IF MaxLenN >= 9 THEN {}
          ELSE {<<[c |-> <<>>, hk |-> "multi", inner |-> <<P(c1, hk)>>], P(c2, "none")>> :
                    c1 \in Strs(MaxLenN), c2 \in Strs(Min(MaxLenN, 1)), hk \in HdrKinds})

Init == /\ b \in Bounds
        /\ ps \in PartLists
        /\ body = WriteBody(ps, b)
        /\ pos = 0
        /\ sc = ScInit(b, TRUE, 1, HoldDelta)
        /\ fin = FALSE

SegSet == {1, 2, 3, Len(b) + 4, Len(b) + 5, Len(b) + 6, 1000}

FeedSeg(k) ==
    /\ ~fin /\ pos < Len(body)
    /\ LET n == Min(k, Len(body) - pos)
       IN /\ sc' = ScFeed(sc, SubSeq(body, pos + 1, pos + n))
          /\ pos' = pos + n
    /\ UNCHANGED <<b, ps, body, fin>>

FeedEof ==
    /\ ~fin /\ pos = Len(body)
    /\ sc' = ScEof(sc)
    /\ fin' = TRUE
    /\ UNCHANGED <<b, ps, body, pos>>

Next == (\E k \in SegSet : FeedSeg(k)) \/ FeedEof

Spec == Init /\ [][Next]_vars

Ref == ParseBody(body, b, TRUE)

InvRoundTrip == (pos = 0 /\ Obliged(ps, b)) => Proj(Ref) = Expected(ps)
InvLieDetected == (pos = 0 /\ \E k \in 1..Len(ps) : ps[k].hk = "lie" /\ Obliged(SubSeq(ps, 1, k - 1), b)) => ~Ref.ok
InvSizeTruthful == pos = 0 => SizeOf(ps, b) = Len(body)
InvWindowSufficient == fin => ScResult(sc) = Proj(Ref)
InvTerminates == ScWorkBound(sc) /\ ScWindowBound(sc)
Progress == [][pos' > pos \/ fin']_vars

\* the work counters are history: they do not influence the scanner, so states that differ
\* only in them are merged (the invariants are still evaluated on every visited state)
RECURSIVE NoCnt(_)
NoCnt(x) == IF x.st = "None" THEN x
            ELSE [x EXCEPT !.work = 0, !.nfeeds = 0, !.fed = 0, !.inner = NoCnt(x.inner)]
View == <<b, ps, pos, NoCnt(sc), fin>>

=============================================================================
