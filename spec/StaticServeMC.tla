---------------------------- MODULE StaticServeMC ----------------------------
(* Exhaustive enumeration of the two request spaces of C15 and the sanity
   invariants of the reference machines (StaticServe.tla).

   Part = "a": every target of at most MaxLen segments over the alphabet x follow x show
               (x Accept-Encoding: gzip for targets of at most GzLen segments); targets grow
               one segment per step so that the workers share the enumeration - every
               prefix is itself a target.
   Part = "b": every request of the range space.  Space = "factored" is the space the
               harness replays completely:
                   (all sizes x all Range forms x all If-Range x method, no other conditional)
                 + (all If-Match x If-None-Match x If-Unmodified-Since x If-Modified-Since
                    x method x size in {0,3} x Range in {none, 1-1, 5-} x If-Range in {absent, equal date});
               Space = "product" is the full cartesian product.
   RefMode / SuffixClamp select the deliberately broken references (self-test).     *)
EXTENDS StaticServe

CONSTANTS Part, MaxLen, GzLen, Space, RefMode, SuffixClamp

VARIABLES req, stage
vars == <<req, stage>>

(* ---------------- part A *)
InitA ==
    /\ stage = 0
    /\ \E fo \in BOOLEAN, sh \in BOOLEAN, enc \in {"", "gzip"} :
          req = [segs |-> <<>>, follow |-> fo, show |-> sh, ae |-> enc]

ExtendA(s) ==
    /\ Len(req.segs) < (IF req.ae = "gzip" THEN GzLen ELSE MaxLen)
    /\ req' = [req EXCEPT !.segs = Append(@, s)]
    /\ UNCHANGED stage

(* ---------------- part B *)
Ranges ==
    {[rk |-> "none", ra |-> 0, rb |-> 0]}
    \cup {[rk |-> "int", ra |-> a, rb |-> b] : a \in 0..5, b \in 0..5}
    \cup {[rk |-> k, ra |-> a, rb |-> 0] : k \in {"from", "suffix"}, a \in 0..5}
    \cup {[rk |-> k, ra |-> 0, rb |-> 0] : k \in RangeKindsOdd \cup RangeKindsMulti \cup {"upper"}}

BaseReq(sz, m, r) ==
    [size |-> sz, method |-> m, rk |-> r.rk, ra |-> r.ra, rb |-> r.rb,
     ifr |-> "absent", im |-> "absent", inm |-> "absent", ius |-> "absent", ims |-> "absent"]

InitB ==
    /\ stage = 0
    /\ \E sz \in 0..4, m \in {"GET", "HEAD"}, r \in Ranges : req = BaseReq(sz, m, r)

CondRanges == {[rk |-> "none", ra |-> 0, rb |-> 0], [rk |-> "int", ra |-> 1, rb |-> 1], [rk |-> "from", ra |-> 5, rb |-> 0]}
InCondSub(r) == r.size \in {0, 3} /\ [rk |-> r.rk, ra |-> r.ra, rb |-> r.rb] \in CondRanges

ChooseB ==
    /\ stage = 0
    /\ stage' = 1
    /\ \E i \in IfRangeVals, a \in EtagVals, b \in EtagVals, c \in DateVals, d \in DateVals :
          /\ Space = "factored" =>
                \/ (a = "absent" /\ b = "absent" /\ c = "absent" /\ d = "absent")
                \/ (InCondSub(req) /\ i \in {"absent", "date_equal"})
          /\ req' = [req EXCEPT !.ifr = i, !.im = a, !.inm = b, !.ius = c, !.ims = d]

Init == IF Part = "a" THEN InitA ELSE InitB
Next == IF Part = "a" THEN \E s \in Alphabet : ExtendA(s) ELSE ChooseB
Spec == Init /\ [][Next]_vars

\* the stage counter is bookkeeping: distinct states = distinct requests
View == req

(* ---------------- invariants *)
InvTree == TreeOk
InvA_Oracle == Part = "a" => A_OracleAcceptsRef(req, RefMode)
InvA_NoLinkNoEscape == Part = "a" => A_NoLinkNoEscape(req)
InvA_LexPhys == Part = "a" => A_LexPhysAgree(req)
InvA_Canonical == Part = "a" => A_CanonicalIdentity(req)
InvA_LegitViaLink == Part = "a" => A_LegitViaLink(req)
InvA_TargetOk == Part = "a" => TargetOk(req)

InvB_ReqOk == Part = "b" => ReqOkB(req)
InvB_NonEmpty == Part = "b" => B_NonEmpty(req)
InvB_Oracle == Part = "b" => B_OracleAcceptsRef(req)
InvB_Slice == Part = "b" => B_SliceSound(req, SuffixClamp)
InvB_Pre == Part = "b" => B_PreconditionsDecisive(req)
InvB_One == Part = "b" => B_OnePerStatus(req)
=============================================================================
