\* trace monitor; constants = as-coded (props/C02.py regenerates this from WireDecision_ascoded.cfg at run time)
SPECIFICATION TSpec
CONSTANTS
  Http10UnsizedCloses = FALSE
  ChunkedFlagTruthy = TRUE
  ChunkedSetsTE = TRUE
  HeadStreamSuppressed = TRUE
  EmptyBodyNoFlush = TRUE
  HandlerConnHonored = TRUE
  HeadReqBodyFramed = TRUE
  HeadNoLenReusable = FALSE
  ConnectAware = FALSE
  Http10NoChunkedReq = FALSE
  Expect10Proceeds = FALSE
  RefusedPrepareCleansWriter = TRUE
  FailedPrepareCleansWriter = TRUE
  WithheldBodyCloses = TRUE
  HostKeptOnRetry = TRUE
  CutBodyCloses = TRUE
  CancelCloses = TRUE
  FreshHeaderContainer = TRUE
POSTCONDITION PrintVerdicts
CHECK_DEADLOCK FALSE
