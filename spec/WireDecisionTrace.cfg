\* trace monitor; constants = as-coded (props/C02.py regenerates this from WireDecision_ascoded.cfg at run time)
SPECIFICATION TSpec
CONSTANTS
  Http10UnsizedCloses = FALSE
  ChunkedFlagTruthy = FALSE
  ChunkedSetsTE = FALSE
  HeadStreamSuppressed = FALSE
  EmptyBodyNoFlush = FALSE
  HandlerConnHonored = FALSE
  HeadReqBodyFramed = FALSE
  HeadNoLenReusable = FALSE
  ConnectAware = FALSE
  Http10NoChunkedReq = FALSE
  Expect10Proceeds = FALSE
  RefusedPrepareCleansWriter = FALSE
POSTCONDITION PrintVerdicts
CHECK_DEADLOCK FALSE
