\* Reference configuration for running TLC by hand:
\*   cd /verif/spec && java -DTLA-Library=lib -cp /opt/veriftools/tla/tla2tools.jar:/opt/veriftools/tla/CommunityModules-deps.jar \
\*        tlc2.TLC -workers 16 -deadlock -config ServerConn_quick.cfg ServerConnMC
\* props/C05.py generates the configurations it runs (same shape, other alphabets / bounds).
SPECIFICATION Spec
CONSTANTS
  Alphabet <- AlphaPipe
  Behaviours <- BehAll
  MaxItems = 2
  Cap = 2
  ResumeAt = 1
  HW = 0
  Timers = FALSE
  MaxDisc = 1
  MaxWPause = 0
  MapPoisonP = TRUE
  GuardFactory = TRUE
  PoisonFAtParser = FALSE
  LateUpgradeReset = TRUE
  GuardHXOutput = TRUE
  ResumeOnPop = TRUE
  KA = 3
  LG = 1
VIEW View
INVARIANT TypeOK
INVARIANT InOrderOnce
INVARIANT QueueBound
INVARIANT BadGets4xxAndClose
INVARIANT NoOrphan
INVARIANT NoEscape
INVARIANT PauseCoherent
INVARIANT NoStrandedTail
CHECK_DEADLOCK FALSE
