----------------------------- MODULE HttpFraming -----------------------------
(* C01 / C03 / C10 - reference reader for HTTP/1.x message framing (RFC 9112,
   field syntax RFC 9110 section 5), written in the "acceptor" style.

   The reader is a pure function of the byte stream: it holds an index `pos` into
   the stream q (a Seq(0..255)) and every Step consumes ONE ELEMENT - a complete
   line (sliced once, when its terminator is seen) or a run of body bytes.  It
   never looks at how the stream was cut into reads, so its result is
   segmentation-free by construction (C03).

   cfg (record) selects the mode:
     mode        "request" (server side, strict RFC 9112)  |  "response"
     lax         response parser as the client deliberately configures it
                 (THREAT_MODEL 5.1 #1.2: bare LF line ends, obs-fold, whitespace
                 around chunk sizes, repeated singleton fields; only CR/LF/NUL
                 forbidden in field values).  Mode constants, not deviations.
     maxLine     limit for start lines and chunk-size lines      (max_line_size)
     maxField    limit for field lines and trailer lines         (max_field_size)
     maxHeaders  limit for the number of field lines             (max_headers)
     untilEof    response mode: a body without framing runs to the end of the stream
     withBody    response mode: FALSE = response to HEAD (no body whatever the fields say)
     mutant      "" everywhere except in the self-test ("noLimit" / "noCLTE" remove a mechanism so
                 that the model's invariants can be shown to notice)
     declineUpgrade  FALSE = an upgrade offer (Connection: upgrade + Upgrade: websocket|tcp) that the parser
                 reports ends the HTTP part of the stream (tunnel).  TRUE = reading of a connection whose
                 handler answers every offer with a plain HTTP response: the stream simply continues with
                 the next request (web_protocol.finish_response feeds the held-back tail to the parser)
     devHeadSkip FALSE = strict reading.  TRUE = read HEAD requests the way the unchanged parser does
                 (body ignored whatever Content-Length / Transfer-Encoding say); the trace spec
                 uses this second reading only to NAME that deviation when the strict reading
                 does not explain an execution

   Result state (record s):
     phase   start | fields | body | csize | cdata | ccrlf | trailers | eofbody
             | tunnel | closed | rejected | undecided
     msgs    completed messages;  cur = message whose head is complete but whose
             body is still being read (delivered = TRUE) or whose head is being read
     reason  why the reader rejected (rejPhase = phase it was in, rejectAt = offset)
     soft    rules that fired on the way and that are NOT part of the strict reading:
                kind "alt"  permitted alternative (RFC SHOULD/MAY, a design decision
                            documented in THREAT_MODEL.md or pinned by the test-suite):
                            accepting and rejecting are both fine;
                kind "dev"  known deviation of the implementation: the strict verdict is
                            REJECT at this point; the reader nevertheless continues the
                            way the implementation does, so that an execution which is
                            accepted only thanks to the deviation can be named exactly
                            (clause = soft name) and everything after it is still checked.
     over / between / tight / nearCount   facts about the size limits (C10, C03):
                over      a construct exceeds its limit (MUST be rejected)
                between   a start / field line whose length lies between max_line_size and
                          max_field_size (only there does it matter which one is applied)
                tight     a line exactly as long as its limit
                nearCount field count within 3 of max_headers (the parser counts the start
                          line and the empty line too: stricter, permitted)
     undecided  the reference declines to decide (status line with bytes that str.split() may
                treat as Unicode white space): only the messages before that point are compared

   Rule comments cite the RFC section and, where the rule mirrors a deliberate
   choice of aiohttp, the code location in aiohttp/http_parser.py.               *)
EXTENDS ByteClasses, TLC

ASSUME SelectInSubSeq(<<5, 6, 10>>, 2, 3, LAMBDA b : b = 10) = 3   \* Java override: absolute index

(* ------------------------------------------------------------------------ *)
NoMsg == [start |-> 0, extent |-> 0, method |-> <<>>, target |-> <<>>, vmaj |-> 0, vmin |-> 0,
          code |-> 0, reason |-> <<>>, fields |-> <<>>, trailers |-> <<>>, body |-> <<>>,
          chunks |-> <<>>, kind |-> "none", delivered |-> FALSE, close |-> FALSE,
          upgrade |-> FALSE, chunked |-> FALSE, nlines |-> 0]

Init0 == [phase |-> "start", pos |-> 1, msgs |-> <<>>, cur |-> NoMsg, remaining |-> 0,
          reason |-> "", rejectAt |-> 0, soft |-> <<>>, wait |-> FALSE,
          over |-> FALSE, between |-> FALSE, tight |-> FALSE, nearCount |-> FALSE,
          pendUpgrade |-> FALSE, attributed |-> 0, tailFrom |-> 0, base |-> 0, pendLF |-> FALSE, rejPhase |-> "", headBody |-> FALSE, rejObs |-> FALSE, upOffer |-> FALSE]

Terminal(s) == s.phase \in {"rejected", "undecided", "closed", "tunnel"}

Alt(name) == [name |-> name, kind |-> "alt", m |-> 0]
Dev(name) == [name |-> name, kind |-> "dev", m |-> 0]
\* m = number of the message (1-based) in which the rule fired
AddSoft(s, xs) == [s EXCEPT !.soft = s.soft \o [i \in 1..Len(xs) |-> [xs[i] EXCEPT !.m = Len(s.msgs) + 1]]]
Reject(s, why) == [s EXCEPT !.phase = "rejected", !.reason = why, !.rejectAt = s.base + s.pos, !.wait = FALSE,
                             !.pendLF = FALSE, !.rejPhase = s.phase]
RejectOver(s, why) == [Reject(s, why) EXCEPT !.over = TRUE]
Undecided(s, why) == [s EXCEPT !.phase = "undecided", !.reason = why, !.rejectAt = s.base + s.pos, !.wait = FALSE]
Wait(s) == [s EXCEPT !.wait = TRUE]

(* ------------------------------------------------------------------------ *)
(* Line splitter.  RFC 9112 2.2: lines end with CRLF; a recipient MAY accept a
   bare LF and ignore preceding CR (lax mode only).  A line whose content is
   longer than `limit` never completes inside the window pos .. pos+limit+1.   *)
RECURSIVE NextCRLFk(_, _, _, _, _)
NextCRLFk(q, pos, from, hi, k) ==       \* gives up (0) after 16 bare LFs: only used to NAME a deviation
    LET i == FirstIn(q, from, hi, LAMBDA b : b = LF)
    IN IF i = 0 \/ k = 0 THEN 0
       ELSE IF i > pos /\ q[i - 1] = CR THEN i
       ELSE NextCRLFk(q, pos, i + 1, hi, k - 1)
NextCRLF(q, pos, from, hi) == NextCRLFk(q, pos, from, hi, 16)

TakeLine(q, pos, n, limit, lax) ==
    LET hi == Min2(n, pos + limit + 1)
        i == FirstIn(q, pos, hi, LAMBDA b : b = LF)
        avail == n - pos + 1
    IN IF i = 0 THEN
           IF avail >= limit + 2 THEN [kind |-> "toolong", line |-> <<>>, next |-> pos, alt |-> 0, full |-> TRUE]
           ELSE [kind |-> "need", line |-> <<>>, next |-> pos, alt |-> 0, full |-> FALSE]
       ELSE IF lax THEN
           LET z == LastIn(q, pos, i - 1, LAMBDA b : b # CR)
           IN [kind |-> "line", line |-> (IF z = 0 THEN <<>> ELSE SubSeq(q, pos, z)), next |-> i + 1, alt |-> 0, full |-> TRUE]
       ELSE IF i > pos /\ q[i - 1] = CR THEN
           [kind |-> "line", line |-> Slice(q, pos, i - 2), next |-> i + 1, alt |-> 0, full |-> TRUE]
       ELSE \* bare LF: strict verdict is reject; alt = end of the CRLF-terminated line the
            \* implementation would see (0 if none in the window), used only for naming a deviation
           [kind |-> "barelf", line |-> <<>>, next |-> pos, alt |-> NextCRLF(q, pos, i + 1, hi),
            full |-> avail >= limit + 2]

(* limit facts of one completed line of length len checked against `limit` *)
\* between: a start line or header field line whose length lies between the two limits - the only lines
\* for which it matters which of the two limits a reader applies (chunk-size and trailer lines are read
\* by the payload parser with their own limit)
NoteLen(s, len, cfg, headLine) ==
    LET lo == Min2(cfg.maxLine, cfg.maxField)
        hi == Max2(cfg.maxLine, cfg.maxField)
    IN [s EXCEPT !.between = s.between \/ (headLine /\ len > lo /\ len <= hi + 1),
                 !.tight = s.tight \/ len = cfg.maxLine \/ len = cfg.maxField]

(* ------------------------------------------------------------------------ *)
(* Request line (RFC 9112 section 3): method SP request-target SP HTTP-version *)
IsSchemeByte(b) == IsAlpha(b) \/ IsDigit(b) \/ b \in {43, 45, 46}
IsRegNameByte(b) == IsAlpha(b) \/ IsDigit(b) \/ b \in {45, 46, 95, 126, 37, 33, 36, 38, 39, 40, 41, 42, 43, 44, 59, 61} \/ IsObsText(b)
\* "xn--" labels (IDNA) and ports above 65535 are validated by the URL library (black box): exotic
HasXn(h) == \E i \in 1..(Len(h) - 3) : Lower(h[i]) = 120 /\ Lower(h[i + 1]) = 110 /\ h[i + 2] = 45 /\ h[i + 3] = 45
PortTooBig(p) == DecVal(p) > 65535
IsIPLitByte(b) == IsHex(b) \/ b \in {58, 46}
IsPlainHostByte(b) == IsAlpha(b) \/ IsDigit(b) \/ b \in {45, 46, 95}

\* authority = [ userinfo "@" ] host [ ":" port ]   (RFC 3986 3.2)
\* result "ok" | "exotic" (validation left to the URL library) | "emptyhost" | "bad"
AuthorityClass(a) ==
    IF Len(a) = 0 THEN "bad"
    ELSE LET at == LastIn(a, 1, Len(a), LAMBDA b : b = 64)
             hp == DropN(a, at)
         IN IF Len(hp) = 0 THEN "emptyhost"
            ELSE IF hp[1] = 91 THEN      \* IP-literal "[" ... "]"
                LET rb == IndexOfByte(hp, 93)
                    inside == Slice(hp, 2, rb - 1)
                    after == DropN(hp, rb)
                IN IF rb = 0 \/ Len(inside) = 0 THEN "bad"
                   ELSE IF after # <<>> /\ (after[1] # COLON \/ ~AllB(DropN(after, 1), IsDigit)) THEN "bad"
                   ELSE IF ~AllB(inside, IsIPLitByte) THEN "exotic"     \* IPvFuture etc.: left to the URL library
                   ELSE IF Len(after) = 0 THEN (IF at = 0 THEN "ok" ELSE "exotic")
                   ELSE IF after[1] # COLON \/ ~AllB(DropN(after, 1), IsDigit) THEN "bad"
                   ELSE IF at # 0 \/ Len(after) > 6 \/ Len(after) = 1 \/ PortTooBig(DropN(after, 1)) THEN "exotic" ELSE "ok"
            ELSE
                LET c == LastIn(hp, 1, Len(hp), LAMBDA b : b = COLON)
                    host == IF c = 0 THEN hp ELSE Slice(hp, 1, c - 1)
                    port == IF c = 0 THEN <<>> ELSE DropN(hp, c)
                IN IF c # 0 /\ ~AllB(port, IsDigit) THEN "bad"
                   ELSE IF AnyB(host, LAMBDA b : b \in {91, 93}) THEN "bad"          \* stray bracket
                   ELSE IF Len(host) = 0 THEN "emptyhost"
                   \* other bytes outside reg-name ("|", "`" ...): whether the URL library takes them is its business
                   ELSE IF at # 0 \/ ~AllB(host, IsPlainHostByte) \/ HasXn(host)
                           \/ (c # 0 /\ (Len(port) = 0 \/ Len(port) > 5 \/ PortTooBig(port)))
                        THEN "exotic" ELSE "ok"

\* absolute-form = scheme "://" authority [ path-abempty ] [ "?" query ]  (RFC 9112 3.2.2)
AbsFormClass(t) ==
    LET c == IndexOfByte(t, COLON)
        scheme == Slice(t, 1, c - 1)
        rest == DropN(t, c)
    IN IF c < 2 \/ ~AllB(scheme, IsSchemeByte) THEN "noform"
       ELSE IF Len(rest) < 2 \/ rest[1] # 47 \/ rest[2] # 47 THEN "noform"
       ELSE LET r2 == DropN(rest, 2)
                e == FirstIn(r2, 1, Len(r2), LAMBDA b : b \in {47, 63, 35})
                auth == IF e = 0 THEN r2 ELSE Slice(r2, 1, e - 1)
                k == AuthorityClass(auth)
            IN IF k = "ok" /\ ~IsAlpha(t[1]) THEN "exotic" ELSE k      \* scheme = ALPHA *( ... ), RFC 3986 3.1

\* authority-form = uri-host ":" port   (RFC 9112 3.2.3, CONNECT only)
AuthorityFormOK(t) ==
    LET c == LastIn(t, 1, Len(t), LAMBDA b : b = COLON)
    IN c > 1 /\ c < Len(t) /\ AllB(DropN(t, c), IsDigit) /\ AuthorityClass(t) = "ok"
       /\ IndexOfByte(t, 64) = 0

ParseRequestLine(line) ==
    LET sp1 == IndexOfByte(line, SP)
        rest1 == DropN(line, sp1)
        sp2 == IndexOfByte(rest1, SP)
        method == Slice(line, 1, sp1 - 1)
        target == Slice(rest1, 1, sp2 - 1)
        ver == DropN(rest1, sp2)
        um == UpperSeq(method)
        bad(why) == [ok |-> FALSE, why |-> why, method |-> <<>>, target |-> <<>>, vmaj |-> 0, vmin |-> 0, soft |-> <<>>]
    IN IF sp1 = 0 \/ sp2 = 0 THEN bad("RequestLineShape")           \* two SP exactly: 3.  (split(" ", 2))
       ELSE IF ~IsToken(method) THEN bad("MethodNotToken")          \* method = token, RFC 9110 9.1
       ELSE IF ~(Len(ver) = 8 /\ SubSeq(ver, 1, 5) = L_http_slash /\ IsDigit(ver[6]) /\ ver[7] = 46 /\ IsDigit(ver[8]))
            THEN bad("Version")                                      \* HTTP-version, RFC 9112 2.3
       ELSE IF Len(target) = 0 /\ um # M_CONNECT THEN bad("TargetEmpty")
       ELSE
        LET vmaj == DigitVal(ver[6])
            vmin == DigitVal(ver[8])
            \* method is case-sensitive (9110 9.1); the pure-Python parser upper-cases it on purpose
            \* (tests/test_http_parser.py::test_py_parser_normalises_method_to_uppercase) - permitted alternative
            sCase == IF um # method THEN <<Alt("MethodCaseFolded")>> ELSE <<>>
            sVer == IF ~(vmaj = 1 /\ vmin \in {0, 1}) THEN <<Alt("VersionOther")>> ELSE <<>>   \* THREAT_MODEL 5.1 #1.5
            sObs == IF AnyB(target, IsObsText) THEN <<Alt("TargetObsText")>> ELSE <<>>
            \* request-target bytes: VCHAR only (RFC 9112 3.2 / RFC 3986); CTL, DEL (SP cannot occur)
            sCtl == IF AnyB(target, LAMBDA b : IsCtl(b)) THEN <<Dev("TargetCTLAccepted")>> ELSE <<>>
            form == CASE Len(target) = 0 -> <<Alt("ConnectTargetUnchecked")>>
                      [] sCtl # <<>> /\ target[1] # 47 /\ um # M_CONNECT -> <<>>    \* strict verdict is reject anyway; form left open
                      [] um = M_CONNECT ->
                            IF AuthorityFormOK(target) THEN <<>> ELSE <<Alt("ConnectTargetUnchecked")>>
                      [] target[1] = 47 -> <<>>                                             \* origin-form 3.2.1
                      [] target = <<42>> /\ um = M_OPTIONS -> <<>>                          \* asterisk-form 3.2.4
                      [] OTHER ->
                            LET k == AbsFormClass(target)
                            IN CASE k = "ok" -> <<>>
                                 [] k = "exotic" -> <<Alt("AbsTargetExotic")>>
                                 \* RFC 9110 4.2.1: a recipient MUST reject an http(s) URI with an empty host
                                 [] k = "emptyhost" -> <<Dev("AbsTargetEmptyHostAccepted")>>
                                 [] k = "bad" -> <<Alt("BADAUTH")>>
                                 [] OTHER -> <<Alt("NOFORM")>>
        IN IF form = <<Alt("NOFORM")>> THEN bad("TargetForm")       \* authority/asterisk form with the wrong method, junk
           ELSE IF form = <<Alt("BADAUTH")>> THEN bad("TargetAuthority")   \* unbalanced brackets, non-numeric port ...
           ELSE [ok |-> TRUE, why |-> "", method |-> method, target |-> target, vmaj |-> vmaj, vmin |-> vmin,
                 soft |-> sCase \o sVer \o sObs \o sCtl \o form]

(* Status line (RFC 9112 section 4): HTTP-version SP status-code SP [reason-phrase].
   The client splits on runs of white space (http_parser.py parse_message: str.split()). *)
IsPyWS(b) == b \in {9, 10, 11, 12, 13, 28, 29, 30, 31, 32}
ParseStatusLine(line) ==
    LET a == FirstIn(line, 1, Len(line), LAMBDA b : ~IsPyWS(b))
        l1 == IF a = 0 THEN <<>> ELSE DropN(line, a - 1)
        e1 == FirstIn(l1, 1, Len(l1), IsPyWS)
        ver == IF e1 = 0 THEN l1 ELSE Slice(l1, 1, e1 - 1)
        r1 == IF e1 = 0 THEN <<>> ELSE DropN(l1, e1)
        b2 == FirstIn(r1, 1, Len(r1), LAMBDA b : ~IsPyWS(b))
        l2 == IF b2 = 0 THEN <<>> ELSE DropN(r1, b2 - 1)
        e2 == FirstIn(l2, 1, Len(l2), IsPyWS)
        st == IF e2 = 0 THEN l2 ELSE Slice(l2, 1, e2 - 1)
        r2 == IF e2 = 0 THEN <<>> ELSE DropN(l2, e2)
        b3 == FirstIn(r2, 1, Len(r2), LAMBDA b : ~IsPyWS(b))
        z3 == LastIn(r2, 1, Len(r2), LAMBDA b : ~IsPyWS(b))
        reason == IF b3 = 0 THEN <<>> ELSE SubSeq(r2, b3, z3)
        bad(why) == [ok |-> FALSE, why |-> why, vmaj |-> 0, vmin |-> 0, code |-> 0, reason |-> <<>>, soft |-> <<>>]
    IN IF Len(ver) = 0 \/ Len(st) = 0 THEN bad("StatusLineShape")
       ELSE IF ~(Len(ver) = 8 /\ SubSeq(ver, 1, 5) = L_http_slash /\ IsDigit(ver[6]) /\ ver[7] = 46 /\ IsDigit(ver[8]))
            THEN bad("Version")
       ELSE IF ~(Len(st) = 3 /\ AllB(st, IsDigit)) THEN bad("StatusCode")     \* status-code = 3DIGIT
       ELSE [ok |-> TRUE, why |-> "", vmaj |-> DigitVal(ver[6]), vmin |-> DigitVal(ver[8]),
             code |-> DecVal(st), reason |-> reason,
             soft |-> IF ~(DigitVal(ver[6]) = 1 /\ DigitVal(ver[8]) \in {0, 1}) THEN <<Alt("VersionOther")>> ELSE <<>>]
\* bytes that may decode to Unicode white space (str.split) - outside what this reference decides
StatusLineExotic(line) == AnyB(line, LAMBDA b : b \in {194, 225, 226, 227})

(* ------------------------------------------------------------------------ *)
(* Field lines (RFC 9112 section 5, RFC 9110 5.1, 5.5)                        *)
FramingSingletons == {L_content_length, L_transfer_encoding, L_host}
OtherSingletons ==      \* http_parser.py SINGLETON_HEADERS minus the three above
    {<<99,111,110,116,101,110,116,45,108,111,99,97,116,105,111,110>>,     \* content-location
     <<99,111,110,116,101,110,116,45,114,97,110,103,101>>,                \* content-range
     <<99,111,110,116,101,110,116,45,116,121,112,101>>,                   \* content-type
     <<101,116,97,103>>,                                                  \* etag
     <<109,97,120,45,102,111,114,119,97,114,100,115>>,                    \* max-forwards
     <<115,101,114,118,101,114>>,                                         \* server
     <<117,115,101,114,45,97,103,101,110,116>>}                           \* user-agent

HasField(fields, lname) == \E i \in 1..Len(fields) : LowerSeq(fields[i][1]) = lname
\* combined field value: all lines of that name joined with ", " (RFC 9110 5.3); iterative (no deep recursion)
Combined(fields, lname) ==
    LET vals == SelectSeq(fields, LAMBDA f : LowerSeq(f[1]) = lname)
    IN IF Len(vals) = 0 THEN <<>>
       ELSE FoldLeft(LAMBDA acc, f : acc \o <<COMMA, SP>> \o f[2], vals[1][2], Tail(vals))
CountField(fields, lname) == Cardinality({i \in 1..Len(fields) : LowerSeq(fields[i][1]) = lname})

ValueOK(v, lax) ==
    IF lax THEN AllB(v, LAMBDA b : b # 0 /\ b # CR /\ b # LF)          \* HeadersParser lax branch
    ELSE AllB(v, IsFieldByte)                                            \* field-content, RFC 9110 5.5

\* one field line (not a continuation); returns [ok, why, name, value]
ParseFieldLine(line, lax) ==
    LET c == IndexOfByte(line, COLON)
        name == Slice(line, 1, c - 1)
        value == TrimWS(DropN(line, c))
        bad(why) == [ok |-> FALSE, why |-> why, name |-> <<>>, value |-> <<>>]
    IN IF c = 0 THEN bad("FieldNoColon")
       ELSE IF ~IsToken(name) THEN bad("FieldName")          \* no WS before ":" (9112 5.1), name = token
       ELSE IF ~ValueOK(value, lax) THEN bad("FieldValueCTL")
       ELSE [ok |-> TRUE, why |-> "", name |-> name, value |-> value]

\* tokens of a comma separated list, trimmed and lower-cased, empty elements dropped
ListTokens(v) ==
    LET parts == SplitOn(v, COMMA)
        trimmed == [i \in 1..Len(parts) |-> LowerSeq(TrimWS(parts[i]))]
    IN SelectSeq(trimmed, LAMBDA t : Len(t) > 0)
SeqHas(qq, x) == \E i \in 1..Len(qq) : qq[i] = x

(* ------------------------------------------------------------------------ *)
(* End of the header section: message body length, RFC 9112 6.3 (+ 6.1, 3.2). *)
DecideFraming(s, cfg) ==
    LET m == s.cur
        f == m.fields
        isReq == cfg.mode = "request"
        hasCL == HasField(f, L_content_length)
        hasTE == HasField(f, L_transfer_encoding)
        clv == Combined(f, L_content_length)
        tev == Combined(f, L_transfer_encoding)
        teAll == LET parts == SplitOn(tev, COMMA) IN [i \in 1..Len(parts) |-> LowerSeq(TrimWS(parts[i]))]
        \* empty list elements are legal (RFC 9110 5.6.1.2) and ignored; how the parser treats them is its choice
        teEmpty == hasTE /\ \E i \in 1..Len(teAll) : Len(teAll[i]) = 0
        teParts == IF isReq THEN SelectSeq(teAll, LAMBDA t : Len(t) > 0) ELSE teAll
        lastIsChunked == Len(teParts) > 0 /\ teParts[Len(teParts)] = L_chunked
        nChunked == Cardinality({i \in 1..Len(teParts) : teParts[i] = L_chunked})
        conn == ListTokens(Combined(f, L_connection))
        upv == Combined(f, L_upgrade)
        um == UpperSeq(m.method)
        v10 == m.vmaj < 1 \/ (m.vmaj = 1 /\ m.vmin = 0)
        close == IF SeqHas(conn, L_close) THEN TRUE
                 ELSE IF SeqHas(conn, L_keepalive) THEN FALSE
                 ELSE IF v10 THEN TRUE
                 ELSE IF isReq THEN FALSE
                 ELSE IF (m.code >= 100 /\ m.code < 200) \/ m.code \in {204, 304} THEN FALSE
                 ELSE IF hasCL \/ hasTE THEN FALSE
                 ELSE TRUE                                            \* close-delimited, 6.3 rule 8
        upgrade == SeqHas(conn, L_upgrade) /\ Len(upv) > 0
        upOffered == upgrade /\ (LowerSeq(upv) = L_websocket \/ LowerSeq(upv) = L_tcp)
        upSupported == upOffered /\ ~cfg.declineUpgrade
        clen == IF hasCL THEN DecVal(clv) ELSE 0
        \* framing of a request does not depend on its method (6.3); cfg.devHeadSkip = TRUE reads the stream
        \* the way the unchanged parser does (HEAD request: body ignored) - used only to NAME that deviation
        emptyBody == IF isReq THEN um = M_HEAD /\ cfg.devHeadSkip
                     ELSE (m.code >= 100 /\ m.code < 200) \/ m.code \in {204, 304} \/ ~cfg.withBody
        softTE10 == IF isReq /\ hasTE /\ v10 THEN <<Dev("TEonHTTP10Accepted")>> ELSE <<>>       \* 6.1: framing faulty
        \* "gzip, chunked": codings before a final chunked are legal syntax (6.1); the parser only requires
        \* chunked to be last (THREAT_MODEL 5.1 #1.8, same as llhttp) - permitted alternative
        softTEx == IF isReq /\ hasTE /\ Len(teParts) > 1 THEN <<Alt("TECodingsBeforeChunked")>> ELSE <<>>
        headBody == isReq /\ um = M_HEAD /\ ((hasCL /\ clen > 0) \/ hasTE)
        softConn == IF isReq /\ um = M_CONNECT /\ ((hasCL /\ clen > 0) \/ hasTE) THEN <<Alt("ConnectWithBody")>> ELSE <<>>
        softKey1 == IF HasField(f, L_sec_ws_key1) THEN <<Alt("OldWebSocketKey")>> ELSE <<>>
        softTEe == IF isReq /\ teEmpty THEN <<Alt("TEEmptyElement")>> ELSE <<>>
        \* more digits than any real length: how a parser converts them is its business (int() refuses > 4300 digits)
        softCLlong == IF hasCL /\ Len(clv) > 19 THEN <<Alt("ContentLengthVeryLong")>> ELSE <<>>
        s1 == [AddSoft(s, softTE10 \o softTEx \o softConn \o softKey1 \o softTEe \o softCLlong)
                  EXCEPT !.headBody = s.headBody \/ headBody, !.upOffer = s.upOffer \/ upOffered]
        head(kind, chunked) == [m EXCEPT !.kind = kind, !.delivered = TRUE, !.close = close,
                                         !.upgrade = upgrade, !.chunked = chunked]
        done(mm) == \* message complete at the end of its head
            LET s2 == [s1 EXCEPT !.msgs = Append(s1.msgs, mm), !.cur = NoMsg,
                                 !.attributed = s1.attributed + mm.extent]
            IN IF mm.kind = "tunnel" \/ upSupported
               THEN [s2 EXCEPT !.phase = "tunnel", !.tailFrom = s1.base + s1.pos]
               ELSE IF close THEN [s2 EXCEPT !.phase = "closed", !.tailFrom = s1.base + s1.pos]
               ELSE [s2 EXCEPT !.phase = "start"]
    IN
    IF hasCL /\ ~IsDigits(clv) THEN Reject(s, "ContentLength")                \* 6.3 rule 5, 9110 8.6: 1*DIGIT, no list
    ELSE IF hasTE /\ hasCL /\ cfg.mutant # "noCLTE" THEN Reject(s, "CLwithTE")                           \* 6.3 rule 3 (smuggling)
    ELSE IF isReq /\ hasTE /\ ~lastIsChunked THEN Reject(s, "TENotChunked")     \* 6.3 rule 4.3
    ELSE IF isReq /\ hasTE /\ nChunked > 1 THEN Reject(s, "TEChunkedTwice")     \* 7.1: chunked applied once
    ELSE IF isReq /\ m.vmaj = 1 /\ m.vmin = 1 /\ ~HasField(f, L_host) THEN Reject(s, "HostMissing")   \* 3.2
    ELSE
        LET chunked == hasTE /\ lastIsChunked IN
        IF ~emptyBody /\ ((hasCL /\ clen > 0) \/ chunked) THEN
            [s1 EXCEPT !.cur = head(IF chunked THEN "chunked" ELSE "cl", chunked),
                       !.phase = IF chunked THEN "csize" ELSE "body",
                       !.remaining = clen, !.pendUpgrade = upSupported]
        ELSE IF isReq /\ um = M_CONNECT THEN done([head("tunnel", chunked) EXCEPT !.close = close])
        ELSE IF ~emptyBody /\ ~isReq /\ ~hasCL /\ cfg.untilEof THEN
            [s1 EXCEPT !.cur = head("eof", chunked), !.phase = "eofbody"]
        ELSE done(head("none", chunked))

\* the message in s.cur is complete (body read)
FinishMsg(s) ==
    LET mm == s.cur
        s2 == [s EXCEPT !.msgs = Append(s.msgs, mm), !.cur = NoMsg, !.remaining = 0,
                        !.attributed = s.attributed + mm.extent, !.pendUpgrade = FALSE]
    IN IF s.pendUpgrade THEN [s2 EXCEPT !.phase = "tunnel", !.tailFrom = s.base + s.pos]
       ELSE IF mm.close THEN [s2 EXCEPT !.phase = "closed", !.tailFrom = s.base + s.pos]
       ELSE [s2 EXCEPT !.phase = "start"]

(* ------------------------------------------------------------------------ *)
(* Chunked coding, RFC 9112 7.1:  chunk = chunk-size [chunk-ext] CRLF data CRLF *)
IsBytesWS(b) == b \in {9, 10, 11, 12, 13, 32}          \* what bytes.strip() removes
StripPyWS(q) ==
    LET a == FirstIn(q, 1, Len(q), LAMBDA b : ~IsBytesWS(b))
        z == LastIn(q, 1, Len(q), LAMBDA b : ~IsBytesWS(b))
    IN IF a = 0 THEN <<>> ELSE SubSeq(q, a, z)
ParseChunkSize(line, lax) ==
    LET semi == IndexOfByte(line, SEMI)
        sz0 == IF semi = 0 THEN line ELSE Slice(line, 1, semi - 1)
        sz == IF lax THEN StripPyWS(sz0) ELSE sz0            \* lenient spaces after chunk size (lax only)
        ext == IF semi = 0 THEN <<>> ELSE DropN(line, semi - 1)
    IN IF ~IsHexDigits(sz) THEN [ok |-> FALSE, size |-> 0, soft |-> <<>>]       \* chunk-size = 1*HEXDIG
       ELSE [ok |-> TRUE, size |-> HexValOf(sz),
             \* chunk-ext bytes: no CTL (token / quoted-string); the parser only forbids LF
             soft |-> IF ~lax /\ AnyB(ext, LAMBDA b : IsCtl(b) /\ b # HTAB) THEN <<Dev("ChunkExtCTLAccepted")>> ELSE <<>>]

(* ------------------------------------------------------------------------ *)
(* Step: consume one element.  q = stream, n = number of bytes available.     *)
\* cfg.mutant: "" in every real configuration; the self-test uses "noLimit" / "noCLTE" to
\* show that the model's invariants notice a reference without that mechanism
Lim(cfg) == IF cfg.mutant = "noLimit" THEN [cfg EXCEPT !.maxLine = Big, !.maxField = Big] ELSE cfg
Extent(s, k) == [s EXCEPT !.cur.extent = s.cur.extent + k]

StepStart(s, q, n, cfg0) ==
    LET cfg == Lim(cfg0)
        lax == cfg.lax
        r == TakeLine(q, s.pos, n, cfg.maxLine, lax)
        isReq == cfg.mode = "request"
    IN CASE r.kind = "need" -> Wait(s)
         [] r.kind = "toolong" -> [RejectOver(s, "StartLineTooLong") EXCEPT !.between = cfg.maxLine < cfg.maxField]
         [] r.kind = "barelf" ->
              \* strict: CRLF required (2.2).  If the implementation's CRLF search would still see
              \* a well-formed request line with the LF inside the request-target, name that deviation.
              IF isReq /\ r.alt = 0 /\ ~r.full THEN Wait([s EXCEPT !.pendLF = TRUE])   \* need the rest of the line to name it
              ELSE IF isReq /\ r.alt # 0 THEN
                  LET line == Slice(q, s.pos, r.alt - 2)
                      p == ParseRequestLine(line)
                  IN IF Len(line) > 0 /\ Len(line) <= cfg.maxLine /\ p.ok
                        /\ \E i \in 1..Len(p.soft) : p.soft[i].name = "TargetCTLAccepted"
                     THEN AddSoft([NoteLen(s, Len(line), cfg, TRUE) EXCEPT !.phase = "fields", !.pos = r.alt + 1, !.pendLF = FALSE,
                                     !.cur = [NoMsg EXCEPT !.start = s.base + s.pos, !.extent = r.alt + 1 - s.pos,
                                                           !.method = p.method, !.target = p.target,
                                                           !.vmaj = p.vmaj, !.vmin = p.vmin, !.nlines = 1]],
                                  p.soft)
                     ELSE Reject(s, "BareLF")
              ELSE Reject(s, "BareLF")
         [] OTHER ->
              LET line == r.line
                  k == r.next - s.pos
              IN IF Len(line) = 0 /\ (~lax \/ k = 1) THEN
                     \* empty line before the start line is skipped (2.2 SHOULD); the lax client only
                     \* skips a bare LF (a CRLF there is an empty start line: feed_data `pos == start_pos`)
                     [s EXCEPT !.pos = r.next, !.attributed = s.attributed + k]
                 ELSE IF Len(line) > cfg.maxLine THEN RejectOver(s, "StartLineTooLong")
                 ELSE IF isReq THEN
                     LET p == ParseRequestLine(line)
                     IN IF ~p.ok THEN Reject(s, p.why)
                        ELSE AddSoft([NoteLen(s, Len(line), cfg, TRUE) EXCEPT !.phase = "fields", !.pos = r.next,
                                        !.cur = [NoMsg EXCEPT !.start = s.base + s.pos, !.extent = k, !.method = p.method,
                                                              !.target = p.target, !.vmaj = p.vmaj, !.vmin = p.vmin,
                                                              !.nlines = 1]], p.soft)
                 ELSE
                     IF StatusLineExotic(line) THEN Undecided(s, "StatusLineExotic")
                     ELSE LET p == ParseStatusLine(line)
                          IN IF ~p.ok THEN Reject(s, p.why)
                             ELSE AddSoft([NoteLen(s, Len(line), cfg, TRUE) EXCEPT !.phase = "fields", !.pos = r.next,
                                             !.cur = [NoMsg EXCEPT !.start = s.base + s.pos, !.extent = k, !.vmaj = p.vmaj,
                                                                   !.vmin = p.vmin, !.code = p.code, !.reason = p.reason,
                                                                   !.nlines = 1]], p.soft)

\* a field line of the header section (trailer = FALSE) or of the trailer section
StepField(s, q, n, cfg0, trailer) ==
    LET cfg == Lim(cfg0)
        lax == cfg.lax
        r == TakeLine(q, s.pos, n, cfg.maxField, lax)
        flds == IF trailer THEN s.cur.trailers ELSE s.cur.fields
        put(fs) == IF trailer THEN [s EXCEPT !.cur.trailers = fs] ELSE [s EXCEPT !.cur.fields = fs]
        total == Len(s.cur.fields) + Len(s.cur.trailers)
    IN CASE r.kind = "need" -> Wait(s)
         [] r.kind = "toolong" -> [RejectOver(s, IF trailer THEN "TrailerTooLong" ELSE "FieldTooLong")
                                       EXCEPT !.between = ~trailer /\ cfg.maxField < cfg.maxLine]
         [] r.kind = "barelf" -> Reject(s, "BareLF")
         [] OTHER ->
              LET line == r.line
                  k == r.next - s.pos
                  s0 == Extent([s EXCEPT !.pos = r.next, !.cur.nlines = s.cur.nlines + 1], k)
              IN IF Len(line) = 0 THEN
                     IF trailer THEN FinishMsg(s0) ELSE DecideFraming(s0, cfg)
                 ELSE IF Len(line) > cfg.maxField THEN RejectOver(s, IF trailer THEN "TrailerTooLong" ELSE "FieldTooLong")
                 \* a CR in front of the first trailer line is no field name byte for anybody; own reason because
                 \* the lax parser drops one CR after the last-chunk line only if both arrive in the same read
                 ELSE IF trailer /\ lax /\ Len(flds) = 0 /\ line[1] = CR THEN Reject(s, "TrailerLeadingCR")
                 ELSE IF IsWS(line[1]) THEN
                     \* obs-fold (5.2): a server MUST reject; the lax client joins it to the previous value
                     IF ~lax \/ Len(flds) = 0 THEN Reject(s, "ObsFold")
                     ELSE LET last == flds[Len(flds)]
                              joined == last[3] \o line          \* raw value so far (left-trimmed) + continuation
                          IN IF Len(joined) > cfg.maxField THEN RejectOver(s, "FoldedFieldTooLong")
                             ELSE IF ~ValueOK(TrimWS(joined), lax) THEN Reject(s, "FieldValueCTL")
                             ELSE LET fs == [flds EXCEPT ![Len(flds)] = <<last[1], TrimWS(joined), joined>>]
                                      sx == NoteLen(s0, Len(line), cfg, ~trailer)
                                  IN IF trailer THEN [sx EXCEPT !.cur.trailers = fs] ELSE [sx EXCEPT !.cur.fields = fs]
                 ELSE
                     LET p == ParseFieldLine(line, lax)
                         lname == LowerSeq(p.name)
                         dup == HasField(flds, lname)
                     IN IF ~p.ok THEN Reject(s, p.why)
                        ELSE IF total + 1 > cfg.maxHeaders THEN RejectOver(s, "TooManyFields")
                        ELSE IF ~lax /\ dup /\ lname \in FramingSingletons THEN Reject(s, "DuplicateFramingField")  \* 6.3, 3.2
                        ELSE
                            LET raw == LTrimWS(DropN(line, IndexOfByte(line, COLON)))
                                fs == Append(flds, <<p.name, p.value, raw>>)
                                sx == NoteLen(s0, Len(line), cfg, ~trailer)
                                s1 == IF trailer THEN [sx EXCEPT !.cur.trailers = fs] ELSE [sx EXCEPT !.cur.fields = fs]
                                s2 == [s1 EXCEPT !.nearCount = s1.nearCount \/ (total + 1 + 3 > cfg.maxHeaders)]
                            IN IF ~lax /\ dup /\ lname \in OtherSingletons
                               THEN AddSoft(s2, <<Alt("SingletonDuplicate")>>)     \* THREAT_MODEL 5.1 #1.1
                               ELSE s2

StepBody(s, q, n) ==       \* Content-Length body, 6.3 rule 6
    LET avail == n - s.pos + 1
        k == Min2(avail, s.remaining)
    IN IF k <= 0 THEN Wait(s)
       ELSE LET s1 == Extent([s EXCEPT !.pos = s.pos + k, !.remaining = s.remaining - k,
                                      !.cur.body = s.cur.body \o SubSeq(q, s.pos, s.pos + k - 1)], k)
            IN IF s1.remaining = 0 THEN FinishMsg(s1) ELSE s1

StepEofBody(s, q, n) ==    \* close-delimited body, 6.3 rule 8
    LET avail == n - s.pos + 1
    IN IF avail <= 0 THEN Wait(s)
       ELSE Extent([s EXCEPT !.pos = n + 1, !.cur.body = s.cur.body \o SubSeq(q, s.pos, n)], avail)

StepChunkSize(s, q, n, cfg0) ==
    LET cfg == Lim(cfg0)
        r == TakeLine(q, s.pos, n, cfg.maxLine, cfg.lax)
    IN CASE r.kind = "need" -> Wait(s)
         [] r.kind = "toolong" -> RejectOver(s, "ChunkLineTooLong")
         [] r.kind = "barelf" ->       \* rejObs: see below; the parser's own "line" runs to the next CRLF
              [Reject(s, "BareLF") EXCEPT !.rejObs = AnyB(Slice(q, s.pos, IF r.alt # 0 THEN r.alt ELSE Min2(n, s.pos + cfg.maxLine)),
                                                             IsObsText)]
         [] OTHER ->
              LET k == r.next - s.pos
                  \* the lax client strips only one kind of line end here: the chunk-size line is cut
                  \* at LF and white space around the size is dropped (http_parser.py `size_b.strip()`)
                  raw == IF cfg.lax THEN Slice(q, s.pos, r.next - 2) ELSE r.line
                  p == ParseChunkSize(raw, cfg.lax)
                  \* lax: the limit is applied to the line cut at LF, i.e. including a trailing CR
                  sT == IF Len(raw) > cfg.maxLine THEN [s EXCEPT !.tight = TRUE] ELSE s
              IN IF Len(r.line) > cfg.maxLine THEN RejectOver(s, "ChunkLineTooLong")
                 \* rejObs: the bad size line holds bytes >= 0x80 (the parser then builds an error text that
                 \* cannot be encoded - own deviation at the connection level)
                 ELSE IF ~p.ok THEN [Reject(s, "ChunkSize") EXCEPT !.rejObs = AnyB(raw, IsObsText)]
                 ELSE LET s1 == AddSoft(Extent(NoteLen([sT EXCEPT !.pos = r.next], Len(r.line), cfg, FALSE), k), p.soft)
                      IN IF p.size = 0 THEN [s1 EXCEPT !.phase = "trailers"]       \* last-chunk
                         ELSE [s1 EXCEPT !.phase = "cdata", !.remaining = p.size]

StepChunkData(s, q, n) ==
    LET avail == n - s.pos + 1
        k == Min2(avail, s.remaining)
    IN IF k <= 0 THEN Wait(s)
       ELSE LET s1 == Extent([s EXCEPT !.pos = s.pos + k, !.remaining = s.remaining - k,
                                      !.cur.body = s.cur.body \o SubSeq(q, s.pos, s.pos + k - 1)], k)
            IN IF s1.remaining = 0
               THEN [s1 EXCEPT !.phase = "ccrlf", !.cur.chunks = Append(s1.cur.chunks, Len(s1.cur.body))]
               ELSE s1

StepChunkCRLF(s, q, n, cfg) ==      \* the CRLF that ends chunk-data
    LET avail == n - s.pos + 1
    IN IF avail <= 0 THEN Wait(s)
       ELSE IF q[s.pos] = LF /\ cfg.lax THEN Extent([s EXCEPT !.pos = s.pos + 1, !.phase = "csize"], 1)
       ELSE IF q[s.pos] # CR THEN Reject(s, "ChunkDataCRLF")
       ELSE IF avail < 2 THEN Wait(s)
       ELSE IF q[s.pos + 1] = LF THEN Extent([s EXCEPT !.pos = s.pos + 2, !.phase = "csize"], 2)
       \* CR CR LF: one CR too many also for the lax reader (it drops a single CR); own reason because the
       \* code's answer depends on whether a read boundary falls between the two CRs
       ELSE IF cfg.lax /\ q[s.pos + 1] = CR /\ avail >= 3 /\ q[s.pos + 2] = LF THEN Reject(s, "ChunkDataCRCRLF")
       ELSE IF cfg.lax /\ q[s.pos + 1] = CR /\ avail < 3 THEN Wait(s)
       ELSE Reject(s, "ChunkDataCRLF")

\* the lax client drops one CR that directly follows the last-chunk line end ("0\n\r\n")
StepTrailers(s, q, n, cfg) == StepField(s, q, n, cfg, TRUE)

Step(s, q, n, cfg) ==
    CASE s.phase = "start" -> StepStart(s, q, n, cfg)
      [] s.phase = "fields" -> StepField(s, q, n, cfg, FALSE)
      [] s.phase = "body" -> StepBody(s, q, n)
      [] s.phase = "eofbody" -> StepEofBody(s, q, n)
      [] s.phase = "csize" -> StepChunkSize(s, q, n, cfg)
      [] s.phase = "cdata" -> StepChunkData(s, q, n)
      [] s.phase = "ccrlf" -> StepChunkCRLF(s, q, n, cfg)
      [] s.phase = "trailers" -> StepTrailers(s, q, n, cfg)
      [] OTHER -> Wait(s)

Stuck(s) == s.wait \/ Terminal(s)

\* run until more input is needed or a terminal phase is reached
RECURSIVE Run(_, _, _, _)
Run(s, q, n, cfg) ==
    IF Stuck(s) THEN s ELSE Run(Step(s, q, n, cfg), q, n, cfg)
Resume(s) == [s EXCEPT !.wait = FALSE]

(* ------------------------------------------------------------------------ *)
(* End of stream: the final classification of the reference.                 *)
\*   "accept"     the stream ended on a message boundary (or inside a tunnel / after close)
\*   "truncated"  the stream ended inside a message (incomplete head or body) - not malformed,
\*                but the last message is not complete
\*   "reject"     malformed / ambiguous / over a limit
\*   "undecided"  outside what the reference decides
Final(s, n) ==
    LET pending == n - s.pos + 1 IN
    CASE s.phase = "rejected" -> "reject"
      [] s.phase = "start" /\ s.pendLF -> "reject"                  \* bare LF in an unfinished request line
      [] s.phase = "undecided" -> "undecided"
      [] s.phase \in {"closed", "tunnel"} -> "accept"
      [] s.phase = "eofbody" -> "accept"
      [] s.phase = "start" -> IF pending > 0 THEN "truncated" ELSE "accept"
      [] OTHER -> "truncated"
\* messages complete at the end of the stream (a close-delimited body completes at EOF)
FinalMsgs(s) == IF s.phase = "eofbody" THEN Append(s.msgs, s.cur) ELSE s.msgs
\* message delivered (head complete) but not complete
Partial(s) == s.cur.delivered /\ s.phase \in {"body", "csize", "cdata", "ccrlf", "trailers", "rejected"}
Softs(s, kind) == SelectSeq(s.soft, LAMBDA x : x.kind = kind)

(* ------------------------------------------------------------------------ *)
(* Internal invariants of the reference (checked by TLC on the bounded model
   HttpFramingMC, and along every validated real execution).                  *)
\* every consumed byte is attributed to exactly one message or to a skipped empty line
Partition(s) ==
    ~(s.phase \in {"rejected", "undecided"}) => s.base + s.pos - 1 = s.attributed + s.cur.extent
\* a message body exists only with framing that announces it
NoBodyWithoutFraming(s) ==
    /\ \A i \in 1..Len(s.msgs) :
          LET m == s.msgs[i] IN
          /\ m.kind \in {"none", "tunnel"} => m.body = <<>>
          /\ m.kind = "cl" => Len(m.body) = DecVal(Combined(m.fields, L_content_length))
          /\ m.kind = "chunked" => (m.chunks = <<>> /\ m.body = <<>>) \/ m.chunks[Len(m.chunks)] = Len(m.body)
    /\ s.cur.kind = "cl" => Len(s.cur.body) + s.remaining = DecVal(Combined(s.cur.fields, L_content_length))
\* an over-limit construct always ends in rejection
OverLimitRejects(s) == s.over => s.phase = "rejected"
\* the reader never waits on more than limit+1 unterminated bytes (retention bound of the reference)
PendingBound(s, n, cfg) ==
    (s.wait /\ s.phase \in {"start", "fields", "csize", "trailers"})
        => n - s.pos + 1 <= Max2(cfg.maxLine, cfg.maxField) + 1
=============================================================================
