SPECIFICATION TSpec
CONSTANTS
  SetupInTry = TRUE
  UnfrozenCleansSubs = TRUE
  CleanupCollects = TRUE
  ShutdownContained = TRUE
  RunAppCatchesBase = TRUE
  MaxStartFaults = 1
  Tree = "one"
  KindsAllowed = {"exc", "base"}
  Entries = {"Runner", "RunnerNoExplicitCleanup", "RunApp"}
POSTCONDITION PrintVerdicts
CHECK_DEADLOCK FALSE
