SPECIFICATION TSpec
CONSTANTS
  SetupInTry = FALSE
  UnfrozenCleansSubs = FALSE
  CleanupCollects = FALSE
  ShutdownContained = FALSE
  RunAppCatchesBase = TRUE
  MaxStartFaults = 1
  Entries = {"Runner", "RunnerNoExplicitCleanup", "RunApp"}
POSTCONDITION PrintVerdicts
CHECK_DEADLOCK FALSE
