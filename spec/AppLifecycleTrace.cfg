SPECIFICATION TSpec
CONSTANTS
  SetupInTry = TRUE
  UnfrozenCleansSubs = TRUE
  CleanupCollects = TRUE
  ShutdownContained = TRUE
  RunAppCatchesBase = TRUE
  MaxStartFaults = 1
  Trees = {"one", "two", "nested"}
  ExtraTreeEntries = {"Runner", "RunnerNoExplicitCleanup", "RunApp"}
  ExtraTreeKinds = {"exc", "base"}
  KindsAllowed = {"exc", "base"}
  Entries = {"Runner", "RunnerNoExplicitCleanup", "RunApp"}
POSTCONDITION PrintVerdicts
CHECK_DEADLOCK FALSE
