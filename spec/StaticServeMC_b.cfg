SPECIFICATION Spec
CONSTANTS
  Part = "b"
  MaxLen = 4
  GzLen = 2
  Space = "factored"
  RefMode = "ideal"
  SuffixClamp = TRUE
INVARIANT InvB_ReqOk
INVARIANT InvB_NonEmpty
INVARIANT InvB_Oracle
INVARIANT InvB_Slice
INVARIANT InvB_Pre
INVARIANT InvB_One
VIEW View
CHECK_DEADLOCK FALSE
