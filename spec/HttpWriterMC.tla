---------------------------- MODULE HttpWriterMC ----------------------------
(* Bounded model for C04 part (b), WriterOps: every sequence of public
   StreamWriter calls up to MaxOps, over chunked x length x compress; the
   compressor returns any number of the pending units per call and everything
   at flush.  `last` carries the call so behaviours can be replayed into the
   real class.                                                                *)
EXTENDS HttpWriter

CONSTANTS MaxOps,        \* number of calls
          MaxSize,       \* data sizes 0..MaxSize (and MaxSize + 1 stands for "> LIMIT")
          Lengths,       \* declared lengths tried (subset of Nat), None always included
          MutB           \* seeded design error ("" = correct design)

(* ------------------------------------------------------------------------ *)
VARIABLES s, last, nops
varsB == <<s, last, nops>>

MHead == <<72, 47, 49, 32, 50, 48, 48, 13, 10, 76, 58, 32, 120, 13, 10, 13, 10>>   \* "H/1 200" CRLF "L: x" CRLF CRLF

Fresh(st, n) == [k \in 1..n |-> 97 + ((Len(st.app) + k - 1) % 26)]
Ev(op, n, big, k) == [op |-> op, n |-> n, big |-> big, k |-> k]
WithData(st, e) == [op |-> e.op, data |-> Fresh(st, e.n), big |-> e.big, k |-> e.k]

InitB ==
    /\ \E ch \in BOOLEAN, len \in Lengths \cup {None}, cz \in BOOLEAN :
          /\ (cz => len = None)
          /\ s = WInit(ch, len, cz, MHead)
    /\ last = Ev("init", 0, FALSE, 0)
    /\ nops = 0

Do(e) ==
    /\ nops < MaxOps
    /\ WLegal(s, WithData(s, e))
    /\ s' = Ref(s, WithData(s, e), MutB)
    /\ last' = e
    /\ nops' = nops + 1

SizesB == 0..(MaxSize + 1)
IsBig(n) == n = MaxSize + 1
KRange(n) == IF s.compress THEN 0..(s.zin + n + 1 - s.zout) ELSE {0}
KAll == 0..(MaxOps * (MaxSize + 1) + 1)

WriteHeaders == s.hdr = "none" /\ Do(Ev("write_headers", 0, FALSE, 0))
SendHeadersBuffered == s.hdr = "buf" /\ Do(Ev("send_headers", 0, FALSE, 0))
SendHeadersNoop == s.hdr # "buf" /\ Do(Ev("send_headers", 0, FALSE, 0))
WriteCoalesced(n, k) == s.hdr = "buf" /\ k \in KRange(n) /\ Do(Ev("write", n, IsBig(n), k))           \* fast path 1
WritePlain(n, k) == s.hdr # "buf" /\ k \in KRange(n) /\ Do(Ev("write", n, IsBig(n), k))
WriteEofCoalesced(n) == s.hdr = "buf" /\ ~s.compress /\ Do(Ev("write_eof", n, FALSE, 0))   \* fast path 2
WriteEofCoalescedZ(n) == s.hdr = "buf" /\ s.compress /\ Do(Ev("write_eof", n, FALSE, 0))   \* fast path 3
WriteEofPlain(n) == s.hdr # "buf" /\ Do(Ev("write_eof", n, FALSE, 0))
SetEofCoalesced == s.hdr = "buf" /\ Do(Ev("set_eof", 0, FALSE, 0))                \* fast path 4
SetEofPlain == s.hdr # "buf" /\ Do(Ev("set_eof", 0, FALSE, 0))
Drain == nops < MaxOps /\ Do(Ev("drain", 0, FALSE, 0))

NextB == \/ WriteHeaders \/ SendHeadersBuffered \/ SendHeadersNoop \/ Drain
         \/ SetEofCoalesced \/ SetEofPlain
         \/ \E n \in SizesB, k \in KAll : WriteCoalesced(n, k)
         \/ \E n \in SizesB, k \in KAll : WritePlain(n, k)
         \/ \E n \in 0..MaxSize : WriteEofCoalesced(n)
         \/ \E n \in 0..MaxSize : WriteEofCoalescedZ(n)
         \/ \E n \in 0..MaxSize : WriteEofPlain(n)
SpecB == InitB /\ [][NextB]_varsB

InvHdrOnceFirst == HdrOnceFirst(s)
InvChunkedDecodes == ChunkedDecodes(s)
InvLengthRespected == LengthRespected(s)
InvCompressComplete == CompressComplete(s)
InvEofFramed == EofFramed(s)
\* whenever the application supplies exactly the number of bytes that was declared, exactly
\* those bytes are on the wire once the message is complete (the web.Response / sized Payload case)
InvDeclaredEqualsActual ==
    (s.eof /\ ~s.chunked /\ s.length0 # None /\ Len(s.fin) = s.length0)
        => Drop(s.wire, Len(s.head)) = s.fin
\* no zero-size chunk before the end: a decoded stream that is not finished never contains one
InvNoEmptyChunk ==
    (s.chunked /\ ~s.eof /\ s.wire # <<>>) => ~ChunkDecode(Drop(s.wire, Len(s.head))).last
ViewB == <<[s EXCEPT !.nwr = 0, !.drains = 0], nops>>
=============================================================================
