---------------------------- MODULE WireDecision ----------------------------
(* C02 - wire round trip between the two aiohttp ends: framing and keep-alive decisions.

   Two implementation-shaped decision tables per direction, composed with the RFC 9112
   section 6.3 message-body-length rule as the oracle.  There is no interleaving: Init
   enumerates the full product of the inputs, the sender decides, the receiver decides,
   and the invariants are evaluated on the result.

   RESPONSE SIDE (inputs = what the request said + what the handler returns)
     ServerDecide  mirrors  web_response.Response._start, StreamResponse._prepare_headers /
                   _start_compression, Response.write_eof, http_writer.StreamWriter
                   (enable_chunking / length / enable_compression / write / write_eof),
                   web_fileresponse.FileResponse.prepare and web_protocol.RequestHandler.start
                   (self._keepalive = bool(resp.keep_alive); lingering close of an unfinished
                   request payload)
     ClientDecide  mirrors  http_parser.HttpResponseParser.parse_message (close),
                   HttpParser.feed_data branch selection (payload kind) and
                   client_proto.ResponseHandler.should_close
   REQUEST SIDE  (inputs = arguments of ClientSession.request)
     ReqDecide     mirrors  client_reqrep.ClientRequest.__init__ (_update_content_encoding,
                   _update_body_from_data, _update_transfer_encoding, _update_expect_continue),
                   _create_writer, _should_write / _write_bytes
     SrvReqDecide  mirrors  http_parser.HttpRequestParser.parse_message + feed_data branch
                   selection and web_urldispatcher._default_expect_handler

   Sizes are symbolic: a non-empty logical body has sz.n bytes, its compressed form sz.z bytes,
   the compressed form of nothing sz.z0 bytes (a deflate/gzip stream is never empty).

   KNOWN DEVIATIONS are constants: TRUE = the ideal design, FALSE = the code as found.
   Every invariant holds in the ideal configuration (WireDecision_ideal.cfg).  The configuration
   of the code as found is WireDecision_ascoded.cfg: there the invariants <Inv>ButKnown hold,
   i.e. the full invariants outside the input regions of the deviations whose constant is FALSE.
   PrintExhibits (POSTCONDITION of the ideal run) enumerates, for every deviation switched off
   alone, which invariants break, on how many inputs, and a witness input.

   Invariants (all evaluated over the full product, no interleaving):
     FramingTruthful     the bytes the sender's writer mode emits are exactly what
                         Rfc9112BodyLength(emitted fields) delimits; no CL+TE, no TE on 1.0,
                         no CL/TE on 204 / 2xx-to-CONNECT
     ReceiverFollowsRfc  the receiver's parser branch = Rfc9112BodyLength(emitted fields)
     CloseAgree          srvKeepsOpen <=> cliReuses, and UntilEOF => ~srvKeepsOpen
     NoHang              never (UntilEOF /\ srvKeepsOpen); never (client waits for 100 /\ server sends none)  *)
EXTENDS Naturals, Integers, Sequences, FiniteSets, TLC

CONSTANTS
    Http10UnsizedCloses,    \* (i)   _prepare_headers: HTTP/1.0 + no length => self._keep_alive := False (code: only a local)
    ChunkedFlagTruthy,      \* (ii)  ClientRequest._create_writer: `if self.chunked:` (code: `is not None`)
    ChunkedSetsTE,          \* (iii) chunked=True on a body-less GET/HEAD sets Transfer-Encoding (code: header only when data or non-GET)
    HeadStreamSuppressed,   \* (iv)  StreamResponse.write() to a HEAD response sends nothing (code: sent raw)
    EmptyBodyNoFlush,       \* (v)   no compressor flush after a HEAD/204/304 head (code: writer.write_eof flushes 8..20 bytes)
    HandlerConnHonored,     \* (vi)  a Connection header set by the handler and resp.keep_alive agree (code: header passed through)
    HeadReqBodyFramed,      \* (vii) HttpRequestParser frames the body of a HEAD request by CL/TE (code: treats it as empty)
    HeadNoLenReusable,      \* (viii) client: HEAD response without CL/TE on HTTP/1.1 does not imply close (code: close)
    ConnectAware,           \* (ix)  the server, which consumes everything after a CONNECT request as tunnel data and closes,
                            \*       announces it: request.keep_alive is False, the answer carries Connection: close
                            \*       (code: closes silently after its lingering time; the client pools e.g. CONNECT + 404/204)
    Http10NoChunkedReq,     \* (x)   client refuses / avoids Transfer-Encoding on an HTTP/1.0 request (code: sends it)
    Expect10Proceeds,       \* (xi)  client does not wait for 100 Continue on HTTP/1.0 (code: waits forever)
    RefusedPrepareCleansWriter, \* (xii) prepare() that raises (chunked encoding on HTTP/1.0) leaves the request's StreamWriter
                            \*       untouched (code: compression already enabled; the framework's 500 page goes through it)
    FailedPrepareCleansWriter,  \* (xiii) prepare() failing after _prepare_headers (an on_response_prepare handler raises):
                            \*       the 500 page is not written through the writer state of the failed response
                            \*       (code: writer.chunked / compression stay enabled: chunk framing behind a Content-Length)
    WithheldBodyCloses,     \* (xiv) client: a request whose body was never started (Expect: 100-continue answered by a final
                            \*       response) is not followed by another request on that connection (code: the cancellation of
                            \*       the body writer at `await self._continue` is outside the try that closes: connection pooled)
    HostKeptOnRetry,        \* (xv)  client: the retry of an idempotent request on a new connection carries the caller's Host
                            \*       header (code: ClientRequest._update_headers pops Host out of the dict _request() reuses)
    \* mechanisms (TRUE in the ideal design AND in the code as found; switched off only by the self-test / exhibits)
    CutBodyCloses,          \* client: body writer cancelled in mid-body by an early final response => connection closed
    CancelCloses,           \* client: caller cancelled before the end of the response => connection closed, never pooled
    FreshHeaderContainer    \* server: a response copies the header container it is given (nothing of an earlier response's
                            \*       framing fields is carried into the next one built from the same container)

None == -1                      \* "header absent" / "no length"

Min(a, b) == IF a < b THEN a ELSE b

Methods   == {"GET", "HEAD", "POST", "CONNECT"}
Versions  == {10, 11}
ReqConns  == {"absent", "close", "keepalive"}
Statuses  == {200, 204, 304, 404}
Kinds     == {"bytes0", "bytesN", "bytesChunked", "paySized", "payUnsized", "streamCL", "streamChunked", "streamPlain", "file"}
             \* bytesChunked = web.Response(body=bytes) + enable_chunked_encoding(): head and body leave in one write
Comps     == {"off", "nego", "forced"}
HConns    == {"none", "close", "keepalive"}

StreamKinds == {"streamCL", "streamChunked", "streamPlain"}
\* carry = "te": the handler builds the response from a header container that an earlier chunked response was built from
\* hook  = "raise": an on_response_prepare handler raises inside StreamResponse.prepare() (called by the handler)
RespInputs == {i \in [m : Methods, ver : Versions, rconn : ReqConns, st : Statuses, kind : Kinds,
                      comp : Comps, fclose : BOOLEAN, hconn : HConns, carry : {"none", "te"}, hook : {"ok", "raise"}] :
                  /\ i.carry = "te" => i.kind \in StreamKinds \cup {"file"}
                  /\ i.hook = "raise" => i.kind \in StreamKinds}

ReqMethods == {"GET", "HEAD", "POST", "DELETE"}
ReqBodies  == {"none", "empty", "sized", "unsized", "slowSized", "slowUnsized"}
              \* slow = an async generator that yields between pieces; slowSized: the caller sets Content-Length itself
ChunkedArg == {"None", "True", "False"}
\* early  the handler answers without reading the request body
\* xmode  how the route treats Expect: default (100 Continue on HTTP/1.1) | reject (expect handler answers 417/403) |
\*        no100 (a custom expect handler that sends nothing)
\* abort  the caller is cancelled before the response head / inside the response body
\* pre    connection history: fresh | reused (pooled, alive) | stale (pooled, the server has closed it, FIN in flight)
\* chost  the caller passes its own Host header
ReqInputs  == {r \in [m : ReqMethods, ver : Versions, body : ReqBodies, chunked : ChunkedArg,
                      compress : BOOLEAN, expect : BOOLEAN, early : BOOLEAN, xmode : {"default", "reject", "no100"},
                      abort : {"none", "beforeHead", "midBody"}, pre : {"fresh", "reused", "stale"}, chost : BOOLEAN] :
                  /\ r.xmode # "default" => r.expect
                  /\ r.xmode = "no100" => r.early                 \* (a handler that then waits for the body is an application bug)
                  /\ r.abort # "none" => (~r.early /\ r.xmode = "default" /\ r.pre = "fresh" /\ ~r.chost)
                  /\ r.pre # "fresh" => (~r.early /\ r.xmode = "default")
                  /\ r.chost => (~r.early /\ r.xmode = "default")}

Sz0 == [n |-> 7, z |-> 5, z0 |-> 2]
Zof(p, sz) == IF p = 0 THEN sz.z0 ELSE sz.z

-----------------------------------------------------------------------------
(* RFC 9112 section 6.3 - message body length.
   f = [cl |-> None | -2 (invalid) | n, te |-> "none" | "chunked" | "other"]                  *)
Mode(k, n) == [k |-> k, n |-> n]

Rfc9112BodyLength(status, reqMethod, version, f) ==
    IF reqMethod = "HEAD" \/ status \in 100..199 \/ status \in {204, 304}
        THEN Mode("Empty", 0)                                           \* 6.3 rule 1
    ELSE IF reqMethod = "CONNECT" /\ status \in 200..299
        THEN Mode("Tunnel", 0)                                          \* rule 2
    ELSE IF f.te # "none"                                               \* rules 3, 4 (TE overrides CL)
        THEN (IF f.te = "chunked" THEN Mode("Chunked", 0) ELSE Mode("UntilEOF", 0))
    ELSE IF f.cl = -2 THEN Mode("Error", 0)                             \* rule 5
    ELSE IF f.cl >= 0 THEN Mode("Length", f.cl)                         \* rule 6
    ELSE Mode("UntilEOF", 0)                                            \* rule 8

Rfc9112ReqBodyLength(f) ==
    IF f.te # "none"
        THEN (IF f.te = "chunked" THEN Mode("Chunked", 0) ELSE Mode("Error", 0))   \* rule 4: 400
    ELSE IF f.cl = -2 THEN Mode("Error", 0)
    ELSE IF f.cl >= 0 THEN Mode("Length", f.cl)
    ELSE Mode("Empty", 0)                                               \* rule 7

-----------------------------------------------------------------------------
(* Response side, sender: the server.                                                          *)
ReqClose(ver, rconn) ==             \* HttpRequestParser.parse_message: close
    IF rconn = "close" THEN TRUE ELSE IF rconn = "keepalive" THEN FALSE ELSE ver = 10

MustEmpty(m, st) == st \in {204, 304} \/ st \in 100..199 \/ m = "HEAD" \/ (st \in 200..299 /\ m = "CONNECT")
RemoveCL(m, st)  == st \in {204, 304} \/ st \in 100..199 \/ (st \in 200..299 /\ m = "CONNECT")
IsStream(k)    == k \in {"streamCL", "streamChunked", "streamPlain"}
IsBytes(k)     == k \in {"bytes0", "bytesN"}
Logical(k, sz) == IF k = "bytes0" THEN 0 ELSE sz.n

SrvDecideD(i, sz, D) ==
    LET me      == MustEmpty(i.m, i.st)
        comp    == i.comp # "off"
        L       == Logical(i.kind, sz)
        chFlag  == i.kind \in {"streamChunked", "bytesChunked"}  \* enable_chunked_encoding()
        refused == chFlag /\ i.ver # 11                         \* _prepare_headers raises RuntimeError
        \* Response._start / handler / FileResponse: Content-Length before compression
        cl0     == CASE IsBytes(i.kind)       -> (IF L # 0 \/ (i.st # 304 /\ i.m # "HEAD") THEN L ELSE None)
                     [] i.kind = "paySized"   -> L
                     [] i.kind = "streamCL"   -> L
                     [] i.kind = "file"       -> L
                     [] OTHER                 -> None
        whole   == comp /\ IsBytes(i.kind)      \* Response._do_start_compression: body compressed up front
        wComp   == comp /\ ~IsBytes(i.kind)     \* StreamResponse._do_start_compression: writer.enable_compression
        cl1     == IF whole THEN Zof(L, sz) ELSE IF wComp THEN None ELSE cl0
        handed  == IF whole THEN Zof(L, sz) ELSE L              \* bytes a Response hands to write_eof
        \* _prepare_headers
        closeH  == D.HandlerConnHonored /\ i.hconn = "close"
        ka0     == IF i.fclose \/ closeH \/ (D.ConnectAware /\ i.m = "CONNECT") THEN FALSE ELSE ~ReqClose(i.ver, i.rconn)
        wLen    == IF chFlag THEN None
                   ELSE IF cl1 # None THEN cl1
                   ELSE IF IsBytes(i.kind) THEN L               \* Response.content_length: len(body)
                   ELSE None
        unsized == ~chFlag /\ wLen = None
        wChunk  == ~me /\ i.ver = 11 /\ (chFlag \/ unsized)     \* writer.enable_chunking()
        staleTE == i.carry = "te" /\ ~D.FreshHeaderContainer /\ ~me   \* Transfer-Encoding left in the shared container
        eofDel  == unsized /\ i.ver = 10 /\ ~me                 \* `keep_alive = False` (local)
        kaHdr   == IF eofDel THEN FALSE ELSE ka0
        kaSelf  == IF eofDel /\ D.Http10UnsizedCloses THEN FALSE ELSE ka0
        cl2     == IF me /\ RemoveCL(i.m, i.st) THEN None ELSE cl1
        autoCon == IF kaHdr THEN (IF i.ver = 10 THEN "keep-alive" ELSE "none")
                   ELSE (IF i.ver = 11 THEN "close" ELSE "none")
        conn    == IF i.hconn = "none" THEN autoCon
                   ELSE IF i.hconn = "close" THEN "close"
                   ELSE IF D.HandlerConnHonored /\ ~kaHdr THEN autoCon      \* contradicting keep-alive header dropped
                   ELSE "keep-alive"
        \* what is pushed through StreamWriter.write / write_eof
        P       == CASE IsStream(i.kind) ->
                            (IF i.st \in {204, 304} THEN 0      \* the handler knows its own status
                             ELSE IF i.m = "HEAD" /\ D.HeadStreamSuppressed THEN 0
                             ELSE L)
                     [] me                 -> 0                  \* Response.write_eof / FileResponse.prepare skip the body
                     [] IsBytes(i.kind)    -> handed
                     [] OTHER              -> L
        wCompE  == wComp /\ ~(me /\ D.EmptyBodyNoFlush)           \* ideal: no writer compression behind a body-less head
        sent    == IF wCompE THEN Zof(P, sz)                     \* write_eof: compress.flush() is never empty
                   ELSE IF wLen # None /\ ~IsBytes(i.kind) THEN Min(P, wLen)   \* StreamWriter.write length cap
                   ELSE P
        linger  == i.m = "CONNECT"                              \* request payload never ends: lingering close
        \* refused: the handler's exception is answered by RequestHandler.handle_error (500 text page, force_close)
        stale   == comp /\ ~D.RefusedPrepareCleansWriter         \* writer.enable_compression() happened before the raise
        sentR   == IF i.m = "HEAD" THEN (IF stale /\ ~D.EmptyBodyNoFlush THEN Zof(0, sz) ELSE 0)
                   ELSE IF stale THEN Zof(sz.n, sz) ELSE sz.n
        \* hook = raise: _prepare_headers ran to its end (chunking, compression enabled), then prepare() raised
        hookF   == ~refused /\ i.hook = "raise"
        staleCh == wChunk /\ ~D.FailedPrepareCleansWriter
        staleCo == wCompE /\ ~D.FailedPrepareCleansWriter
        sentH   == IF i.m = "HEAD" THEN (IF staleCo THEN Zof(0, sz) ELSE 0)
                   ELSE IF staleCo THEN Zof(sz.n, sz) ELSE sz.n
    IN IF refused
       THEN [refused |-> TRUE, st |-> 500,
             cl |-> sz.n, te |-> "none", conn |-> IF i.ver = 11 THEN "close" ELSE "none", ce |-> FALSE,
             wChunked |-> FALSE, sent |-> sentR, keeps |-> FALSE]
       ELSE IF hookF
       THEN [refused |-> TRUE, st |-> 500,
             cl |-> sz.n, te |-> "none", conn |-> IF i.ver = 11 THEN "close" ELSE "none", ce |-> FALSE,
             wChunked |-> staleCh, sent |-> sentH, keeps |-> FALSE]
       ELSE [refused |-> FALSE, st |-> i.st,
             cl |-> cl2, te |-> IF wChunk \/ staleTE THEN "chunked" ELSE "none", conn |-> conn, ce |-> comp,
             wChunked |-> wChunk, sent |-> sent,
             keeps |-> kaSelf /\ ~linger]

(* Response side, receiver: the client.  e = emitted fields [st, cl, te, conn].                *)
CliDecideD(i0, e, D) ==
    LET i       == [i0 EXCEPT !.st = e.st]
        err     == e.te # "none" /\ e.cl # None                     \* parse_headers: BadHttpMessage
        noLen   == e.cl = None /\ e.te = "none"
        close   == IF e.conn = "close" THEN TRUE
                   ELSE IF e.conn = "keep-alive" THEN FALSE
                   ELSE IF i.ver = 10 THEN TRUE
                   ELSE IF i.st \in 100..199 \/ i.st \in {204, 304} THEN FALSE
                   ELSE IF ~noLen THEN FALSE
                   ELSE IF D.HeadNoLenReusable /\ i.m = "HEAD" THEN FALSE
                   ELSE TRUE
        emptyB  == i.st \in {204, 304} \/ i.st \in 100..199         \* parser.method is None on the client
        skip    == i.m = "HEAD"                                     \* response_with_body = False
        mode    == IF ~emptyB /\ (e.cl > 0 \/ e.te = "chunked")
                       THEN (IF skip THEN Mode("Empty", 0)
                             ELSE IF e.te = "chunked" THEN Mode("Chunked", 0) ELSE Mode("Length", e.cl))
                   ELSE IF ~emptyB /\ e.cl = None                   \* read_until_eof = True
                       THEN (IF skip THEN Mode("Empty", 0) ELSE Mode("UntilEOF", 0))
                   ELSE Mode("Empty", 0)
    IN [err |-> err, mode |-> mode, reuses |-> ~err /\ ~close /\ mode.k # "UntilEOF"]

-----------------------------------------------------------------------------
(* Request side, sender: the client.                                                            *)
GetMethods == {"GET", "HEAD"}         \* ClientRequest.GET_METHODS (+ OPTIONS, TRACE)

IdempotentMethods == {"GET", "HEAD", "DELETE"}      \* client.py IDEMPOTENT_METHODS (+ OPTIONS, TRACE, PUT)

ReqDecideD(r, sz, D) ==
    LET hasData  == r.body # "none"
        \* ClientSession._request: a pooled connection that turns out dead => one retry for idempotent methods;
        \* the retry is built from the first attempt's Payload object (`data = req._body`), which is truthy even
        \* when it wraps b"": compress= then applies although it did not on the first attempt
        retried  == r.pre = "stale" /\ r.m \in IdempotentMethods
        truthy   == r.body \in {"sized", "unsized", "slowSized", "slowUnsized"}      \* `if not data: return`
                    \/ (retried /\ r.body = "empty")
        slow     == r.body \in {"slowSized", "slowUnsized"}
        noSize   == r.body \in {"unsized", "slowSized", "slowUnsized"}               \* payload.size is None
        userCL   == r.body = "slowSized"                         \* Content-Length among the caller's headers
        L        == IF truthy /\ r.body # "empty" THEN sz.n ELSE 0
        comp     == r.compress /\ truthy                        \* _update_content_encoding
        ch0      == IF comp THEN "True" ELSE r.chunked           \* self.chunked = True
        chT0     == ch0 = "True"
        \* _update_body_from_data
        cl       == IF userCL THEN L
                    ELSE IF ~hasData
                        THEN (IF r.m \notin GetMethods /\ ~chT0 THEN 0 ELSE None)
                    ELSE IF ~chT0 /\ ~noSize THEN L ELSE None
        ch1      == IF hasData /\ ~chT0 /\ noSize /\ ~userCL THEN "True" ELSE ch0
        chT      == ch1 = "True"
        \* _update_transfer_encoding is only called when data is not None or method not in GET_METHODS
        teCalled == hasData \/ r.m \notin GetMethods \/ D.ChunkedSetsTE
        te       == IF chT /\ teCalled /\ cl = None THEN "chunked" ELSE "none"
        refused  == \/ (D.Http10NoChunkedReq /\ r.ver = 10 /\ te = "chunked")
                    \/ (chT /\ teCalled /\ cl # None)          \* ValueError: chunked with a Content-Length header
        \* _create_writer
        wChunk   == IF D.ChunkedFlagTruthy THEN chT ELSE ch1 # "None"
        sent     == IF comp THEN Zof(L, sz) ELSE L
        expectH  == r.expect /\ ~(D.Expect10Proceeds /\ r.ver = 10)   \* ideal: no expectation towards an HTTP/1.0 server
        waits100 == expectH
        \* how much of the declared body reaches the wire (_write_bytes; ClientResponse._response_eof cancels the writer)
        gets100  == waits100 /\ r.ver = 11 /\ r.xmode = "default"
        finalEarly == r.early \/ r.xmode = "reject"              \* a final response arrives without the body being read
        bodySent == IF waits100 /\ finalEarly THEN "none"         \* still (or again) at `await self._continue`
                    ELSE IF slow /\ finalEarly THEN "part"
                    ELSE "all"
        cut      == (cl > 0 \/ te = "chunked") /\ bodySent # "all"
        cliCloses == \/ (bodySent = "none" /\ D.WithheldBodyCloses)
                     \/ (bodySent = "part" /\ D.CutBodyCloses)
                     \/ (r.abort # "none" /\ D.CancelCloses)
        hostKept == ~r.chost \/ ~retried \/ D.HostKeptOnRetry
    IN [refused |-> refused, cl |-> cl, te |-> te, ce |-> comp, expect |-> expectH,
        wChunked |-> wChunk, sent |-> sent, waits100 |-> waits100, finalEarly |-> finalEarly,
        bodySent |-> bodySent, cut |-> cut, cliCloses |-> cliCloses, retried |-> retried, hostKept |-> hostKept]

(* Request side, receiver: the server.                                                          *)
SrvReqDecideD(r, e, D) ==
    LET err    == e.te # "none" /\ e.cl # None
        emptyB == ~D.HeadReqBodyFramed /\ r.m = "HEAD"            \* `method in EMPTY_BODY_METHODS`
        mode   == IF ~emptyB /\ (e.cl > 0 \/ e.te = "chunked")
                      THEN (IF e.te = "chunked" THEN Mode("Chunked", 0) ELSE Mode("Length", e.cl))
                  ELSE IF ~emptyB /\ e.cl = 0 THEN Mode("Length", 0)
                  ELSE Mode("Empty", 0)
        sends100 == e.expect /\ r.ver = 11 /\ r.xmode = "default"   \* _default_expect_handler
        \* RequestHandler.start: request payload not at EOF after the response => lingering read, then close
        srvCloses == e.cut /\ mode.k # "Empty"
    IN [err |-> err, mode |-> mode, sends100 |-> sends100, srvCloses |-> srvCloses]

-----------------------------------------------------------------------------
(* The tables take the deviation switches as a record D; DC is the configuration given by the CONSTANTS.   *)
DevNames == {"Http10UnsizedCloses", "ChunkedFlagTruthy", "ChunkedSetsTE", "HeadStreamSuppressed", "EmptyBodyNoFlush", "HandlerConnHonored", "HeadReqBodyFramed", "HeadNoLenReusable", "ConnectAware", "Http10NoChunkedReq", "Expect10Proceeds", "RefusedPrepareCleansWriter",
             "FailedPrepareCleansWriter", "WithheldBodyCloses", "HostKeptOnRetry",
             "CutBodyCloses", "CancelCloses", "FreshHeaderContainer"}
DC == [Http10UnsizedCloses |-> Http10UnsizedCloses,
       ChunkedFlagTruthy |-> ChunkedFlagTruthy,
       ChunkedSetsTE |-> ChunkedSetsTE,
       HeadStreamSuppressed |-> HeadStreamSuppressed,
       EmptyBodyNoFlush |-> EmptyBodyNoFlush,
       HandlerConnHonored |-> HandlerConnHonored,
       HeadReqBodyFramed |-> HeadReqBodyFramed,
       HeadNoLenReusable |-> HeadNoLenReusable,
       ConnectAware |-> ConnectAware,
       Http10NoChunkedReq |-> Http10NoChunkedReq,
       Expect10Proceeds |-> Expect10Proceeds,
       RefusedPrepareCleansWriter |-> RefusedPrepareCleansWriter,
       FailedPrepareCleansWriter |-> FailedPrepareCleansWriter,
       WithheldBodyCloses |-> WithheldBodyCloses,
       HostKeptOnRetry |-> HostKeptOnRetry,
       CutBodyCloses |-> CutBodyCloses,
       CancelCloses |-> CancelCloses,
       FreshHeaderContainer |-> FreshHeaderContainer]
Ideal == [n \in DevNames |-> TRUE]
OnlyOff(k) == [n \in DevNames |-> n # k]          \* everything ideal except deviation k

SrvDecide(i, sz)    == SrvDecideD(i, sz, DC)
CliDecide(i, e)     == CliDecideD(i, e, DC)
ReqDecide(r, sz)    == ReqDecideD(r, sz, DC)
SrvReqDecide(r, e)  == SrvReqDecideD(r, e, DC)

-----------------------------------------------------------------------------
(* The model: pure enumeration.                                                                 *)
VARIABLES side, phase, inp, out, rcv

vars == <<side, phase, inp, out, rcv>>

Blank == [none |-> TRUE]

Init ==
    /\ phase = "chosen"
    /\ out = Blank /\ rcv = Blank
    /\ \/ side = "resp" /\ inp \in RespInputs
       \/ side = "req" /\ inp \in ReqInputs

ServerDecide ==
    /\ side = "resp" /\ phase = "chosen"
    /\ out' = SrvDecide(inp, Sz0)
    /\ phase' = "sent" /\ UNCHANGED <<side, inp, rcv>>

ClientDecide ==
    /\ side = "resp" /\ phase = "sent"
    /\ rcv' = CliDecide(inp, out)
    /\ phase' = "done" /\ UNCHANGED <<side, inp, out>>

ClientReqDecide ==
    /\ side = "req" /\ phase = "chosen"
    /\ out' = ReqDecide(inp, Sz0)
    /\ phase' = "sent" /\ UNCHANGED <<side, inp, rcv>>

ServerReqDecide ==
    /\ side = "req" /\ phase = "sent"
    /\ rcv' = SrvReqDecide(inp, out)
    /\ phase' = "done" /\ UNCHANGED <<side, inp, out>>

Next == ServerDecide \/ ClientDecide \/ ClientReqDecide \/ ServerReqDecide

Spec == Init /\ [][Next]_vars

-----------------------------------------------------------------------------
(* Invariants.  One definition (RespChecks / ReqChecks) serves the state invariants below and the
   constant-level enumeration PrintExhibits.                                                     *)
RespDone == side = "resp" /\ phase = "done"
ReqDone  == side = "req" /\ phase = "done" /\ ~out.refused

\* the bytes the writer mode emits are exactly what the oracle delimits from the emitted fields
Truthful(o, w) ==
    CASE o.k = "Empty"               -> ~w.wChunked /\ w.sent = 0
      [] o.k = "Tunnel"              -> ~w.wChunked                  \* what follows the head is tunnel data
      [] o.k = "Length"              -> ~w.wChunked /\ w.sent = o.n
      [] o.k = "Chunked"             -> w.wChunked
      [] o.k = "UntilEOF"            -> ~w.wChunked
      [] OTHER                       -> FALSE

\* RFC 9112 6.1/6.2, RFC 9110 8.6: field combinations a sender must not produce
FieldRules(ver, st, m, w) ==
    /\ ~(w.cl # None /\ w.te # "none")
    /\ ver = 10 => w.te = "none"
    /\ (st = 204 \/ st \in 100..199 \/ (m = "CONNECT" /\ st \in 200..299)) => (w.cl = None /\ w.te = "none")

Norm(a) == IF a.k = "Length" /\ a.n = 0 THEN Mode("Empty", 0) ELSE a      \* a zero-length body is no body
SameMode(a, b) == Norm(a) = Norm(b)
                  \/ (a.k = "Tunnel" /\ b.k = "UntilEOF")              \* a tunnel is consumed until the connection ends

InvNames == {"FramingTruthful", "ReceiverFollowsRfc", "CloseAgree", "NoHang", "UnfinishedNeverReused", "RetrySameRequest"}

RespChecks(i, o, r) ==
    LET orc == Rfc9112BodyLength(o.st, i.m, i.ver, o) IN
    [FramingTruthful    |-> Truthful(orc, o) /\ FieldRules(i.ver, o.st, i.m, o),
     ReceiverFollowsRfc |-> ~r.err /\ SameMode(orc, r.mode),
     CloseAgree         |-> (o.keeps <=> r.reuses) /\ (r.mode.k = "UntilEOF" => ~o.keeps),
     NoHang             |-> ~(r.mode.k = "UntilEOF" /\ o.keeps),
     UnfinishedNeverReused |-> TRUE,
     RetrySameRequest   |-> TRUE]

ReqChecks(q, o, r) ==
    LET orc == Rfc9112ReqBodyLength(o) IN
    [FramingTruthful    |-> FieldRules(q.ver, 0, "", o) /\ (o.bodySent = "all" => Truthful(orc, o)),
     ReceiverFollowsRfc |-> ~r.err /\ SameMode(orc, r.mode),
     CloseAgree         |-> TRUE,
     NoHang             |-> ~(o.waits100 /\ ~r.sends100 /\ ~o.finalEarly),
     \* a connection on which a declared request body was not completed, or whose caller gave up before the end of
     \* the response, never carries another request (client), and the server does not wait on it for ever
     UnfinishedNeverReused |-> /\ (o.cut \/ q.abort # "none") => o.cliCloses
                               /\ o.cut => r.srvCloses,
     \* the retry of a request is the same request (the caller's Host header included)
     RetrySameRequest   |-> o.hostKept]

Oracle    == Rfc9112BodyLength(out.st, inp.m, inp.ver, out)
ReqOracle == Rfc9112ReqBodyLength(out)

Holds(n) == /\ RespDone => RespChecks(inp, out, rcv)[n]
            /\ ReqDone => ReqChecks(inp, out, rcv)[n]
FramingTruthful    == Holds("FramingTruthful")
ReceiverFollowsRfc == Holds("ReceiverFollowsRfc")
CloseAgree         == Holds("CloseAgree")
NoHang             == Holds("NoHang")
UnfinishedNeverReused == Holds("UnfinishedNeverReused")
RetrySameRequest   == Holds("RetrySameRequest")

(* Every deviation on its own (everything else ideal) must break an invariant, and the driver wants to know
   which, on how many inputs, and where: a constant-level enumeration over the same product space
   (one pass per deviation over the side it belongs to), printed by a POSTCONDITION
   (WireDecisionExhibit.tla runs it for a subset of the deviations, so that the subsets run in parallel).   *)
ReqSideDevs == {"ChunkedFlagTruthy", "ChunkedSetsTE", "HeadReqBodyFramed", "Http10NoChunkedReq", "Expect10Proceeds",
                "WithheldBodyCloses", "HostKeptOnRetry", "CutBodyCloses", "CancelCloses"}
FailResp(i, D) == LET o == SrvDecideD(i, Sz0, D)
                      v == RespChecks(i, o, CliDecideD(i, o, D))
                  IN  {n \in InvNames : ~v[n]}
FailReq(q, D)  == LET o == ReqDecideD(q, Sz0, D) IN
                  IF o.refused THEN {}
                  ELSE LET v == ReqChecks(q, o, SrvReqDecideD(q, o, D)) IN {n \in InvNames : ~v[n]}
\* the scenario dimensions carry / hook only matter to the switches that concern them
ExhibitInputs(k) ==
    IF k = "FailedPrepareCleansWriter" THEN {i \in RespInputs : i.hook = "raise" /\ i.carry = "none"}
    ELSE IF k = "FreshHeaderContainer" THEN {i \in RespInputs : i.carry = "te" /\ i.hook = "ok"}
    ELSE {i \in RespInputs : i.carry = "none" /\ i.hook = "ok"}
Exhibit(k) ==
    LET D   == OnlyOff(k)
        bad == IF k \in ReqSideDevs
               THEN {p \in {<<q, FailReq(q, D)>> : q \in ReqInputs} : p[2] # {}}
               ELSE {p \in {<<i, FailResp(i, D)>> : i \in ExhibitInputs(k)} : p[2] # {}}
        wit == IF bad # {} THEN (CHOOSE p \in bad : TRUE)[1] ELSE [none |-> TRUE]
    IN <<"VP", "E", k, UNION {p[2] : p \in bad}, Cardinality(bad), wit>>
PrintExhibits == TLCGet("distinct") >= 0 /\ \A k \in DevNames : PrintT(Exhibit(k))

\* --- the same invariants with the named deviations carved out (as-coded configuration).  A carve-out exists only
\* while its constant is FALSE: once a deviation is repaired (constant TRUE) the full invariant applies again. ---
DevStaleWriter   == ~RefusedPrepareCleansWriter /\ RespDone /\ out.refused /\ inp.comp # "off"
DevHttp10Unsized == ~Http10UnsizedCloses /\ RespDone /\ ~out.refused /\ inp.ver = 10 /\ out.cl = None /\ out.te = "none" /\ ~MustEmpty(inp.m, inp.st)
                        /\ ~inp.fclose /\ ~ReqClose(inp.ver, inp.rconn)
DevHeadStream    == ~HeadStreamSuppressed /\ RespDone /\ inp.m = "HEAD" /\ IsStream(inp.kind) /\ inp.st \notin {204, 304}
DevEmptyFlush    == ~EmptyBodyNoFlush /\ RespDone /\ Oracle.k = "Empty" /\ inp.comp # "off" /\ ~IsBytes(inp.kind)
DevHandlerConn   == ~HandlerConnHonored /\ RespDone /\ inp.hconn # "none"
DevHeadNoLen     == ~HeadNoLenReusable /\ RespDone /\ inp.m = "HEAD" /\ inp.ver = 11 /\ out.cl = None /\ out.te = "none" /\ out.conn = "none"
DevConnect       == ~ConnectAware /\ RespDone /\ inp.m = "CONNECT"
DevChunkedFalse  == ~ChunkedFlagTruthy /\ ReqDone /\ inp.chunked = "False" /\ ~(inp.compress /\ inp.body \in {"sized", "unsized"})
                        /\ inp.body # "unsized"
DevChunkedNoTE   == ~ChunkedSetsTE /\ ReqDone /\ inp.chunked = "True" /\ inp.body = "none" /\ inp.m \in GetMethods
DevHeadReqBody   == ~HeadReqBodyFramed /\ ReqDone /\ inp.m = "HEAD" /\ (out.cl > 0 \/ out.te = "chunked")
DevHttp10TE      == ~Http10NoChunkedReq /\ ReqDone /\ inp.ver = 10 /\ out.te = "chunked"
DevExpect10      == ~Expect10Proceeds /\ ReqDone /\ inp.ver = 10 /\ inp.expect

FramingTruthfulButKnown ==
    FramingTruthful \/ DevHeadStream \/ DevEmptyFlush \/ DevChunkedFalse \/ DevChunkedNoTE \/ DevHttp10TE \/ DevStaleWriter
        \/ (~FailedPrepareCleansWriter /\ RespDone /\ out.refused /\ inp.hook = "raise")
ReceiverFollowsRfcButKnown == ReceiverFollowsRfc \/ DevHeadReqBody
CloseAgreeButKnown ==
    CloseAgree \/ DevHttp10Unsized \/ DevHandlerConn \/ DevHeadNoLen \/ DevConnect
NoHangButKnown == NoHang \/ DevHttp10Unsized \/ DevExpect10
DevStaleChunk    == ~FailedPrepareCleansWriter /\ RespDone /\ out.refused /\ inp.hook = "raise"
DevWithheld      == ~WithheldBodyCloses /\ ReqDone /\ out.bodySent = "none"
DevHostRetry     == ~HostKeptOnRetry /\ ReqDone /\ inp.chost /\ inp.pre = "stale"
UnfinishedNeverReusedButKnown == UnfinishedNeverReused \/ DevWithheld
RetrySameRequestButKnown == RetrySameRequest \/ DevHostRetry

\* vacuity guards used by the self-test: the deviation predicates are reachable
ReachHttp10Unsized == ~DevHttp10Unsized
=============================================================================
