------------------------- MODULE ServerShutdownTrace -------------------------
(* C20 (B) - judge of time-stamped event logs recorded from a real AppRunner / web.Server
   whose RequestHandler protocols sit on in-memory transports under the virtual-time
   stepping loop.  Times are integers (virtual seconds * cfg.scale).

   cfg   : T (shutdown_timeout, scaled), scale, tail (duration of the on_cleanup handler, scaled),
           ceil (1 if the timeout is subject to ceil_timeout rounding), kinds [conn -> kind]
   events: [ev, c, t, open, n]     (every event carries every field)
     connect c | deliver c (n = 1: these bytes complete a request) | handler_start c | handler_end c
     handler_abort c (the handler left by an exception of its own, e.g. ConnectionResetError)
     handler_cancel c (CancelledError raised inside the handler) | closed c (transport.close() called)
     peer_drop c | cleanup_call | site_stop | on_shutdown_begin (open = connections not yet closed)
     on_shutdown_end | on_cleanup (open) | cleanup_return (open, n = len(server.connections))
     stuck (instead of cleanup_return: cleanup() is blocked for ever)
     final c (n = complete responses on the wire) | end

   Property clauses (observables only):
     NoNewRequests      a handler starts for a request whose last byte arrived after on_shutdown began
     GraceRespected     a handler is cancelled / its connection closed under it before t1 + T
                        (t1 = on_shutdown_end = start of Server.shutdown), or a handler that returned
                        normally has no complete response on the wire
     CancelledBy2T      a handler is neither finished nor cancelled when cleanup() returns, is cancelled
                        later than t1 + 2T (+ rounding), or cleanup() returns later than that (+ tail)
     AllClosedAtReturn  a transport is still open / a connection still registered when cleanup() returns
     StopSitesFirst     on_shutdown begins while a site is still listening
     ClosedOnCompletion when on_shutdown returns (open = connections still open), a connection whose handler
                        finished strictly earlier during the shutdown is still open with nothing in progress
                        (docs step 2: active connections are set to close upon completion)
     IdleOpenDuringOnShutdown   (named shape of IdleClosedAtOnce, docs step 2 before step 3) a connection
                        with no request in progress is still open when on_shutdown begins.  It is
     LostConnHandlerSurvivesShutdown   (named shape of CancelledBy2T) the handler of a connection the
                        peer dropped earlier is still running, never cancelled, when cleanup() returns.
     The two named shapes are recorded (info = all of them) and reported at the end so that they
     cannot mask another clause.                                                                       *)
EXTENDS Naturals, Sequences, FiniteSets, TLC, TraceBatch

VARIABLES tid, l, m, bad
tvars == <<tid, l, m, bad>>

ToSet(q) == {q[i] : i \in 1..Len(q)}
NoT == 1000000

C0 == [started |-> 0, ended |-> 0, inflight |-> FALSE, cancelled |-> FALSE, before |-> 0,
       dropped |-> FALSE, closed |-> FALSE, lastEnd |-> NoT]

M0(c) == [conns |-> [x \in DOMAIN c.kinds |-> C0], sigBegun |-> FALSE, sigT |-> NoT, t1 |-> NoT, sitesStopped |-> FALSE,
          called |-> FALSE, dev |-> <<>>]

Slack(c) == IF c.ceil = 1 THEN c.scale ELSE 0

Apply(mm, e) ==
    CASE e.ev = "deliver" /\ e.n = 1 /\ ~mm.sigBegun ->
             [mm EXCEPT !.conns = [@ EXCEPT ![e.c] = [@ EXCEPT !.before = @ + 1]]]
      [] e.ev = "handler_start" ->
             [mm EXCEPT !.conns = [@ EXCEPT ![e.c] = [@ EXCEPT !.started = @ + 1, !.inflight = TRUE, !.cancelled = FALSE]]]
      [] e.ev = "handler_end" ->    \* (a handler that swallowed its cancellation and returns later cannot
                                    \*  have its response delivered: it is not counted as "ended in time")
             [mm EXCEPT !.conns = [@ EXCEPT ![e.c] =
                                     [@ EXCEPT !.ended = IF mm.conns[e.c].cancelled THEN @ ELSE @ + 1,
                                               !.inflight = FALSE, !.lastEnd = e.t]]]
      [] e.ev = "handler_abort" ->
             [mm EXCEPT !.conns = [@ EXCEPT ![e.c] = [@ EXCEPT !.inflight = FALSE]]]
      [] e.ev = "handler_cancel" ->
             [mm EXCEPT !.conns = [@ EXCEPT ![e.c] = [@ EXCEPT !.cancelled = TRUE]]]
      [] e.ev = "closed" ->
             [mm EXCEPT !.conns = [@ EXCEPT ![e.c] = [@ EXCEPT !.closed = TRUE]]]
      [] e.ev = "peer_drop" ->
             [mm EXCEPT !.conns = [@ EXCEPT ![e.c] = [@ EXCEPT !.dropped = TRUE]]]
      [] e.ev = "cleanup_call" -> [mm EXCEPT !.called = TRUE]
      [] e.ev = "site_stop" -> [mm EXCEPT !.sitesStopped = TRUE]
      [] e.ev = "on_shutdown_begin" ->
             [mm EXCEPT !.sigBegun = TRUE, !.sigT = e.t,
                        !.dev = IF \E x \in ToSet(e.open) : ~mm.conns[x].inflight
                                                                  /\ mm.conns[x].started >= mm.conns[x].before
                                THEN Append(@, "IdleOpenDuringOnShutdown") ELSE @]
      [] e.ev = "cleanup_return" ->
             [mm EXCEPT !.dev = IF \E x \in DOMAIN mm.conns : mm.conns[x].inflight /\ ~mm.conns[x].cancelled
                                                              /\ mm.conns[x].dropped
                                THEN Append(@, "LostConnHandlerSurvivesShutdown") ELSE @]
      [] e.ev = "on_shutdown_end" -> [mm EXCEPT !.t1 = e.t]
      [] OTHER -> mm

Clause(mm, e, c) ==
    LET k == IF e.c \in DOMAIN mm.conns THEN mm.conns[e.c] ELSE C0 IN
    CASE e.ev = "handler_start" /\ mm.sigBegun /\ k.started + 1 > k.before -> "NoNewRequests"
      [] e.ev = "handler_cancel" /\ mm.called /\ ~k.dropped /\ (mm.t1 = NoT \/ e.t < mm.t1 + c.T) -> "GraceRespected"
      [] e.ev = "handler_cancel" /\ mm.t1 # NoT /\ e.t > mm.t1 + 2 * c.T + Slack(c) -> "CancelledBy2T"
      [] e.ev = "closed" /\ mm.called /\ k.inflight /\ ~k.cancelled /\ ~k.dropped /\ c.kinds[e.c] # "ws"
            /\ (mm.t1 = NoT \/ e.t < mm.t1 + c.T) -> "GraceRespected"
      [] e.ev = "on_shutdown_begin" /\ ~mm.sitesStopped -> "StopSitesFirst"
      [] e.ev = "on_shutdown_end" /\ (\E x \in ToSet(e.open) :
              /\ ~mm.conns[x].inflight /\ mm.conns[x].started >= mm.conns[x].before
              /\ mm.conns[x].lastEnd # NoT /\ mm.conns[x].lastEnd >= mm.sigT /\ mm.conns[x].lastEnd < e.t /\ c.kinds[x] # "ws") -> "ClosedOnCompletion"
      [] e.ev = "on_cleanup" /\ e.open # <<>> -> "AllClosedAtReturn"
      [] e.ev = "cleanup_return" /\ (e.open # <<>> \/ e.n # 0) -> "AllClosedAtReturn"
      [] e.ev = "cleanup_return" /\ (\E x \in DOMAIN mm.conns : mm.conns[x].inflight /\ ~mm.conns[x].cancelled
                                                               /\ ~mm.conns[x].dropped) -> "CancelledBy2T"
      [] e.ev = "cleanup_return" /\ mm.t1 # NoT /\ e.t > mm.t1 + 2 * c.T + Slack(c) + c.tail -> "CancelledBy2T"
      [] e.ev = "stuck" -> "CancelledBy2T"          \* cleanup() never returned (no timer left to wake it)
      [] e.ev = "final" /\ c.kinds[e.c] # "ws" /\ ~k.dropped /\ e.n < k.ended -> "GraceRespected"
      [] e.ev = "end" /\ mm.dev # <<>> -> mm.dev[1]
      [] OTHER -> ""

TInit ==
    /\ tid \in 1..NTraces
    /\ l = 0
    /\ m = M0(Cfg(tid))
    /\ bad = ""
    /\ Verdict(tid, 0, "", <<>>)

TNext ==
    /\ bad = ""
    /\ l < NEvents(tid)
    /\ LET e == Events(tid)[l + 1]
           b == Clause(m, e, Cfg(tid))
           l2 == IF b = "" THEN l + 1 ELSE l
       IN /\ bad' = b
          /\ l' = l2
          /\ m' = Apply(m, e)
          /\ UNCHANGED tid
          /\ Verdict(tid, l2, b, Apply(m, e).dev)

TSpec == TInit /\ [][TNext]_tvars
=============================================================================
