-------------------------- MODULE StreamReaderTrace -------------------------
(* Trace validation for C08: recorded executions of the real
   aiohttp.streams.StreamReader are pushed through StreamReader!Apply.        *)
EXTENDS StreamReader, TraceBatch

VARIABLES tid, l, s, bad, drift

tvars == <<tid, l, s, bad, drift>>

TInit ==
    /\ tid \in 1..NTraces
    /\ l = 0
    /\ s = Init0(Cfg(tid).limit)
    /\ bad = ""
    /\ drift = <<>>
    /\ Verdict(tid, 0, "", <<>>)

TNext ==
    /\ bad = ""
    /\ l < NEvents(tid)
    /\ LET a == Apply(s, Events(tid)[l + 1])
           d2 == IF a.drift # "" /\ Len(drift) < 3 THEN Append(drift, <<l + 1, a.drift>>) ELSE drift
           l2 == IF a.bad = "" THEN l + 1 ELSE l
       IN /\ s' = a.s
          /\ bad' = a.bad
          /\ drift' = d2
          /\ l' = l2
          /\ UNCHANGED tid
          /\ Verdict(tid, l2, a.bad, d2)

TSpec == TInit /\ [][TNext]_tvars

\* the reference's own invariants must also hold along every real execution
TInvPieces == PiecesInv(s)
TInvBounds == s.unread \/ BoundsInv(s)
=============================================================================
