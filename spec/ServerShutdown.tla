------------------------------ MODULE ServerShutdown ------------------------------
(* C20 (B) - graceful shutdown: the runner's shutdown sequence over several connections
   in every request phase, under virtual time.

   Code modelled (one action per await-free block):
     web_runner.BaseRunner.cleanup       site.stop() for every site; sleep(0); server.pre_shutdown();
                                         self.shutdown() (on_shutdown signal); server.shutdown(T);
                                         _cleanup_server() (on_cleanup); return
     web_server.Server.pre_shutdown      conn.close() for every connection
     web_server.Server.shutdown          gather(conn.shutdown(T) ...); _connections.clear()
     web_protocol.RequestHandler.close   _close = True; cancel _waiter  (an idle start() ends by CancelledError)
     web_protocol.RequestHandler.shutdown
                                         _force_close = True; if a request is in progress wait <= T for it;
                                         then request._cancel() (only a handler reading the body notices),
                                         wait <= T for the start() task; then task.cancel(); force_close()
     web_protocol.RequestHandler.start   after a response: leave the loop if _close/_force_close and close
                                         the transport (unless _force_close: shutdown() closes it)
     web_protocol.RequestHandler.data_received   ignores data once _close/_force_close is set

   Connections (Init chooses the placement of the shutdown moment = the phase of every connection):
     idle     keep-alive, waiting for the next request          (dAt: a new request arrives at that time)
     partial  request line + part of the headers received      (dAt: the rest arrives at that time)
     sleep    handler running, rem ticks left (Inf = never returns); stub = swallows CancelledError
              (dAt: the client sends ANOTHER request on the same keep-alive connection at that time -
               pipelined if the first is still running, or after its response)
     stream   handler has sent the headers and part of the body, rem ticks left
     body     handler blocked reading a request body that never completes
     ws       websocket open; the on_shutdown handler closes it iff g.appCloses; reply = peer answers the close
     lost     handler running (rem ticks left) on a connection the peer has already dropped
              (handler_cancellation is off: connection_lost() leaves the handler running, keeps the
               protocol registered with the Server until the task ends, and sets _task_handler = None)
   Time: t0 = 0 is the call of cleanup(); on_shutdown takes g.D ticks (+ websocket closes); t1 = start of
   Server.shutdown.  Tick advances the clock only when nothing else can happen.

   Constants TRUE = design as intended; FALSE alternatives:
     CloseIdleAtOnce   FALSE = the code as it is: close() on an idle connection only ends start(); the
                       transport stays open until Server.shutdown()          (named deviation)
     CancelLostConnHandler  FALSE = the code as it is: shutdown() cannot wait for / cancel the handler of a
                       lost connection after the first timeout (_task_handler is None)    (named deviation)
     PreShutdownCloses, PreShutdownMarksActive, GraceWait, SecondWait         (self-test mutants;
                       PreShutdownMarksActive FALSE = pre_shutdown() skips connections that are serving a
                       request instead of setting them to close upon completion)                       *)
EXTENDS Naturals, FiniteSets, TLC

CONSTANTS Conns, T, MaxD, WsT, Durs, Inf, DeliverTimes, MaxTime,
          CloseIdleAtOnce, CancelLostConnHandler, PreShutdownCloses, PreShutdownMarksActive, GraceWait, SecondWait

VARIABLES now, rpc, conn, g
vars == <<now, rpc, conn, g>>

NoTime == 1000
NoD == 1000

Conn0(kind, rem, stub, reply, dAt) ==
    [kind |-> kind, ph |-> IF kind \in {"idle", "partial"} THEN "waiting" ELSE "run",
     rem |-> rem, stub |-> stub, reply |-> reply, dAt |-> dAt, dDone |-> FALSE,
     queued |-> "no",        \* a complete pipelined request waits in _messages: no | early | late (after pre-shutdown)
     closeF |-> FALSE, forceF |-> FALSE, open |-> kind # "lost", sd |-> "none", dl |-> NoTime,
     \* history
     cancelAt |-> NoTime, endAt |-> NoTime, closedAt |-> NoTime, lateStart |-> FALSE,
     lostResp |-> FALSE, idleAtPre |-> FALSE]

Placements ==
    {Conn0(k, Inf, FALSE, FALSE, d) : k \in {"idle", "partial"}, d \in DeliverTimes \cup {NoD}}
    \cup {Conn0(k, r, FALSE, FALSE, NoD) : k \in {"sleep", "stream"}, r \in Durs}
    \cup {Conn0("sleep", r, FALSE, FALSE, d) : r \in Durs \ {Inf}, d \in DeliverTimes}
    \cup {Conn0("sleep", Inf, TRUE, FALSE, NoD)}
    \cup {Conn0("lost", r, FALSE, FALSE, NoD) : r \in Durs}
    \cup {Conn0("body", Inf, FALSE, FALSE, NoD)}
    \cup {Conn0("ws", Inf, FALSE, r, NoD) : r \in BOOLEAN}

Init ==
    /\ now = 0
    /\ rpc = "stopSites"
    /\ conn \in [Conns -> Placements]
    /\ \E d \in 0..MaxD, a \in BOOLEAN :
         g = [D |-> d, appCloses |-> a, sigDl |-> NoTime, wsCur |-> "none", wsDl |-> NoTime,
              wsTodo |-> {}, t1 |-> NoTime, registered |-> Conns, retAt |-> NoTime, listening |-> TRUE]

(* ------------------------------------------------------------------------------ *)
Pending(c) == conn[c].dAt = now /\ ~conn[c].dDone /\ (now = 0 => rpc = "preShutdown")
NoPending == \A c \in Conns : ~Pending(c)

\* transport.close()
Closed(r) == [r EXCEPT !.open = FALSE, !.closedAt = IF r.open THEN now ELSE @]

\* the handler returned; start() writes the response and looks at the flags
Finish(r) ==
    LET r1 == [r EXCEPT !.endAt = now, !.lostResp = ~r.open /\ r.kind # "lost"] IN
    IF r.closeF \/ r.forceF
    THEN (IF r.forceF THEN [r1 EXCEPT !.ph = "done"] ELSE Closed([r1 EXCEPT !.ph = "done"]))
    ELSE IF r.queued # "no"                     \* keep-alive and a pipelined request is waiting: handle it
    THEN [r1 EXCEPT !.ph = "run", !.rem = 1, !.queued = "no", !.lateStart = r.queued = "late"]
    ELSE [r1 EXCEPT !.ph = "waiting"]          \* keep-alive: wait for the next request

\* network: the bytes that complete a request arrive           (data_received)
Deliver(c) ==
    /\ Pending(c)
    /\ LET r == conn[c]
           live == r.open /\ ~r.closeF /\ ~r.forceF         \* data_received() does not drop the bytes
           late == rpc \notin {"stopSites", "sleep0", "preShutdown"}
       IN conn' = [conn EXCEPT ![c] =
                     IF live /\ r.ph = "waiting"
                     THEN [r EXCEPT !.dDone = TRUE, !.ph = "run", !.rem = 1, !.lateStart = late]
                     ELSE IF live /\ r.ph = "run" /\ r.kind = "sleep"
                     THEN [r EXCEPT !.dDone = TRUE, !.queued = IF late THEN "late" ELSE "early"]
                     ELSE [r EXCEPT !.dDone = TRUE]]
    /\ UNCHANGED <<now, rpc, g>>

HandlerDone(c) ==
    /\ NoPending
    /\ conn[c].ph = "run" /\ conn[c].rem = 0
    /\ conn' = [conn EXCEPT ![c] = Finish(@)]
    /\ UNCHANGED <<now, rpc, g>>

(* ---- BaseRunner.cleanup ---- *)
StopSites ==
    /\ rpc = "stopSites" /\ NoPending
    /\ rpc' = "sleep0" /\ g' = [g EXCEPT !.listening = FALSE]
    /\ UNCHANGED <<now, conn>>

Sleep0 ==
    /\ rpc = "sleep0"
    /\ rpc' = "preShutdown"
    /\ UNCHANGED <<now, conn, g>>

\* server.pre_shutdown(); then self.shutdown() runs on_shutdown up to its first await
PreShutdown ==
    /\ rpc = "preShutdown" /\ NoPending
    /\ conn' = [c \in Conns |->
                  LET r == conn[c] IN
                  IF ~PreShutdownCloses THEN r
                  ELSE IF r.ph = "waiting"
                       THEN LET r1 == [r EXCEPT !.closeF = TRUE, !.ph = "done", !.idleAtPre = TRUE]
                            IN IF CloseIdleAtOnce THEN Closed(r1) ELSE r1
                       ELSE IF PreShutdownMarksActive THEN [r EXCEPT !.closeF = TRUE] ELSE r]
    /\ rpc' = "signal"
    /\ g' = [g EXCEPT !.sigDl = now + g.D,
                      !.wsTodo = IF g.appCloses THEN {c \in Conns : conn[c].kind = "ws"} ELSE {}]
    /\ UNCHANGED now

\* on_shutdown handler: `for ws in set(websockets): await ws.close()`
WsCloseBegin(c) ==
    /\ rpc = "signal" /\ NoPending /\ now >= g.sigDl /\ g.wsCur = "none" /\ c \in g.wsTodo
    /\ IF conn[c].reply /\ conn[c].open
       THEN /\ conn' = [conn EXCEPT ![c] = Finish(@)]       \* close handshake done; handler returns
            /\ g' = [g EXCEPT !.wsTodo = @ \ {c}]
       ELSE /\ g' = [g EXCEPT !.wsTodo = @ \ {c}, !.wsCur = c, !.wsDl = now + WsT]
            /\ UNCHANGED conn
    /\ UNCHANGED <<now, rpc>>

WsCloseTimeout ==
    /\ rpc = "signal" /\ NoPending /\ g.wsCur # "none" /\ now >= g.wsDl
    \* ws.close() gives up, closes the transport; the handler's receive loop ends and it returns
    /\ conn' = [conn EXCEPT ![g.wsCur] = Closed([@ EXCEPT !.endAt = now, !.ph = "done"])]
    /\ g' = [g EXCEPT !.wsCur = "none"]
    /\ UNCHANGED <<now, rpc>>

\* on_shutdown returned; Server.shutdown(T): every conn.shutdown(T) runs up to its first await
SignalEnd ==
    /\ rpc = "signal" /\ NoPending /\ now >= g.sigDl /\ g.wsCur = "none" /\ g.wsTodo = {}
    /\ rpc' = "srvShutdown"
    /\ g' = [g EXCEPT !.t1 = now]
    /\ conn' = [c \in Conns |->
                  LET r == [conn[c] EXCEPT !.forceF = TRUE] IN
                  IF r.ph = "run"
                  THEN [r EXCEPT !.sd = "wait1", !.dl = IF GraceWait THEN now + T ELSE now]
                  ELSE Closed([r EXCEPT !.sd = "done", !.ph = IF r.ph = "stuck" THEN "stuck" ELSE "done"])]
    /\ UNCHANGED now

SdWake(c) ==           \* the awaited handler / start() task finished
    /\ rpc = "srvShutdown" /\ NoPending
    /\ conn[c].sd \in {"wait1", "wait2"} /\ conn[c].ph = "done"
    /\ conn' = [conn EXCEPT ![c] = Closed([@ EXCEPT !.sd = "done"])]
    /\ UNCHANGED <<now, rpc, g>>

SdTimeout1(c) ==       \* first timeout: request._cancel(CancelledError()) - the payload fails
    /\ rpc = "srvShutdown" /\ NoPending
    /\ conn[c].sd = "wait1" /\ now >= conn[c].dl /\ conn[c].ph # "done"
    /\ conn' = [conn EXCEPT ![c] =
                  IF @.kind = "body"
                  THEN Closed([@ EXCEPT !.cancelAt = now, !.ph = "done", !.sd = "wait2", !.dl = NoTime])
                  ELSE IF @.kind = "lost" /\ ~CancelLostConnHandler
                  THEN [@ EXCEPT !.sd = "done"]         \* _task_handler is None: nothing awaited, nothing cancelled
                  ELSE [@ EXCEPT !.sd = "wait2", !.dl = IF SecondWait THEN now + (IF GraceWait THEN T ELSE 0) ELSE NoTime]]
    /\ UNCHANGED <<now, rpc, g>>

SdTimeout2(c) ==       \* second timeout: task.cancel(); force_close()
    /\ rpc = "srvShutdown" /\ NoPending
    /\ conn[c].sd = "wait2" /\ now >= conn[c].dl /\ conn[c].ph # "done"
    /\ conn' = [conn EXCEPT ![c] =
                  Closed([@ EXCEPT !.cancelAt = IF @ = NoTime THEN now ELSE @,
                                   !.ph = IF conn[c].stub THEN "stuck" ELSE "done",
                                   !.sd = "done"])]
    /\ UNCHANGED <<now, rpc, g>>

SrvShutdownDone ==     \* gather returned; self._connections.clear()
    /\ rpc = "srvShutdown" /\ NoPending
    /\ \A c \in Conns : conn[c].sd = "done"
    /\ rpc' = "cleanup"
    /\ g' = [g EXCEPT !.registered = {}]
    /\ UNCHANGED <<now, conn>>

Cleanup ==             \* _cleanup_server(): on_cleanup signal (part A); cleanup() returns
    /\ rpc = "cleanup"
    /\ rpc' = "returned"
    /\ g' = [g EXCEPT !.retAt = now]
    /\ UNCHANGED <<now, conn>>

Urgent ==
    \/ rpc \in {"stopSites", "sleep0", "preShutdown", "cleanup"}
    \/ \E c \in Conns : Pending(c)
    \/ \E c \in Conns : conn[c].ph = "run" /\ conn[c].rem = 0
    \/ /\ rpc = "signal" /\ now >= g.sigDl
       /\ \/ g.wsCur = "none"
          \/ now >= g.wsDl
    \/ /\ rpc = "srvShutdown"
       /\ \/ \A c \in Conns : conn[c].sd = "done"
          \/ \E c \in Conns : \/ conn[c].sd \in {"wait1", "wait2"} /\ conn[c].ph = "done"
                              \/ conn[c].sd \in {"wait1", "wait2"} /\ now >= conn[c].dl /\ conn[c].ph # "done"

Tick ==
    /\ ~Urgent /\ rpc # "returned" /\ now < MaxTime
    /\ now' = now + 1
    /\ conn' = [c \in Conns |-> IF conn[c].ph = "run" /\ conn[c].rem # Inf /\ conn[c].rem > 0
                                THEN [conn[c] EXCEPT !.rem = @ - 1] ELSE conn[c]]
    /\ UNCHANGED <<rpc, g>>

Returned == rpc = "returned" /\ UNCHANGED vars
TimeUp == now = MaxTime /\ ~Urgent /\ UNCHANGED vars

Next ==
    \/ StopSites \/ Sleep0 \/ PreShutdown \/ SignalEnd \/ SrvShutdownDone \/ Cleanup
    \/ WsCloseTimeout \/ Tick \/ Returned \/ TimeUp
    \/ \E c \in Conns : Deliver(c) \/ HandlerDone(c) \/ WsCloseBegin(c) \/ SdWake(c) \/ SdTimeout1(c) \/ SdTimeout2(c)

Spec == Init /\ [][Next]_vars
SpecInitOnly == Init /\ [][FALSE]_vars

(* ------------------------------------------------------------------------------ *)
SignalBegun == rpc \notin {"stopSites", "sleep0", "preShutdown"}

\* after pre-shutdown no request that was not already completely received starts a handler
NoNewRequests == \A c \in Conns : ~conn[c].lateStart

\* docs step 2 "(and set active ones to close upon completion)": once on_shutdown has begun no connection
\* goes back to waiting for a next request
ClosedOnCompletion == SignalBegun => \A c \in Conns : conn[c].ph # "waiting"

\* docs step 2 precedes step 3: a connection idle at pre-shutdown is closed when on_shutdown begins
IdleClosedAtOnce == SignalBegun => \A c \in Conns : conn[c].idleAtPre => ~conn[c].open

\* a running handler is not cancelled (nor its connection closed under it) before t1 + T,
\* and a handler that returns in time gets its response out
GraceRespected ==
    \A c \in Conns :
        /\ conn[c].cancelAt # NoTime => (g.t1 # NoTime /\ conn[c].cancelAt >= g.t1 + T)
        /\ ~conn[c].lostResp
        /\ (conn[c].ph = "run" /\ ~conn[c].open /\ conn[c].kind # "lost") => (g.t1 # NoTime /\ now >= g.t1 + T)

\* every handler has ended or been cancelled by t1 + 2T and Server.shutdown does not wait longer
CancelledBy2T ==
    /\ rpc = "srvShutdown" => now <= g.t1 + 2 * T
    /\ rpc \in {"cleanup", "returned"} => \A c \in Conns : conn[c].ph \in {"done", "stuck"}
    /\ \A c \in Conns : conn[c].cancelAt # NoTime => conn[c].cancelAt <= g.t1 + 2 * T

\* the code as it is misses CancelledBy2T in exactly one way: handlers of lost connections
CancelledBy2TExceptLost ==
    /\ rpc = "srvShutdown" => now <= g.t1 + 2 * T
    /\ rpc \in {"cleanup", "returned"} => \A c \in Conns : conn[c].kind # "lost" => conn[c].ph \in {"done", "stuck"}
    /\ \A c \in Conns : conn[c].cancelAt # NoTime => conn[c].cancelAt <= g.t1 + 2 * T

AllClosedAtReturn == rpc = "returned" => (g.registered = {} /\ \A c \in Conns : ~conn[c].open)

\* the code as it is misses IdleClosedAtOnce in exactly one way: the idle connection is closed
\* when Server.shutdown() starts instead of at pre-shutdown
IdleClosedByServerShutdown ==
    rpc \in {"srvShutdown", "cleanup", "returned"} => \A c \in Conns : conn[c].idleAtPre => ~conn[c].open

\* shutdown terminates within the time bound of the model
Terminates == now = MaxTime => rpc = "returned"
=============================================================================
