--------------------------- MODULE BodyFlowTrace ---------------------------
(* C09 - observational monitor over recorded executions of the real body pipeline
   (client: ResponseHandler + HttpResponseParser + HttpPayloadParser + DeflateBuffer +
   StreamReader behind a real ClientSession; server: RequestHandler + HttpRequestParser +
   BaseRequest.read()/post()/content) on in-memory transports that honour pause_reading.

   cfg (per execution, supplied by the harness)
     side        "client" | "server"
     identity    no content coding (the bound on buffered bytes is then one network piece)
     br          brotli (the library's output limit is soft, see CallCap)
     deflate     Content-Encoding: deflate (zlib-wrapped or raw)
     limit       read_bufsize
     cms         client_max_size (server; 0 = unlimited)
     refOk       the trusted one-shot decoder accepted the encoded body
     refWhy      "" | "truncated" | "corrupt"            (why it did not)
     refLen      length of the reference decoding (refOk) / of the longest prefix a streaming
                 decoder can emit before failing
     refDigest   31-bit digest of the reference decoding
     netTrunc    the HTTP framing itself was cut short (peer closed early): an error is required
     inLen       bytes on the wire,  pauses = loop steps the schedules spend waiting
     maxPiece    largest piece handed to data_received

   events (every record has the same fields: ev s n m k obs)
     net    n = bytes handed to protocol.data_received
     dec    one decompress_sync call: n = input bytes, m = output bytes (-1: raised), k = max_length
     tpause / tresume        transport.pause_reading / resume_reading
     start  the application obtained the body stream
     read   s = operation, n = requested (-1: any), m = returned bytes, k = digest of all bytes read so far
     eof    the application saw the end of the body; k = digest of the reference prefix of the length read
     err    s = "payload" | "other:<Type>", n = bytes read so far, k = digest of the reference prefix of that length
     srv    server read()/post() outcome: s = "ok" | "413" | "payload" | "other:<Type>",
            "ok": n = returned length, m = digest; "413": n = payload.total_bytes, k = bytes read()
            had accumulated when it raised (total_bytes minus what read_nowait() still finds buffered;
            -1: not observable)
     stuck  nothing is runnable, all input was delivered, the application still waits
            (k = 1: the parser holds input back although nobody is paused; s = "error-set": the
            stream's exception() is already set - the error never reached the waiting read)
     budget the step budget was exhausted
     end    always last
   obs = {size, low, high, consumed, steps, st, req}: size = total_bytes - consumed (public counters),
         -1 while unknown; low/high = get_read_buffer_limits() (informative); req = largest chunk size
         the application asked for so far (read(n), iter_chunked(n), explicit max_size, client_max_size
         for BaseRequest.read(); >= CAP after read()); st = 1: outside a parser call the
         payload parser still remembers a pause request although it holds nothing back (private
         peek; used only to NAME a failure, never to produce one).

   Clauses (all property clauses, all evaluated here):
     Resident, OneCallBudget, WrongLength / WrongBytes (transparency), CorruptCleanEof,
     CorruptDelivered, DataAfterError, EofAfterError, SpuriousError, WrongErrorKind,
     TruncatedFramingCleanEof, Stuck, Livelock, TooManySteps (progress), MaxSizeReturnedMore,
     MaxSizeAccumulated, Spurious413,
   and two separately named deviations of the code as found:
     StalePauseStuck / StalePauseLost / StalePauseResident
                                hang / spurious error with lost data / one extra decoder call beyond
                                the bound (EOF overtakes held-back input) after the stale
                                HttpPayloadParser._paused flag was observed (st = 1)
     TruncatedStreamCleanEof    a coded stream that stops before its end marker (gzip / br / zstd)
                                with intact HTTP framing ends in a clean EOF
   (the same for deflate is the ordinary property clause TruncatedDeflateCleanEof)
     ErrorSetReaderWaits        hang although the stream already carries the payload error: the error was
                                set between a data-less wake-up (end of an HTTP chunk) and the moment the
                                woken read ran, when there is no waiter to notify, and the read waits again                    *)
EXTENDS Naturals, Integers, Sequences, TLC, TraceBatch

VARIABLES tid, l, outcome, errSeen, tot, dg, stale, bad

tvars == <<tid, l, outcome, errSeen, tot, dg, stale, bad>>

CAP == 1000000000
Max(a, b) == IF a > b THEN a ELSE b

C == Cfg(tid)

\* ------------------------------------------------------------------ bounds
\* output of one decoder call.  zlib and zstd honour max_length exactly.  The Brotli library treats
\* output_buffer_limit as "stop growing the output buffer once it has reached the limit": its
\* buffer grows in blocks of 32 KiB, 64 KiB, 128 KiB ... so one call returns less than
\* 2 * limit + 32 KiB (third-party semantics, cf. THREAT_MODEL 5.5 "backend max_length honouring")
\* The bounds are relative to Lim(o) = max(read_bufsize, largest chunk size the APPLICATION asked for so
\* far) - not to the reader's current water marks: limits that the code raises on its own (e.g. per
\* line read) must not lift the bound.  o.req >= CAP: the application asked for everything (read()).
Lim(o) == Max(C.limit, o.req)
CallCap(o) == IF C.br THEN 2 * Lim(o) + 32768 ELSE Lim(o)
ResidentBound(o) == 2 * Lim(o) + (IF C.identity THEN C.maxPiece ELSE CallCap(o))
ResidentBad(o) == o.size >= 0 /\ o.req < CAP \div 4 /\ o.size > ResidentBound(o)
\* BaseRequest.read(): low water = client_max_size, so at most client_max_size + (high + one call) bytes
\* have been decoded when the 413 test fires
AccBound == LET mx == Max(C.limit, C.cms) IN C.cms + 2 * mx + (IF C.identity THEN C.maxPiece ELSE IF C.br THEN 2 * mx + 32768 ELSE mx)
\* loop steps allowed: 60 per byte of input + output + scheduled waiting, + 600
\* (written with a division: TLC integers are 32 bit and bodies reach 100 MiB)
TooManySteps(steps) == steps \div 60 > C.inLen + C.refLen + C.pauses + 10

ErrExpected == ~C.refOk \/ C.netTrunc

\* a coded stream that stops before its end marker and is delivered as a complete body.  The code
\* reports it for deflate (DeflateBuffer.feed_eof: `encoding == "deflate" and not decompressor.eof`)
\* and knowingly not for gzip / br / zstd (the recorded deviation): two different clauses, so that a
\* truncated deflate stream that gets a clean EOF is never covered by the recorded deviation
TruncClause == IF C.deflate THEN "TruncatedDeflateCleanEof" ELSE "TruncatedStreamCleanEof"

\* ------------------------------------------------------------------ one event
EvBad(e) ==
    LET o == e.obs IN
    IF ResidentBad(o) THEN "Resident"
    ELSE CASE e.ev = "dec" ->
                IF ~C.identity /\ o.req < CAP \div 4 /\ e.m > CallCap(o) THEN "OneCallBudget" ELSE ""
           [] e.ev = "read" ->
                IF errSeen /\ e.m > 0 THEN "DataAfterError"
                ELSE IF outcome = "eof" /\ e.m > 0 THEN "DataAfterEof"
                ELSE IF e.n > 0 /\ e.m > e.n THEN "ReadTooLong"
                ELSE IF o.consumed # tot + e.m THEN "HarnessCount"
                ELSE ""
           [] e.ev = "eof" ->
                IF errSeen THEN "EofAfterError"
                ELSE IF C.netTrunc THEN "TruncatedFramingCleanEof"
                ELSE IF C.refOk
                     THEN IF tot # C.refLen THEN "WrongLength"
                          ELSE IF dg # C.refDigest THEN "WrongBytes" ELSE ""
                ELSE IF tot > C.refLen \/ e.k # dg THEN "CorruptDelivered"
                ELSE IF C.refWhy = "truncated" THEN TruncClause
                ELSE "CorruptCleanEof"
           [] e.ev = "err" ->
                IF ~ErrExpected THEN "SpuriousError"
                ELSE IF e.s # "payload" THEN "WrongErrorKind"
                ELSE IF tot > C.refLen \/ e.k # dg THEN "CorruptDelivered"
                ELSE ""
           [] e.ev = "srv" ->
                IF e.s = "ok"
                THEN IF C.cms > 0 /\ e.n > C.cms THEN "MaxSizeReturnedMore"
                     ELSE IF ErrExpected
                          THEN (IF C.refWhy = "truncated" /\ ~C.netTrunc /\ e.n <= C.refLen THEN TruncClause
                                ELSE "CorruptCleanEof")
                     ELSE IF e.n # C.refLen THEN "WrongLength"
                     ELSE IF e.m # C.refDigest THEN "WrongBytes" ELSE ""
                ELSE IF e.s = "413"
                THEN IF C.cms = 0 \/ (C.refOk /\ C.refLen <= C.cms) THEN "Spurious413"
                     ELSE IF e.k > AccBound THEN "MaxSizeAccumulated"
                     ELSE ""
                ELSE IF e.s = "payload"
                THEN IF ~ErrExpected THEN "SpuriousError" ELSE ""
                ELSE IF ErrExpected THEN "WrongErrorKind" ELSE "SpuriousError"
           [] e.ev = "stuck" -> IF e.k = 1 \/ stale \/ o.st = 1 THEN "StalePauseStuck"
                                ELSE IF e.s = "error-set" THEN "ErrorSetReaderWaits" ELSE "Stuck"
           [] e.ev = "budget" -> "Livelock"
           [] e.ev = "end" ->
                IF outcome = "" THEN "Stuck"
                ELSE IF TooManySteps(o.steps) THEN "TooManySteps"
                ELSE IF l + 1 # NEvents(tid) THEN "EventsAfterEnd"
                ELSE ""
           [] OTHER -> ""

TInit ==
    /\ tid \in 1..NTraces
    /\ l = 0
    /\ outcome = "" /\ errSeen = FALSE /\ tot = 0 /\ dg = 0 /\ stale = FALSE
    /\ bad = ""
    /\ Verdict(tid, 0, IF NEvents(tid) = 0 THEN "NoEndEvent" ELSE "", <<>>)

TNext ==
    /\ bad = ""
    /\ l < NEvents(tid)
    /\ LET e == Events(tid)[l + 1]
           b00 == EvBad(e)
           \* a spurious error / missing end after the stale pause flag was seen is named after it
           b0 == IF stale /\ b00 \in {"SpuriousError", "Stuck", "WrongErrorKind", "Resident"}
                 THEN (IF b00 = "Stuck" THEN "StalePauseStuck"
                       ELSE IF b00 = "Resident" THEN "StalePauseResident" ELSE "StalePauseLost")
                 ELSE b00
           b == IF b0 = "" /\ l + 1 = NEvents(tid) /\ e.ev # "end" THEN "NoEndEvent" ELSE b0
           l2 == IF b = "" THEN l + 1 ELSE l
       IN /\ bad' = b
          /\ l' = l2
          /\ tot' = IF e.ev = "read" THEN tot + e.m ELSE tot
          /\ dg' = IF e.ev = "read" /\ e.m > 0 THEN e.k ELSE dg
          /\ errSeen' = (errSeen \/ e.ev = "err")
          /\ stale' = (stale \/ e.obs.st = 1)
          /\ outcome' = IF e.ev \in {"eof", "err", "srv"} /\ outcome = "" THEN e.ev ELSE outcome
          /\ UNCHANGED tid
          /\ Verdict(tid, l2, b, <<>>)

TSpec == TInit /\ [][TNext]_tvars
=============================================================================
