--------------------------- MODULE HttpFramingMC ---------------------------
(* Bounded model of the RFC 9112 reference reader (HttpFraming.tla).

   The input is built from LEXEMES (complete good lines, one malformed variant
   per rule, body pieces, limit-sized lines, unterminated pieces).  Two ways of
   exploring, selected by CutMode:

   CutMode = FALSE  "grammar/limits": every sequence of enabled lexemes is
       appended one lexeme at a time and read immediately; consumed bytes are
       dropped (rebasing), a VIEW folds away what cannot influence the future,
       so TLC enumerates every reachable parsing situation.
   CutMode = TRUE   "cuts": a short stream is first built from lexemes, then
       handed to the reader in every possible sequence of reads of 1, 2, 3 or
       all remaining bytes; the reader's observable state after any prefix must
       equal what a one-shot reading of that prefix gives (outcome invariant
       under cuts).

   Invariants: InvPartition, InvNoBodyWithoutFraming, InvOverLimitRejects,
   InvPendingBound, InvUnambiguous, InvCut;  action property RejectIsFinal.
   `last` carries the bytes of the lexeme / the read so that behaviours can be
   replayed into the real parser.                                            *)
EXTENDS HttpFraming

CONSTANTS Mode,          \* "request" | "response"
          Lax,           \* BOOLEAN
          MaxLine, MaxField, MaxHeaders,
          UntilEof, WithBody,
          LexIds,        \* set of enabled lexeme ids
          CutMode,       \* BOOLEAN
          MaxLex,        \* CutMode: lexemes per stream
          MaxMsgs, MaxLines, MaxChunks,
          MaxPending,    \* grammar mode: unterminated bytes a path may leave pending
          Mutant         \* "" | "noLimit" | "noCLTE"

VARIABLES q, fed, s, last, nlex, sealed
vars == <<q, fed, s, last, nlex, sealed>>

Cfg == [mode |-> Mode, lax |-> Lax, maxLine |-> MaxLine, maxField |-> MaxField, maxHeaders |-> MaxHeaders,
        untilEof |-> UntilEof, withBody |-> WithBody, mutant |-> Mutant, devHeadSkip |-> FALSE, declineUpgrade |-> FALSE]

Lex == <<
    <<71, 69, 84, 32, 47, 32, 72, 84, 84, 80, 47, 49, 46, 49, 13, 10>>,   \*  1 'GET / HTTP/1.1\r\n' request line
    <<80, 79, 83, 84, 32, 47, 112, 32, 72, 84, 84, 80, 47, 49, 46, 49, 13, 10>>,   \*  2 'POST /p HTTP/1.1\r\n' 
    <<71, 69, 84, 32, 47, 32, 72, 84, 84, 80, 47, 49, 46, 48, 13, 10>>,   \*  3 'GET / HTTP/1.0\r\n' HTTP/1.0
    <<72, 69, 65, 68, 32, 47, 32, 72, 84, 84, 80, 47, 49, 46, 49, 13, 10>>,   \*  4 'HEAD / HTTP/1.1\r\n' 
    <<79, 80, 84, 73, 79, 78, 83, 32, 42, 32, 72, 84, 84, 80, 47, 49, 46, 49, 13, 10>>,   \*  5 'OPTIONS * HTTP/1.1\r\n' asterisk-form
    <<71, 69, 84, 32, 42, 32, 72, 84, 84, 80, 47, 49, 46, 49, 13, 10>>,   \*  6 'GET * HTTP/1.1\r\n' asterisk-form with GET: reject
    <<67, 79, 78, 78, 69, 67, 84, 32, 97, 58, 56, 48, 32, 72, 84, 84, 80, 47, 49, 46, 49, 13, 10>>,   \*  7 'CONNECT a:80 HTTP/1.1\r\n' authority-form
    <<103, 101, 116, 32, 47, 32, 72, 84, 84, 80, 47, 49, 46, 49, 13, 10>>,   \*  8 'get / HTTP/1.1\r\n' lower-case method (alt)
    <<71, 69, 84, 32, 47, 0, 32, 72, 84, 84, 80, 47, 49, 46, 49, 13, 10>>,   \*  9 'GET /\x00 HTTP/1.1\r\n' NUL in target (dev)
    <<71, 69, 84, 32, 32, 47, 32, 72, 84, 84, 80, 47, 49, 46, 49, 13, 10>>,   \* 10 'GET  / HTTP/1.1\r\n' two SP: reject
    <<71, 69, 84, 32, 47, 32, 72, 84, 84, 80, 47, 49, 46, 49, 10>>,   \* 11 'GET / HTTP/1.1\n' bare LF: reject
    <<71, 69, 84, 32, 104, 116, 116, 112, 58, 47, 47, 97, 47, 32, 72, 84, 84, 80, 47, 49, 46, 49, 13, 10>>,   \* 12 'GET http://a/ HTTP/1.1\r\n' absolute-form
    <<71, 69, 84, 32, 104, 116, 116, 112, 58, 47, 47, 97, 58, 98, 47, 32, 72, 84, 84, 80, 47, 49, 46, 49, 13, 10>>,   \* 13 'GET http://a:b/ HTTP/1.1\r\n' bad port: reject
    <<71, 69, 84, 32, 47, 32, 72, 84, 84, 80, 47, 50, 46, 48, 13, 10>>,   \* 14 'GET / HTTP/2.0\r\n' other version (alt)
    <<71, 64, 84, 32, 47, 32, 72, 84, 84, 80, 47, 49, 46, 49, 13, 10>>,   \* 15 'G@T / HTTP/1.1\r\n' method not a token: reject
    <<13, 10>>,   \* 16 '\r\n' empty line
    <<72, 111, 115, 116, 58, 32, 97, 13, 10>>,   \* 17 'Host: a\r\n' 
    <<67, 111, 110, 116, 101, 110, 116, 45, 76, 101, 110, 103, 116, 104, 58, 32, 51, 13, 10>>,   \* 18 'Content-Length: 3\r\n' 
    <<67, 111, 110, 116, 101, 110, 116, 45, 76, 101, 110, 103, 116, 104, 58, 32, 43, 51, 13, 10>>,   \* 19 'Content-Length: +3\r\n' reject
    <<67, 111, 110, 116, 101, 110, 116, 45, 76, 101, 110, 103, 116, 104, 58, 32, 51, 44, 32, 51, 13, 10>>,   \* 20 'Content-Length: 3, 3\r\n' reject
    <<67, 111, 110, 116, 101, 110, 116, 45, 76, 101, 110, 103, 116, 104, 58, 32, 48, 120, 51, 13, 10>>,   \* 21 'Content-Length: 0x3\r\n' reject
    <<67, 111, 110, 116, 101, 110, 116, 45, 76, 101, 110, 103, 116, 104, 58, 32, 48, 13, 10>>,   \* 22 'Content-Length: 0\r\n' 
    <<67, 111, 110, 116, 101, 110, 116, 45, 76, 101, 110, 103, 116, 104, 58, 32, 50, 13, 10>>,   \* 23 'Content-Length: 2\r\n' second value
    <<84, 114, 97, 110, 115, 102, 101, 114, 45, 69, 110, 99, 111, 100, 105, 110, 103, 58, 32, 99, 104, 117, 110, 107, 101, 100, 13, 10>>,   \* 24 'Transfer-Encoding: chunked\r\n' 
    <<84, 114, 97, 110, 115, 102, 101, 114, 45, 69, 110, 99, 111, 100, 105, 110, 103, 58, 32, 103, 122, 105, 112, 44, 32, 99, 104, 117, 110, 107, 101, 100, 13, 10>>,   \* 25 'Transfer-Encoding: gzip, chunked\r\n' (alt)
    <<84, 114, 97, 110, 115, 102, 101, 114, 45, 69, 110, 99, 111, 100, 105, 110, 103, 58, 32, 99, 104, 117, 110, 107, 101, 100, 44, 32, 99, 104, 117, 110, 107, 101, 100, 13, 10>>,   \* 26 'Transfer-Encoding: chunked, chunked\r\n' reject
    <<84, 114, 97, 110, 115, 102, 101, 114, 45, 69, 110, 99, 111, 100, 105, 110, 103, 58, 32, 120, 99, 104, 117, 110, 107, 101, 100, 13, 10>>,   \* 27 'Transfer-Encoding: xchunked\r\n' reject
    <<84, 114, 97, 110, 115, 102, 101, 114, 45, 69, 110, 99, 111, 100, 105, 110, 103, 58, 32, 99, 104, 117, 110, 107, 101, 100, 44, 32, 103, 122, 105, 112, 13, 10>>,   \* 28 'Transfer-Encoding: chunked, gzip\r\n' reject
    <<32, 118, 13, 10>>,   \* 29 ' v\r\n' obs-fold: reject in request mode
    <<88, 32, 58, 32, 118, 13, 10>>,   \* 30 'X : v\r\n' WS before colon: reject
    <<88, 58, 32, 118, 13, 10>>,   \* 31 'X: v\r\n' 
    <<88, 58, 32, 97, 0, 98, 13, 10>>,   \* 32 'X: a\x00b\r\n' NUL in value: reject
    <<88, 58, 32, 118, 10>>,   \* 33 'X: v\n' bare LF: reject
    <<88, 58, 32, 97, 13, 98, 13, 10>>,   \* 34 'X: a\rb\r\n' bare CR: reject
    <<67, 111, 110, 110, 101, 99, 116, 105, 111, 110, 58, 32, 99, 108, 111, 115, 101, 13, 10>>,   \* 35 'Connection: close\r\n' 
    <<67, 111, 110, 110, 101, 99, 116, 105, 111, 110, 58, 32, 117, 112, 103, 114, 97, 100, 101, 13, 10>>,   \* 36 'Connection: upgrade\r\n' 
    <<85, 112, 103, 114, 97, 100, 101, 58, 32, 119, 101, 98, 115, 111, 99, 107, 101, 116, 13, 10>>,   \* 37 'Upgrade: websocket\r\n' 
    <<88, 13, 10>>,   \* 38 'X\r\n' no colon: reject
    <<67, 111, 110, 116, 101, 110, 116, 45, 84, 121, 112, 101, 58, 32, 97, 13, 10>>,   \* 39 'Content-Type: a\r\n' singleton (alt when repeated)
    <<97, 98, 99>>,   \* 40 'abc' 3 body bytes
    <<97>>,   \* 41 'a' 1 body byte
    <<51, 13, 10>>,   \* 42 '3\r\n' chunk-size
    <<51, 59, 120, 61, 121, 13, 10>>,   \* 43 '3;x=y\r\n' chunk-size with extension
    <<51, 32, 59, 13, 10>>,   \* 44 '3 ;\r\n' WS after chunk-size: reject (strict)
    <<43, 51, 13, 10>>,   \* 45 '+3\r\n' reject
    <<48, 120, 51, 13, 10>>,   \* 46 '0x3\r\n' reject
    <<48, 13, 10>>,   \* 47 '0\r\n' last-chunk
    <<51, 59, 120, 61, 0, 13, 10>>,   \* 48 '3;x=\x00\r\n' NUL in chunk-ext (dev)
    <<51, 10>>,   \* 49 '3\n' bare LF: reject
    <<71, 69, 84, 32, 47, 97, 97, 97, 97, 97, 97, 97, 97, 97, 97, 97, 97, 97, 97, 97, 32, 72, 84, 84, 80, 47, 49, 46, 49, 13, 10>>,   \* 50 'GET /aaaaaaaaaaaaaaa HTTP/1.1\r\n' request line of 29
    <<71, 69, 84, 32, 47, 97, 97, 97, 97, 97, 97, 97, 97, 97, 97, 97, 97, 97, 97, 97, 97, 32, 72, 84, 84, 80, 47, 49, 46, 49, 13, 10>>,   \* 51 'GET /aaaaaaaaaaaaaaaa HTTP/1.1\r\n' request line of 30 = maxLine
    <<71, 69, 84, 32, 47, 97, 97, 97, 97, 97, 97, 97, 97, 97, 97, 97, 97, 97, 97, 97, 97, 97, 32, 72, 84, 84, 80, 47, 49, 46, 49, 13, 10>>,   \* 52 'GET /aaaaaaaaaaaaaaaaa HTTP/1.1\r\n' request line of 31
    <<88, 58, 32, 118, 118, 118, 118, 118, 118, 118, 118, 118, 118, 118, 118, 118, 118, 118, 118, 118, 118, 118, 118, 118, 118, 118, 118, 13, 10>>,   \* 53 'X: vvvvvvvvvvvvvvvvvvvvvvvv\r\n' field line of 27
    <<88, 58, 32, 118, 118, 118, 118, 118, 118, 118, 118, 118, 118, 118, 118, 118, 118, 118, 118, 118, 118, 118, 118, 118, 118, 118, 118, 118, 13, 10>>,   \* 54 'X: vvvvvvvvvvvvvvvvvvvvvvvvv\r\n' field line of 28 = maxField
    <<88, 58, 32, 118, 118, 118, 118, 118, 118, 118, 118, 118, 118, 118, 118, 118, 118, 118, 118, 118, 118, 118, 118, 118, 118, 118, 118, 118, 118, 13, 10>>,   \* 55 'X: vvvvvvvvvvvvvvvvvvvvvvvvvv\r\n' field line of 29
    <<51, 59, 120, 120, 120, 120, 120, 120, 120, 120, 120, 120, 120, 120, 120, 120, 120, 120, 120, 120, 120, 120, 120, 120, 120, 120, 120, 120, 120, 13, 10>>,   \* 56 '3;xxxxxxxxxxxxxxxxxxxxxxxxxxx\r\n' chunk-size line of 29
    <<51, 59, 120, 120, 120, 120, 120, 120, 120, 120, 120, 120, 120, 120, 120, 120, 120, 120, 120, 120, 120, 120, 120, 120, 120, 120, 120, 120, 120, 120, 13, 10>>,   \* 57 '3;xxxxxxxxxxxxxxxxxxxxxxxxxxxx\r\n' chunk-size line of 30 = maxLine
    <<51, 59, 120, 120, 120, 120, 120, 120, 120, 120, 120, 120, 120, 120, 120, 120, 120, 120, 120, 120, 120, 120, 120, 120, 120, 120, 120, 120, 120, 120, 120, 13, 10>>,   \* 58 '3;xxxxxxxxxxxxxxxxxxxxxxxxxxxxx\r\n' chunk-size line of 31
    <<88, 58, 32, 118, 118, 118, 118, 118, 118, 118, 118, 118, 118, 118, 118>>,   \* 59 'X: vvvvvvvvvvvv' unterminated piece (15 bytes)
    <<72, 84, 84, 80, 47, 49, 46, 49, 32, 50, 48, 48, 32, 79, 75, 13, 10>>,   \* 60 'HTTP/1.1 200 OK\r\n' status line
    <<72, 84, 84, 80, 47, 49, 46, 49, 32, 50, 48, 52, 32, 78, 111, 13, 10>>,   \* 61 'HTTP/1.1 204 No\r\n' no-body status
    <<72, 84, 84, 80, 47, 49, 46, 49, 32, 49, 48, 48, 32, 67, 13, 10>>,   \* 62 'HTTP/1.1 100 C\r\n' interim
    <<72, 84, 84, 80, 47, 49, 46, 48, 32, 50, 48, 48, 32, 79, 75, 13, 10>>,   \* 63 'HTTP/1.0 200 OK\r\n' 
    <<72, 84, 84, 80, 47, 49, 46, 49, 32, 50, 48, 48, 32, 79, 75, 10>>,   \* 64 'HTTP/1.1 200 OK\n' bare LF (lax: fine)
    <<72, 84, 84, 80, 47, 49, 46, 49, 32, 50, 48, 32, 79, 75, 13, 10>>,   \* 65 'HTTP/1.1 20 OK\r\n' bad status code
    <<10>>,   \* 66 '\n' bare LF empty line
    <<32, 118, 10>>,   \* 67 ' v\n' obs-fold with LF
    <<32, 51, 32, 13, 10>>,   \* 68 ' 3 \r\n' chunk size with white space (lax)
    <<13>>    \* 69 '\r' lone CR
>>

Init == q = <<>> /\ fed = 0 /\ s = Init0 /\ last = <<>> /\ nlex = 0 /\ sealed = FALSE

\* drop the consumed prefix; absolute offsets are kept through s.base
Rebase(st) == [st EXCEPT !.pos = 1, !.base = st.base + st.pos - 1]

Bounded ==
    /\ Len(s.msgs) < MaxMsgs
    /\ Len(s.cur.chunks) <= MaxChunks
    /\ Len(s.cur.trailers) <= 2
    /\ s.remaining <= 4            \* a path that announces a larger body ("abc" is a chunk size too) is not extended

Add(L) ==
    /\ ~sealed
    /\ IF CutMode THEN
          /\ nlex < MaxLex
          /\ q' = q \o Lex[L] /\ nlex' = nlex + 1 /\ last' = Lex[L]
          /\ UNCHANGED <<fed, s, sealed>>
       ELSE
          /\ ~Terminal(s) /\ Bounded
          /\ (s.cur.nlines <= MaxLines \/ Lex[L] = <<13, 10>> \/ Lex[L] = <<10>> \/ s.cur.delivered)
          /\ LET q1 == q \o Lex[L]
                 s1 == Run(Resume(s), q1, Len(q1), Cfg)
             IN /\ Len(q1) - (s1.pos - 1) <= MaxPending
                /\ q' = DropN(q1, s1.pos - 1)
                /\ s' = Rebase(s1)
                /\ fed' = Len(q')
          /\ last' = Lex[L] /\ nlex' = nlex + 1 /\ UNCHANGED sealed

Seal == CutMode /\ ~sealed /\ nlex > 0 /\ sealed' = TRUE /\ last' = <<>> /\ UNCHANGED <<q, fed, s, nlex>>

Feed(k) ==
    /\ CutMode /\ sealed /\ fed < Len(q)
    /\ LET f2 == IF k = 0 THEN Len(q) ELSE Min2(fed + k, Len(q))
       IN /\ fed' = f2
          /\ s' = Run(Resume(s), q, f2, Cfg)
          /\ last' = SubSeq(q, fed + 1, f2)
    /\ UNCHANGED <<q, nlex, sealed>>

Next == (\E L \in LexIds : Add(L)) \/ Seal \/ (\E k \in 0..3 : Feed(k))
Spec == Init /\ [][Next]_vars

(* ---- what an observer of the reader can see (positions made absolute) ---- *)
Obs(st) == [phase |-> st.phase, msgs |-> st.msgs, cur |-> st.cur, remaining |-> st.remaining,
            reason |-> st.reason, soft |-> st.soft, at |-> st.base + st.pos, wait |-> st.wait,
            over |-> st.over, between |-> st.between, tight |-> st.tight, nearCount |-> st.nearCount,
            pendLF |-> st.pendLF, pendUpgrade |-> st.pendUpgrade]

InvPartition == Partition(s)
InvNoBodyWithoutFraming == NoBodyWithoutFraming(s)
InvOverLimitRejects == OverLimitRejects(s)
InvPendingBound == (~CutMode \/ sealed) => PendingBound(s, IF CutMode THEN fed ELSE Len(q), Cfg)
\* no accepted message carries both Content-Length and Transfer-Encoding (RFC 9112 6.3 rule 3)
Ambiguous(m) == HasField(m.fields, L_content_length) /\ HasField(m.fields, L_transfer_encoding)
InvUnambiguous ==
    /\ \A i \in 1..Len(s.msgs) : ~Ambiguous(s.msgs[i])
    /\ s.cur.delivered => ~Ambiguous(s.cur)
\* the outcome is a function of the bytes read so far, not of how they were cut into reads
InvCut == (CutMode /\ sealed) => Obs(Run(Resume(s), q, fed, Cfg)) = Obs(Run(Init0, q, fed, Cfg))
\* a request without Host (HTTP/1.1) is never delivered; strict mode never delivers a message after a fold / bare LF
InvHost ==
    Mode = "request" =>
        \A i \in 1..Len(s.msgs) : (s.msgs[i].vmaj = 1 /\ s.msgs[i].vmin = 1) => CountField(s.msgs[i].fields, L_host) = 1

\* once the reader has rejected (or reached another terminal phase) nothing changes any more
RejectIsFinal == [][Terminal(s) => s' = s]_vars

InvDepth == TLCGet("level") < 40      \* debugging aid, not part of any registered config

(* ---- VIEW: fold away what cannot influence the future ---- *)
RelevantNames == {L_content_length, L_transfer_encoding, L_host, L_connection, L_upgrade, L_sec_ws_key1}
FoldField(f) == LET ln == LowerSeq(f[1]) IN
                IF ln \in RelevantNames THEN <<ln, f[2]>> ELSE IF ln \in OtherSingletons THEN <<ln>> ELSE <<>>
FieldSetOf(fs) == {FoldField(fs[i]) : i \in 1..Len(fs)}
FoldMsg(m) == [mc |-> LET um == UpperSeq(m.method) IN IF um = M_HEAD THEN 1 ELSE IF um = M_CONNECT THEN 2 ELSE 0,
               v |-> <<m.vmaj, m.vmin, m.code>>,
               f |-> IF m.delivered THEN {} ELSE FieldSetOf(m.fields),     \* after the head only kind/close matter
               nf |-> Len(m.fields) + Len(m.trailers),
               \* trailers only matter through repeated singleton names (strict mode)
               t |-> IF Lax THEN {} ELSE {LowerSeq(m.trailers[i][1]) : i \in 1..Len(m.trailers)} \cap (FramingSingletons \cup OtherSingletons),
               nc |-> Len(m.chunks), kind |-> m.kind,
               d |-> m.delivered, c |-> m.close, nl |-> m.nlines,
               \* length of the last raw value: only matters once a fold could push it over maxField
               lastraw |-> IF Lax /\ Len(m.fields) > 0 /\ Len(m.fields[Len(m.fields)][3]) + 40 > MaxField
                           THEN Len(m.fields[Len(m.fields)][3]) ELSE 0]
View ==
    IF CutMode THEN <<q, fed, s, sealed>>
    ELSE IF Terminal(s) THEN <<s.phase, s.over>>
    ELSE <<q, s.phase, s.remaining, FoldMsg(s.cur), Len(s.msgs), s.pendUpgrade, s.pendLF, s.wait, s.over>>
=============================================================================
