------------------------------- MODULE WsSend -------------------------------
(* C11 - aiohttp._websocket.writer.WebSocketWriter: concurrent senders, the asyncio
   lock, the shielded inner task for large compressed frames, the executor hop inside
   compress(), the shared deflate context, cancellation, per-message compress override.

   Implementation-shaped model.  asyncio is an explicit FIFO `ready` queue; one action
   (Step) runs the head entry, i.e. exactly the code between two awaits:
     [k = "s"]  a sender task (send_frame called from the application)
     [k = "i"]  the inner task _send_compressed_frame_async_locked of one large message
     [k = "x"]  the executor job of compress() (runs on a later loop step)
     [k = "cb"] the done-callback asyncio.shield registered on the inner task
   The environment acts between steps: Spawn(s) (create_task), Cancel(s) (task.cancel()).

   Sender s runs  for m in Prog[s]: await send_frame(m) ; await sleep(0)  and stops at the
   first CancelledError.  Message m = <<s, i>>;  Prog[s][i] = [op, size, ovr]:
     op   "data" | "ping" | "close"           size "small" (<= 16 KiB) | "large"
     ovr  per-message compress= override given
   send_frame (writer.py):
     closing and a data frame                    -> raises
     control frame, or no compression at all     -> frame written at once, no lock
     small compressed                            -> async with lock: compress + write
     large compressed                            -> eager inner task; await shield(inner)
                      inner: async with lock: await compress() [executor]; flush; write

   The deflate contexts are abstract HISTORIES (sequences of message ids):
     cctx   what the shared compressor has consumed since its last reset
     a frame compressed against history h is decoded correctly iff h is a suffix of what
     the peer's inflater has consumed so far (Receiver below): back-references reach into h.
   notakeover (Takeover = FALSE): Z_FULL_FLUSH after every message = history reset.
   Override: a fresh compressor (history <<>>) whose output the peer's shared inflater
   still consumes.  OverrideFix = FALSE is the code as found: the shared compressor keeps
   its history, the next shared message refers to a window the peer no longer has at that
   distance (named deviation: DecodeOK_OverrideTakeover).  OverrideFix = TRUE is the
   repaired design: using a per-message compressor drops the shared one.

   CloseLatch = FALSE is the code as found: `closing` is only looked at when send_frame
   is entered, so a compressed send that was already waiting for the lock or the executor
   is written AFTER the Close frame (named deviation: NoDataAfterCloseOnWire).
   CloseLatch = TRUE is the repaired design: _write_websocket_frame refuses (raises).

   Payload containers: Prog[s][i].buf = 0 is an immutable payload (bytes); buf = b > 0 is the caller's
   mutable buffer b (bytearray / writable memoryview), which several messages may share (the same
   object sent twice).  v.bufs[b] is what the buffer holds: "orig" = what the caller put there.  A
   masking writer (Mask) XORs a COPY of the payload (MaskCopies = TRUE, the code); MaskCopies = FALSE
   is a self-test mutant that masks a mutable buffer in place.  Every frame records the content it
   was built from (PayloadIntact), and the caller's buffers are never changed (CallerBufferIntact).

   UseShield / SmallTakesLock = FALSE are self-test mutants (mechanism removed);
   OvrTakesLock = FALSE: only small frames with a per-message override skip the lock (a
   private compressor does not make the send independent: the frame still enters the
   peer's single inflate window, so it must not overtake a frame that is being compressed). *)
EXTENDS Naturals, Sequences, FiniteSets, TLC

CONSTANTS Senders, Prog, Compress, Takeover, MaxCancel, OverrideFix, CloseLatch, UseShield, SmallTakesLock,
          OvrTakesLock, Mask, MaskCopies

VARIABLES v

None == <<"none">>

Msgs == UNION {{<<s, i>> : i \in 1..Len(Prog[s])} : s \in Senders}
M(m) == Prog[m[1]][m[2]]
IsCtl(m) == M(m).op # "data"
Deflated(m) == ~IsCtl(m) /\ (Compress \/ M(m).ovr)
Large(m) == M(m).size = "large"

Bufs == {M(m).buf : m \in Msgs} \ {0}
E(k, id) == [k |-> k, id |-> id]

Init ==
    v = [pc |-> [s \in Senders |-> "unborn"],
         idx |-> [s \in Senders |-> 1],
         held |-> FALSE,                     \* asyncio.Lock._locked
         waiters |-> <<>>,                   \* Lock._waiters: [w |-> entry to wake, st |-> pending|done|cancelled]
         inner |-> [m \in Msgs |-> "none"],  \* none | lockwait | exec | execdone | done | dead
         hist |-> [m \in Msgs |-> <<>>],     \* compressor history the message was compressed against
         cctx |-> <<>>,
         comp |-> None,                      \* message consumed by the shared compressor, frame not yet written
         wire |-> <<>>,                      \* frames in the order transport.write() saw them
         result |-> [m \in Msgs |-> "none"], \* how send_frame(m) ended: returned | cancelled | raised
         closing |-> FALSE,
         bufs |-> [b \in Bufs |-> "orig"],     \* content of the caller's mutable buffers
         seen |-> [m \in Msgs |-> "orig"],     \* content the compressor read for message m
         refused |-> {},                     \* messages whose frame write raised (CloseLatch)
         lateStart |-> {},                   \* messages whose send_frame was entered when closing was set
         ready |-> <<>>,
         woken |-> {},                       \* senders whose wake-up is scheduled
         cancelReq |-> [s \in Senders |-> FALSE],
         ncancel |-> 0]

(* ------------------------------------------------------------- asyncio.Lock --- *)
FastAcquire(st) == ~st.held /\ \A i \in 1..Len(st.waiters) : st.waiters[i].st = "cancelled"

WakeOf(st, w) ==      \* schedule the wake-up of waiter entry w
    IF w.k = "s" THEN [st EXCEPT !.ready = Append(@, w), !.woken = @ \cup {w.id}]
    ELSE [st EXCEPT !.ready = Append(@, w)]

WakeFirst(st) ==      \* Lock._wake_up_first: only the FIRST waiter is looked at
    IF st.waiters # <<>> /\ st.waiters[1].st = "pending"
    THEN WakeOf([st EXCEPT !.waiters[1].st = "done"], st.waiters[1].w)
    ELSE st

Release(st) == WakeFirst([st EXCEPT !.held = FALSE])

RemoveWaiter(st, w) == [st EXCEPT !.waiters = SelectSeq(@, LAMBDA x : x.w # w)]

(* ------------------------------------------------------------ the compressor --- *)
\* compressobj.compress(message): history the output refers to, and the context afterwards
HistFor(st, m) == IF M(m).ovr THEN <<>> ELSE st.cctx
Content(st, m) == IF M(m).buf = 0 THEN "orig" ELSE st.bufs[M(m).buf]
Consume(st, m) ==
    LET st1 == [st EXCEPT !.hist[m] = HistFor(st, m), !.seen[m] = Content(st, m)] IN
    IF M(m).ovr
    THEN (IF OverrideFix THEN [st1 EXCEPT !.cctx = <<>>] ELSE st1)
    ELSE [st1 EXCEPT !.cctx = IF Takeover THEN Append(@, m) ELSE <<>>,
                     !.comp = m]

\* _write_websocket_frame
Refuses(st, m) == CloseLatch /\ st.closing /\ M(m).op = "data"
Write(st, m) ==
    IF Refuses(st, m) THEN [st EXCEPT !.refused = @ \cup {m}, !.comp = IF st.comp = m THEN None ELSE @]
    ELSE
    [st EXCEPT !.wire = Append(@, [id |-> m, op |-> M(m).op, rsv1 |-> Deflated(m), ovr |-> M(m).ovr,
                                   hist |-> st.hist[m], late |-> m \in st.lateStart,
                                   content |-> IF Deflated(m) THEN st.seen[m] ELSE Content(st, m)]),
               \* masking: `message_arr = bytearray(message)` is a copy; without it the caller's buffer is XORed
               !.bufs = IF Mask /\ ~MaskCopies /\ ~Deflated(m) /\ M(m).buf # 0 THEN [@ EXCEPT ![M(m).buf] = "scrambled"] ELSE @,
               !.comp = IF st.comp = m THEN None ELSE @,
               !.closing = IF M(m).op = "close" THEN TRUE ELSE @]

How(st, m) == IF m \in st.refused THEN "raised" ELSE "returned"

AfterSend(st, s, how) ==
    LET m == <<s, st.idx[s]>>
        st1 == [st EXCEPT !.result[m] = how]
    IN IF st.idx[s] = Len(Prog[s]) THEN [st1 EXCEPT !.pc[s] = "done"]
       ELSE [st1 EXCEPT !.pc[s] = "sleep", !.idx[s] = @ + 1,
                        !.ready = Append(@, E("s", s)), !.woken = @ \cup {s}]

(* ------------------------------------------------------------- sender steps --- *)
StartInner(st, m) ==       \* eager start of _send_compressed_frame_async_locked(m)
    IF FastAcquire(st)
    THEN [st EXCEPT !.held = TRUE, !.inner[m] = "exec", !.ready = Append(@, E("x", m))]
    ELSE [st EXCEPT !.inner[m] = "lockwait", !.waiters = Append(@, [w |-> E("i", m), st |-> "pending"])]

StartSend(st0, s) ==
    LET m == <<s, st0.idx[s]>>
        st == IF st0.closing THEN [st0 EXCEPT !.lateStart = @ \cup {m}] ELSE st0
    IN
    \* `if self._closing and not (opcode & WSMsgType.CLOSE)`: the bit test lets every control frame
    \* (ping, pong, close) through; RFC 6455 5.5.1 forbids only DATA frames after a Close frame
    IF st.closing /\ M(m).op = "data" THEN AfterSend(st, s, "raised")
    ELSE IF ~Deflated(m) THEN AfterSend(Write(st, m), s, "returned")
    ELSE IF ~Large(m) THEN
        IF ~SmallTakesLock \/ (M(m).ovr /\ ~OvrTakesLock) THEN AfterSend(Write(Consume(st, m), m), s, "returned")
        ELSE IF FastAcquire(st) THEN AfterSend(Release(Write(Consume([st EXCEPT !.held = TRUE], m), m)), s, "returned")
        ELSE [st EXCEPT !.pc[s] = "lockwait", !.waiters = Append(@, [w |-> E("s", s), st |-> "pending"])]
    ELSE [StartInner(st, m) EXCEPT !.pc[s] = "shield"]

KillInner(st, m) ==        \* mutant UseShield = FALSE: cancelling the sender cancels the inner send
    LET owns == st.inner[m] \in {"exec", "execdone"}
        st1 == [st EXCEPT !.inner[m] = "dead",
                          !.ready = SelectSeq(@, LAMBDA x : ~(x.k \in {"i", "x", "cb"} /\ x.id = m))]
        st2 == RemoveWaiter(st1, E("i", m))
    IN IF owns THEN Release(st2) ELSE IF ~st2.held THEN WakeFirst(st2) ELSE st2

RunSender(st0, s) ==
    LET st == [st0 EXCEPT !.woken = @ \ {s}]
        m == <<s, st.idx[s]>>
    IN
    IF st.cancelReq[s] THEN                       \* CancelledError is thrown at the await
        CASE st.pc[s] \in {"new", "sleep"} -> [st EXCEPT !.pc[s] = "cancelled"]
          [] st.pc[s] = "lockwait" ->
                LET st1 == RemoveWaiter(st, E("s", s))
                    st2 == IF ~st1.held THEN WakeFirst(st1) ELSE st1       \* Lock.acquire: except CancelledError
                IN [st2 EXCEPT !.pc[s] = "cancelled", !.result[m] = "cancelled"]
          [] st.pc[s] = "shield" ->
                LET st1 == [st EXCEPT !.pc[s] = "cancelled", !.result[m] = "cancelled"]
                IN IF UseShield \/ st.inner[m] \in {"done", "dead"} THEN st1 ELSE KillInner(st1, m)
          [] OTHER -> st
    ELSE
        CASE st.pc[s] \in {"new", "sleep"} -> StartSend(st, s)
          [] st.pc[s] = "lockwait" ->                \* woken by release(): we own the lock now
                LET st1 == Release(Write(Consume([RemoveWaiter(st, E("s", s)) EXCEPT !.held = TRUE], m), m))
                IN AfterSend(st1, s, How(st1, m))
          [] st.pc[s] = "shield" -> AfterSend(st, s, How(st, m))
          [] OTHER -> st

(* -------------------------------------------------- inner task, executor, shield *)
RunInner(st, m) ==
    CASE st.inner[m] = "lockwait" ->                 \* woken by release()
            [RemoveWaiter(st, E("i", m)) EXCEPT !.held = TRUE, !.inner[m] = "exec", !.ready = Append(@, E("x", m))]
      [] st.inner[m] = "execdone" ->                 \* compress() returned: flush, write, leave the lock
            LET st1 == Release(Write(st, m))
            IN [st1 EXCEPT !.inner[m] = "done", !.ready = Append(@, E("cb", m))]
      [] OTHER -> st

RunExec(st, m) ==                                    \* compressobj.compress(message) in the executor
    IF st.inner[m] # "exec" THEN st
    ELSE [Consume(st, m) EXCEPT !.inner[m] = "execdone", !.ready = Append(@, E("i", m))]

RunCb(st, m) ==                                      \* shield's _inner_done_callback -> outer.set_result
    LET s == m[1] IN
    IF st.pc[s] = "shield" /\ st.idx[s] = m[2] /\ s \notin st.woken
    THEN [st EXCEPT !.ready = Append(@, E("s", s)), !.woken = @ \cup {s}]
    ELSE st

(* -------------------------------------------------------------------- actions --- *)
Step ==
    /\ v.ready # <<>>
    /\ LET h == Head(v.ready)
           st == [v EXCEPT !.ready = Tail(@)]
       IN v' = CASE h.k = "s" -> RunSender(st, h.id)
                 [] h.k = "i" -> RunInner(st, h.id)
                 [] h.k = "x" -> RunExec(st, h.id)
                 [] OTHER -> RunCb(st, h.id)

Spawn(s) ==
    /\ v.pc[s] = "unborn"
    /\ v' = [v EXCEPT !.pc[s] = "new", !.ready = Append(@, E("s", s)), !.woken = @ \cup {s}]

Cancel(s) ==               \* task.cancel()
    /\ v.ncancel < MaxCancel
    /\ v.pc[s] \in {"new", "sleep", "lockwait", "shield"}
    /\ ~v.cancelReq[s]
    /\ LET st == [v EXCEPT !.cancelReq[s] = TRUE, !.ncancel = @ + 1]
       IN v' = IF s \in v.woken THEN st                          \* wake-up already scheduled: _must_cancel
               ELSE LET st1 == [st EXCEPT !.ready = Append(@, E("s", s)), !.woken = @ \cup {s}]
                    IN IF v.pc[s] = "lockwait"                   \* the lock waiter future is cancelled
                       THEN [st1 EXCEPT !.waiters = [i \in 1..Len(@) |->
                                   IF @[i].w = E("s", s) THEN [@[i] EXCEPT !.st = "cancelled"] ELSE @[i]]]
                       ELSE st1

Next == Step \/ (\E s \in Senders : Spawn(s)) \/ (\E s \in Senders : Cancel(s))

Spec == Init /\ [][Next]_v

(* ------------------------------------------------------------------ receiver --- *)
IsSuffix(h, d) == Len(h) <= Len(d) /\ SubSeq(d, Len(d) - Len(h) + 1, Len(d)) = h

\* what the peer's inflater has consumed before frame k of the wire
DctxBefore(w, k) == LET fs == SelectSeq(SubSeq(w, 1, k - 1), LAMBDA f : f.rsv1)
                    IN [j \in 1..Len(fs) |-> fs[j].id]
FrameDecodes(w, k) == ~w[k].rsv1 \/ IsSuffix(w[k].hist, DctxBefore(w, k))

\* a wrong decode that is explained by per-message override frames alone: without the
\* override messages the inflater's history would have been the compressor's
OvrIds(w) == {w[i].id : i \in {j \in 1..Len(w) : w[j].ovr}}
ExplainedByOverride(w, k) ==
    IsSuffix(w[k].hist, SelectSeq(DctxBefore(w, k), LAMBDA id : id \notin OvrIds(w)))

(* ---------------------------------------------------------------- invariants --- *)
Wire == v.wire
Shared(f) == f.rsv1 /\ ~f.ovr
SharedIdx == {i \in 1..Len(Wire) : Shared(Wire[i])}
PrevShared(i) == {j \in SharedIdx : j < i}

\* messages appear on the wire in the order the shared context consumed them
WireOrderIsCtxOrder ==
    \A i \in SharedIdx :
        IF PrevShared(i) = {} THEN Wire[i].hist = <<>>
        ELSE LET j == CHOOSE x \in PrevShared(i) : \A y \in PrevShared(i) : y <= x
             IN \/ Wire[i].hist = Append(Wire[j].hist, Wire[j].id)
                \/ (Wire[i].hist = <<>> /\ (~Takeover \/ OverrideFix))

OnWire(m) == \E i \in 1..Len(Wire) : Wire[i].id = m
Count(m) == Cardinality({i \in 1..Len(Wire) : Wire[i].id = m})

\* the shared compressor consumed m  =>  m's frame is on the wire, or the (shielded)
\* inner task that will write it holds the lock and is scheduled
NoCtxAdvanceWithoutFrame ==
    /\ \A i \in 1..Len(v.cctx) : OnWire(v.cctx[i]) \/ v.cctx[i] = v.comp \/ v.cctx[i] \in v.refused
    /\ v.comp # None => (v.held /\ \E i \in 1..Len(v.ready) : v.ready[i] = E("i", v.comp))

DecodeOK == \A k \in 1..Len(Wire) : FrameDecodes(Wire, k)
DecodeOK_OverrideTakeover == DecodeOK           \* same formula; violated by the code as found (named deviation)
DecodeOnlyOverrideDev == \A k \in 1..Len(Wire) : FrameDecodes(Wire, k) \/ ExplainedByOverride(Wire, k)

PerSenderOrder ==
    \A i, j \in 1..Len(Wire) : (i < j /\ Wire[i].id[1] = Wire[j].id[1]) => Wire[i].id[2] < Wire[j].id[2]

ExactlyOnce ==
    \A m \in Msgs : /\ Count(m) <= 1
                    /\ (v.result[m] = "returned" => Count(m) = 1)
                    /\ (v.result[m] = "raised" => Count(m) = 0)

ControlNeverCompressed == \A i \in 1..Len(Wire) : Wire[i].op # "data" => ~Wire[i].rsv1

\* a send_frame entered after close() completed never puts a data frame on the wire
NothingAfterClose == \A i \in 1..Len(Wire) : Wire[i].late => Wire[i].op # "data"

\* stronger, wire-level reading (RFC 6455 5.5.1); NOT guaranteed by the code: a compressed send that
\* was already waiting for the lock / the executor is written after the Close frame
NoDataAfterCloseOnWire ==
    \A i, j \in 1..Len(Wire) : (i < j /\ Wire[i].op = "close") => Wire[j].op # "data"

\* what goes out is what the caller put into the buffer; the caller's buffers are left alone
PayloadIntact == \A i \in 1..Len(Wire) : Wire[i].content = "orig"
CallerBufferIntact == \A b \in Bufs : v.bufs[b] = "orig"

LockSafety == (v.comp # None => v.held)

\* nothing is left hanging: when the loop is idle every spawned sender has finished
NoLostWakeup ==
    v.ready = <<>> => /\ \A s \in Senders : v.pc[s] \in {"unborn", "done", "cancelled"}
                      /\ \A m \in Msgs : v.inner[m] \in {"none", "done", "dead"}
                      /\ ~v.held
=============================================================================
