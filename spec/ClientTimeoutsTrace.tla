------------------------ MODULE ClientTimeoutsTrace ------------------------
(* C18 - observational monitor over executions recorded from a real ClientSession on a real
   TCPConnector (resolver, sockets and peer scripted by the harness) under virtual time.

   Every event carries an observation made from the harness side of the stubs (times in ms):
     t        virtual time           idle    the loop has no ready handle
     st[q]    new | pending | ok | timeout | cancelled | error      (q = v, b, [c,] f1.., and v2 = the
              immediate retry the victim's caller issues from its exception handler, if enabled)
     ph[q]    where q is as far as the stubs show: waiting | sock | connmade | exchange | <st>
     refs[K]  instant from which timeout K of the victim currently counts (-1: does not apply):
              total        = request start, while the call is pending
              connect      = request start, while the victim has no connection
              sock_connect = start of the pending sock_connect() call of the victim
              sock_read    = latest of (request fully written, last bytes delivered, reading
                             resumed), while the victim's transport is reading
     tend[q]  time the call ended    gotresp  session.request() of the victim returned
     open     transports not closed  faulted  connections the victim held / was creating when it failed
     held[q]  connection q holds     loosesocks  sockets open without transport or pending connect
     tasks    asyncio.all_tasks() minus harness tasks minus the connector's shared lookup task
     timers   pending timers minus harness watchdog minus connector keep-alive cleanup
     dnsw     futures parked on the shared DNS lookup        cancelreq  caller cancelled v while pending
     interim  a 100 Continue was delivered to the victim
     vconns   number of connections the victim's request has been sent on so far
     fault    the driver injected a peer fault (random driver only)
   cfg: limit, thr (ceil threshold), to[K] (0 = not configured).

   Clauses (same names as the invariants of ClientTimeouts):
     Bounded            victim still pending after refs[K] + to[K] + documented rounding; or (info
                        "<K>-expired") a deadline that applied was reached and the call did not end
                        by the next quiescent observation (e.g. it silently retried elsewhere)
     EarlyTimeout       a timeout-class error before any configured delay elapsed / none configured
     CancelPropagates   caller cancel not ending in CancelledError, or CancelledError without cancel
     CancelSwallowedNestedTimer   the named deviation: total timer and caller cancel both hit the
                        victim while it awaits the response head (nested TimerContext) -> TimeoutError
     ReadTimerNotStartedAfterInterim   the named deviation: only sock_read is overdue, an interim
                        100 Continue was delivered, the request is written, no timer is pending
     ReadTimerRearmedAfterEof     the named deviation: the victim succeeded, its connection is back
                        in the pool and the protocol's sock_read timer is (still) armed
     NoResidue          first idle observation after the victim ended: transport / socket open,
                        handle held, task running, timer pending, DNS waiter left, or a faulted
                        connection handed to somebody else
     BystanderUnharmed  bystander cancelled / failed, or still stuck after everything was served
     SessionUsable      follow-ups do not all get a slot at once, or do not succeed
     UnexpectedError    the victim failed with a non-timeout error although no fault was injected *)
EXTENDS Integers, Sequences, FiniteSets, TLC, TraceBatch

VARIABLES tid, l, prev, bad, resDone, due

tvars == <<tid, l, prev, bad, resDone, due>>

Kinds == <<"total", "connect", "sock_connect", "sock_read">>
Rng(q) == {q[i] : i \in 1..Len(q)}
CeilS(t) == IF (t % 1000) = 0 THEN t ELSE t + (1000 - (t % 1000))
Deadline(ref, d, thr) == IF d >= thr THEN CeilS(ref + d) ELSE ref + d
Ended(st) == st \notin {"new", "pending"}
Bystanders(o) == DOMAIN o.st \cap {"b", "c"}
Followers(o) == {q \in DOMAIN o.st : q \notin {"v", "b", "c"}}

(* A deadline that was reached: `due` = <<kind index, its reference instant, connections the victim
   had used>> is set when time reaches ref + delay while timeout K applied and the victim was
   pending; it is void again only if the victim ended or the reference moved legitimately (more
   bytes / reading resumed on the SAME exchange).  An expired deadline must have ended the call by
   the next quiescent observation at or after ref + delay + rounding - whatever the call does
   instead (e.g. silently retrying on another connection).                                      *)
NoDue == <<0, 0, 0>>
ExpInfo == <<"total-expired", "connect-expired", "sock_connect-expired", "sock_read-expired">>
Renewed(d, o) == d[1] # 0 /\ o.refs[Kinds[d[1]]] > d[2] /\ o.vconns = d[3]
DueNext(d, p, o, c) ==
    IF Ended(o.st["v"]) THEN NoDue
    ELSE LET d1 == IF d[1] # 0 THEN d
                   ELSE LET cr == {i \in 1..4 : /\ c.to[Kinds[i]] > 0 /\ p.refs[Kinds[i]] >= 0
                                                 /\ p.st["v"] = "pending"
                                                 /\ o.t >= p.refs[Kinds[i]] + c.to[Kinds[i]]}
                        IN IF cr = {} THEN NoDue
                           ELSE LET i == CHOOSE x \in cr : \A y \in cr : x <= y
                                IN <<i, p.refs[Kinds[i]], p.vconns>>
         IN IF Renewed(d1, o) THEN NoDue ELSE d1

MinTo(c) ==
    LET ds == {c.to[Kinds[i]] : i \in {j \in 1..4 : c.to[Kinds[j]] > 0}}
    IN IF ds = {} THEN 0 ELSE CHOOSE m \in ds : \A y \in ds : m <= y

BoundedBad(o, c) ==
    {i \in 1..4 : /\ c.to[Kinds[i]] > 0 /\ o.refs[Kinds[i]] >= 0 /\ o.st["v"] = "pending"
                  /\ o.t > Deadline(o.refs[Kinds[i]], c.to[Kinds[i]], c.thr)}

Residue(o) ==
    IF \E k \in Rng(o.faulted) : k \in Rng(o.open) THEN "transport-open"
    ELSE IF o.loosesocks # <<>> THEN "socket-open"
    ELSE IF o.held["v"] # -1 THEN "handle-held"
    ELSE IF o.tasks # <<>> THEN "task-running"
    ELSE IF o.timers # <<>> /\ o.st["v"] = "ok" /\ Rng(o.timers) = {"read"} THEN "read-timer-rearmed"
    ELSE IF o.timers # <<>> THEN "timer-pending"
    ELSE IF o.dnsw > Cardinality({q \in DOMAIN o.st : q # "v" /\ o.st[q] = "pending" /\ o.ph[q] = "waiting"})
         THEN "dns-waiter"
    ELSE ""

Clause(p, e, c, rd, dn) ==
    LET o == e.obs
        bb == BoundedBad(o, c)
        vEndsNow == p.st["v"] = "pending" /\ Ended(o.st["v"])
    IN
    IF bb = {4} /\ o.interim /\ ~o.gotresp /\ o.timers = <<>>
       THEN <<"ReadTimerNotStartedAfterInterim", "no sock_read timer after 100 Continue + request body">>
    ELSE IF bb # {} THEN <<"Bounded", Kinds[CHOOSE i \in bb : TRUE]>>
    ELSE IF /\ dn[1] # 0 /\ o.idle /\ o.st["v"] = "pending" /\ ~o.fault
            /\ o.t >= Deadline(dn[2], c.to[Kinds[dn[1]]], c.thr)
         THEN <<"Bounded", ExpInfo[dn[1]]>>
    ELSE IF vEndsNow /\ o.st["v"] = "timeout" /\ ~o.cancelreq
            /\ (MinTo(c) = 0 \/ o.tend["v"] < p.refs["total"] + MinTo(c))
         THEN <<"EarlyTimeout", "">>
    ELSE IF o.st["v"] = "cancelled" /\ ~o.cancelreq THEN <<"CancelPropagates", "cancelled-without-cancel">>
    ELSE IF vEndsNow /\ o.cancelreq /\ o.st["v"] # "cancelled"
         THEN IF /\ o.st["v"] = "timeout" /\ p.ph["v"] = "exchange" /\ ~o.gotresp /\ c.to["total"] > 0
                 /\ o.tend["v"] >= p.refs["total"] + c.to["total"]
              THEN <<"CancelSwallowedNestedTimer", o.st["v"]>>
              ELSE <<"CancelPropagates", o.st["v"]>>
    ELSE IF vEndsNow /\ o.st["v"] = "error" /\ ~o.fault THEN <<"UnexpectedError", "">>
    ELSE IF Ended(o.st["v"]) /\ o.idle /\ ~rd /\ Residue(o) = "read-timer-rearmed"
         THEN <<"ReadTimerRearmedAfterEof", "sock_read timer pending on the pooled connection">>
    ELSE IF Ended(o.st["v"]) /\ o.idle /\ ~rd /\ Residue(o) # "" THEN <<"NoResidue", Residue(o)>>
    ELSE IF \E q \in DOMAIN o.held : q # "v" /\ o.held[q] # -1 /\ o.held[q] \in Rng(o.faulted)
         THEN <<"NoResidue", "faulted-connection-reused">>
    ELSE IF ~o.fault /\ \E b \in Bystanders(o) : o.st[b] \in {"cancelled", "timeout", "error"}
         THEN <<"BystanderUnharmed", o.st[CHOOSE b \in Bystanders(o) : o.st[b] \in {"cancelled", "timeout", "error"}]>>
    ELSE IF e.ev = "served" /\ ~o.fault /\ \E b \in Bystanders(o) : o.st[b] = "pending"
         THEN <<"BystanderUnharmed", "stuck">>
    ELSE IF e.ev = "probe" /\ \E q \in Followers(o) : o.held[q] = -1 /\ o.st[q] = "pending"
         THEN <<"SessionUsable", "no-slot">>
    ELSE IF e.ev = "final" /\ \E q \in Followers(o) : o.st[q] \notin {"ok", "new"}
         THEN <<"SessionUsable", "follow-up-failed">>
    ELSE <<"", "">>

TInit ==
    /\ tid \in 1..NTraces
    /\ l = 0
    /\ prev = Events(tid)[1].obs
    /\ bad = ""
    /\ resDone = FALSE
    /\ due = NoDue
    /\ Verdict(tid, 0, "", "")

TNext ==
    /\ bad = ""
    /\ l < NEvents(tid)
    /\ LET e == Events(tid)[l + 1]
           dn == DueNext(due, prev, e.obs, Cfg(tid))
           b == Clause(prev, e, Cfg(tid), resDone, dn)
           l2 == IF b[1] = "" THEN l + 1 ELSE l
       IN /\ bad' = b[1]
          /\ l' = l2
          /\ prev' = e.obs
          /\ due' = dn
          /\ resDone' = (resDone \/ (Ended(e.obs.st["v"]) /\ e.obs.idle))
          /\ UNCHANGED tid
          /\ Verdict(tid, l2, b[1], b[2])

TSpec == TInit /\ [][TNext]_tvars
=============================================================================
