---------------------------- MODULE RedirectsTrace ----------------------------
(* C17 - trace validation: executions of a real ClientSession (real CookieJar, real
   ClientRequest / ResponseHandler on in-memory transports, engine/clikit.py) against
   scripted servers are replayed through the reference machine of Redirects.tla.

   cfg of a trace = the scenario (initial request, jar); events, in the order observed:
     req   what one origin received: o (scheme/host/port of the connection), dir, leaf,
           query, hostHdr, method, body (none|orig|other), auth / pauth (projected
           Authorization / Proxy-Authorization: "" | caller | url<k> | other),
           cookies (names in the Cookie header), clen, ctype, te
     resp  the scripted answer to that request (same record as RedirectsMC!Responses)
     end   outcome (ok | exception category | hang), status, hist (statuses + urls of
           resp.history), selfInHist, acquired (connector), histOpen (history
           responses still holding a connection)

   Property clauses (violations)
     WrongHopUrl QueryCarried HostHeader             the hop went somewhere else than Location says
     MethodTable BodyNotDropped BodyLost BodyAltered  method / content table
     AuthorizationOffOrigin UrlCredentialsOffOrigin AuthorizationDropped
     AuthorizationNotSuperseded AuthorizationAltered
     ProxyAuthorizationOffOrigin ProxyAuthorizationDropped
     CookieHeaderOffOrigin RequestCookiesOffOrigin CallerCookieDropped
     JarCookieMisselected JarCookieNotSent UnknownCookie
     StaleContentLength                              Content-Length of a dropped body still sent
     RequestBound UnexpectedRequest                  more requests than max_redirects / after a refusal
     Terminates EarlyTooManyRedirects StoppedEarly
     RefusalMissing OutcomeMismatch FinalStatus HistoryOrdered
     ConnectionLeak IntermediateNotReleased
   Named deviations of the unchanged tree (own clause each; validation continues past them)
     EntityHeadersOnBodylessHop   a redirected GET/HEAD/DELETE without content carries Content-Type
     FinalInOwnHistory            3xx without Location: the returned response is listed in its own history
   HarnessOrder = the driver itself mis-sequenced events (machinery, never a violation). *)
EXTENDS Redirects, TraceBatch

VARIABLES tid, l, s, seen, bad, devs

tvars == <<tid, l, s, seen, bad, devs>>

Scn(c) ==
    [url |-> MkUrl(MkOrigin(c.url.scheme, c.url.host, c.url.port), c.url.dir, c.url.leaf),
     userinfo |-> c.userinfo, method |-> c.method, body |-> c.body, hdrs |-> ToSet(c.hdrs),
     reqCookies |-> c.reqCookies, params |-> c.params, maxRedirects |-> c.maxRedirects,
     jar |-> ToSet(c.jar)]

BodyObs(b) == IF b = "none" THEN "none" ELSE "orig"

AuthClause(s0, rq, e) ==
    IF e.auth = "caller" THEN (IF s0.alive THEN "AuthorizationNotSuperseded" ELSE "AuthorizationOffOrigin")
    ELSE IF e.auth \in UrlToks THEN "UrlCredentialsOffOrigin"
    ELSE IF e.auth = "" THEN "AuthorizationDropped"
    ELSE "AuthorizationAltered"

CookieClause(s0, rq, obs) ==
    LET exp == rq.ccookies \cup rq.jcookies
        extra == obs \ exp
        lost == exp \ obs
        jarNames == {c.name : c \in s0.jar}
    IN IF "hc" \in extra THEN "CookieHeaderOffOrigin"
       ELSE IF "rc" \in extra THEN "RequestCookiesOffOrigin"
       ELSE IF extra \cap jarNames # {} THEN "JarCookieMisselected"
       ELSE IF extra # {} THEN "UnknownCookie"
       ELSE IF lost \cap {"hc", "rc"} # {} THEN "CallerCookieDropped"
       ELSE "JarCookieNotSent"

ReqClause(q, s0, e) ==
    LET rq == s0.sent[Len(s0.sent)]
        obsC == ToSet(e.cookies)
        hostPort == IF rq.url.o.port = DefaultPort(rq.url.o.scheme) THEN 0 ELSE rq.url.o.port
    IN IF e.o # rq.url.o \/ e.dir # rq.url.dir \/ e.leaf # rq.url.leaf THEN "WrongHopUrl"
       ELSE IF e.query # (IF rq.query THEN "k=v" ELSE "") THEN "QueryCarried"
       ELSE IF e.hostHdr # [host |-> rq.url.o.host, port |-> hostPort] THEN "HostHeader"
       ELSE IF e.method # rq.method THEN "MethodTable"
       ELSE IF e.body # BodyObs(rq.body)
            THEN (IF rq.body = "none" THEN "BodyNotDropped" ELSE IF e.body = "none" THEN "BodyLost" ELSE "BodyAltered")
       ELSE IF e.auth \notin rq.auth THEN AuthClause(s0, rq, e)
       ELSE IF e.pauth # (IF rq.pauth THEN "caller" ELSE "")
            THEN (IF rq.pauth THEN "ProxyAuthorizationDropped" ELSE "ProxyAuthorizationOffOrigin")
       ELSE IF obsC # rq.ccookies \cup rq.jcookies THEN CookieClause(s0, rq, obsC)
       ELSE IF rq.body = "none" /\ e.clen \notin {"", "0"} THEN "StaleContentLength"
       ELSE ""

\* client_reference.rst (skip_auto_headers): aiohttp generates a default Content-Type for the
\* methods that expect content (client_reqrep.POST_METHODS) even when no data is passed; a
\* request without content of any other method carries none when it is the first request of
\* a call - a redirected one must not differ.
DefaultCtypeMethods == {"POST", "PUT", "PATCH"}
ReqDev(s0, e) ==
    LET rq == s0.sent[Len(s0.sent)]
    IN IF rq.body = "none" /\ e.body = "none" /\ e.ctype # "" /\ rq.method \notin DefaultCtypeMethods
       THEN "EntityHeadersOnBodylessHop" ELSE ""

RefHist(s0) ==
    [i \in 1..Len(s0.history) |->
        [status |-> s0.history[i].status, o |-> s0.history[i].url.o,
         dir |-> s0.history[i].url.dir, leaf |-> s0.history[i].url.leaf]]

SelfListed(s0, e) ==      \* reference history followed by the returned response itself
    /\ e.selfInHist
    /\ Len(e.hist) = Len(s0.history) + 1
    /\ SubSeq(e.hist, 1, Len(s0.history)) = RefHist(s0)

EndClause(q, s0, sn, e) ==
    IF e.outcome = "hang" THEN "Terminates"
    ELSE IF s0.phase = "wait"
         THEN (IF sn = Len(s0.sent) THEN "HarnessOrder"
               ELSE IF e.outcome = "TooManyRedirects" THEN "EarlyTooManyRedirects" ELSE "StoppedEarly")
    ELSE IF e.outcome \notin s0.outcomes THEN (IF e.outcome = "ok" THEN "RefusalMissing" ELSE "OutcomeMismatch")
    ELSE IF e.outcome = "ok" /\ e.status # s0.final THEN "FinalStatus"
    ELSE IF e.outcome = "ok" /\ e.hist # RefHist(s0) /\ ~SelfListed(s0, e) THEN "HistoryOrdered"
    ELSE IF e.acquired # 0 THEN "ConnectionLeak"
    ELSE IF e.histOpen # 0 THEN "IntermediateNotReleased"
    ELSE ""

EndDev(s0, e) ==
    IF s0.phase = "done" /\ e.outcome = "ok" /\ e.hist # RefHist(s0) /\ SelfListed(s0, e)
    THEN "FinalInOwnHistory" ELSE ""

\* one event -> [s, seen, bad, dev]
Step(q, s0, sn, e) ==
    CASE e.ev = "req" ->
            IF s0.phase = "done" \/ sn = Len(s0.sent)
            THEN [s |-> s0, seen |-> sn, dev |-> "",
                  bad |-> IF Len(s0.sent) >= q.maxRedirects THEN "RequestBound"
                          ELSE IF s0.phase = "done" THEN "UnexpectedRequest" ELSE "HarnessOrder"]
            ELSE [s |-> s0, seen |-> Len(s0.sent), bad |-> ReqClause(q, s0, e), dev |-> ReqDev(s0, e)]
      [] e.ev = "resp" ->
            IF s0.phase # "wait" \/ sn # Len(s0.sent)
            THEN [s |-> s0, seen |-> sn, bad |-> "HarnessOrder", dev |-> ""]
            ELSE [s |-> Respond(q, s0, e), seen |-> sn, bad |-> "", dev |-> ""]
      [] e.ev = "end" ->
            [s |-> s0, seen |-> sn, bad |-> EndClause(q, s0, sn, e), dev |-> EndDev(s0, e)]
      [] OTHER -> [s |-> s0, seen |-> sn, bad |-> "HarnessOrder", dev |-> ""]

TInit ==
    /\ tid \in 1..NTraces
    /\ l = 0
    /\ s = Start(Scn(Cfg(tid)))
    /\ seen = 0
    /\ bad = ""
    /\ devs = <<>>
    /\ Verdict(tid, 0, "", <<>>)

TNext ==
    /\ bad = ""
    /\ l < NEvents(tid)
    /\ LET q == Scn(Cfg(tid))
           r == Step(q, s, seen, Events(tid)[l + 1])
           d2 == IF r.dev # "" /\ Len(devs) < 4 THEN Append(devs, <<l + 1, r.dev>>) ELSE devs
           l2 == IF r.bad = "" THEN l + 1 ELSE l
           \* a trace that is otherwise accepted but used a named deviation is reported under
           \* the name of that deviation (and nothing else)
           clause == IF r.bad # "" THEN r.bad
                     ELSE IF l2 = NEvents(tid) /\ d2 # <<>> THEN d2[1][2] ELSE ""
       IN /\ s' = r.s /\ seen' = r.seen /\ bad' = r.bad /\ devs' = d2 /\ l' = l2
          /\ UNCHANGED tid
          /\ Verdict(tid, l2, clause, d2)

TSpec == TInit /\ [][TNext]_tvars

\* the reference's own invariants along every real execution
TInvNoCredentialOffOrigin == NoCredentialOffOrigin(Scn(Cfg(tid)), s)
TInvCredentialKept == CredentialKept(Scn(Cfg(tid)), s)
=============================================================================
