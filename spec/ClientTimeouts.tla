---------------------------- MODULE ClientTimeouts ----------------------------
(* C18 - timeouts and cancellation are bounded and leave no residue.

   Implementation-shaped model of one ClientSession request ("v", the victim) with
   total / connect / sock_connect / sock_read timeouts and one request without
   timeouts ("b", the bystander; Bys = {"b", "c"} adds a second one, so that a DNS lookup can
   have an initiator and two joiners) sharing the connector pool (Limit 1, 2 or 3) and the
   DNS key, under virtual time.  One action (Run) pops one handle of asyncio's
   FIFO ready queue; a task step is the code between two awaits:

     client.py      ClientSession._request: TimeoutHandle.start(), `with timer:`,
                    _connect_and_send_request, handle.cancel()
     connector.py   BaseConnector.connect (ceil_timeout(connect), waiters, placeholder),
                    TCPConnector._resolve_host (throttle set + shielded resolver task "r"),
                    _wrap_create_connection (ceil_timeout(sock_connect)),
                    loop.create_connection (await waiter: pc ConnMade)
     client_reqrep  ClientRequest._send / writer task "w" (_write_bytes: await _continue,
                    drain() blocked by pause_writing, write_eof, start_timeout),
                    ClientResponse.start (`with self._timer: await protocol.read()`),
                    read() -> StreamReader._wait (`with self._timer`), close()/release
     client_proto   sock_read timer: _reschedule_timeout on data_received, _drop_timeout on
                    pause / EOF / close, re-armed by resume_reading
     helpers.py     TimerContext.timeout() / __exit__ (uncancel), ceil rounding

   Time unit: half a second (so that ceiling to the next whole second is visible);
   Offset is the clock value at which the execution starts.

   Environment (peer, resolver, network, caller), enabled only at a loop-iteration
   boundary (the ready queue was empty, then stimuli may accumulate):
     Start, DnsDone, SockDone, PauseNext/ResumeWriting, Deliver(part), Tick;
   CallerCancel (Task.cancel() of the victim) is enabled between any two handles.
   A stall is the environment not performing the next stimulus of a phase.

   Mechanism switches (TRUE = the code as it is):
     ShieldDns       the owner's wait on the shared lookup is asyncio.shield()ed
     CloseOnFail     a failed exchange closes its connection (resp.close / conn.close)
     CancelWriter    _cleanup_writer() cancels the writer task
     RearmOnResume   resume_reading() re-arms the sock_read timer
     Handoff         a woken pool waiter that leaves by exception passes the wake-up on
     TimerCoversBody StreamReader._wait runs inside `with timer`
     NestedUncancel  every nested TimerContext.__exit__ level calls task.uncancel()
                     (as coded; FALSE = repaired: the timer's own cancel request is
                      balanced once - see proposed_fixes/C18-nested-timer-uncancel.diff)
     JoinerOwnFuture every request joining an in-flight DNS lookup parks on its own future
     ArmOnEarlyData  response bytes arriving before the request was written arm the sock_read timer
     RearmChecksEof  FALSE = as coded: resume_reading() re-arms the sock_read timer even when
                     resuming the parser just completed the payload and released the
                     connection to the pool; TRUE = repaired
                     (proposed_fixes/C18-read-timer-rearmed-after-eof.diff)

   Scripted = TRUE restricts the environment to the scenario `scn` chosen in Init
   (stall point x which timeout is configured x cancel at the n-th step of the victim,
   before or after its wake-up was scheduled x start order): every such behaviour is a
   behaviour of the free model with that one timeout configured; the driver replays them. *)
EXTENDS Naturals, Sequences, FiniteSets, TLC

CONSTANTS Limit, TOtotal, TOconnect, TOsockc, TOread, Thr, Offset, Horizon,
          Body, Expect100, AllowCancel, AllowPause, MaxPartial, BigChunk,
          ShieldDns, CloseOnFail, CancelWriter, RearmOnResume, Handoff,
          TimerCoversBody, NestedUncancel, RearmChecksEof, JoinerOwnFuture,
          Bys, EarlyResponse, ArmOnEarlyData,
          Scripted, StallsTotal, StallsConnect, StallsSockc, StallsRead, MaxCancelAt, Orders

\* ClientTimeout.__post_init__ raises `total` to the largest specific timeout (CHANGES/7274.feature)
ASSUME Scripted \/ TOtotal = 0 \/ (TOtotal >= TOconnect /\ TOtotal >= TOsockc /\ TOtotal >= TOread)

VARIABLES s, scn

Reqs == {"v"} \cup Bys          \* Bys: the bystanders, {"b"} or {"b", "c"}
TasksAll == Reqs \cup {"w", "r"}
BySeq == IF "c" \in Bys THEN <<"b", "c">> ELSE <<"b">>
T(t) == <<"task", t>>
Ph(q) == <<"ph", q>>
Co(c) == <<"co", c>>
ConnectPhases == {"PoolWait", "DnsOwn", "DnsWait", "SockConnect", "ConnMade"}
PreConn == {"new", "start", "PoolWait", "DnsOwn", "DnsWait", "SockConnect"}
Range(f) == {f[i] : i \in DOMAIN f}

Ceil2(t) == IF t % 2 = 0 THEN t ELSE t + 1
WhenGE(x, d) == IF d >= Thr THEN Ceil2(x.now + d) ELSE x.now + d    \* TimeoutHandle.start
WhenGT(x, d) == IF d > Thr THEN Ceil2(x.now + d) ELSE x.now + d     \* ceil_timeout
Deadline(ref, d) == IF d >= Thr THEN Ceil2(ref + d) ELSE ref + d    \* documented bound
Dec(c) == IF c > 0 THEN c - 1 ELSE 0

Init0 ==
    [now |-> Offset, ready |-> <<>>, boundary |-> TRUE,
     pc |-> [t \in TasksAll |-> IF t \in Reqs THEN "new" ELSE "none"],
     fut |-> [t \in TasksAll |-> "none"],
     mustCancel |-> [t \in TasksAll |-> FALSE],
     cancelling |-> [t \in TasksAll |-> 0],
     timers |-> {}, tmFired |-> FALSE, ctxExp |-> [connect |-> FALSE, sockc |-> FALSE],
     acquired |-> {}, idle |-> <<>>, waiters |-> <<>>,
     conn |-> [q \in Reqs |-> "none"], dirty |-> [q \in Reqs |-> FALSE],
     holds |-> [q \in Reqs |-> "none"], sock |-> [q \in Reqs |-> FALSE],
     dnsCached |-> FALSE, throttle |-> {}, rOwner |-> "none", shieldOn |-> FALSE,
     wpaused |-> FALSE, pauseNext |-> FALSE,
     written |-> [q \in Reqs |-> FALSE], rsp |-> [q \in Reqs |-> "none"],
     mq |-> [q \in Reqs |-> <<>>], buf |-> [q \in Reqs |-> FALSE], eof |-> [q \in Reqs |-> FALSE],
     rexc |-> FALSE, rdPaused |-> FALSE, tailEof |-> FALSE, vconn |-> "none", contSent |-> FALSE, dataSent |-> FALSE, nPartial |-> 0,
     outcome |-> [q \in Reqs |-> "none"], endAt |-> [q \in Reqs |-> 0], startAt |-> [q \in Reqs |-> 0],
     cancelReq |-> FALSE, sockRef |-> 0, readRef |-> 0, anyData |-> FALSE, faultConn |-> "none",
     fired |-> {}, vsteps |-> 0]

StallKinds ==     \* scripted mode: which timeout is configured x where the environment stalls
    {<<st, "total">> : st \in StallsTotal} \cup {<<st, "connect">> : st \in StallsConnect}
    \cup {<<st, "sockc">> : st \in StallsSockc} \cup {<<st, "read">> : st \in StallsRead}

Scenarios ==
    IF Scripted
    THEN {[stall |-> sk[1], kind |-> sk[2], cancelAt |-> ca, woken |-> wk, order |-> od] :
             sk \in StallKinds, ca \in 0..MaxCancelAt, wk \in BOOLEAN, od \in Orders}
         \cup {[stall |-> sk[1], kind |-> sk[2], cancelAt |-> 99, woken |-> FALSE, order |-> od] :
                  sk \in StallKinds, od \in Orders}
    ELSE {[stall |-> "free", kind |-> "cfg", cancelAt |-> 99, woken |-> FALSE, order |-> "free"]}

\* the delays in force: all configured ones (kind "cfg") or only the scenario's kind
TT == IF scn.kind \in {"cfg", "total"} THEN TOtotal ELSE 0
TC == IF scn.kind \in {"cfg", "connect"} THEN TOconnect ELSE 0
TS == IF scn.kind \in {"cfg", "sockc"} THEN TOsockc ELSE 0
TR == IF scn.kind \in {"cfg", "read"} THEN TOread ELSE 0

Init == s = Init0 /\ scn \in Scenarios

(* ------------------------------------------------------------------------- *)
(* asyncio fragment                                                            *)
Live(x, t) == x.pc[t] \notin {"new", "none", "done", "cancelled"}

AddTimer(x, k, at) == [x EXCEPT !.timers = {tm \in @ : tm.k # k} \cup {[k |-> k, at |-> at]}]
DropTimer(x, k) == [x EXCEPT !.timers = {tm \in @ : tm.k # k}]

\* Task.cancel(): cancel the awaited future if it is pending, else remember (_must_cancel)
CancelPlain(x, t) ==
    IF ~Live(x, t) THEN x
    ELSE LET x1 == [x EXCEPT !.cancelling[t] = @ + 1] IN
         IF x.fut[t] = "pending"
         THEN [x1 EXCEPT !.fut[t] = "cancelled", !.ready = Append(@, T(t))]
         ELSE [x1 EXCEPT !.mustCancel[t] = TRUE]

RECURSIVE CancelJoiners(_, _)
CancelJoiners(x, qs) ==       \* mutant JoinerOwnFuture = FALSE: the joiners of a lookup share one future
    IF qs = {} THEN x
    ELSE LET q == CHOOSE y \in qs : TRUE
         IN CancelJoiners(IF x.fut[q] = "pending"
                          THEN [x EXCEPT !.fut[q] = "cancelled", !.ready = Append(@, T(q))] ELSE x, qs \ {q})

CancelTask(x, t) ==
    LET x0 == CancelPlain(x, t)
        x1 == IF ~JoinerOwnFuture /\ Live(x, t) /\ x.fut[t] = "pending" /\ x.pc[t] = "DnsWait"
              THEN CancelJoiners(x0, x.throttle \ {t}) ELSE x0
    IN
    IF Live(x, t) /\ x.fut[t] = "pending" /\ x.pc[t] = "DnsOwn"
    THEN \* the outer future of shield() is cancelled; its done-callback detaches from the inner task
         IF ShieldDns THEN [x1 EXCEPT !.shieldOn = FALSE]
         ELSE CancelPlain([x1 EXCEPT !.shieldOn = FALSE], "r")     \* mutant: cancel reaches the lookup
    ELSE x1

How(x, t) == IF x.mustCancel[t] \/ x.fut[t] = "cancelled" THEN "cancel"
             ELSE IF x.fut[t] = "exc" THEN "exc" ELSE "ok"

(* ------------------------------------------------------------------------- *)
(* pool (one connection key)                                                   *)
Avail(x) == Limit - Cardinality(x.acquired)

RECURSIVE DropDone(_, _)
DropDone(q, f) == IF q # <<>> /\ f[Head(q)] # "pending" THEN DropDone(Tail(q), f) ELSE q

ReleaseWaiter(x) ==           \* _release_waiter()
    IF Avail(x) < 1 THEN x
    ELSE LET w == DropDone(x.waiters, x.fut) IN
         IF w = <<>> THEN [x EXCEPT !.waiters = <<>>]
         ELSE [x EXCEPT !.waiters = Tail(w), !.fut[Head(w)] = "done", !.ready = Append(@, T(Head(w)))]

ReleaseAcquired(x, h) == ReleaseWaiter([x EXCEPT !.acquired = @ \ {h}])

(* ------------------------------------------------------------------------- *)
(* sock_read timer (client_proto.py)                                           *)
Resched(x, q) ==              \* _reschedule_timeout(): plain call_later, no ceiling
    IF q = "v" /\ TR > 0
    THEN [AddTimer(x, "read", x.now + TR) EXCEPT !.readRef = x.now]
    ELSE x
DropRead(x, q) == IF q = "v" THEN DropTimer(x, "read") ELSE x
\* data_received(): bytes of the victim's response arrive (ghost: readRef / anyData) and push the
\* sock_read deadline back; mutant ArmOnEarlyData = FALSE: only once the request was written
DataArrived(x, q) ==
    IF q # "v" THEN x
    ELSE LET x1 == [x EXCEPT !.readRef = x.now, !.anyData = TRUE] IN
         IF TR > 0 /\ (ArmOnEarlyData \/ x.written["v"]) THEN AddTimer(x1, "read", x.now + TR) ELSE x1

(* ------------------------------------------------------------------------- *)
(* leaving a request by an exception                                           *)
\* asyncio.Timeout.__aexit__ of an expired context
AioExit(st, expired) ==
    IF ~expired THEN st
    ELSE LET c2 == Dec(st.c) IN [c |-> c2, e |-> IF st.e = "C" /\ c2 <= 0 THEN "T" ELSE st.e]
\* helpers.TimerContext.__exit__
TimerExit(x, st, first) ==
    IF st.e # "C" \/ ~x.tmFired THEN st
    ELSE IF NestedUncancel \/ first
         THEN LET c2 == Dec(st.c) IN [c |-> c2, e |-> IF c2 > 0 THEN "C" ELSE "T"]
         ELSE [c |-> st.c, e |-> IF st.c > 0 THEN "C" ELSE "T"]

Classify(x, q, p, cause) ==   \* "cancelled" | "timeout"
    IF q # "v" THEN (IF cause = "cancel" THEN "cancelled" ELSE "timeout")
    ELSE LET st0 == [c |-> x.cancelling["v"], e |-> IF cause = "cancel" THEN "C" ELSE "T"]
             st1 == IF p \in {"SockConnect", "ConnMade"} THEN AioExit(st0, x.ctxExp.sockc) ELSE st0
             st2 == IF p \in ConnectPhases THEN AioExit(st1, x.ctxExp.connect) ELSE st1
             st3 == IF p = "AwaitHeaders" THEN TimerExit(x, st2, TRUE) ELSE st2
             st4 == IF p = "AwaitHeaders" THEN TimerExit(x, st3, FALSE)
                    ELSE IF p = "BodyRead" /\ ~TimerCoversBody THEN st3
                    ELSE TimerExit(x, st3, TRUE)
         IN IF st4.e = "C" THEN "cancelled" ELSE "timeout"

Finish(x, q, out) ==
    LET x1 == [x EXCEPT !.pc[q] = "done", !.fut[q] = "none", !.mustCancel[q] = FALSE,
                        !.outcome[q] = out, !.endAt[q] = x.now]
    IN IF q = "v" /\ out # "ok"   \* ctx.__aexit__ cancels its handle; `except BaseException: handle.cancel()`
       THEN [x1 EXCEPT !.timers = {tm \in @ : tm.k = "read"}]
       ELSE x1

\* resp.close() / conn.close(): cancel the writer, close (not reuse) the connection
CloseExchange(x, q) ==
    LET c == x.holds[q]
        x1 == IF q = "v" /\ CancelWriter /\ x.pc["w"] \in {"cont100", "drain"} THEN CancelTask(x, "w") ELSE x
    IN IF c = "none" THEN x1
       ELSE IF CloseOnFail
            THEN DropRead(ReleaseAcquired([x1 EXCEPT !.conn[c] = "closed", !.holds[q] = "none",
                                                      !.faultConn = IF q = "v" THEN c ELSE @], Co(c)), q)
            ELSE ReleaseAcquired([x1 EXCEPT !.idle = Append(@, c), !.holds[q] = "none", !.dirty[c] = TRUE,
                                            !.faultConn = IF q = "v" THEN c ELSE @], Co(c))

Abort(x, q, p, cause) == Finish(x, q, Classify(x, q, p, cause))

(* ------------------------------------------------------------------------- *)
(* connect path                                                                *)
WriterDone(x) ==              \* write_eof(); protocol.start_timeout()
    Resched([x EXCEPT !.pc["w"] = "done", !.fut["w"] = "none", !.written["v"] = TRUE], "v")

Send(x, q) ==                 \* set_response_params, req._send(conn), resp.start(conn)
    LET x0 == [x EXCEPT !.pc[q] = "AwaitHeaders", !.fut[q] = "pending",
                        !.vconn = IF q = "v" THEN x.holds["v"] ELSE @] IN
    IF q # "v"            \* start_timeout() with read_timeout None cancels a handle left on the protocol
    THEN LET x1 == [x0 EXCEPT !.written[q] = TRUE] IN
         IF x.holds[q] = x.vconn THEN DropTimer(x1, "read") ELSE x1
    ELSE IF ~(Body # "none" \/ Expect100 \/ x.wpaused)
         THEN Resched([x0 EXCEPT !.written["v"] = TRUE], "v")            \* start_timeout(); set_eof()
         ELSE IF Expect100                                                 \* eager writer task
              THEN [x0 EXCEPT !.pc["w"] = "cont100", !.fut["w"] = "pending"]
              ELSE IF Body = "block" /\ x.wpaused
                   THEN [x0 EXCEPT !.pc["w"] = "drain", !.fut["w"] = "pending"]
                   ELSE WriterDone(x0)

SockStart(x, q) ==            \* _wrap_create_connection: ceil_timeout(sock_connect); loop.sock_connect
    LET x1 == IF q = "v" /\ TS > 0 THEN AddTimer(x, "sockc", WhenGT(x, TS)) ELSE x
    IN [x1 EXCEPT !.sock[q] = TRUE, !.fut[q] = "pending", !.pc[q] = "SockConnect",
                  !.sockRef = IF q = "v" THEN x.now ELSE @]

Resolve(x, q) ==              \* _resolve_host()
    IF x.dnsCached THEN SockStart(x, q)
    ELSE IF x.pc["r"] = "resolving"
         THEN [x EXCEPT !.throttle = @ \cup {q}, !.fut[q] = "pending", !.pc[q] = "DnsWait"]
         ELSE [x EXCEPT !.rOwner = q, !.pc["r"] = "resolving", !.fut["r"] = "pending", !.shieldOn = TRUE,
                        !.mustCancel["r"] = FALSE, !.fut[q] = "pending", !.pc[q] = "DnsOwn"]

Reserve(x, q) == Resolve([x EXCEPT !.acquired = @ \cup {Ph(q)}], q)

TakeIdle(x, q) ==
    LET c == Head(x.idle)
    IN Send([x EXCEPT !.idle = Tail(@), !.acquired = @ \cup {Co(c)}, !.holds[q] = c], q)

Connect(x, q) ==              \* BaseConnector.connect()
    IF x.idle # <<>> THEN TakeIdle(x, q)
    ELSE LET x1 == IF q = "v" /\ TC > 0 THEN AddTimer(x, "connect", WhenGT(x, TC)) ELSE x IN
         IF Avail(x1) <= 0
         THEN [x1 EXCEPT !.waiters = Append(@, q), !.fut[q] = "pending", !.pc[q] = "PoolWait"]
         ELSE Reserve(x1, q)

ExitCtx(x, q) == IF q = "v" THEN DropTimer(DropTimer(x, "connect"), "sockc") ELSE x

(* ------------------------------------------------------------------------- *)
(* response side                                                               *)
DropTotal(x, q) == IF q = "v" THEN DropTimer(x, "total") ELSE x

ReleaseClean(x, q) ==         \* _response_eof -> Connection.release(): back to the pool; handle.cancel
    LET c == x.holds[q] IN
    IF c = "none" THEN x
    ELSE DropTotal(ReleaseAcquired([x EXCEPT !.idle = Append(@, c), !.holds[q] = "none"], Co(c)), q)

Consume(x, q) ==              \* readany(): take the buffer; resume_reading() below the low-water mark
    LET x1 == [x EXCEPT !.buf[q] = FALSE] IN
    IF q = "v" /\ x.rdPaused
    THEN \* ResponseHandler.resume_reading(): BaseProtocol.resume_reading() first parses what the
         \* paused parser left over (data_received(b"")) - possibly up to EOF, which releases the
         \* connection - and only then the sock_read timer is re-armed
         LET x2 == [x1 EXCEPT !.rdPaused = FALSE, !.readRef = x.now]
             x3 == IF x.tailEof
                   THEN LET y == DropRead([x2 EXCEPT !.tailEof = FALSE, !.eof[q] = TRUE, !.buf[q] = TRUE], q)
                        IN IF y.pc[q] = "BodyRead" THEN ReleaseClean(y, q) ELSE y
                   ELSE x2
         IN IF RearmOnResume /\ TR > 0 /\ (RearmChecksEof => ~x3.eof[q])
            THEN AddTimer(x3, "read", x.now + TR) ELSE x3
    ELSE x1

BodyLoop(x, q) ==             \* ClientResponse.read() -> StreamReader.read(): loop of readany()
    LET x1 == IF x.buf[q] THEN Consume(x, q) ELSE x IN
    IF q = "v" /\ x1.rexc THEN Abort(CloseExchange(x1, q), q, "BodyRead", "exc")
    ELSE IF x1.eof[q] THEN Finish(ReleaseClean(x1, q), q, "ok")
    ELSE IF q = "v" /\ x1.tmFired THEN Abort(CloseExchange(x1, q), q, "BodyRead", "exc")  \* __enter__ raises
    ELSE [x1 EXCEPT !.pc[q] = "BodyRead", !.fut[q] = "pending"]

RECURSIVE HeadersLoop(_, _)
HeadersLoop(x, q) ==          \* ClientResponse.start(): while True: await protocol.read()
    IF x.mq[q] = <<>>
    THEN IF q = "v" /\ x.rexc THEN Abort(CloseExchange(x, q), q, "AwaitHeaders", "exc")
         ELSE [x EXCEPT !.fut[q] = "pending"]
    ELSE LET m == Head(x.mq[q])
             x1 == [x EXCEPT !.mq[q] = Tail(@)]
         IN IF m = "cont"
            THEN LET x2 == IF x1.pc["w"] = "cont100" /\ x1.fut["w"] = "pending"
                           THEN [x1 EXCEPT !.fut["w"] = "done", !.ready = Append(@, T("w"))] ELSE x1
                 IN HeadersLoop(x2, q)
            ELSE \* final response head: leave `with timer`; on_eof; _request returns; r.read()
                 IF x1.eof[q] THEN BodyLoop(ReleaseClean(x1, q), q)
                 ELSE BodyLoop([x1 EXCEPT !.pc[q] = "BodyRead"], q)

(* ------------------------------------------------------------------------- *)
(* one step of a request task                                                  *)
StepReq(x0, q) ==
    LET how == How(x0, q)
        p == x0.pc[q]
        x == [x0 EXCEPT !.mustCancel[q] = FALSE,
                        !.vsteps = IF q = "v" THEN @ + 1 ELSE @]
    IN
    CASE p = "start" ->
           IF how = "cancel" THEN Finish(x, q, "cancelled")
           ELSE LET x1 == x
                    x2 == IF q = "v" /\ TT > 0 THEN AddTimer(x1, "total", WhenGE(x1, TT)) ELSE x1
                IN Connect(x2, q)
      [] p = "PoolWait" ->
           IF how = "cancel"
           THEN LET x1 == [x EXCEPT !.waiters = SelectSeq(@, LAMBDA y : y # q)]
                    x2 == IF Handoff /\ x.fut[q] = "done" THEN ReleaseWaiter(x1) ELSE x1
                IN Abort(x2, q, p, "cancel")
           ELSE IF Avail(x) > 0
                THEN IF x.idle # <<>> THEN ExitCtx(TakeIdle(x, q), q) ELSE Reserve(x, q)
                ELSE [x EXCEPT !.waiters = <<q>> \o @, !.fut[q] = "pending"]
      [] p = "DnsOwn" ->
           IF how = "cancel"
           THEN Abort(ReleaseAcquired([x EXCEPT !.shieldOn = FALSE], Ph(q)), q, p, "cancel")
           ELSE SockStart(x, q)
      [] p = "DnsWait" ->
           IF how = "cancel"
           THEN Abort(ReleaseAcquired([x EXCEPT !.throttle = @ \ {q}], Ph(q)), q, p, "cancel")
           ELSE SockStart([x EXCEPT !.throttle = @ \ {q}], q)
      [] p = "SockConnect" ->
           IF how = "cancel"
           THEN Abort(ReleaseAcquired([x EXCEPT !.sock[q] = FALSE], Ph(q)), q, p, "cancel")
           ELSE \* loop.create_connection(sock=sock): transport made, await waiter
                [x EXCEPT !.sock[q] = FALSE, !.conn[q] = "open", !.fut[q] = "pending", !.pc[q] = "ConnMade",
                          !.wpaused = IF q = "v" THEN x.pauseNext ELSE @,
                          !.ready = Append(@, <<"made", q>>)]
      [] p = "ConnMade" ->
           IF how = "cancel"
           THEN Abort(ReleaseAcquired([x EXCEPT !.conn[q] = "closed",
                                                !.faultConn = IF q = "v" THEN q ELSE @], Ph(q)), q, p, "cancel")
           ELSE Send(ExitCtx([x EXCEPT !.acquired = (@ \ {Ph(q)}) \cup {Co(q)}, !.holds[q] = q], q), q)
      [] p = "AwaitHeaders" ->
           IF how = "ok" THEN HeadersLoop(x, q)
           ELSE Abort(CloseExchange(x, q), q, p, how)
      [] p = "BodyRead" ->
           IF how = "ok" THEN BodyLoop(x, q)
           ELSE Abort(CloseExchange(x, q), q, p, how)
      [] OTHER -> x

StepWriter(x0) ==
    LET how == How(x0, "w")
        x == [x0 EXCEPT !.mustCancel["w"] = FALSE]
    IN IF how = "cancel" THEN [x EXCEPT !.pc["w"] = "cancelled", !.fut["w"] = "none"]
       ELSE IF x.pc["w"] = "cont100"
            THEN IF Body = "block" /\ x.wpaused THEN [x EXCEPT !.pc["w"] = "drain", !.fut["w"] = "pending"]
                 ELSE WriterDone(x)
            ELSE IF x.pc["w"] = "drain" THEN WriterDone(x) ELSE x

RECURSIVE WakeAll(_, _, _)
WakeAll(x, qs, st) ==
    IF qs = {} THEN x
    ELSE LET q == CHOOSE y \in qs : TRUE
         IN WakeAll(IF x.fut[q] = "pending"
                    THEN [x EXCEPT !.fut[q] = st, !.ready = Append(@, T(q))] ELSE x, qs \ {q}, st)

StepResolver(x0) ==           \* _resolve_host_with_throttle after `await resolver.resolve()`
    LET how == How(x0, "r")
        x == [x0 EXCEPT !.mustCancel["r"] = FALSE, !.pc["r"] = "done", !.fut["r"] = "none"]
        x1 == IF how = "cancel"
              THEN WakeAll(x, x.throttle, "cancelled")      \* set_exception(fut, CancelledError)
              ELSE WakeAll([x EXCEPT !.dnsCached = TRUE], x.throttle, "done")
    IN [x1 EXCEPT !.throttle = {}, !.ready = Append(@, <<"shield">>)]

Dispatch(x, e) ==
    CASE e[1] = "task" ->
           (IF e[2] \in Reqs THEN (IF Live(x, e[2]) THEN StepReq(x, e[2]) ELSE x)
            ELSE IF e[2] = "w" THEN (IF Live(x, "w") THEN StepWriter(x) ELSE x)
            ELSE IF x.pc["r"] = "resolving" THEN StepResolver(x) ELSE x)
      [] e[1] = "made" ->
           IF x.fut[e[2]] = "pending" /\ x.pc[e[2]] = "ConnMade"
           THEN [x EXCEPT !.fut[e[2]] = "done", !.ready = Append(@, T(e[2]))] ELSE x
      [] e[1] = "shield" ->      \* shield's _inner_done_callback
           IF x.shieldOn /\ x.rOwner \in Reqs /\ x.pc[x.rOwner] = "DnsOwn" /\ x.fut[x.rOwner] = "pending"
           THEN [x EXCEPT !.fut[x.rOwner] = "done", !.ready = Append(@, T(x.rOwner)), !.shieldOn = FALSE]
           ELSE [x EXCEPT !.shieldOn = FALSE]
      [] e[1] = "tmr" /\ e[2] = "total" ->     \* TimeoutHandle.__call__ -> TimerContext.timeout()
           LET x1 == [x EXCEPT !.tmFired = TRUE, !.fired = @ \cup {"total"}] IN
           IF Live(x, "v") /\ (TimerCoversBody \/ x.pc["v"] # "BodyRead") THEN CancelTask(x1, "v") ELSE x1
      [] e[1] = "tmr" /\ e[2] \in {"connect", "sockc"} ->    \* asyncio.Timeout._on_timeout
           IF Live(x, "v")
           THEN CancelTask([x EXCEPT !.ctxExp[e[2]] = TRUE, !.fired = @ \cup {e[2]}], "v") ELSE x
      [] e[1] = "tmr" /\ e[2] = "read" ->      \* ResponseHandler._on_read_timeout
           LET x1 == [x EXCEPT !.rexc = TRUE, !.fired = @ \cup {"read"}] IN
           IF x.pc["v"] \in {"AwaitHeaders", "BodyRead"} /\ x.fut["v"] = "pending"
           THEN [x1 EXCEPT !.fut["v"] = "exc", !.ready = Append(@, T("v"))]
           ELSE IF x.pc["v"] = "done" /\ x.vconn # "none"
                THEN [x1 EXCEPT !.dirty[x.vconn] = TRUE]      \* set_exception on a pooled protocol
                ELSE x1
      [] OTHER -> x

(* ------------------------------------------------------------------------- *)
(* the scripted environment                                                    *)
VDone(x) == x.pc["v"] = "done"
StartSeq == IF scn.order = "vb" THEN <<"v">> \o BySeq ELSE <<"b", "v">> \o Tail(BySeq)
First == StartSeq[1]
NextNew(x) == LET is == {i \in 1..Len(StartSeq) : x.pc[StartSeq[i]] = "new"}
              IN IF is = {} THEN "" ELSE StartSeq[CHOOSE i \in is : \A j \in is : i <= j]
ByWith(x, P(_)) == LET is == {i \in 1..Len(BySeq) : P(BySeq[i])}
                   IN IF is = {} THEN "" ELSE BySeq[CHOOSE i \in is : \A j \in is : i <= j]
SockPending(x, q) == x.pc[q] = "SockConnect" /\ x.fut[q] = "pending"
HasConn(x, q) == x.holds[q] # "none" /\ x.pc[q] \in {"AwaitHeaders", "BodyRead"}
               /\ x.conn[x.holds[q]] = "open"

\* the victim's peer answers once the request was written - or, EarlyResponse, while the upload is
\* still blocked in drain() (early response)
Sent(x) == x.written["v"] \/ (EarlyResponse /\ x.pc["w"] = "drain" /\ x.fut["w"] = "pending")

CanDeliver(x, q, part) ==
    /\ HasConn(x, q)
    /\ CASE part = "cont" -> q = "v" /\ Expect100 /\ ~x.contSent /\ x.rsp[q] = "none" /\ x.pc["w"] = "cont100"
         [] part = "partial" -> q = "v" /\ Sent(x) /\ x.rsp[q] = "none" /\ x.nPartial < MaxPartial
         [] part = "head" -> Sent(x) /\ x.rsp[q] = "none" /\ q = "v"
         [] part = "qpart" -> q = "v" /\ x.rsp[q] = "head" /\ x.nPartial < MaxPartial /\ ~x.rdPaused
         [] part = "data" -> q = "v" /\ x.rsp[q] = "head" /\ ~x.dataSent /\ ~x.rdPaused
         [] part = "rest" -> q = "v" /\ x.rsp[q] = "head" /\ ~x.rdPaused /\ x.written[q]   \* the end only after the upload
         [] part = "all" -> x.written[q] /\ x.rsp[q] = "none"
         [] OTHER -> FALSE

VScript(x) ==      \* the next delivery the scenario's peer makes to the victim ("" = stalls)
    LET st == scn.stall IN
    IF st \in {"partial", "none", "wresume", "earlyp"} /\ CanDeliver(x, "v", "partial") /\ x.nPartial = 0 THEN "partial"
    ELSE IF st \in {"body", "qpart", "data", "none", "wresume", "earlyh"} /\ CanDeliver(x, "v", "head") THEN "head"
    ELSE IF st = "qpart" /\ CanDeliver(x, "v", "qpart") /\ x.nPartial = 0 THEN "qpart"
    ELSE IF st \in {"data", "none", "wresume"} /\ CanDeliver(x, "v", "data") THEN "data"
    ELSE IF st \in {"none", "wresume"} /\ x.dataSent /\ CanDeliver(x, "v", "rest") THEN "rest"
    ELSE ""

Due(x) ==
    IF x.pc[First] = "new" THEN <<"Start", First>>
    ELSE IF NextNew(x) # "" /\ (scn.order # "hold" \/ HasConn(x, First))
         THEN <<"Start", NextNew(x)>>
    ELSE IF scn.stall \in {"write", "wresume", "earlyp", "earlyh"} /\ AllowPause /\ ~x.pauseNext /\ x.pc["v"] \in PreConn /\ x.pc["v"] # "new"
         THEN <<"PauseNext">>
    ELSE IF x.pc["r"] = "resolving" /\ x.fut["r"] = "pending" /\ (scn.stall # "dns" \/ VDone(x))
         THEN <<"DnsDone">>
    ELSE IF ByWith(x, LAMBDA q : SockPending(x, q)) # "" THEN <<"SockDone", ByWith(x, LAMBDA q : SockPending(x, q))>>
    ELSE IF SockPending(x, "v") /\ scn.stall # "sock" THEN <<"SockDone", "v">>
    ELSE IF x.wpaused /\ x.pc["w"] = "drain" /\ scn.stall = "wresume" THEN <<"ResumeWriting">>
    ELSE IF CanDeliver(x, "v", "cont") /\ scn.stall # "cont" THEN <<"Deliver", "v", "cont">>
    ELSE IF VScript(x) # "" THEN <<"Deliver", "v", VScript(x)>>
    ELSE IF ByWith(x, LAMBDA q : CanDeliver(x, q, "all")) # "" /\ (scn.stall # "pool" \/ VDone(x))
         THEN <<"Deliver", ByWith(x, LAMBDA q : CanDeliver(x, q, "all")), "all">>
    ELSE IF x.now < Horizon THEN <<"Tick">> ELSE <<"Nothing">>

CancelDue(x) ==
    /\ Scripted /\ AllowCancel /\ scn.cancelAt < 99 /\ ~x.cancelReq
    /\ x.vsteps = scn.cancelAt /\ Live(x, "v")
    /\ IF scn.woken THEN T("v") \in Range(x.ready) ELSE (x.boundary /\ x.ready = <<>>)

Env(a) == s.boundary /\ (Scripted => (~CancelDue(s) /\ Due(s) = a))

(* ------------------------------------------------------------------------- *)
(* actions                                                                     *)
Start(q) ==
    /\ Env(<<"Start", q>>) /\ s.pc[q] = "new"
    /\ s' = [s EXCEPT !.pc[q] = "start", !.ready = Append(@, T(q)), !.startAt[q] = s.now]
    /\ UNCHANGED scn

DnsDone ==
    /\ Env(<<"DnsDone">>) /\ s.pc["r"] = "resolving" /\ s.fut["r"] = "pending"
    /\ s' = [s EXCEPT !.fut["r"] = "done", !.ready = Append(@, T("r"))]
    /\ UNCHANGED scn

SockDone(q) ==
    /\ Env(<<"SockDone", q>>) /\ SockPending(s, q)
    /\ s' = [s EXCEPT !.fut[q] = "done", !.ready = Append(@, T(q))]
    /\ UNCHANGED scn

PauseNext ==                  \* the peer will not read: the transport pauses the protocol's writing
    /\ Env(<<"PauseNext">>) /\ AllowPause /\ ~s.pauseNext /\ s.pc["v"] \in PreConn /\ s.pc["v"] # "new"
    /\ s' = [s EXCEPT !.pauseNext = TRUE]
    /\ UNCHANGED scn

ResumeWriting ==
    /\ Env(<<"ResumeWriting">>) /\ s.wpaused /\ s.holds["v"] # "none"
    /\ s' = IF s.pc["w"] = "drain" /\ s.fut["w"] = "pending"
            THEN [s EXCEPT !.wpaused = FALSE, !.fut["w"] = "done", !.ready = Append(@, T("w"))]
            ELSE [s EXCEPT !.wpaused = FALSE]
    /\ UNCHANGED scn

WakeReader(x, q, p) ==
    IF x.pc[q] = p /\ x.fut[q] = "pending" THEN [x EXCEPT !.fut[q] = "done", !.ready = Append(@, T(q))] ELSE x

Deliver(q, part) ==           \* ResponseHandler.data_received
    /\ Env(<<"Deliver", q, part>>) /\ CanDeliver(s, q, part)
    /\ LET x == DataArrived(s, q) IN
       s' = CASE part = "partial" -> [x EXCEPT !.nPartial = @ + 1]
              [] part = "qpart" -> [x EXCEPT !.nPartial = @ + 1]
              [] part = "cont" ->    \* an interim response has the empty payload: the timer is dropped again
                   WakeReader([DropRead(x, q) EXCEPT !.contSent = TRUE, !.anyData = s.anyData,
                                                     !.mq[q] = Append(@, "cont")], q, "AwaitHeaders")
              [] part = "head" -> WakeReader([x EXCEPT !.rsp[q] = "head", !.mq[q] = Append(@, "head")], q, "AwaitHeaders")
              [] part = "data" ->
                   LET x1 == [x EXCEPT !.dataSent = TRUE, !.buf[q] = TRUE] IN
                   WakeReader(IF BigChunk THEN DropRead([x1 EXCEPT !.rdPaused = TRUE], q) ELSE x1, q, "BodyRead")
              [] part \in {"rest", "all"} /\ q = "v" /\ BigChunk /\ ~x.dataSent ->
                   \* the segment carries the big chunk and the end of the body: the reader's buffer
                   \* passes the high-water mark, reading and the parser pause (timer dropped), the
                   \* tail (with EOF) is parsed when reading resumes
                   LET x1 == DropRead([x EXCEPT !.rsp[q] = "eof", !.buf[q] = TRUE, !.dataSent = TRUE,
                                                 !.rdPaused = TRUE, !.tailEof = TRUE,
                                                 !.mq[q] = IF part = "all" THEN Append(@, "head") ELSE @], q)
                   IN WakeReader(x1, q, IF part = "all" THEN "AwaitHeaders" ELSE "BodyRead")
              [] part = "rest" ->     \* feed_eof: on_eof callbacks: _drop_timeout, _response_eof
                   \* StreamReader.feed_eof wakes the reader first, then runs the on_eof callbacks
                   LET x1 == DropRead([x EXCEPT !.rsp[q] = "eof", !.eof[q] = TRUE, !.buf[q] = TRUE], q)
                       x2 == WakeReader(x1, q, "BodyRead")
                   IN IF x2.pc[q] = "BodyRead" THEN ReleaseClean(x2, q) ELSE x2
              [] part = "all" ->
                   WakeReader(DropRead([x EXCEPT !.rsp[q] = "eof", !.eof[q] = TRUE, !.buf[q] = TRUE,
                                                 !.mq[q] = Append(@, "head")], q), q, "AwaitHeaders")
    /\ UNCHANGED scn

Min(S) == CHOOSE m \in S : \A y \in S : m <= y

Tick ==
    /\ Env(<<"Tick">>) /\ s.now < Horizon /\ s.ready = <<>>     \* time passes only while the loop is idle
    /\ LET nxt == Min({tm.at : tm \in s.timers} \cup {Horizon})
           due == {tm \in s.timers : tm.at <= nxt}
           n == Cardinality(due)
       IN \E f \in [1..n -> due] :
            /\ \A i, j \in 1..n : i # j => f[i] # f[j]
            /\ \A i, j \in 1..n : i < j => f[i].at <= f[j].at
            /\ s' = [s EXCEPT !.now = nxt, !.timers = @ \ due, !.boundary = (n = 0),
                              !.ready = @ \o [i \in 1..n |-> <<"tmr", f[i].k>>]]
    /\ UNCHANGED scn

CallerCancel ==
    /\ AllowCancel /\ ~s.cancelReq /\ Live(s, "v")
    /\ Scripted => CancelDue(s)
    /\ s' = [CancelTask(s, "v") EXCEPT !.cancelReq = TRUE]
    /\ UNCHANGED scn

Run ==
    /\ s.ready # <<>>
    /\ Scripted => ~(CancelDue(s) /\ scn.woken)
    /\ LET y == Dispatch([s EXCEPT !.ready = Tail(@)], Head(s.ready))
       IN s' = [y EXCEPT !.boundary = (y.ready = <<>>)]
    /\ UNCHANGED scn

Parts == {"partial", "cont", "head", "qpart", "data", "rest", "all"}

Next ==
    \/ Run
    \/ CallerCancel
    \/ \E q \in Reqs : Start(q) \/ SockDone(q)
    \/ DnsDone \/ PauseNext \/ ResumeWriting \/ Tick
    \/ \E q \in Reqs, p \in Parts : Deliver(q, p)

vars == <<s, scn>>
Spec == Init /\ [][Next]_vars

(* ------------------------------------------------------------------------- *)
(* properties                                                                  *)
VPending == s.pc["v"] \notin {"new", "done"}

\* Bounded: while timeout K applies, virtual time never passes start_K + d + Rounding(d)
BoundedTotal == (TT > 0 /\ VPending) => s.now <= Deadline(s.startAt["v"], TT)
BoundedConnect == (TC > 0 /\ s.pc["v"] \in ConnectPhases) => s.now <= Deadline(s.startAt["v"], TC)
BoundedSockConnect == (TS > 0 /\ s.pc["v"] \in {"SockConnect", "ConnMade"}) => s.now <= Deadline(s.sockRef, TS)
BoundedSockRead ==
    (TR > 0 /\ s.pc["v"] \in {"AwaitHeaders", "BodyRead"} /\ (s.written["v"] \/ s.anyData) /\ ~s.rdPaused)
        => s.now <= Deadline(s.readRef, TR)
Bounded == BoundedTotal /\ BoundedConnect /\ BoundedSockConnect /\ BoundedSockRead

\* a timeout-class error only after a configured timer fired, and never early
TimeoutClass == (s.outcome["v"] = "timeout") => s.fired # {}

\* CancelPropagates: a caller cancel ends in CancelledError and only a caller cancel does
CancelPropagates ==
    /\ (s.outcome["v"] = "cancelled") => s.cancelReq
    /\ (s.cancelReq /\ s.pc["v"] = "done") => s.outcome["v"] = "cancelled"
\* the same without the named deviation (total timer + caller cancel while awaiting headers)
CancelPropagatesButNested ==
    /\ (s.outcome["v"] = "cancelled") => s.cancelReq
    /\ (s.cancelReq /\ s.pc["v"] = "done" /\ ~(s.tmFired /\ s.outcome["v"] = "timeout"))
          => s.outcome["v"] = "cancelled"

\* NoResidue: at the first loop-idle state after the victim ended
NoResidue ==
    (s.pc["v"] = "done" /\ s.ready = <<>>) =>
        /\ s.timers = {}                                   \* no pending timer of the victim
        /\ s.pc["w"] \in {"none", "done", "cancelled"}     \* writer task finished
        /\ "v" \notin s.throttle                           \* no DNS waiter of the victim
        /\ "v" \notin Range(s.waiters)
        /\ Ph("v") \notin s.acquired /\ s.holds["v"] = "none" /\ ~s.sock["v"]
        /\ (s.outcome["v"] # "ok" /\ s.faultConn # "none") =>
               (s.conn[s.faultConn] = "closed" /\ s.faultConn \notin Range(s.idle)
                /\ Co(s.faultConn) \notin s.acquired)

\* the same without the named deviation (sock_read timer left armed on the pooled connection)
NoResidueButRearm ==
    (s.pc["v"] = "done" /\ s.ready = <<>>) =>
        /\ {tm \in s.timers : ~(tm.k = "read" /\ s.outcome["v"] = "ok")} = {}
        /\ s.pc["w"] \in {"none", "done", "cancelled"}
        /\ "v" \notin s.throttle
        /\ "v" \notin Range(s.waiters)
        /\ Ph("v") \notin s.acquired /\ s.holds["v"] = "none" /\ ~s.sock["v"]
        /\ (s.outcome["v"] # "ok" /\ s.faultConn # "none") =>
               (s.conn[s.faultConn] = "closed" /\ s.faultConn \notin Range(s.idle)
                /\ Co(s.faultConn) \notin s.acquired)

\* BystanderUnharmed: never cancelled / failed, and not left waiting for a slot that is free
BystanderUnharmed ==
    \A b \in Bys :
        /\ s.outcome[b] \in {"none", "ok"}
        /\ (s.ready = <<>> /\ s.pc[b] = "PoolWait" /\ s.fut[b] = "pending") => Avail(s) <= 0
        /\ (s.ready = <<>> /\ s.pc[b] = "DnsWait" /\ s.fut[b] = "pending") => s.pc["r"] = "resolving"
        /\ (s.ready = <<>> /\ s.pc[b] = "DnsOwn" /\ s.fut[b] = "pending") => s.pc["r"] = "resolving"

\* SessionUsable: when both are over, a follow-up finds every slot free and only clean connections
SessionUsable ==
    ((\A q \in Reqs : s.pc[q] = "done") /\ s.ready = <<>>) =>
        /\ s.acquired = {} /\ s.waiters = <<>>
        /\ \A i \in 1..Len(s.idle) : s.conn[s.idle[i]] = "open" /\ ~s.dirty[s.idle[i]]

Accounting ==
    s.acquired = {Ph(q) : q \in {y \in Reqs : s.pc[y] \in {"DnsOwn", "DnsWait", "SockConnect", "ConnMade"}}}
                 \cup {Co(s.holds[q]) : q \in {y \in Reqs : s.holds[y] # "none"}}
=============================================================================
