SPECIFICATION TSpec
INVARIANT TInvNoExpired
INVARIANT TInvNoIP
POSTCONDITION PrintVerdicts
CHECK_DEADLOCK FALSE
