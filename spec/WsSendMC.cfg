SPECIFICATION Spec
CONSTANTS
  Senders = {"a", "b", "c"}
  Prog <- ProgDef
  ProgSel = "mix3"
  Compress = TRUE
  Takeover = TRUE
  MaxCancel = 2
  OverrideFix = TRUE
  CloseLatch = TRUE
  UseShield = TRUE
  SmallTakesLock = TRUE
  OvrTakesLock = TRUE
  Mask = TRUE
  MaskCopies = TRUE
INVARIANT WireOrderIsCtxOrder
INVARIANT NoCtxAdvanceWithoutFrame
INVARIANT DecodeOK
INVARIANT PerSenderOrder
INVARIANT ExactlyOnce
INVARIANT ControlNeverCompressed
INVARIANT NothingAfterClose
INVARIANT NoDataAfterCloseOnWire
INVARIANT PayloadIntact
INVARIANT CallerBufferIntact
INVARIANT LockSafety
INVARIANT NoLostWakeup
CHECK_DEADLOCK FALSE
