------------------------------ MODULE Multipart ------------------------------
(* C19 - multipart codec: round trip, truthful size, reader termination.

   Reference machine in "acceptor" style for aiohttp/multipart.py (MultipartWriter,
   MultipartReader, BodyPartReader), formdata.py (FormData) and web_request.py
   (BaseRequest.post).  Three layers:

   (i)  the BOUNDARY SCANNER.  RFC 2046 5.1.1:
            body      = preamble --B CRLF part *( CRLF--B CRLF part ) CRLF--B-- epilogue
            part      = *( header CRLF ) CRLF content
        The content of a part ends at the first  CRLF--B  that is followed by CRLF or
        by "--".  The scanner exists twice:
          * Parse      - the declarative definition (global "first occurrence"),
                         evaluated in one step; this is the oracle of trace validation;
          * ScFeed/Run - the operational byte-level machine that sees the input in
                         arbitrary segments and keeps only a sliding window of the last
                         |CRLF--B| + 1 bytes (st, buf, parts, cur content).  MultipartMC
                         checks that it computes Parse for every cut (WindowSufficient).
        Nesting depth <= MaxDepth (= 2).  A part of a non-form-data body that carries a
        numeric Content-Length > 0 is read by length (that is what the aiohttp
        writer/reader pair agree on, multipart.py BodyPartReader.__init__/read_chunk).

   (ii) the WRITER MODEL: part list -> bytes, the `size` rule of MultipartWriter.size.
        Transfer encodings (base64, quoted-printable, gzip, deflate) are uninterpreted
        but invertible transducers: a part carries `content` (what the user gave) and
        `wire` = Enc(content) (supplied by the harness, computed with the stdlib);
        the only axiom is Dec(Enc(x)) = x, i.e. decoding an unmodified wire yields content.

   (iii) OBSERVATION CLAUSES for termination and limits (MultipartTrace uses them):
        StepBound, EmptyChunk, limits enforced before the excess is buffered.

   Bytes are naturals 0..255.  To keep 8 KiB / 256 KiB bodies small, a sequence may also
   hold RUN items  256 + v + 256*n  = n copies of byte v (n >= 1), where v is never a byte
   that matters to the scanner (CR, LF, '-', ':', SP, HT, '"', ';', '=', bytes of a
   boundary); the harness produces the canonical encoding (maximal runs of length >= 8).
*)
EXTENDS Naturals, Integers, Sequences, FiniteSets, TLC

CR == 13
LF == 10
DASH == 45
CRLF == <<13, 10>>
CRLFCRLF == <<13, 10, 13, 10>>
DD == <<45, 45>>
MaxDepth == 2

HContentType == <<99, 111, 110, 116, 101, 110, 116, 45, 116, 121, 112, 101>>
HContentLength == <<99, 111, 110, 116, 101, 110, 116, 45, 108, 101, 110, 103, 116, 104>>
SMultipart == <<109, 117, 108, 116, 105, 112, 97, 114, 116, 47>>          \* "multipart/"
SBoundaryEq == <<98, 111, 117, 110, 100, 97, 114, 121, 61>>              \* "boundary="
SFormData == <<102, 111, 114, 109, 45, 100, 97, 116, 97>>                \* "form-data"
Absent == <<-1>>

Min(a, b) == IF a < b THEN a ELSE b
Max(a, b) == IF a > b THEN a ELSE b
Take(q, k) == SubSeq(q, 1, k)
Drop(q, k) == SubSeq(q, k + 1, Len(q))
KeepTail(q, k) == IF Len(q) <= k THEN q ELSE SubSeq(q, Len(q) - k + 1, Len(q))

(* ---- run items ----------------------------------------------------------- *)
IsRun(x) == x >= 256
RunLen(x) == (x - 256) \div 256
RunByte(x) == (x - 256) % 256
RunIdx(s) == {i \in 1..Len(s) : s[i] >= 256}
FSE == INSTANCE FiniteSetsExt      \* FoldSet is evaluated iteratively (no recursion over the input)
SumRuns(s, R) == FSE!FoldSet(LAMBDA i, acc : acc + RunLen(s[i]) - 1, 0, R)
BLen(s) == Len(s) + SumRuns(s, RunIdx(s))            \* length in bytes
BOff(s, i) == BLen(SubSeq(s, 1, i - 1))               \* byte offset of item i (0-based)

(* ---- searching without recursion over the input --------------------------- *)
First(a, b, P(_)) ==          \* least i in a..b with P(i), 0 if none
    IF \E i \in a..b : P(i) THEN CHOOSE i \in a..b : P(i) /\ \A j \in a..(i - 1) : ~P(j) ELSE 0
LastIdx(a, b, P(_)) ==        \* greatest i in a..b with P(i), 0 if none
    IF \E i \in a..b : P(i) THEN CHOOSE i \in a..b : P(i) /\ \A j \in (i + 1)..b : ~P(j) ELSE 0

MatchAt(s, i, p) == /\ i >= 1
                    /\ i + Len(p) - 1 <= Len(s)
                    /\ \A k \in 1..Len(p) : s[i + k - 1] = p[k]

Delim(B) == CRLF \o DD \o B          \* B = boundary parameter value (without the dashes)

\* RFC 2046: delimiter = CRLF "--" boundary; it closes the part if "--" follows, opens the
\* next one if CRLF follows; anything else is not a delimiter (content goes on).
DelimKind(s, i, D) ==
    IF ~MatchAt(s, i, D) THEN "no"
    ELSE IF MatchAt(s, i + Len(D), CRLF) THEN "next"
    ELSE IF MatchAt(s, i + Len(D), DD) THEN "close"
    ELSE "no"

FirstDelim(s, from, D) ==
    First(Max(from, 1), Len(s), LAMBDA i : s[i] = CR /\ DelimKind(s, i, D) # "no")

(* ---- header block --------------------------------------------------------- *)
Lower(s) == [i \in 1..Len(s) |-> IF s[i] >= 65 /\ s[i] <= 90 THEN s[i] + 32 ELSE s[i]]
IsWs(x) == x = 32 \/ x = 9
Strip(l) == LET a == First(1, Len(l), LAMBDA i : ~IsWs(l[i]))
            IN IF a = 0 THEN <<>> ELSE SubSeq(l, a, LastIdx(1, Len(l), LAMBDA i : ~IsWs(l[i])))

RECURSIVE SplitCRLF(_, _)
SplitCRLF(t, from) ==
    LET e == First(from, Len(t) - 1, LAMBDA i : t[i] = CR /\ t[i + 1] = LF)
    IN IF e = 0 THEN <<SubSeq(t, from, Len(t))>>
       ELSE <<SubSeq(t, from, e - 1)>> \o SplitCRLF(t, e + 2)

HdrLineOk(l) == First(1, Len(l), LAMBDA i : l[i] = 58) > 1
HdrOfLine(l) == LET ci == First(1, Len(l), LAMBDA i : l[i] = 58)
                IN <<Lower(SubSeq(l, 1, ci - 1)), Strip(SubSeq(l, ci + 1, Len(l)))>>

\* t = the header lines without the final CRLF (empty sequence: no header)
ParseHdrs(t) ==
    IF t = <<>> THEN [ok |-> TRUE, hdrs |-> <<>>, lines |-> <<>>]
    ELSE LET ls == SplitCRLF(t, 1)
         IN [ok |-> \A k \in 1..Len(ls) : HdrLineOk(ls[k]),
             hdrs |-> [k \in 1..Len(ls) |-> IF HdrLineOk(ls[k]) THEN HdrOfLine(ls[k]) ELSE <<ls[k], <<>>>>],
             lines |-> ls]

HGet(hdrs, name) == LET k == First(1, Len(hdrs), LAMBDA i : hdrs[i][1] = name)
                    IN IF k = 0 THEN Absent ELSE hdrs[k][2]

IsDigits(v) == Len(v) >= 1 /\ \A i \in 1..Len(v) : v[i] >= 48 /\ v[i] <= 57
RECURSIVE ToNat(_, _)
ToNat(v, acc) == IF v = <<>> THEN acc
                 ELSE IF acc > 100000000 THEN 2000000000          \* saturate (32-bit ints)
                 ELSE ToNat(Tail(v), acc * 10 + (Head(v) - 48))

IsMultiCT(ct) == ct # Absent /\ MatchAt(Lower(ct), 1, SMultipart)
\* subtype of multipart/<subtype>; ...
SubtypeOf(ct) == LET lc == Lower(ct)
                     e == First(11, Len(lc), LAMBDA i : lc[i] = 59 \/ IsWs(lc[i]))
                 IN IF e = 0 THEN SubSeq(lc, 11, Len(lc)) ELSE SubSeq(lc, 11, e - 1)
\* boundary parameter: token or quoted-string (no escapes inside: the harness never needs them)
BoundaryOf(ct) ==
    LET lc == Lower(ct)
        k == First(1, Len(lc), LAMBDA i : MatchAt(lc, i, SBoundaryEq))
    IN IF k = 0 THEN Absent
       ELSE LET r == SubSeq(ct, k + 9, Len(ct))
            IN IF r # <<>> /\ r[1] = 34
               THEN LET q == First(2, Len(r), LAMBDA i : r[i] = 34)
                    IN IF q = 0 THEN Absent ELSE SubSeq(r, 2, q - 1)
               ELSE LET e == First(1, Len(r), LAMBDA i : r[i] = 59 \/ IsWs(r[i]))
                    IN IF e = 0 THEN r ELSE SubSeq(r, 1, e - 1)

Leaf == [ok |-> TRUE, err |-> "leaf", parts |-> <<>>]

(* What the reader does with a header block (shared by Parse and the operational scanner):
   mode "multi" (nested multipart, boundary ib), "len" (read n bytes), "scan", or "bad". *)
PartMode(hdrs, useLen, depth) ==
    LET ct == HGet(hdrs, HContentType)
        cl == HGet(hdrs, HContentLength)
    IN IF IsMultiCT(ct) /\ depth < MaxDepth
       THEN (IF BoundaryOf(ct) = Absent \/ BoundaryOf(ct) = <<>>
             THEN [m |-> "bad", n |-> 0, ib |-> <<>>, iul |-> FALSE]
             ELSE [m |-> "multi", n |-> 0, ib |-> BoundaryOf(ct), iul |-> SubtypeOf(ct) # SFormData])
       ELSE IF useLen /\ cl # Absent
       THEN (IF ~IsDigits(cl) THEN [m |-> "bad", n |-> 0, ib |-> <<>>, iul |-> FALSE]
             ELSE IF ToNat(cl, 0) > 0 THEN [m |-> "len", n |-> ToNat(cl, 0), ib |-> <<>>, iul |-> FALSE]
             ELSE [m |-> "scan", n |-> 0, ib |-> <<>>, iul |-> FALSE])
       ELSE [m |-> "scan", n |-> 0, ib |-> <<>>, iul |-> FALSE]

(* ========================================================================== *)
(* (i-a) Declarative reference: Parse(s, B, useLen, depth).                     *)
(* s is the input prefixed with a virtual CRLF (so the first "--B" at offset 0  *)
(* is a delimiter like every other).  Result [ok, err, parts, epi].             *)
RECURSIVE Parse(_, _, _, _)
RECURSIVE ParseParts(_, _, _, _, _, _)

ParseParts(s, h, B, useLen, depth, acc) ==     \* h: first item of the header block
    LET D == Delim(B)
        empty == MatchAt(s, h, CRLF)
        e == IF empty THEN 0 ELSE First(h, Len(s) - 3, LAMBDA i : s[i] = CR /\ MatchAt(s, i, CRLFCRLF))
        Fail(why) == [ok |-> FALSE, err |-> why, parts |-> acc, epi |-> 0]
    IN IF ~empty /\ e = 0 THEN Fail("HeadersUnterminated")
       ELSE
       LET ph == IF empty THEN ParseHdrs(<<>>) ELSE ParseHdrs(SubSeq(s, h, e - 1))
           c == IF empty THEN h + 2 ELSE e + 4               \* first content item
           pm == PartMode(ph.hdrs, useLen, depth)
       IN IF ~ph.ok THEN Fail("BadHeader")
          ELSE IF pm.m = "bad" THEN Fail("BadPartHeader")
          ELSE
          LET d == IF pm.m = "len"
                   THEN First(c, Len(s), LAMBDA j : s[j] = CR /\ DelimKind(s, j, D) # "no"
                                                  /\ BLen(SubSeq(s, c, j - 1)) = pm.n)
                   ELSE FirstDelim(s, c - 2, D)    \* the CRLF ending the headers may open the delimiter
          IN IF d = 0 THEN Fail(IF pm.m = "len" THEN "LengthMismatch" ELSE "NoClosingDelimiter")
             ELSE
             LET content == SubSeq(s, c, d - 1)
                 sub == IF pm.m = "multi" THEN Parse(CRLF \o content, pm.ib, pm.iul, depth + 1) ELSE Leaf
                 part == [hdrs |-> ph.hdrs, lines |-> ph.lines, content |-> content,
                          bylen |-> pm.m = "len", multi |-> pm.m = "multi", ib |-> pm.ib, sub |-> sub,
                          hs |-> h, cs |-> c, ce |-> d - 1]
             IN IF ~sub.ok THEN Fail("Inner" \o sub.err)
                ELSE IF DelimKind(s, d, D) = "close"
                THEN [ok |-> TRUE, err |-> "", parts |-> Append(acc, part), epi |-> d + Len(D) + 2]
                ELSE ParseParts(s, d + Len(D) + 2, B, useLen, depth, Append(acc, part))

Parse(s, B, useLen, depth) ==
    LET D == Delim(B)
        i == FirstDelim(s, 1, D)
    IN IF i = 0 THEN [ok |-> FALSE, err |-> "NoBoundary", parts |-> <<>>, epi |-> 0]
       ELSE IF DelimKind(s, i, D) = "close" THEN [ok |-> TRUE, err |-> "", parts |-> <<>>, epi |-> i + Len(D) + 2]
       ELSE ParseParts(s, i + Len(D) + 2, B, useLen, depth, <<>>)

ParseBody(body, B, useLen) == Parse(CRLF \o body, B, useLen, 1)

\* projection on what an observer compares: headers, content, structure
RECURSIVE Proj(_)
Proj(r) == [ok |-> r.ok,
            parts |-> IF r.ok THEN [k \in 1..Len(r.parts) |->
                                      [hdrs |-> r.parts[k].hdrs, content |-> r.parts[k].content,
                                       bylen |-> r.parts[k].bylen, multi |-> r.parts[k].multi,
                                       sub |-> IF r.parts[k].multi THEN Proj(r.parts[k].sub) ELSE <<>>]]
                      ELSE <<>>]

(* Composer obligation (RFC 2046 5.1.1: "lines in a body-part must not start with the
   dash-boundary"): the round trip is claimed only for contents that honour it, or that
   are read by length.  Line starts: offset 0 (a CRLF precedes the content) and after LF
   (BodyPartReader.readline splits at LF).  strict = the API ignores Content-Length.    *)
LineStartHit(c, P) == \E i \in 1..Len(c) : c[i] = DASH /\ (i = 1 \/ c[i - 1] = LF) /\ MatchAt(c, i, P)
CleanLeaf(c, B) == ~LineStartHit(c, DD \o B)
RECURSIVE CleanParts(_, _, _)
CleanParts(parts, B, strict) ==
    \A k \in 1..Len(parts) :
        LET p == parts[k] IN
        IF p.multi THEN CleanLeaf(p.content, B) /\ CleanParts(p.sub.parts, p.ib, strict)
        ELSE (p.bylen /\ ~strict) \/ CleanLeaf(p.content, B)

(* ========================================================================== *)
(* (i-b) Operational scanner: input arrives in segments; only a window is kept. *)
HoldOf(B) == Len(B) + 5        \* |CRLF--B| + 1: a delimiter whose 2-byte suffix is still incomplete
NoSc == [st |-> "None"]

ScInit(B, useLen, depth, delta) ==
    [st |-> "Pre", B |-> B, useLen |-> useLen, depth |-> depth, delta |-> delta,
     buf |-> CRLF, virt |-> 2, hdrs |-> <<>>, content |-> <<>>, remain |-> 0,
     multi |-> FALSE, ib |-> <<>>, inner |-> NoSc, parts |-> <<>>, err |-> "",
     fed |-> 0, nfeeds |-> 0, work |-> 0]

RECURSIVE ScFeed(_, _)
RECURSIVE Run(_)
RECURSIVE ScResult(_)

ScEof(sc) == IF sc.st = "Epi" THEN [sc EXCEPT !.st = "Done"]
             ELSE IF sc.st \in {"Err", "Done"} THEN sc
             ELSE [sc EXCEPT !.st = "Err", !.err = "Truncated"]

ScResult(sc) == [ok |-> sc.st = "Done",
                 parts |-> IF sc.st = "Done" THEN sc.parts ELSE <<>>]

Emit(sc, bytes) ==       \* content bytes released by the window
    [sc EXCEPT !.content = @ \o bytes,
               !.inner = IF sc.inner.st = "None" \/ bytes = <<>> THEN sc.inner ELSE ScFeed(sc.inner, bytes)]

FinishPart(sc, bylen) ==
    LET sub == IF sc.inner.st = "None" THEN <<>> ELSE ScResult(ScEof(sc.inner))
        part == [hdrs |-> sc.hdrs, content |-> sc.content, bylen |-> bylen, multi |-> sc.multi, sub |-> sub]
    IN IF sc.multi /\ ~sub.ok THEN [sc EXCEPT !.st = "Err", !.err = "Inner"]
       ELSE [sc EXCEPT !.parts = Append(@, part), !.content = <<>>, !.hdrs = <<>>, !.inner = NoSc,
                       !.multi = FALSE]

AfterDelim(sc, kind, rest) ==
    [sc EXCEPT !.st = IF sc.st = "Err" THEN "Err" ELSE IF kind = "close" THEN "Epi" ELSE "Hdr",
               !.buf = rest, !.virt = 0]

StartBody(sc, ph, rest) ==
    IF ~ph.ok THEN [sc EXCEPT !.st = "Err", !.err = "BadHeader"]
    ELSE LET pm == PartMode(ph.hdrs, sc.useLen, sc.depth) IN
         IF pm.m = "bad" THEN [sc EXCEPT !.st = "Err", !.err = "BadPartHeader"]
         ELSE IF pm.m = "len"
         THEN [sc EXCEPT !.st = "Len", !.hdrs = ph.hdrs, !.remain = pm.n, !.buf = rest, !.virt = 0]
         ELSE [sc EXCEPT !.st = "Body", !.hdrs = ph.hdrs, !.buf = CRLF \o rest, !.virt = 2,
                         !.multi = pm.m = "multi", !.ib = pm.ib,
                         !.inner = IF pm.m = "multi" THEN ScInit(pm.ib, pm.iul, sc.depth + 1, sc.delta) ELSE NoSc]

Run(sc0) ==
    LET sc == [sc0 EXCEPT !.work = @ + 1]
        D == Delim(sc.B)
        buf == sc.buf
        n == Len(buf)
        hold == HoldOf(sc.B) - sc.delta
    IN CASE sc.st = "Pre" ->
              LET i == FirstDelim(buf, 1, D) IN
              IF i = 0 THEN [sc EXCEPT !.buf = KeepTail(buf, hold)]
              ELSE Run(AfterDelim(sc, DelimKind(buf, i, D), Drop(buf, i + Len(D) + 1)))
         [] sc.st = "Hdr" ->
              IF MatchAt(buf, 1, CRLF) THEN Run(StartBody(sc, ParseHdrs(<<>>), Drop(buf, 2)))
              ELSE LET e == First(1, n - 3, LAMBDA i : MatchAt(buf, i, CRLFCRLF)) IN
                   IF e = 0 THEN sc
                   ELSE Run(StartBody(sc, ParseHdrs(SubSeq(buf, 1, e - 1)), Drop(buf, e + 3)))
         [] sc.st = "Body" ->
              LET i == FirstDelim(buf, 1, D) IN
              IF i > 0
              THEN LET s1 == Emit(sc, SubSeq(buf, sc.virt + 1, i - 1))
                   IN Run(AfterDelim(FinishPart(s1, FALSE), DelimKind(buf, i, D), Drop(buf, i + Len(D) + 1)))
              ELSE LET k == n - hold IN
                   IF k <= 0 THEN sc
                   ELSE LET v == Min(sc.virt, k)
                        IN [Emit(sc, SubSeq(buf, v + 1, k)) EXCEPT !.buf = Drop(buf, k), !.virt = sc.virt - v]
         [] sc.st = "Len" ->
              LET k == Min(sc.remain, n)
                  s1 == [Emit(sc, Take(buf, k)) EXCEPT !.buf = Drop(buf, k), !.remain = sc.remain - k]
              IN IF s1.remain = 0 THEN Run([s1 EXCEPT !.st = "LenEnd"]) ELSE s1
         [] sc.st = "LenEnd" ->
              IF n < Len(D) + 2 THEN sc
              ELSE LET kind == DelimKind(buf, 1, D) IN
                   IF kind = "no" THEN [sc EXCEPT !.st = "Err", !.err = "LengthMismatch"]
                   ELSE Run(AfterDelim(FinishPart(sc, TRUE), kind, Drop(buf, Len(D) + 2)))
         [] sc.st = "Epi" -> [sc EXCEPT !.buf = <<>>]
         [] OTHER -> sc

ScFeed(sc, seg) == Run([sc EXCEPT !.buf = @ \o seg, !.fed = @ + Len(seg), !.nfeeds = @ + 1])

\* Terminates: the machine does a bounded amount of work per segment and per part
ScWorkBound(sc) == sc.work <= sc.nfeeds + 4 * (Len(sc.parts) + 2)
\* the window never holds more than the hold-back plus what is needed for one header block
ScWindowBound(sc) == sc.st \in {"Pre", "Body"} => Len(sc.buf) <= HoldOf(sc.B)

(* ========================================================================== *)
(* (ii) Writer model.                                                           *)
(* part spec: [hdrs |-> <<<<name, value>>, ...>>, wire |-> bytes, enc |-> BOOLEAN,
               inner |-> <<part specs>> or <<>>, ib |-> inner boundary]          *)
RECURSIVE Flatten(_)
Flatten(ss) == IF ss = <<>> THEN <<>> ELSE Head(ss) \o Flatten(Tail(ss))

HdrBlock(hdrs) == Flatten([k \in 1..Len(hdrs) |-> hdrs[k][1] \o <<58, 32>> \o hdrs[k][2] \o CRLF]) \o CRLF

\* MultipartWriter.write: b"--" + boundary + CRLF, part._binary_headers, payload, CRLF ... close
WritePartBytes(hdrs, wire, B) == DD \o B \o CRLF \o HdrBlock(hdrs) \o wire \o CRLF
CloseBytes(B) == DD \o B \o DD \o CRLF

\* MultipartWriter.size: sum(2 + len(boundary) + 2 + part.size + len(headers) + 2) + 2 + len(boundary) + 4;
\* None if a part is encoded or has no size.  withHdr = FALSE is the self-test mutant.
PartSize(hdrs, wirelen, B, withHdr) ==
    2 + Len(B) + 2 + wirelen + (IF withHdr THEN BLen(HdrBlock(hdrs)) ELSE 0) + 2
CloseSize(B) == 2 + Len(B) + 4

(* ========================================================================== *)
(* (iii) Observation clauses for termination and limits.                        *)
(* ops = number of awaits the reader performed on its content stream (each is a
   potential suspension point), len = bytes of input, parts = delimiters in the input. *)
StepA == 2
StepB == 20
StepC == 40
StepBoundOk(ops, len, nparts) == ops <= StepA * len + StepB * nparts + StepC
\* work = loop iterations (backward jumps) executed inside aiohttp/multipart.py
WorkA == 4
WorkB == 200
WorkC == 1000
(* Resource bound for one next() that only has to read a delimiter line and a header block
   (the previous part was consumed): whatever the input is - floods of fields, of continuation
   lines (SP / HTAB first), over-long lines, no terminating empty line - it awaits the stream at
   most max_headers + HdrOpsSlack times (one await per line: <= 3 for the delimiter and epilogue,
   max_headers + 1 header lines) and takes at most that many lines of max_field_size + 2 bytes,
   three delimiter / epilogue lines of at most the stream's line limit, plus one delivered segment (a line without LF is taken piece by piece). *)
HdrOpsSlack == 8
HeaderOpsBound(mh) == mh + HdrOpsSlack
\* cap = the stream's own line limit: delimiter / epilogue lines are read with it, not with max_field_size
HeaderBytesBound(mh, mfs, cap, seg) == (mh + 3) * (mfs + 2) + 3 * cap + seg
\* a reader that returned no data, did not reach the end of the part and did not raise
MaxEmptyArbitrary == 2        \* on malformed input: at most two empty reads before the error

\* percent-decoding (RFC 3986 2.1) for names / filenames delivered in percent-encoded form
HexVal(x) == IF x >= 48 /\ x <= 57 THEN x - 48
             ELSE IF x >= 65 /\ x <= 70 THEN x - 55
             ELSE IF x >= 97 /\ x <= 102 THEN x - 87 ELSE 99
RECURSIVE PctDecode(_)
PctDecode(s) ==
    IF s = <<>> THEN <<>>
    ELSE IF s[1] = 37 /\ Len(s) >= 3 /\ HexVal(s[2]) < 16 /\ HexVal(s[3]) < 16
    THEN <<16 * HexVal(s[2]) + HexVal(s[3])>> \o PctDecode(SubSeq(s, 4, Len(s)))
    ELSE <<s[1]>> \o PctDecode(Tail(s))
=============================================================================
