SPECIFICATION ClsSpec
CONSTANTS
  MaxLen1 = 4
POSTCONDITION PrintClasses
CHECK_DEADLOCK FALSE
