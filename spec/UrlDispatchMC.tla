---------------------------- MODULE UrlDispatchMC ----------------------------
(* Bounded model of the C14 reference: every route table of at most MaxEntries entries
   over the entry grammar below (registration order matters, so sequences), frozen, then
   every query (host, path, method) over the path grammar.  The result of the query is
   part of the state; the reference's own properties are invariants of the query states.

   Actions: AddRoute (entry of the application itself), AddSubApp (entry of a prefixed /
   domain sub-application: add_subapp / add_domain happen at the position of the
   sub-application's first entry), Freeze, Query.

   With EmitGrammar the module prints the grammar it enumerates (entries, valid tables as
   tuples of entry numbers, paths, methods) so that the driver replays exactly these
   (table, query) states into the real router without re-stating the grammar.            *)
EXTENDS UrlDispatch

CONSTANTS MaxEntries,      \* tables of 1..MaxEntries entries
          Rich,            \* TRUE: also {GET,POST} resources and the longer paths
          Core,            \* TRUE: the smaller entry grammar (for tables of 3 entries)
          EmitGrammar,     \* print the grammar (entries, valid tables, paths) at start-up
          GrammarOnly,     \* TRUE: print the grammar and explore nothing (the driver's generator run)
          Mutant           \* "" = the rule; "shortfirst" / "lastallowed": self-test mutants

VARIABLES table, frozen, q
vars == <<table, frozen, q>>

A == <<97>>
B == <<98>>
AB == <<97, 98>>
One == <<49>>
E == <<>>

RootTpls == {
    Tpl(<<>>, TRUE),                                 \* /
    Tpl(<<Lit(A)>>, FALSE),                          \* /a
    Tpl(<<Lit(A)>>, TRUE),                           \* /a/
    Tpl(<<Lit(A), Lit(B)>>, FALSE),                  \* /a/b
    Tpl(<<Lit(A), Lit(B)>>, TRUE),                   \* /a/b/
    Tpl(<<Var("x")>>, FALSE),                        \* /{x}
    Tpl(<<Var("x")>>, TRUE),                         \* /{x}/
    Tpl(<<Lit(A), Var("x")>>, FALSE),                \* /a/{x}
    Tpl(<<Var("x"), Lit(B)>>, FALSE),                \* /{x}/b
    Tpl(<<MidVar(A, "x")>>, FALSE),                  \* /a{x}
    Tpl(<<Lit(A), Var("x"), Lit(B)>>, FALSE),        \* /a/{x}/b
    Tpl(<<Lit(A), TailVar("t")>>, FALSE),            \* /a/{t:.*}
    Tpl(<<TailVar("t")>>, FALSE),                    \* /{t:.*}
    Tpl(<<Var("x"), Var("y")>>, FALSE),              \* /{x}/{y}
    Tpl(<<Lit(A), Num("n")>>, FALSE),                \* /a/{n:\d+}
    Tpl(<<Lit(A), MidVar(B, "x")>>, FALSE) }         \* /a/b{x}
StaticTpl == Tpl(<<Lit(A), StaticTail>>, FALSE)      \* add_static("/a", dir)

MethodSets == {{"GET"}, {"POST"}, {"*"}} \cup (IF Rich THEN {{"GET", "POST"}} ELSE {})
TwoMethods == {{"GET"}, {"POST"}}

S1 == << <<A>> >>                 \* add_subapp("/a", s1)
S2 == << <<A>>, <<B>> >>          \* s1.add_subapp("/b", s2): nested
S3 == << <<A, B>> >>              \* add_subapp("/a/b", s3)
S4 == << <<B>> >>                 \* add_subapp("/b", s4)
D1 == "d1.example"

S1Tpls == {Tpl(<<>>, TRUE), Tpl(<<Lit(B)>>, FALSE), Tpl(<<Lit(B)>>, TRUE),
           Tpl(<<Var("x")>>, FALSE), Tpl(<<TailVar("t")>>, FALSE)}

Ent(t, m, a, d) == [tpl |-> t, methods |-> m, app |-> a, domain |-> d]

CoreTpls == {
    Tpl(<<Lit(A)>>, FALSE), Tpl(<<Lit(A)>>, TRUE), Tpl(<<Lit(A), Lit(B)>>, FALSE),
    Tpl(<<Var("x")>>, FALSE), Tpl(<<Lit(A), Var("x")>>, FALSE), Tpl(<<Var("x"), Lit(B)>>, FALSE),
    Tpl(<<MidVar(A, "x")>>, FALSE), Tpl(<<Lit(A), TailVar("t")>>, FALSE), Tpl(<<Var("x"), Var("y")>>, FALSE)}
CoreEntries ==
    {Ent(t, m, <<>>, "") : t \in CoreTpls, m \in TwoMethods}
      \cup {Ent(StaticTpl, {"GET", "HEAD"}, <<>>, "")}
      \cup {Ent(t, m, S1, "") : t \in {Tpl(<<Lit(B)>>, FALSE), Tpl(<<Var("x")>>, FALSE)}, m \in TwoMethods}
      \cup {Ent(Tpl(<<Var("x")>>, FALSE), {"GET"}, S2, "")}
      \cup {Ent(Tpl(<<Lit(A)>>, FALSE), {"GET"}, <<>>, D1), Ent(Tpl(<<Var("x")>>, FALSE), {"POST"}, <<>>, D1)}

FullEntries ==
    {Ent(t, m, <<>>, "") : t \in RootTpls, m \in MethodSets}
      \cup {Ent(StaticTpl, {"GET", "HEAD"}, <<>>, "")}
      \cup {Ent(t, m, S1, "") : t \in S1Tpls, m \in MethodSets}
      \cup {Ent(t, m, S2, "") : t \in {Tpl(<<>>, TRUE), Tpl(<<Var("x")>>, FALSE)}, m \in TwoMethods}
      \cup {Ent(Tpl(<<Var("x")>>, FALSE), m, S3, "") : m \in TwoMethods}
      \cup {Ent(Tpl(<<Lit(A)>>, FALSE), m, S4, "") : m \in TwoMethods}
      \cup {Ent(t, m, <<>>, D1) : t \in {Tpl(<<Lit(A)>>, FALSE), Tpl(<<Var("x")>>, FALSE)}, m \in TwoMethods}
      \cup {Ent(Tpl(<<Lit(B)>>, FALSE), m, S1, D1) : m \in TwoMethods}

RECURSIVE SeqOfSet(_)
SeqOfSet(S) == IF S = {} THEN <<>> ELSE LET x == CHOOSE y \in S : TRUE IN <<x>> \o SeqOfSet(S \ {x})

Entries == IF Core THEN CoreEntries ELSE FullEntries
EntrySeq == SeqOfSet(Entries)
NEnt == Len(EntrySeq)

Segs3 == {A, B, E}
Paths ==
    {<<s>> : s \in Segs3} \cup {<<s, u>> : s, u \in Segs3} \cup {<<s, u, v>> : s, u, v \in Segs3}
      \cup {<<AB>>, <<AB, B>>, <<A, AB>>, <<A, One>>, <<A, AB, B>>, <<AB, E>>, <<B, A>>, <<A, B, A, B>>}
      \cup (IF Rich THEN {<<A, B, B, E>>, <<A, One, B>>, <<A, A, B, E>>, <<B, A, E>>, <<A, B, AB>>} ELSE {})
PathSeq == SeqOfSet(Paths)
Methods == {"GET", "POST", "PUT"}      \* PUT: served only by "*" resources
OtherHost == "other.example"
HostsFor(T) == {OtherHost} \cup ({T[i].domain : i \in DOMAIN T} \ {""})

TableOf(ids) == [j \in DOMAIN ids |-> EntrySeq[ids[j]]]
ValidIds == {ids \in UNION {[1..n -> 1..NEnt] : n \in 1..MaxEntries} : ValidTable(TableOf(ids))}

ASSUME EmitGrammar =>
    /\ PrintT(<<"VP", "G", "entries", EntrySeq>>)
    /\ PrintT(<<"VP", "G", "paths", PathSeq>>)
    /\ PrintT(<<"VP", "G", "methods", SeqOfSet(Methods)>>)
    /\ PrintT(<<"VP", "G", "tables", ValidIds>>)

NoQuery == [host |-> "", path |-> <<>>, method |-> "", res |-> NotFound]

Init == table = <<>> /\ frozen = FALSE /\ q = NoQuery

Add(e) ==
    /\ ~frozen /\ Len(table) < MaxEntries
    /\ ValidTable(Append(table, e))
    /\ table' = Append(table, e)
    /\ UNCHANGED <<frozen, q>>
AddRoute(e) == e.app = <<>> /\ e.domain = "" /\ Add(e)
AddSubApp(e) == (e.app # <<>> \/ e.domain # "") /\ Add(e)

Freeze == ~frozen /\ table # <<>> /\ frozen' = TRUE /\ UNCHANGED <<table, q>>

Query(h, p, m) ==
    /\ frozen /\ q = NoQuery
    /\ q' = [host |-> h, path |-> p, method |-> m, res |-> ResolveOpt([Ideal(DomainFirst) EXCEPT !.mut = Mutant], table, {h}, p, m)]
    /\ UNCHANGED <<table, frozen>>

Next == /\ ~GrammarOnly
        /\ \/ \E e \in Entries : AddRoute(e) \/ AddSubApp(e)
           \/ Freeze
           \/ \E h \in HostsFor(table), p \in Paths, m \in Methods : Query(h, p, m)

Spec == Init /\ [][Next]_vars

X == [T |-> table, host |-> q.host, path |-> q.path, method |-> q.method, res |-> q.res]
Asked == q # NoQuery

InvFixedBeatsVariable == Asked => FixedBeatsVariable(X)
InvLongestKeyFirst == Asked => LongestKeyFirst(X)
InvRegistrationOrder == Asked => RegistrationOrderAmongEqualKeys(X)
InvVars == Asked => VarsAreTemplateVars(X)
InvNotAllowedIsComplete == Asked => NotAllowedIsComplete(X)
InvDeterministic == Asked => Deterministic(X)
InvValid == ValidTable(table)
=============================================================================
