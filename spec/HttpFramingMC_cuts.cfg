SPECIFICATION Spec
CONSTANTS
  Mode = "request"
  Lax = FALSE
  MaxLine = 30
  MaxField = 28
  MaxHeaders = 6
  UntilEof = FALSE
  WithBody = TRUE
  LexIds = {3, 9, 11, 16, 18, 40, 69}
  CutMode = TRUE
  MaxLex = 4
  MaxMsgs = 2
  MaxLines = 3
  MaxChunks = 1
  MaxPending = 4
  Mutant = ""
INVARIANT InvPartition
INVARIANT InvNoBodyWithoutFraming
INVARIANT InvOverLimitRejects
INVARIANT InvPendingBound
INVARIANT InvUnambiguous
INVARIANT InvHost
INVARIANT InvCut
PROPERTY RejectIsFinal
VIEW View
CHECK_DEADLOCK FALSE
