-------------------------- MODULE AppLifecycleTrace --------------------------
(* C20 (A) - judge of event logs recorded from a real web.Application (+ add_subapp)
   driven through AppRunner or web.run_app with instrumented cleanup contexts and
   signal handlers.

   cfg   : tree, entry, failStart, failShut, failClean (lists of step names), siteFails, startKind, cleanKind
   events: [ev |-> kind, n |-> name, k |-> kind of exception for *_fail events: "exc" | "base"]
     user callbacks   enter_begin/enter_done/enter_fail c   exit_begin/exit_done/exit_fail c
                      call h / call_fail h                  (h = Xsu Xsh Xcl, X = R S U)
     API results      setup ok|raised   site ok|raised   running ""   cleanup_call ""
                      cleanup ok|raised   result ok|raised   end ""

   Property clauses (observables only):
     EnterTwice, ExitTwice, ExitWithoutCompletedEnter        exactly once / only if started
     ReverseOrder                                            per application
     ExactlyOnceIffStarted                                   at the end: a context whose start-up
                                                             completed was not exited (general form)
       RunAppStartupFailureSkipsCleanup                      ... named shapes of the same failure,
       SubAppContextNotExitedAfterFailedStartup                  one per deviation of AppLifecycle.tla
       ShutdownHandlerErrorSkipsCleanup
       CleanupErrorSkipsLaterExits
     ErrorsSurface                                           a raising step is reported to the caller
   Not a violation (reported in info[1]): CallerOmitsCleanupAfterFailedSetup.
   Refinement clause (info[2], drift only): the order of user callbacks equals the order
   predicted by AppLifecycle.tla run with the constants of the cfg file (the code as it is). *)
EXTENDS AppLifecycle, TraceBatch

VARIABLES tid, l, m, bad
tvars == <<tid, l, m, bad, s>>

ToSet(q) == {q[i] : i \in 1..Len(q)}
Callback == {"enter_begin", "enter_done", "enter_fail", "exit_begin", "exit_done", "exit_fail", "call", "call_fail"}

\* failed = every step that raised; soft = those that raised a BaseException that is not an Exception
M0 == [entered |-> <<>>, exited |-> <<>>, begun |-> {}, failed |-> {}, soft |-> {}, setupRes |-> "none",
       cleanupRes |-> "none", result |-> "none", cleanupCalled |-> FALSE, cbs |-> <<>>]

Apply(mm, e) ==
    LET m1 == IF e.ev \in Callback THEN [mm EXCEPT !.cbs = Append(@, <<e.ev, e.n>>)] ELSE mm IN
    CASE e.ev = "enter_begin" -> [m1 EXCEPT !.begun = @ \cup {e.n}]
      [] e.ev = "enter_done" -> [m1 EXCEPT !.entered = Append(@, e.n)]
      [] e.ev = "enter_fail" -> [m1 EXCEPT !.failed = @ \cup {<<"enter", e.n>>}, !.soft = IF e.k = "exc" THEN @ ELSE @ \cup {<<"enter", e.n>>}]
      [] e.ev = "exit_begin" -> [m1 EXCEPT !.exited = Append(@, e.n)]
      [] e.ev = "exit_fail" -> [m1 EXCEPT !.failed = @ \cup {<<"exit", e.n>>}, !.soft = IF e.k = "exc" THEN @ ELSE @ \cup {<<"exit", e.n>>}]
      [] e.ev = "call_fail" -> [m1 EXCEPT !.failed = @ \cup {<<"call", e.n>>}, !.soft = IF e.k = "exc" THEN @ ELSE @ \cup {<<"call", e.n>>}]
      [] e.ev = "setup" -> [m1 EXCEPT !.setupRes = e.n]
      [] e.ev = "cleanup_call" -> [m1 EXCEPT !.cleanupCalled = TRUE]
      [] e.ev = "cleanup" -> [m1 EXCEPT !.cleanupRes = e.n]
      [] e.ev = "result" -> [m1 EXCEPT !.result = e.n]
      [] OTHER -> m1

MEntered(mm) == ToSet(mm.entered)
MMissing(mm) == {c \in MEntered(mm) : Count(mm.exited, c) = 0}
IsStart(x) == x[1] = "enter" \/ (x[1] = "call" /\ x[2] \in SuNames)
MStartupFailed(mm) == \E x \in mm.failed : IsStart(x)
MTeardownFailed(mm) == \E x \in mm.failed : ~IsStart(x)
\* ... with an ordinary exception (ErrorsSurface and the RunApp shape are stated for those)
MStartupFailedExc(mm) == \E x \in mm.failed \ mm.soft : IsStart(x)
MTeardownFailedExc(mm) == \E x \in mm.failed \ mm.soft : ~IsStart(x)
MTeardownSeen(mm) == \E i \in 1..Len(mm.cbs) :
                        \/ mm.cbs[i][1] \in {"exit_begin"}
                        \/ (mm.cbs[i][1] = "call" /\ mm.cbs[i][2] \notin SuNames)

FinalClause(mm, c) ==
    LET owed == c.entry = "RunApp" \/ mm.cleanupCalled
        miss == MMissing(mm)
        runner == c.entry # "RunApp"
    IN
    IF owed /\ miss # {} THEN
        IF c.entry = "RunApp" /\ MStartupFailedExc(mm) /\ ~MTeardownSeen(mm)
            THEN "RunAppStartupFailureSkipsCleanup"
        ELSE IF c.entry = "RunApp" /\ MStartupFailed(mm) /\ ~MTeardownSeen(mm)
            THEN "ExactlyOnceIffStarted"      \* start-up ended by cancellation / exit request: same duty
        ELSE IF MStartupFailed(mm) /\ miss \subseteq SubCtx
            THEN "SubAppContextNotExitedAfterFailedStartup"
        ELSE IF ~MStartupFailed(mm) /\ mm.exited = <<>>
                /\ \E x \in mm.failed : x[1] = "call" /\ x[2] \in ShutNames
            THEN "ShutdownHandlerErrorSkipsCleanup"
        ELSE IF ~MStartupFailed(mm) /\ miss \subseteq SubCtx
                /\ \E x \in mm.failed : x[1] = "exit" \/ (x[1] = "call" /\ x[2] \in ClNames)
            THEN "CleanupErrorSkipsLaterExits"
        ELSE "ExactlyOnceIffStarted"
    ELSE IF MStartupFailedExc(mm) /\ ((runner /\ mm.setupRes # "raised") \/ (~runner /\ mm.result # "raised"))
        THEN "ErrorsSurface"
    ELSE IF MTeardownFailedExc(mm) /\ ((runner /\ mm.cleanupRes # "raised") \/ (~runner /\ mm.result # "raised"))
        THEN "ErrorsSurface"
    ELSE ""

Clause(mm, e, c) ==
    CASE e.ev = "enter_begin" /\ e.n \in mm.begun -> "EnterTwice"
      [] e.ev = "exit_begin" /\ e.n \notin MEntered(mm) -> "ExitWithoutCompletedEnter"
      [] e.ev = "exit_begin" /\ Count(mm.exited, e.n) > 0 -> "ExitTwice"
      [] e.ev = "exit_begin" /\ (\E i \in 1..Len(mm.exited) :
                                   /\ AppOf(mm.exited[i]) = AppOf(e.n)
                                   /\ Pos(mm.entered, mm.exited[i]) < Pos(mm.entered, e.n)) -> "ReverseOrder"
      [] e.ev = "end" -> FinalClause(mm, c)
      [] OTHER -> ""

\* refinement: user-callback order predicted by the implementation-shaped model
Predicted(c) ==
    LET fin == RunToEnd(InitState(c.tree, c.entry, ToSet(c.failStart), c.siteFails, ToSet(c.failShut), ToSet(c.failClean),
                                  c.startKind, c.cleanKind))
    IN SelectSeq(fin.log, LAMBDA x : x[1] \in Callback)

Info(mm, e, c) ==
    IF e.ev # "end" THEN <<"", "">>
    ELSE <<IF ~(c.entry = "RunApp" \/ mm.cleanupCalled) /\ MMissing(mm) # {}
              THEN "CallerOmitsCleanupAfterFailedSetup" ELSE "",
           IF Predicted(c) # mm.cbs THEN "callback-order" ELSE "">>

TInit ==
    /\ tid \in 1..NTraces
    /\ l = 0
    /\ m = M0
    /\ bad = ""
    /\ s = InitState("one", "Runner", {}, FALSE, {}, {}, "exc", "exc")      \* the model's own variable is not used here
    /\ Verdict(tid, 0, "", <<"", "">>)

TNext ==
    /\ bad = ""
    /\ l < NEvents(tid)
    /\ LET e == Events(tid)[l + 1]
           b == Clause(m, e, Cfg(tid))
           m2 == Apply(m, e)
           l2 == IF b = "" THEN l + 1 ELSE l
       IN /\ bad' = b
          /\ l' = l2
          /\ m' = m2
          /\ UNCHANGED <<tid, s>>
          /\ Verdict(tid, l2, b, Info(m2, e, Cfg(tid)))

TSpec == TInit /\ [][TNext]_tvars
=============================================================================
