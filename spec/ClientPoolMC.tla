---------------------------- MODULE ClientPoolMC ----------------------------
EXTENDS ClientPool
\* three callers, two endpoints: t1,t2 -> k1 ; t3 -> k2   (and a one-key variant)
KeyOf2 == [t \in Tasks |-> IF t = "t3" THEN "k2" ELSE "k1"]
KeyOf1 == [t \in Tasks |-> "k1"]
\* five callers: t1 holds k1, t2 waits for k1; t3 creates (and fails) k2, t4 and t5 wait for k2
KeyOf5 == [t \in Tasks |-> IF t \in {"t3", "t4", "t5"} THEN "k2" ELSE "k1"]
KeyOf4 == [t \in Tasks |-> IF t \in {"t3", "t4"} THEN "k2" ELSE "k1"]
=============================================================================
