SPECIFICATION Spec
CONSTANTS
  MaxLen1 = 3
  MaxLen2 = 1
  MaxLenN = 1
  WithLen = TRUE
  HoldDelta = 0
  SizeMutant = FALSE
INVARIANT InvRoundTrip
INVARIANT InvLieDetected
INVARIANT InvSizeTruthful
INVARIANT InvWindowSufficient
INVARIANT InvTerminates
PROPERTY Progress
CHECK_DEADLOCK FALSE
VIEW View
