----------------------------- MODULE StaticServe -----------------------------
(* C15 - static files stay inside the root and serve exact bytes.

   Two independent reference machines (DESIGN.md "C15"):

   Part A  confinement.  A fixed file-system graph (constants below), a request
           target spelled as a sequence of raw segments over Alphabet, and the
           options of add_static (follow = break_symlink_sandbox, show = show_index,
           ae = Accept-Encoding offered).  JudgeA(req, resp) names the property
           clause that an observed response violates ("" = none).  The clauses are
           ONE-SIDED except for canonical spellings.
           code: aiohttp/web_urldispatcher.py StaticResource.resolve/_handle/
                 _resolve_path_to_response/_directory_as_html,
                 aiohttp/web_fileresponse.py FileResponse._get_file_path_stat_encoding

   Part B  range arithmetic, RFC 9110 sections 13 (conditional requests) and 14
           (range requests).  AllowedB(req) is the set of permitted outcomes,
           JudgeB(req, resp) the clause violated by an observed response.
           code: aiohttp/web_fileresponse.py FileResponse._make_response /
                 _prepare_open_file, aiohttp/web_request.py http_range, if_range ...

   Both judges are used (i) by StaticServeMC, where TLC enumerates the complete
   request spaces and checks the reference's own sanity invariants, and (ii) by
   StaticServeTrace, where TLC decides recorded executions of the real code.      *)
EXTENDS Integers, Sequences, FiniteSets, TLC

Min(a, b) == IF a <= b THEN a ELSE b
Max(a, b) == IF a >= b THEN a ELSE b
SeqToSet(s) == {s[i] : i \in 1..Len(s)}

(* ======================================================================= *)
(*                          PART A - CONFINEMENT                           *)
(* ======================================================================= *)

(* ---- the tree.  Node ids name the REAL location relative to the scratch
   directory T; every regular file's content is the marker "MARK<id>".
       T/R/f            regular            T/R/f.gz         regular (compressed sibling of f)
       T/R/d/g          regular            T/R/d/g.gz       symlink -> T/outside/secret (absolute)
       T/R/li           symlink -> d/g     (relative, stays inside)
       T/R/lo           symlink -> T/outside/secret (absolute)
       T/R/ld           symlink -> T/outside        (absolute, directory)
       T/outside/secret regular
       T/Rx/h           regular; the NAME of Rx is the name of R plus one letter
   "/" stands for everything above T (its only modelled entry "@T" is T itself). *)
NONE == "<none>"
FSROOT == "/"
TOP == "T"
ROOT == "R"

Files == {"R/f", "R/f.gz", "R/d/g", "outside/secret", "Rx/h"}
Links == {"R/li", "R/lo", "R/ld", "R/d/g.gz"}
Dirs == {FSROOT, TOP, "R", "R/d", "outside", "Rx"}
Nodes == Files \cup Links \cup Dirs

Kind == [n \in Nodes |-> IF n \in Files THEN "file" ELSE IF n \in Links THEN "link" ELSE "dir"]

Parent ==
    (FSROOT :> FSROOT) @@ (TOP :> FSROOT) @@ ("R" :> TOP) @@ ("outside" :> TOP) @@ ("Rx" :> TOP)
    @@ ("R/f" :> "R") @@ ("R/f.gz" :> "R") @@ ("R/d" :> "R") @@ ("R/li" :> "R") @@ ("R/lo" :> "R")
    @@ ("R/ld" :> "R") @@ ("R/d/g" :> "R/d") @@ ("R/d/g.gz" :> "R/d")
    @@ ("outside/secret" :> "outside") @@ ("Rx/h" :> "Rx")

\* directory-entry names; "<R>" / "<Rx>" are the (scratch dependent) names of R and Rx
Name ==
    (FSROOT :> "") @@ (TOP :> "@T") @@ ("R" :> "<R>") @@ ("outside" :> "outside") @@ ("Rx" :> "<Rx>")
    @@ ("R/f" :> "f") @@ ("R/f.gz" :> "f.gz") @@ ("R/d" :> "d") @@ ("R/li" :> "li") @@ ("R/lo" :> "lo")
    @@ ("R/ld" :> "ld") @@ ("R/d/g" :> "g") @@ ("R/d/g.gz" :> "g.gz")
    @@ ("outside/secret" :> "secret") @@ ("Rx/h" :> "h")

AbsSecret == <<"@T", "outside", "secret">>
Target ==
    ("R/li" :> [abs |-> FALSE, comps |-> <<"d", "g">>])
    @@ ("R/lo" :> [abs |-> TRUE, comps |-> AbsSecret])
    @@ ("R/ld" :> [abs |-> TRUE, comps |-> <<"@T", "outside">>])
    @@ ("R/d/g.gz" :> [abs |-> TRUE, comps |-> AbsSecret])

\* compressed sibling looked up when the client offers gzip (FileResponse: path + ".gz")
GzOf == ("R/f" :> "R/f.gz") @@ ("R/d/g" :> "R/d/g.gz")

Children(d) == {n \in Nodes : Parent[n] = d /\ n # d}
Child(d, nm) == LET c == {n \in Children(d) : Name[n] = nm}
                IN IF c = {} THEN NONE ELSE CHOOSE n \in c : TRUE

\* Inside(n): the REAL location n lies in the configured directory (parent chain, not names)
RECURSIVE Under(_, _)
Under(n, anc) == IF n = anc THEN TRUE ELSE IF Parent[n] = n THEN FALSE ELSE Under(Parent[n], anc)
Inside(n) == n \in Nodes /\ Under(n, ROOT)

\* path of a node from FSROOT as entry names
RECURSIVE PathOf(_)
PathOf(n) == IF n = FSROOT THEN <<>> ELSE Append(PathOf(Parent[n]), Name[n])
RootPath == PathOf(ROOT)

(* ---- request-target alphabet: the RAW spelling of one "/"-separated segment and
   what one round of percent-decoding + splitting at "/" makes of it (Decode).
   Spellings that depend on the scratch location are symbolic:
     <ABS>    = <path of T>/outside/secret written with plain "/" (so the segment list
                continues with an empty segment: /static//var/tmp/...)
     <ABS%>   = the same with every "/" written %2F
     <RXREL>  = ..%2F<name of Rx>%2Fh
     <RXH>    = <name of Rx>/h                                                     *)
PlainNames == {"f", "d", "g", "li", "lo", "ld", "secret"}
Decode ==
    [s \in PlainNames |-> <<s>>]
    @@ ("." :> <<".">>) @@ (".." :> <<"..">>) @@ ("" :> <<"">>)
    @@ ("%2e%2e" :> <<"..">>)
    @@ ("%2E%2E%2F" :> <<"..", "">>)
    @@ ("..%2f" :> <<"..", "">>)
    @@ ("%2f" :> <<"", "">>)
    @@ ("%252e%252e" :> <<"%2e%2e">>)          \* decoded ONCE: an ordinary (absent) name
    @@ ("\\" :> <<"\\">>)                      \* POSIX: backslash is an ordinary character
    @@ ("..\\" :> <<"..\\">>)
    @@ ("C:" :> <<"C:">>)
    @@ ("<ABS>" :> <<"">> \o AbsSecret)
    @@ ("<ABS%>" :> <<"">> \o AbsSecret)
    @@ ("<RXREL>" :> <<"..", "<Rx>", "h">>)
    @@ ("<RXH>" :> <<"<Rx>", "h">>)
Alphabet == DOMAIN Decode
MaxSegs == 4

RECURSIVE DecodeAll(_)
DecodeAll(segs) == IF segs = <<>> THEN <<>> ELSE Decode[Head(segs)] \o DecodeAll(Tail(segs))

Canonical(segs) == segs # <<>> /\ \A i \in 1..Len(segs) : segs[i] \in PlainNames

(* ---- lexical normalisation of R/<comps> (RFC 3986 5.2.4 remove_dot_segments applied
   to the joined path).  ESC = the normalised path is not below R. *)
ESC == <<"<esc>">>
RECURSIVE LexRec(_, _)
LexRec(stack, comps) ==
    IF comps = <<>> THEN stack
    ELSE LET c == Head(comps) IN
         IF c \in {"", "."} THEN LexRec(stack, Tail(comps))
         ELSE IF c = ".." THEN LexRec(IF stack = <<>> THEN <<>> ELSE SubSeq(stack, 1, Len(stack) - 1), Tail(comps))
         ELSE LexRec(Append(stack, c), Tail(comps))
LexNorm(comps) ==
    LET p == LexRec(RootPath, comps)
        k == Len(RootPath)
    IN IF Len(p) >= k /\ SubSeq(p, 1, k) = RootPath THEN SubSeq(p, k + 1, Len(p)) ELSE ESC

(* ---- physical walk (what the kernel does): cur is a node, ".." is the parent of the
   REAL current directory, a symlink continues with its target.  followLinks = FALSE
   stops (NONE) at the first symlink. *)
RECURSIVE Walk(_, _, _, _)
Walk(cur, comps, followLinks, fuel) ==
    IF cur = NONE THEN NONE
    ELSE IF comps = <<>> THEN cur
    ELSE IF Kind[cur] # "dir" THEN NONE                       \* ENOTDIR
    ELSE LET c == Head(comps)
             rest == Tail(comps)
         IN IF c \in {"", "."} THEN Walk(cur, rest, followLinks, fuel)
            ELSE IF c = ".." THEN Walk(Parent[cur], rest, followLinks, fuel)
            ELSE LET ch == Child(cur, c) IN
                 IF ch = NONE THEN NONE
                 ELSE IF Kind[ch] = "link"
                      THEN IF ~followLinks \/ fuel = 0 THEN NONE
                           ELSE Walk(IF Target[ch].abs THEN FSROOT ELSE cur,
                                     Target[ch].comps \o rest, followLinks, fuel - 1)
                      ELSE Walk(ch, rest, followLinks, fuel)
Fuel == 4

\* what a request may legitimately reach when symlink following is enabled: the
\* lexically normalised path stays below R ("URI cannot traverse out, but symlinks can")
LegitFollow(req) ==
    LET ln == LexNorm(DecodeAll(req.segs))
        n0 == IF ln = ESC THEN NONE ELSE Walk(ROOT, ln, TRUE, Fuel)
        gz == IF req.ae = "gzip" /\ n0 \in DOMAIN GzOf
              THEN LET z == GzOf[n0] IN
                   IF Kind[z] = "link" THEN Walk(Parent[z], <<Name[z]>>, TRUE, Fuel) ELSE z
              ELSE NONE
    IN {n0, gz} \ {NONE}

DirOfListing(names) ==
    LET c == {d \in Dirs : {Name[x] : x \in Children(d)} = names}
    IN IF c = {} THEN NONE ELSE CHOOSE d \in c : TRUE

(* ---- the ideal server (used for the canonical clause and for the sanity invariants).
   RefMode = "ideal" is the reference; the other modes are deliberately broken
   variants used as spec-level mutants by the self-test:
     "nocheck"  resolves links and serves whatever it reaches
     "prefix"   compares locations by NAME prefix without the separator (R vs Rx)   *)
BlankA == [status |-> 404, kind |-> "none", marker |-> "", listing |-> {}]

RefLooksInside(n, mode) ==
    CASE mode = "ideal" -> Inside(n)
      [] mode = "nocheck" -> TRUE
      [] mode = "prefix" -> Inside(n) \/ n \in {"Rx", "Rx/h"}

RefA(req, mode) ==
    LET comps == DecodeAll(req.segs)
        ln == LexNorm(comps)
        n == IF req.follow
             THEN IF ln = ESC THEN NONE ELSE Walk(ROOT, ln, TRUE, Fuel)
             ELSE LET p == Walk(ROOT, comps, TRUE, Fuel)
                  IN IF p # NONE /\ RefLooksInside(p, mode) THEN p ELSE NONE
    IN IF n = NONE THEN BlankA
       ELSE IF Kind[n] = "file" THEN [BlankA EXCEPT !.status = 200, !.kind = "marker", !.marker = n]
       ELSE IF req.show
            THEN [BlankA EXCEPT !.status = 200, !.kind = "listing",
                                !.listing = {Name[x] : x \in Children(n)}]
            ELSE [BlankA EXCEPT !.status = 403]

(* ---- the property clauses for one observed response.
   resp = [status, kind \in {"marker","listing","none","other"}, marker (node id), listing (SET of names)] *)
TargetOk(req) == Len(req.segs) <= MaxSegs /\ \A i \in 1..Len(req.segs) : req.segs[i] \in Alphabet

Redirects == {301, 302, 307, 308}

JudgeA(req, resp) ==
    IF ~TargetOk(req) THEN "TargetNotInModel"
    ELSE IF resp.kind = "other" THEN "UnknownBody"            \* 2xx body that is neither a marker nor a listing
    ELSE IF resp.kind = "marker" /\ resp.marker \notin Files THEN "UnknownMarker"
    \* (1) content only from files whose real location is inside R, unless following is
    \*     enabled and the file was reached through a link below R
    ELSE IF resp.kind = "marker" /\ ~Inside(resp.marker)
            /\ ~(req.follow /\ resp.marker \in LegitFollow(req)) THEN "Confinement"
    ELSE IF resp.kind = "marker" /\ resp.status # 200 THEN "MarkerWithErrorStatus"
    \* (2) a listing only if enabled, and only of a directory that may be served
    ELSE IF resp.kind = "listing" /\ ~req.show THEN "ListingNotEnabled"
    ELSE IF resp.kind = "listing" /\ DirOfListing(resp.listing) = NONE THEN "ListingUnknownDir"
    ELSE IF resp.kind = "listing" /\ ~Inside(DirOfListing(resp.listing))
            /\ ~(req.follow /\ DirOfListing(resp.listing) \in LegitFollow(req)) THEN "ListingOutside"
    \* (3) canonical spellings (plain names only, no Accept-Encoding): the positive outcome too
    ELSE IF Canonical(req.segs) /\ req.ae = ""
         THEN LET r == RefA(req, "ideal") IN
              IF r.kind = "marker"
              THEN IF resp.kind = "marker" /\ resp.marker = r.marker THEN "" ELSE "CanonicalFileNotServed"
              ELSE IF r.kind = "listing"
              THEN IF resp.kind = "listing" /\ resp.listing = r.listing THEN ""
                   ELSE IF resp.kind = "none" /\ resp.status \in Redirects THEN ""   \* "add the slash" redirect
                   \* named separately: listing of a directory reached through a symlink
                   ELSE IF ~Inside(DirOfListing(r.listing)) THEN "CanonicalLinkedDirNotListed"
                   ELSE "CanonicalDirNotListed"
              ELSE IF resp.kind # "none" THEN "CanonicalServedUnexpected"
              ELSE IF resp.status \notin {403, 404} \cup Redirects THEN "CanonicalErrorStatus"
              ELSE ""
    ELSE ""

(* ---- sanity invariants of the reference itself (checked by TLC over every target) *)
\* the oracle accepts the ideal server (clauses are satisfiable, not vacuous)
A_OracleAcceptsRef(req, mode) == JudgeA(req, RefA(req, mode)) = ""
\* without traversing a symlink, only a lexical escape can leave the root
A_NoLinkNoEscape(req) ==
    LET comps == DecodeAll(req.segs)
        p == Walk(ROOT, comps, FALSE, 0)
    IN (p # NONE /\ ~Inside(p)) => LexNorm(comps) = ESC
\* lexical normalisation agrees with the kernel when no symlink is traversed
A_LexPhysAgree(req) ==
    LET comps == DecodeAll(req.segs)
        p == Walk(ROOT, comps, FALSE, 0)
        ln == LexNorm(comps)
    IN (p # NONE /\ ln # ESC) => Walk(ROOT, ln, FALSE, 0) = p
\* canonical spellings decode to themselves and never escape
A_CanonicalIdentity(req) ==
    Canonical(req.segs) => (DecodeAll(req.segs) = req.segs /\ LexNorm(req.segs) = req.segs)
\* whatever following admits was reached through a symlink that lies below R, or is inside
A_LegitViaLink(req) ==
    \A n \in LegitFollow(req) :
        Inside(n) \/ \E lk \in Links : Inside(lk) /\ Under(n, Walk(Parent[lk], <<Name[lk]>>, TRUE, Fuel))

TreeOk ==
    /\ \A n \in Nodes : Parent[n] \in Dirs
    /\ \A n \in Nodes \ {FSROOT} : Child(Parent[n], Name[n]) = n
    /\ \A l \in Links : Walk(Parent[l], <<Name[l]>>, TRUE, Fuel) \in Files \cup Dirs
    /\ \A n \in DOMAIN GzOf : Parent[GzOf[n]] = Parent[n]
    /\ Inside("R/f") /\ Inside("R/d/g") /\ ~Inside("outside/secret") /\ ~Inside("Rx/h") /\ ~Inside(TOP)

(* ======================================================================= *)
(*                       PART B - RANGE ARITHMETIC                         *)
(* ======================================================================= *)
(* A request:  size 0..4 (file bytes are 97, 98, 99, 100 - all different),
   method GET/HEAD,
   rk/ra/rb  Range:  "none" | "int" a-b | "from" a- | "suffix" -a |
             syntactically odd forms (table in props/C15.py, RANGE_RAW):
             "empty" bytes=   "dash" bytes=-   "alpha" bytes=a-b   "unit" items=0-1
             "triple" bytes=0-1-2   "nosep" bytes 0-1   "ows" bytes= 0-1
             "upper" BYTES=0-0   "multi1" bytes=0-0,2-3   "multi2" bytes=0-1,-1
   ifr       If-Range: "absent" | "date_older" | "date_equal" | "date_newer" (relative to
             Last-Modified) | "etag_equal" (the strong ETag the server sent) |
             "etag_other" | "etag_weak" (W/ + the server's tag) | "garbage"
   im, inm   If-Match / If-None-Match: "absent" | "star" | "equal" | "other" | "weak"
   ius, ims  If-Unmodified-Since / If-Modified-Since: "absent" | "older" | "equal" |
             "newer" | "invalid"
   An outcome is [status, off, len]: the body is File[off+1 .. off+len].            *)
FileBytes == <<97, 98, 99, 100>>
File(size) == SubSeq(FileBytes, 1, size)

RangeKindsOdd == {"empty", "dash", "alpha", "unit", "triple", "nosep", "ows"}
RangeKindsMulti == {"multi1", "multi2"}
RangeKinds == {"none", "int", "from", "suffix", "upper"} \cup RangeKindsOdd \cup RangeKindsMulti
IfRangeVals == {"absent", "date_older", "date_equal", "date_newer", "etag_equal", "etag_other", "etag_weak", "garbage"}
EtagVals == {"absent", "star", "equal", "other", "weak"}
DateVals == {"absent", "older", "equal", "newer", "invalid"}

Whole(req) == [status |-> 200, off |-> 0, len |-> req.size]
Err(st) == [status |-> st, off |-> 0, len |-> 0]
Slice(a, n) == [status |-> 206, off |-> a, len |-> n]

\* RFC 9110 14.1.2: satisfiable iff first-pos < length, or suffix-length > 0.
\* 15.5.17 / 14.2: unsatisfiable -> SHOULD 416;  a server MAY always ignore Range (200).
Unsat(req) == {Err(416), Whole(req)}
\* 14.2: "MAY ignore or reject a Range header field that contains an invalid
\* ranges-specifier"; unknown unit: MUST ignore (14.2) / SHOULD 416 (same section);
\* several ranges: MAY ignore, may coalesce, or multipart/byteranges (not modelled further).
Lenient(req) == {Whole(req), Err(416), Err(400)}

IntRange(req, a, b) ==
    IF a > b THEN Lenient(req)                                \* 14.1.1: last-pos < first-pos is invalid
    ELSE IF a < req.size THEN {Slice(a, Min(b, req.size - 1) - a + 1)}   \* 14.1.2: last-pos clamped
    ELSE Unsat(req)

RangeSpec(req) ==
    CASE req.rk = "none" -> {Whole(req)}
      [] req.rk = "int" -> IntRange(req, req.ra, req.rb)
      [] req.rk = "from" -> IF req.ra < req.size THEN {Slice(req.ra, req.size - req.ra)} ELSE Unsat(req)
      [] req.rk = "suffix" ->
            IF req.ra = 0 THEN Unsat(req)                     \* 14.1.2: zero suffix-length is unsatisfiable
            ELSE IF req.size = 0 THEN {Whole(req), Err(416)}  \* satisfiable, but no 206 can express it
            ELSE {Slice(Max(req.size - req.ra, 0), Min(req.ra, req.size))}   \* 14.1.2: "entire representation is used"
      [] req.rk = "upper" -> Lenient(req) \cup IntRange(req, 0, 0)   \* 14.1: unit names are case-insensitive
      [] req.rk \in RangeKindsMulti -> Lenient(req) \cup {Err(206)}  \* Err(206) = multipart/byteranges
      [] OTHER -> Lenient(req)

\* RFC 9110 13.1.5: If-Range is true iff the validator matches EXACTLY: a strong entity
\* tag equal to the current one, or an HTTP-date equal to Last-Modified that is a strong
\* validator (8.8.2.2 - the server cannot always know, so an equal date may count either way).
IfRangeConds(v) ==
    CASE v \in {"absent", "etag_equal"} -> {TRUE}
      [] v \in {"date_equal", "garbage"} -> {TRUE, FALSE}
      [] OTHER -> {FALSE}                                     \* date_older, date_newer, etag_other, etag_weak

RangeOutcomes(req) ==
    LET cs == IF req.rk = "none" THEN {TRUE} ELSE IfRangeConds(req.ifr)
        get == (IF TRUE \in cs THEN RangeSpec(req) ELSE {}) \cup (IF FALSE \in cs THEN {Whole(req)} ELSE {})
    \* 14.2: Range is defined for GET only ("MUST ignore ... for which range handling is not
    \* defined"), 9.3.2: HEAD SHOULD send the header fields GET would have sent -> both readings
    IN IF req.method = "HEAD" THEN get \cup {Whole(req)} ELSE get

\* RFC 9110 13.2.2 precedence of preconditions
IfMatchTrue(v) == v \in {"star", "equal"}                     \* 13.1.1: strong comparison, "*" = any current representation
IfNoneMatchFalse(v) == v \in {"star", "equal", "weak"}        \* 13.1.2: weak comparison
AllowedB(req) ==
    IF req.im # "absent" /\ ~IfMatchTrue(req.im) THEN {Err(412)}                       \* step 1
    ELSE IF req.im = "absent" /\ req.ius = "older" THEN {Err(412)}                     \* step 2 (13.1.4; invalid date ignored)
    ELSE IF req.inm # "absent" /\ IfNoneMatchFalse(req.inm) THEN {Err(304)}            \* step 3 (GET/HEAD: 304)
    ELSE IF req.inm = "absent" /\ req.ims \in {"equal", "newer"}
         THEN {Err(304)} \cup RangeOutcomes(req)                                       \* step 4 (13.1.3: SHOULD 304)
    ELSE RangeOutcomes(req)                                                            \* steps 5, 6

(* resp = [status, body (Seq of bytes), clen (-1 = no Content-Length), crk \in {"none","range","star","bad"},
           crs, cre, crn (Content-Range numbers), mp (multipart content type)] *)
IsFileSlice(b, size) == b # <<>> /\ \E i \in 1..size : \E j \in i..size : SubSeq(File(size), i, j) = b
Consistent(req, o, resp) ==
    LET head == req.method = "HEAD"
        body == SubSeq(File(req.size), o.off + 1, o.off + o.len)
    IN IF head /\ resp.body # <<>> THEN "HeadHasBody"
       ELSE IF ~head /\ resp.clen # -1 /\ resp.clen # Len(resp.body) THEN "ContentLengthVsBody"
       ELSE IF o.status = 206 /\ o.len = 0 THEN (IF resp.mp THEN "" ELSE "MultiRange206NotMultipart")
       ELSE IF o.status = 206 THEN
            IF ~head /\ resp.body # body THEN "Body206"
            ELSE IF resp.clen # o.len THEN "ContentLength206"
            ELSE IF ~(resp.crk = "range" /\ resp.crs = o.off /\ resp.cre = o.off + o.len - 1 /\ resp.crn = req.size)
                 THEN "ContentRange206"
            ELSE ""
       ELSE IF o.status = 200 THEN
            IF ~head /\ resp.body # body THEN "Body200"
            ELSE IF resp.clen \notin {-1, req.size} THEN "ContentLength200"
            ELSE IF resp.crk # "none" THEN "ContentRangeOn200"
            ELSE ""
       ELSE IF o.status = 416 THEN
            IF IsFileSlice(resp.body, req.size) THEN "Body416"      \* an error text is fine, file content is not
            ELSE IF ~(resp.crk = "none" \/ (resp.crk = "star" /\ resp.crn = req.size)) THEN "ContentRange416"
            ELSE ""
       ELSE IF o.status = 304 /\ resp.body # <<>> THEN "Body304"   \* 15.4.5: cannot contain content
       ELSE IF IsFileSlice(resp.body, req.size) THEN "BodyOnErrorStatus"   \* 412 / 400
       ELSE IF resp.crk # "none" THEN "ContentRangeOnErrorStatus"
       ELSE ""

JudgeB0(req, resp) ==
    LET os == {o \in AllowedB(req) : o.status = resp.status}
    IN IF os = {} THEN "StatusNotAllowed"
       ELSE LET rs == {Consistent(req, o, resp) : o \in os}
            IN IF "" \in rs THEN "" ELSE CHOOSE c \in rs : TRUE

(* Named deviations (GUIDE: "make the spec name the deviation separately").  A response
   that the reference rejects but that would be accepted for a specifically relaxed
   request is reported under the name of the relaxation(s), so a known-findings entry
   can match exactly that and nothing else:
     Dev_IfRangeETagIgnored   If-Range carries an entity tag that does not (strongly) match,
                              yet the response is the one for a request without If-Range
     Dev_IfRangeDateNotExact  If-Range carries a date LATER than Last-Modified, yet ...
     Dev_SuffixZeroAsWhole    Range: bytes=-0 answered like bytes=0-                       *)
RelaxIfr(req) == [req EXCEPT !.ifr = "absent"]
RelaxSfx(req) == [req EXCEPT !.rk = "from", !.ra = 0]
DevIfr(req) == IF req.rk = "none" THEN ""
               ELSE IF req.ifr \in {"etag_other", "etag_weak"} THEN "Dev_IfRangeETagIgnored"
               ELSE IF req.ifr = "date_newer" THEN "Dev_IfRangeDateNotExact" ELSE ""
DevSfx(req) == IF req.rk = "suffix" /\ req.ra = 0 THEN "Dev_SuffixZeroAsWhole" ELSE ""

ReqOkB(req) ==
    /\ req.size \in 0..4 /\ req.method \in {"GET", "HEAD"} /\ req.rk \in RangeKinds
    /\ req.ra \in 0..5 /\ req.rb \in 0..5 /\ req.ifr \in IfRangeVals
    /\ req.im \in EtagVals /\ req.inm \in EtagVals /\ req.ius \in DateVals /\ req.ims \in DateVals

JudgeB(req, resp) ==
    IF ~ReqOkB(req) THEN "RequestNotInModel"
    ELSE LET c == JudgeB0(req, resp) IN
         IF c = "" THEN ""
         ELSE IF DevIfr(req) # "" /\ JudgeB0(RelaxIfr(req), resp) = "" THEN DevIfr(req)
         ELSE IF DevSfx(req) # "" /\ JudgeB0(RelaxSfx(req), resp) = "" THEN DevSfx(req)
         ELSE IF DevIfr(req) # "" /\ DevSfx(req) # "" /\ JudgeB0(RelaxSfx(RelaxIfr(req)), resp) = ""
              THEN DevIfr(req) \o "+" \o DevSfx(req)
         ELSE c

(* ---- the response an ideal server would send for outcome o (sanity invariants) *)
RespOf(req, o) ==
    [status |-> o.status,
     body |-> IF req.method = "HEAD" THEN <<>> ELSE SubSeq(File(req.size), o.off + 1, o.off + o.len),
     clen |-> o.len,
     crk |-> IF o.status = 206 /\ o.len > 0 THEN "range" ELSE IF o.status = 416 THEN "star" ELSE "none",
     crs |-> o.off, cre |-> o.off + o.len - 1, crn |-> req.size,
     mp |-> o.status = 206 /\ o.len = 0]

\* SuffixClamp = FALSE is the spec-level mutant of part B: a suffix longer than the file is
\* not clamped to the whole representation (self-test only).
RangeSpecMut(req, clamp) ==
    IF req.rk = "suffix" /\ req.ra > 0 /\ req.size > 0 /\ ~clamp
    THEN {Slice(req.size - req.ra, req.ra)} ELSE RangeSpec(req)

B_NonEmpty(req) == AllowedB(req) # {}
B_OracleAcceptsRef(req) == \A o \in AllowedB(req) : JudgeB(req, RespOf(req, o)) = ""
\* every 206 slice is non-empty, inside the file, inside the requested range and maximal
B_SliceSound(req, clamp) ==
    \A o \in (IF req.rk \in {"int", "from", "suffix"} THEN RangeSpecMut(req, clamp) ELSE {}) :
        o.status = 206 =>
            /\ o.len >= 1 /\ o.off >= 0 /\ o.off + o.len <= req.size
            /\ req.rk = "int" => (o.off = req.ra /\ o.off + o.len - 1 <= req.rb
                                  /\ (o.off + o.len - 1 = req.rb \/ o.off + o.len = req.size))
            /\ req.rk = "from" => (o.off = req.ra /\ o.off + o.len = req.size)
            /\ req.rk = "suffix" => (o.off + o.len = req.size /\ o.len = Min(req.ra, req.size))
\* a failed If-Match / If-Unmodified-Since admits nothing but 412; a matching If-None-Match nothing but 304
B_PreconditionsDecisive(req) ==
    /\ (req.im \in {"other", "weak"}) => AllowedB(req) = {Err(412)}
    /\ (\E o \in AllowedB(req) : o.status = 304) => (\A o \in AllowedB(req) : o.status # 412)
    /\ (req.rk = "none" /\ req.im = "absent" /\ req.inm = "absent" /\ req.ius = "absent" /\ req.ims = "absent")
          => AllowedB(req) = {Whole(req)}
\* at most one outcome per status (the judge's choice of outcome is unambiguous)
B_OnePerStatus(req) == \A o1, o2 \in AllowedB(req) : o1.status = o2.status => o1 = o2
=============================================================================
