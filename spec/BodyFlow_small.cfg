\* exhaustive safety run of the design (the check generates the same text for other modes / codecs)
\*   java ... tlc2.TLC -workers 16 -config BodyFlow_small.cfg BodyFlow          (deadlock check ON)
SPECIFICATION Spec
CONSTANTS
  Mode = "Chunked"
  Codec = "zlib"
  Side = "client"
  Limit = 1
  Big = 6
  MaxPieces = 4
  MaxUnits = 1
  ReadSizes = {0, 1, 3, 1000}
  ClientMax = 2
  WithMembers = FALSE
  WithCorrupt = FALSE
  WithTrunc = FALSE
  MidChunkCuts = TRUE
  ZeroUnits = TRUE
  ClearStalePause = TRUE
  EofKeepsParser = TRUE
  UseBudget = TRUE
  ResumeReenters = TRUE
  PauseReachesParser = TRUE
  KeepPending = TRUE
  CheckEachChunk = TRUE
  ErrChecked = TRUE
  PendingCountsAvail = TRUE
  LineKeepsLimits = TRUE
INVARIANT Resident
INVARIANT OneCallBudget
INVARIANT NoInputLost
INVARIANT ErrorNotData
INVARIANT NoDeadlock
INVARIANT NoSpuriousFailure
INVARIANT EofMeansAllDelivered
INVARIANT HeldBackImpliesPaused
INVARIANT MaxSize
INVARIANT NeverReturnsMore
PROPERTY ErrStopsFeed
