------------------------- MODULE WireDecisionTrace -------------------------
(* C02 - monitor for recorded end-to-end executions: a real ClientSession talks to a real
   web.Application through the segmenting relay of engine/wirekit.py (one exchange on a fresh
   connection, then quiescence, then one probe request on the same session).

   One execution = these events, in this order (each carries only observables):
     issue      the request as issued through the public client API (the only event if the API refused the
                arguments with ValueError)
     early      only if no final response head ever reached the wire: who is waiting
     reqwire    what the client put on the wire (independent splitter; arithmetic re-checked here); attempt > 0:
                the exchange was retried on a further connection (this is the last attempt's wire)
     handler    the request as seen by the web handler (rejected: the route's expect handler answered instead;
                bodyRead: the handler read the body)
     returned   the response object the handler returned (public attributes)      | or, if the caller was cancelled
     respwire   what the server put on the wire                                    | (req.abort): one event `aborted`
     quiesce    after the loop ran dry (timers <= 30 virtual s fired): who finished, who closed
                the transport on its own decision, did the probe request need a new connection, was it answered with
                its own response, are the header containers the application handed in unchanged
     caller     the response as seen by the caller of ClientSession.request()

   Scenario dimensions of the driver (props/C02.py): connection history (fresh / reused / stale: the server has closed
   the pooled connection, the client retries), a handler that answers without reading the body, slow (streamed) request
   bodies, routes whose expect handler rejects or stays silent, cancellation of the caller before the head / inside the
   body, an on_response_prepare handler that raises, header containers shared between messages.

   PROPERTY clauses use only those observables and the oracle Rfc9112BodyLength /
   Rfc9112ReqBodyLength applied to the fields observed on the wire.  Body equality "after
   content-coding" is supplied by the harness as digests of a one-shot decode of the bytes
   that the oracle's mode delimits (it supplies the digest for every mode, the choice is made
   here).  A failing clause that matches the observable signature of a known deviation gets
   that deviation's own name (first column) instead of the general clause name:

     Http10KeepAliveEofBodyServerOpen   NoHang/CloseAgree   HTTP/1.0 response delimited by EOF, server keeps the connection
     ChunkFramingWithContentLength      FramingTruthful     request declares Content-Length, body carries chunk framing
     ChunkFramingUndeclared             FramingTruthful     request without TE/CL followed by a chunked terminator
     BodySentForHead                    FramingTruthful     bytes follow the head of a HEAD response (no content-coding)
     CompressedBytesAfterEmptyHead      FramingTruthful     compressor flush follows a HEAD/204/304 head
     ConnCloseSentServerOpen / ConnKeepAliveSentServerClosed   CloseAgree   Connection header contradicts what the server does
     HeadRequestBodyDropped             ReceiverFollowsRfc  HEAD request with a body: handler sees none
     HeadNoLengthClientCloses           CloseAgree          HEAD response without CL/TE: client does not reuse
     ConnectClosedByServer / ConnectPooledByClient          CloseAgree   CONNECT
     Http10TransferEncoding             FramingTruthful     Transfer-Encoding on an HTTP/1.0 request
     Expect100NeverAnswered             NoHang              HTTP/1.0 + Expect: 100-continue: both ends wait
     WithheldBodyConnectionReused       UnfinishedNeverReused   Expect: 100-continue answered by a final response: body never
                                                            sent, connection pooled by the client
     ErrorPageAfterFailedPrepare        FramingTruthful     on_response_prepare raised: 500 page through the stale writer
     HostDroppedOnRetry                 RetrySameRequest    the retry on a new connection lost the caller's Host header
   General clauses added with the scenario dimensions: UnfinishedBodyConnectionReused, UnfinishedBodyServerKeepsConnection,
   UnfinishedBodyDelivered, CancelledExchangeConnectionReused, NextRequestAnsweredWithForeignResponse,
   CallerHeadersMutated, HandlerHeadersMutated.
     ErrorPageThroughStaleWriter        FramingTruthful     prepare() raised after enabling compression: the 500 page is compressed
                                                            behind a Content-Length of the plain text

   REFINEMENT clauses compare the observed wire fields / decisions with SrvDecide, CliDecide,
   ReqDecide, SrvReqDecide of WireDecision (as-coded constants): they only produce drift.      *)
EXTENDS WireDecision, TraceBatch

VARIABLES tid, l, st, bad, drift, devs

tvars == <<tid, l, st, bad, drift, devs, side, phase, inp, out, rcv>>

\* Deviations that leave the byte stream intact (both ends merely disagree about persistence): they are recorded
\* (verdict info, reported as violations by the driver) and the evaluation of the execution continues.
SoftDevs == {"ConnCloseSentServerOpen", "ConnKeepAliveSentServerClosed", "HeadNoLengthClientCloses",
             "ConnectClosedByServer", "ConnectPooledByClient"}

Upd(f, k, v) == IF k \in DOMAIN f THEN [f EXCEPT ![k] = v] ELSE f @@ (k :> v)

NamesOf(h) == {h[i][1] : i \in DOMAIN h}
OnlyNames(h, ns) == SelectSeq(h, LAMBDA p : p[1] \in ns)
\* every given field is there with the same values; the order of field lines matters only among lines of one name
\* (RFC 9110 5.3)
Contains(seen, given) == \A n \in NamesOf(given) : OnlyNames(seen, {n}) = OnlyNames(given, {n})

\* RFC 9110 5.3: the mapping view (request.headers / response.headers) combines the field lines of one
\* name, in order, into one comma-separated value
RECURSIVE JoinVals(_)
JoinVals(q) == IF Len(q) = 1 THEN q[1][2] ELSE q[1][2] \o ", " \o JoinVals(Tail(q))
CombinedOk(lines, map) ==
    /\ NamesOf(map) = NamesOf(lines)
    /\ \A k \in DOMAIN map : map[k][2] = JoinVals(OnlyNames(lines, {map[k][1]}))
    /\ \A j, k \in DOMAIN map : j # k => map[j][1] # map[k][1]

RECURSIVE ChunkBytes(_)
ChunkBytes(recs) ==                 \* bytes occupied by chunk records [size-line length, size]; the last has size 0
    IF recs = <<>> THEN 0
    ELSE LET r == Head(recs) IN
         r[1] + 2 + (IF r[2] = 0 THEN 0 ELSE r[2] + 2) + ChunkBytes(Tail(recs))
RECURSIVE ChunkData(_)
ChunkData(recs) == IF recs = <<>> THEN 0 ELSE Head(recs)[2] + ChunkData(Tail(recs))

ChunkedWellFormed(w) ==
    /\ w.chunkOk
    /\ Len(w.chunkRecs) >= 1
    /\ w.chunkRecs[Len(w.chunkRecs)][2] = 0
    /\ \A k \in 1..(Len(w.chunkRecs) - 1) : w.chunkRecs[k][2] > 0
    /\ ChunkBytes(w.chunkRecs) + w.chunkTrailer = w.after
    /\ ChunkData(w.chunkRecs) = w.dataLen

Fields(w) == [cl |-> w.cl, te |-> w.te]

\* digest / length of the body that mode o delimits on wire w, after the declared content-coding
WireBody(o, w) ==
    IF o.k = "Chunked" THEN [len |-> w.lenDecChunk, crc |-> w.crcDecChunk]
    ELSE IF o.k \in {"Length", "UntilEOF"} THEN [len |-> w.lenDecRaw, crc |-> w.crcDecRaw]
    ELSE [len |-> 0, crc |-> 0]

WireFieldRules(ver, status, m, w) ==
    IF w.cl = -2 THEN "ContentLengthInvalid"
    ELSE IF w.cl # None /\ w.te # "none" THEN "BothLengthAndTransferEncoding"
    ELSE IF ver = 10 /\ w.te # "none" THEN "Http10TransferEncoding"
    ELSE IF (status = 204 \/ status \in 100..199 \/ (m = "CONNECT" /\ status \in 200..299))
            /\ (w.cl # None \/ w.te # "none") THEN "LengthFieldOnBodilessStatus"
    ELSE ""

\* ---------------------------------------------------------------- request direction
\* RFC 9110 10.1.1: a client that announced Expect: 100-continue and received a final response before it
\* started the body may withhold the body - but then it must not reuse the connection (checked at quiescence)
Withheld(w) == w.expect /\ w.after = 0 /\ (w.cl > 0 \/ w.te = "chunked")
\* More generally a client may stop in mid-body when the final response is already complete (the handler answered
\* without reading the body).  What is on the wire is then a proper prefix of the declared body; the connection
\* must not carry another request and the server must not keep waiting on it (checked at quiescence).
Unfinished(w) == \/ Withheld(w)
                 \/ (w.te = "none" /\ w.cl > 0 /\ w.after < w.cl)
                 \/ (w.te = "chunked" /\ ~w.chunkOk /\ w.chunkShort)
ReqWireClause(e) ==
    LET i == st["issue"]
        o == Rfc9112ReqBodyLength(Fields(e))
        fr == WireFieldRules(e.ver, 0, "", e)
        wh == Unfinished(e)
        noHost == SelectSeq(i.hdrs, LAMBDA p : p[1] # "host")
    IN  IF ~e.present THEN "RequestNotSent"
        ELSE IF e.method # i.method THEN "MethodSame"
        ELSE IF e.ver # i.ver THEN "VersionSame"
        ELSE IF ~Contains(e.hdrs, i.hdrs)
            THEN (IF e.attempt > 0 /\ Contains(e.hdrs, noHost) THEN "HostDroppedOnRetry" ELSE "HeadersSame")
        ELSE IF fr # "" THEN fr
        ELSE IF o.k = "Error" THEN "ReqFramingTruthful"
        ELSE IF o.k = "Empty" /\ e.after # 0
            THEN (IF e.chunkOk THEN "ChunkFramingUndeclared" ELSE "ReqFramingTruthful")
        ELSE IF wh THEN ""
        ELSE IF o.k = "Length" /\ e.after # o.n
            THEN (IF e.chunkOk /\ e.dataLen = o.n THEN "ChunkFramingWithContentLength" ELSE "ReqFramingTruthful")
        ELSE IF o.k = "Chunked" /\ ~ChunkedWellFormed(e) THEN "ReqFramingTruthful"
        ELSE IF i.bodyKnown /\ (WireBody(o, e).len # i.bodyLen \/ WireBody(o, e).crc # i.bodyCrc) THEN "ReqBodySame"
        ELSE ""

HandlerClause(e) ==
    LET i == st["issue"]
        w == st["reqwire"]
        o == Rfc9112ReqBodyLength(Fields(w))
        wb == WireBody(o, w)
    IN  IF e.entered = 0 /\ ~e.rejected          \* rejected: the route's expect handler answered instead of the handler
            THEN (IF i.method = "HEAD" /\ w.after > 0 /\ ~HeadReqBodyFramed THEN "HeadRequestBodyDropped" ELSE "RequestNotDelivered")
        ELSE IF e.entered > 1 THEN "RequestDeliveredTwice"
        ELSE IF e.method # i.method THEN "MethodSame"
        ELSE IF e.ver # i.ver THEN "VersionSame"
        ELSE IF i.hasTarget /\ e.path # i.path THEN "PathSame"
        ELSE IF i.hasTarget /\ e.query # i.query THEN "QuerySame"
        ELSE IF e.hdrs # w.hdrs THEN "HeadersSame"
        ELSE IF ~Contains(e.hdrs, i.hdrs) THEN "HeadersSame"
        ELSE IF ~CombinedOk(e.hdrs, e.hmap) THEN "HeaderMapSame"
        ELSE IF e.cookies # i.cookies THEN "CookiesSame"
        ELSE IF e.rejected \/ ~e.bodyRead THEN ""      \* nobody read the body: nothing to compare
        ELSE IF Unfinished(w) THEN "UnfinishedBodyDelivered"
        ELSE IF e.bodyExc # "" THEN "ReqBodyReadFailed"
        ELSE IF e.bodyLen # wb.len \/ e.bodyCrc # wb.crc
            THEN (IF i.method = "HEAD" /\ e.bodyLen = 0 THEN "HeadRequestBodyDropped" ELSE "ReqReceiverFollowsRfc")
        ELSE IF i.bodyKnown /\ (e.bodyLen # i.bodyLen \/ e.bodyCrc # i.bodyCrc) THEN "ReqBodySame"
        ELSE ""

\* ---------------------------------------------------------------- response direction
RespOracle(e) == Rfc9112BodyLength(e.status, st["issue"].method, e.ver, Fields(e))

RespWireClause(e) ==
    LET i == st["issue"]
        r == st["returned"]
        o == RespOracle(e)
        fr == WireFieldRules(e.ver, e.status, i.method, e)
    IN  IF ~e.present THEN "ResponseNotSent"
        ELSE IF e.status # r.status THEN "StatusSame"
        ELSE IF e.reason # r.reason THEN "ReasonSame"
        ELSE IF fr # "" THEN fr
        ELSE IF o.k = "Error" THEN "FramingTruthful"
        ELSE IF o.k = "Empty" /\ e.after # 0
            THEN (IF r.refused = "PrepareHookFailed" THEN "ErrorPageAfterFailedPrepare"
                  ELSE IF r.refused # "" THEN "ErrorPageThroughStaleWriter"
                  ELSE IF e.ce # "" THEN "CompressedBytesAfterEmptyHead"
                  ELSE IF i.method = "HEAD" THEN "BodySentForHead" ELSE "FramingTruthful")
        ELSE IF o.k = "Length" /\ e.after # o.n
            THEN (IF r.refused = "PrepareHookFailed" THEN "ErrorPageAfterFailedPrepare"
                  ELSE IF r.refused # "" THEN "ErrorPageThroughStaleWriter"
                  ELSE "FramingTruthful")
        ELSE IF o.k = "Chunked" /\ ~ChunkedWellFormed(e) THEN "FramingTruthful"
        ELSE IF r.bodyKnown /\ o.k \in {"Length", "Chunked"}
                /\ (WireBody(o, e).len # r.bodyLen \/ WireBody(o, e).crc # r.bodyCrc)
            THEN "RespBodySame"
        ELSE IF ~Contains(e.hdrs, r.hdrs) THEN "HeadersSame"
        ELSE ""

\* the caller was cancelled (before the response head / inside the response body): the connection of the abandoned
\* exchange must never serve another request, and the next request must get its own response
AbortedQuiesce(e) ==
    IF ~e.cliDone THEN "ClientLeftWaiting"
    ELSE IF ~e.cliClosedOwn THEN "CancelledExchangeConnectionReused"
    ELSE IF e.probe = "foreign" THEN "NextRequestAnsweredWithForeignResponse"
    ELSE IF e.probe # "ok" THEN "NextRequestFails"
    ELSE IF ~e.probeNewConn THEN "ProbeReusedClosedConnection"
    ELSE IF ~e.reqHdrsIntact THEN "CallerHeadersMutated"
    ELSE ""

QuiesceClause(e) ==
    LET i == st["issue"]
        q == st["reqwire"]
        w == st["respwire"]
        r == st["returned"]
        o == RespOracle(w)
        srvKeeps == ~e.srvClosedOwn
        \* a client that reads until the connection ends has decided not to reuse it, whoever closes first
        cliReuses == ~e.cliClosedOwn /\ o.k \notin {"UntilEOF", "Tunnel"}
    IN  IF ~e.handlerDone THEN "HandlerLeftWaiting"
        \* sender bytes delimited by EOF: the sender must end the connection
        ELSE IF o.k = "UntilEOF" /\ srvKeeps
            THEN (IF w.ver = 10 /\ q.conn = "keep-alive" THEN "Http10KeepAliveEofBodyServerOpen" ELSE "NoHang")
        ELSE IF ~e.cliDone THEN "ClientLeftWaiting"
        ELSE IF Unfinished(q) /\ ~e.cliClosedOwn
            THEN (IF i.method = "HEAD" /\ ~HeadReqBodyFramed THEN "HeadRequestBodyDropped"
                  ELSE IF Withheld(q) THEN "WithheldBodyConnectionReused"
                  ELSE "UnfinishedBodyConnectionReused")
        ELSE IF Unfinished(q) /\ srvKeeps /\ ~(i.method = "HEAD" /\ ~HeadReqBodyFramed) THEN "UnfinishedBodyServerKeepsConnection"
        ELSE IF r.bodyKnown /\ o.k = "UntilEOF" /\ (WireBody(o, w).len # r.bodyLen \/ WireBody(o, w).crc # r.bodyCrc)
            THEN "RespBodySame"
        ELSE IF ~e.reqHdrsIntact THEN "CallerHeadersMutated"
        ELSE IF ~e.respHdrsIntact THEN "HandlerHeadersMutated"
        ELSE IF srvKeeps # cliReuses
            THEN (IF i.method = "CONNECT" THEN (IF srvKeeps THEN "CloseAgree" ELSE "ConnectClosedByServer")
                  ELSE IF w.conn = "close" /\ srvKeeps THEN "ConnCloseSentServerOpen"
                  ELSE IF w.conn = "keep-alive" /\ ~srvKeeps THEN "ConnKeepAliveSentServerClosed"
                  ELSE IF i.method = "HEAD" /\ w.cl = None /\ w.te = "none" /\ w.conn = "none" /\ srvKeeps
                      THEN "HeadNoLengthClientCloses"
                  ELSE "CloseAgree")
        ELSE IF i.method = "CONNECT" /\ w.status \in 200..299 /\ cliReuses THEN "ConnectPooledByClient"
        ELSE IF e.probe = "skipped" THEN ""
        ELSE IF e.probe = "foreign" THEN "NextRequestAnsweredWithForeignResponse"
        ELSE IF e.probe # "ok" THEN "NextRequestFails"
        ELSE IF srvKeeps /\ cliReuses /\ e.probeNewConn THEN "ProbeNewConnectionThoughBothKeep"
        ELSE IF ~(srvKeeps /\ cliReuses) /\ ~e.probeNewConn THEN "ProbeReusedClosedConnection"
        ELSE ""

\* the exchange did not get as far as a final response head on the wire: name why
\* (event "early" is recorded right after "issue", and only in that case)
EarlyQuiesce(e) ==
    IF e.expect /\ e.ver = 10 /\ e.interim = 0 /\ ~e.cliDone THEN "Expect100NeverAnswered"
    ELSE IF ~e.cliDone THEN "ClientLeftWaiting"
    ELSE IF ~e.handlerDone THEN "HandlerLeftWaiting"
    ELSE ""

CallerClause(e) ==
    LET i == st["issue"]
        w == st["respwire"]
        r == st["returned"]
        o == RespOracle(w)
        wb == WireBody(o, w)
    IN  IF ~e.gotHead THEN "ResponseNotReceived"
        ELSE IF e.status # r.status THEN "StatusSame"
        ELSE IF e.reason # r.reason THEN "ReasonSame"
        ELSE IF e.hdrs # w.hdrs THEN "HeadersSame"
        ELSE IF ~Contains(e.hdrs, r.hdrs) THEN "HeadersSame"
        ELSE IF ~CombinedOk(e.hdrs, e.hmap) THEN "HeaderMapSame"
        ELSE IF o.k = "Tunnel" THEN ""                 \* what follows is tunnel data, not a body
        ELSE IF ~e.gotBody THEN "BodyNotReceived"
        ELSE IF e.bodyLen # wb.len \/ e.bodyCrc # wb.crc THEN "ReceiverFollowsRfc"
        ELSE IF r.bodyKnown /\ o.k \in {"Length", "Chunked", "UntilEOF"} /\ (e.bodyLen # r.bodyLen \/ e.bodyCrc # r.bodyCrc)
            THEN "RespBodySame"
        ELSE ""

\* ---------------------------------------------------------------- refinement (drift only)
ClShape(cl, ce, n) ==
    IF cl = None THEN "none" ELSE IF ce # "" THEN "z" ELSE IF cl = 0 THEN "0" ELSE IF n < 0 \/ cl = n THEN "n" ELSE "other"
ModelClShape(cl, sz) ==
    IF cl = None THEN "none" ELSE IF cl = sz.z \/ cl = sz.z0 THEN "z" ELSE IF cl = 0 THEN "0" ELSE IF cl = sz.n THEN "n" ELSE "other"
SentShape(after, w, ce, n) ==
    LET d == IF w.chunkOk /\ w.te = "chunked" THEN w.dataLen ELSE after IN
    IF d = 0 THEN "0" ELSE IF ce # "" THEN "z" ELSE IF n < 0 \/ d = n THEN "n" ELSE "other"
ModelSentShape(sent, ce, sz) ==
    IF sent = 0 THEN "0" ELSE IF ce THEN "z" ELSE IF sent = sz.n THEN "n" ELSE "other"

ReqDrift(e) ==
    LET c == Cfg(tid) IN
    IF ~c.qvalid \/ ~e.present THEN ""
    ELSE LET d == ReqDecide(c.qinp, Sz0)
             n == c.qn IN
         IF d.refused THEN "req:refused"
         ELSE IF d.te # e.te THEN "req:te"
         ELSE IF ModelClShape(d.cl, Sz0) # ClShape(e.cl, IF d.ce THEN "x" ELSE "", n) THEN "req:cl"
         ELSE IF d.ce # (e.ce # "") THEN "req:ce"
         ELSE IF d.expect # e.expect THEN "req:expect"
         ELSE IF e.after > 0 /\ d.wChunked # (e.chunkOk \/ e.chunkShort) THEN "req:writer-mode"
         ELSE ""

RespDrift(e) ==
    LET c == Cfg(tid) IN
    IF ~c.rvalid \/ c.family # "resp" \/ ~e.present THEN ""
    ELSE LET d == SrvDecide(c.rinp, Sz0)
             r == st["returned"] IN
         IF d.refused # (r.refused # "") THEN "resp:refused"
         ELSE IF d.refused
             THEN LET chunkedSeen == e.chunkOk /\ e.after > 0                \* the 500 page went out chunk-framed
                      dlen == IF chunkedSeen THEN e.dataLen ELSE e.after
                      seen == IF dlen = 0 THEN "0" ELSE IF dlen = e.cl THEN "n" ELSE "z"
                      want == IF d.sent = 0 THEN "0" ELSE IF d.sent = Sz0.n THEN "n" ELSE "z"
                  IN IF d.wChunked # chunkedSeen THEN "resp:refused-writer-mode"
                     ELSE IF want # seen THEN "resp:refused-sent" ELSE ""
         ELSE IF d.te # e.te THEN "resp:te"
         ELSE IF d.conn # e.conn THEN "resp:conn"
         ELSE IF d.ce # (e.ce # "") THEN "resp:ce"
         ELSE IF ModelClShape(d.cl, Sz0) # ClShape(e.cl, e.ce, c.rn) THEN "resp:cl"
         ELSE IF d.wChunked # (e.chunkOk /\ e.after > 0 /\ e.te = "chunked") THEN "resp:writer-mode"
         ELSE IF ModelSentShape(d.sent, d.ce, Sz0) # SentShape(e.after, e, e.ce, c.rn) THEN "resp:sent"
         ELSE ""

QuiesceDrift(e) ==
    LET c == Cfg(tid) IN
    IF "aborted" \in DOMAIN st THEN "" ELSE
    IF ~c.rvalid \/ c.family # "resp" \/ "respwire" \notin DOMAIN st \/ ~st["respwire"].present THEN ""
    ELSE LET d == SrvDecide(c.rinp, Sz0)
             k == CliDecide(c.rinp, d) IN
         IF d.refused \/ ~e.cliDone THEN ""
         ELSE IF d.keeps # ~e.srvClosedOwn THEN "resp:keeps"
         ELSE IF k.reuses # (~e.cliClosedOwn /\ RespOracle(st["respwire"]).k \notin {"UntilEOF", "Tunnel"}) THEN "resp:reuses"
         ELSE ""

\* ---------------------------------------------------------------- driver
Step(e) ==
    CASE e.ev = "issue"    -> [bad |-> "", drift |-> "", stop |-> FALSE]
      [] e.ev = "reqwire"  -> [bad |-> ReqWireClause(e), drift |-> ReqDrift(e), stop |-> FALSE]
      [] e.ev = "handler"  -> [bad |-> HandlerClause(e), drift |-> "", stop |-> FALSE]
      [] e.ev = "returned" -> [bad |-> "", drift |-> "", stop |-> FALSE]
      [] e.ev = "respwire" -> [bad |-> RespWireClause(e), drift |-> RespDrift(e), stop |-> FALSE]
      [] e.ev = "aborted"  -> [bad |-> "", drift |-> "", stop |-> FALSE]
      [] e.ev = "quiesce"  -> LET c == IF "aborted" \in DOMAIN st THEN AbortedQuiesce(e) ELSE QuiesceClause(e) IN
                              IF c \in SoftDevs THEN [bad |-> "", dev |-> c, drift |-> QuiesceDrift(e), stop |-> FALSE]
                              ELSE [bad |-> c, drift |-> QuiesceDrift(e), stop |-> FALSE]
      [] e.ev = "early"    -> [bad |-> EarlyQuiesce(e), drift |-> "", stop |-> FALSE]
      [] e.ev = "caller"   -> [bad |-> IF "aborted" \in DOMAIN st THEN "" ELSE CallerClause(e), drift |-> "", stop |-> FALSE]
      [] OTHER             -> [bad |-> "UnknownEvent", drift |-> "", stop |-> FALSE]

\* A HEAD request that declares a body: the server parser skips the body, so everything that goes wrong with that
\* body afterwards (partly written, left in the stream, connection closed by one end only) is the same deviation.
HeadBodyCascade == {"ReqFramingTruthful", "CloseAgree", "RequestNotDelivered", "ReqReceiverFollowsRfc",
                    "WithheldBodyConnectionReused", "NextRequestFails", "ClientLeftWaiting",
                    "FramingTruthful", "BodySentForHead"}     \* the 400 answering the stray body follows the HEAD response
HeadWithBody(e) ==
    ~HeadReqBodyFramed /\           \* (only while that deviation is open)
    LET w == IF e.ev = "reqwire" THEN e ELSE IF "reqwire" \in DOMAIN st THEN st["reqwire"] ELSE [present |-> FALSE] IN
    /\ w.present /\ w.method = "HEAD" /\ (w.cl > 0 \/ w.te = "chunked")

\* the events of one execution come in a fixed order and none may be missing
NextEvents(prev) ==
    CASE prev = ""         -> {"issue"}
      [] prev = "issue"    -> {"early", "reqwire"}
      [] prev = "early"    -> {"reqwire"}
      [] prev = "reqwire"  -> {"handler"}
      [] prev = "handler"  -> {"returned", "aborted"}
      [] prev = "aborted"  -> {"quiesce"}
      [] prev = "returned" -> {"respwire"}
      [] prev = "respwire" -> {"quiesce"}
      [] prev = "quiesce"  -> {"caller"}
      [] OTHER             -> {}
OrderClause(k) ==
    LET e == Events(tid)[k]
        prev == IF k = 1 THEN "" ELSE Events(tid)[k - 1].ev
    IN  IF e.ev \notin NextEvents(prev) THEN "EventOrder"
        ELSE IF k = NEvents(tid) /\ ~(e.ev = "caller" \/ (e.ev = "issue" /\ e.apiExc # "")) THEN "TraceIncomplete"
        ELSE ""

TInit ==
    /\ tid \in 1..NTraces
    /\ l = 0
    /\ st = <<>>
    /\ bad = ""
    /\ drift = <<>>
    /\ devs = <<>>
    /\ side = "trace" /\ phase = "" /\ inp = 0 /\ out = 0 /\ rcv = 0
    /\ Verdict(tid, 0, "", <<<<>>, <<>>>>)

TNext ==
    /\ bad = ""
    /\ l < NEvents(tid)
    /\ LET e == Events(tid)[l + 1]
           oc == OrderClause(l + 1)
           a0 == IF oc # "" THEN [bad |-> oc, drift |-> ""] ELSE Step(e)
           a == IF a0.bad \in HeadBodyCascade /\ HeadWithBody(e) THEN [a0 EXCEPT !.bad = "HeadRequestBodyDropped"] ELSE a0
           d2 == IF a.drift # "" /\ Len(drift) < 3 THEN Append(drift, a.drift) ELSE drift
           v2 == IF "dev" \in DOMAIN a THEN Append(devs, a.dev) ELSE devs
           l2 == IF a.bad = "" THEN l + 1 ELSE l
       IN /\ st' = Upd(st, e.ev, e)
          /\ bad' = a.bad
          /\ drift' = d2
          /\ devs' = v2
          /\ l' = l2
          /\ UNCHANGED <<tid, side, phase, inp, out, rcv>>
          /\ Verdict(tid, l2, a.bad, <<d2, v2>>)

TSpec == TInit /\ [][TNext]_tvars
=============================================================================
