\* WireDecision, the code as found: FALSE = the deviation is present in /repo (flip to TRUE once it is fixed there).
\* props/C02.py reads the constants of THIS file for the as-coded model runs and for the trace monitor.
SPECIFICATION Spec
CONSTANTS
  Http10UnsizedCloses = FALSE
  ChunkedFlagTruthy = FALSE
  ChunkedSetsTE = FALSE
  HeadStreamSuppressed = FALSE
  EmptyBodyNoFlush = FALSE
  HandlerConnHonored = FALSE
  HeadReqBodyFramed = FALSE
  HeadNoLenReusable = FALSE
  ConnectAware = FALSE
  Http10NoChunkedReq = FALSE
  Expect10Proceeds = FALSE
  RefusedPrepareCleansWriter = FALSE
INVARIANT FramingTruthfulButKnown
INVARIANT ReceiverFollowsRfcButKnown
INVARIANT CloseAgreeButKnown
INVARIANT NoHangButKnown
CHECK_DEADLOCK FALSE
