\* WireDecision, the code as found: FALSE = the deviation is present in /repo (flip to TRUE once it is fixed there).
\* props/C02.py reads the constants of THIS file for the as-coded model runs and for the trace monitor.
SPECIFICATION Spec
CONSTANTS
  Http10UnsizedCloses = FALSE
  ChunkedFlagTruthy = TRUE
  ChunkedSetsTE = TRUE
  HeadStreamSuppressed = TRUE
  EmptyBodyNoFlush = TRUE
  HandlerConnHonored = TRUE
  HeadReqBodyFramed = TRUE
  HeadNoLenReusable = FALSE
  ConnectAware = FALSE
  Http10NoChunkedReq = FALSE
  Expect10Proceeds = FALSE
  RefusedPrepareCleansWriter = TRUE
  FailedPrepareCleansWriter = TRUE
  WithheldBodyCloses = TRUE
  HostKeptOnRetry = TRUE
  CutBodyCloses = TRUE
  CancelCloses = TRUE
  FreshHeaderContainer = TRUE
INVARIANT FramingTruthfulButKnown
INVARIANT ReceiverFollowsRfcButKnown
INVARIANT CloseAgreeButKnown
INVARIANT NoHangButKnown
INVARIANT UnfinishedNeverReusedButKnown
INVARIANT RetrySameRequestButKnown
CHECK_DEADLOCK FALSE
