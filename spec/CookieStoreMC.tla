---------------------------- MODULE CookieStoreMC ----------------------------
(* Bounded model of the RFC 6265 reference store: every history of at most MaxSteps
   actions over a lattice of hosts, paths, names and Set-Cookie attribute kinds.
   `last` carries the stimulus so that behaviours can be replayed into a real
   aiohttp.CookieJar.  Domain attribute KINDS (absent, same, parent, child, sibling,
   look-alike, leading-dot parent, trailing-dot, upper-case) are resolved here, on
   label sequences, into the literal attribute the response carries.  Resend re-issues a
   stored cookie with the same value and other attributes (latest write wins).      *)
EXTENDS CookieStore

CONSTANTS Hosts,        \* response / request hosts (label sequences)
          Paths,        \* request paths and Path attribute values
          Names, DomKinds, MaxAges, Expiries, Schemes,
          MaxSteps, MaxTime, Cf,
          Sessions      \* simulation: include session-level actions (Hop, response Set-Cookie)

VARIABLES s, last, steps
vars == <<s, last, steps>>

(* ---- the lattice ---- *)
ExampleCom == <<"example", "com">>
AExample == <<"a", "example", "com">>
BExample == <<"b", "example", "com">>
XExample == <<"xexample", "com">>
Com == <<"com">>
IPHost == <<"10", "0", "0", "1">>
HostsFull == {ExampleCom, AExample, BExample, XExample, Com, IPHost}
HostsSmall == {ExampleCom, AExample}
HostsMid == {ExampleCom, AExample, XExample, Com}
HostsMid3 == {ExampleCom, AExample, XExample}

P(segs, trail) == [segs |-> segs, trail |-> trail]
PRoot == Root
PathsFull == {PRoot, P(<<"p">>, FALSE), P(<<"p">>, TRUE), P(<<"p", "q">>, FALSE), P(<<"pq">>, FALSE)}
PathsSmall == {PRoot, P(<<"p">>, FALSE)}
PathsMid == {PRoot, P(<<"p">>, FALSE), P(<<"p">>, TRUE)}

KindsFull == {"absent", "same", "parent", "child", "sibling", "lookalike", "dotparent", "traildot", "upper"}
KindsSmall == {"absent", "same", "parent", "child"}
KindsTiny == {"absent", "same", "parent"}
KindsMid == {"absent", "same", "parent", "lookalike", "dotparent", "traildot"}
MaxAgesFull == {-1, 0, 2}
MaxAgesSim == {-2, -1, 0, 2}   \* -2: "Max-Age=2x" (not a number: the attribute is ignored)
ExpiriesFull == {0, 5, 13}     \* absent, past, future (absolute model times; the clock starts at T0 = 10)
ExpiriesSim == {0, EpochDate, 5, 13}   \* EpochDate: the deletion header "Thu, 01 Jan 1970 00:00:00 GMT"
ExpiriesSmall == {0, 13}
ExpiriesNone == {0}

CfProperty == PropertyCf(FALSE, Hosts, Paths)
CfUnsafe == PropertyCf(TRUE, Hosts, Paths)
CfNoHostOnly == [CfProperty EXCEPT !.hostOnlyEnforced = FALSE]      \* mutant of the reference
CfSaveDropsHostOnly == [CfProperty EXCEPT !.saveHostOnly = FALSE]   \* mutant of the reference
CfDevHostOnlyKey == [CfProperty EXCEPT !.hostOnlyKey = TRUE]        \* the code's side table

(* ---- Domain attribute kinds, resolved on label sequences ---- *)
Sib(l) == CASE l = "a" -> "b" [] l = "b" -> "a" [] l = "example" -> "xexample"
            [] l = "xexample" -> "example" [] l = "com" -> "org" [] l = "10" -> "1" [] OTHER -> "z"
HasShort(l) == l \in {"xexample", "example", "com", "10"}
Short(l) == CASE l = "xexample" -> "example" [] l = "example" -> "ample" [] l = "com" -> "om" [] OTHER -> "0"
\* a domain whose STRING is a suffix of the host's string, not at a label boundary
LookAlike(h) ==
    LET i == CHOOSE k \in 1..Len(h) : HasShort(h[k]) /\ \A j \in 1..(k - 1) : ~HasShort(h[j])
    IN <<Short(h[i])>> \o SubSeq(h, i + 1, Len(h))
Child(h) == IF h = ExampleCom THEN AExample ELSE IF h = Com THEN ExampleCom ELSE <<"c">> \o h

DA(present, labels, lead, trail, up) ==
    [present |-> present, labels |-> labels, lead |-> lead, trail |-> trail, up |-> up]
ResolveDom(h, kind) ==
    CASE kind = "absent" -> DA(FALSE, <<>>, FALSE, FALSE, FALSE)
      [] kind = "same" -> DA(TRUE, h, FALSE, FALSE, FALSE)
      [] kind = "parent" -> DA(TRUE, Tail(h), FALSE, FALSE, FALSE)      \* parent of "com": empty value
      [] kind = "child" -> DA(TRUE, Child(h), FALSE, FALSE, FALSE)
      [] kind = "sibling" -> DA(TRUE, <<Sib(h[1])>> \o Tail(h), FALSE, FALSE, FALSE)
      [] kind = "lookalike" -> DA(TRUE, LookAlike(h), FALSE, FALSE, FALSE)
      [] kind = "dotparent" -> DA(TRUE, Tail(h), TRUE, FALSE, FALSE)
      [] kind = "traildot" -> DA(TRUE, IF Len(h) > 1 THEN Tail(h) ELSE h, FALSE, TRUE, FALSE)
      [] kind = "upper" -> DA(TRUE, h, FALSE, FALSE, ~IsIP(h))      \* digits have no case

PA(present, p) == [present |-> present, segs |-> p.segs, trail |-> p.trail]
PathAttrs == {PA(FALSE, Root)} \cup {PA(TRUE, p) : p \in Paths}

Blank == [ev |-> "init", host |-> <<>>, path |-> Root, scheme |-> "http", name |-> "", val |-> 0,
          dom |-> DA(FALSE, <<>>, FALSE, FALSE, FALSE), pth |-> PA(FALSE, Root), secure |-> FALSE,
          maxage |-> -1, expires |-> 0, d |-> <<>>, n |-> 0, via |-> "jar", start |-> FALSE, rc |-> <<0, 0>>]

Battery == {[host |-> h, path |-> p, scheme |-> sc] : h \in Hosts, p \in Paths, sc \in Schemes}
BatterySeq == LET RECURSIVE ToSeq(_)
                  ToSeq(S) == IF S = {} THEN <<>> ELSE LET x == CHOOSE x \in S : TRUE IN <<x>> \o ToSeq(S \ {x})
              IN ToSeq(Battery)

Init == s = Init0(Cf) /\ last = Blank /\ steps = 0

\* a Set-Cookie of the session's response is the last thing before the next hop (the response
\* that carries it also carries the redirect)
AfterRespCookie == last.ev = "Receive" /\ last.via = "session"
Do(e) == /\ steps < MaxSteps
         /\ AfterRespCookie => e.ev = "Hop"
         /\ Legal(s, e)
         /\ s' = Step(s, e)
         /\ last' = e
         /\ steps' = steps + 1

Receive(h, p, nm, dk, pa, sec, ma, ex) ==
    Do([Blank EXCEPT !.ev = "Receive", !.host = h, !.path = p, !.name = nm, !.val = Len(s.fate) + 1,
                     !.dom = ResolveDom(h, dk), !.pth = pa, !.secure = sec, !.maxage = ma, !.expires = ex])
\* the origin re-issues a stored cookie: same (name, domain, path) and the SAME value, other
\* attributes (Secure, lifetime; host-only <-> Domain=host when the setter is the domain itself)
Resend(c, sec, lt, flip) ==
    LET ho == IF flip /\ c.domain = c.setter THEN ~c.hostOnly ELSE c.hostOnly
    IN Do([Blank EXCEPT !.ev = "Receive", !.host = c.setter, !.path = Root, !.name = c.name, !.val = c.value,
                        !.dom = IF ho THEN DA(FALSE, <<>>, FALSE, FALSE, FALSE)
                                ELSE DA(TRUE, c.domain, FALSE, FALSE, FALSE),
                        !.pth = PA(TRUE, c.path), !.secure = sec, !.maxage = lt[1], !.expires = lt[2]])
Tick == s.now < MaxTime /\ Do([Blank EXCEPT !.ev = "Tick", !.n = 1])
Clear == s.store # {} /\ Do([Blank EXCEPT !.ev = "Clear"])
ClearDomain(d) == s.store # {} /\ Do([Blank EXCEPT !.ev = "ClearDomain", !.d = d])
SaveLoad == s.store # {} /\ Do([Blank EXCEPT !.ev = "SaveLoad"])
Query(h, p, sc) == s.store # {} /\ Do([Blank EXCEPT !.ev = "Query", !.host = h, !.path = p, !.scheme = sc])

\* the request path matters only without a Path attribute (default-path); Max-Age wins over
\* Expires, so one combination of both is enough
RecvShapes == {<<p, PA(FALSE, Root)>> : p \in Paths} \cup {<<Root, PA(TRUE, p)>> : p \in Paths}
Lifetimes == {<<ma, 0>> : ma \in MaxAges} \cup {<<-1, ex>> : ex \in Expiries}
                \cup (IF 2 \in MaxAges /\ 5 \in Expiries THEN {<<2, 5>>} ELSE {})
                \cup (IF -2 \in MaxAges THEN {<<-2, ex>> : ex \in Expiries} ELSE {})

Next ==
    \/ \E h \in Hosts, sh \in RecvShapes, nm \in Names, dk \in DomKinds,
          sec \in BOOLEAN, lt \in Lifetimes : Receive(h, sh[1], nm, dk, sh[2], sec, lt[1], lt[2])
    \/ \E c \in s.store, sec \in BOOLEAN, lt \in Lifetimes, flip \in BOOLEAN : Resend(c, sec, lt, flip)
    \/ Tick
    \/ Clear
    \/ \E d \in Hosts : ClearDomain(d)
    \/ SaveLoad

\* simulation only (-simulate): parameters are drawn with RandomElement, so that a step costs one
\* successor instead of the whole alphabet; a query is a stimulus of its own there (replayed
\* through a real ClientSession).  RecvWeight copies make Set-Cookie the most frequent action.
RecvRand ==
    LET h == RandomElement(Hosts)
        sh == RandomElement(RecvShapes)
        lt == RandomElement(Lifetimes)
    IN Receive(h, sh[1], RandomElement(Names), RandomElement(DomKinds), sh[2],
               RandomElement(BOOLEAN), lt[1], lt[2])
\* session level: a request starts (with or without per-request cookies), is redirected (a further
\* hop: same path elsewhere, another path on the same origin, ...), its responses may set a cookie
RcRows == {<<0, 0>>, <<0, 0>>, <<1001, 0>>, <<0, 1002>>, <<1001, 1002>>}
Hop(start, h, p, sc, rc) ==
    Do([Blank EXCEPT !.ev = "Hop", !.start = start, !.host = h, !.path = p, !.scheme = sc, !.rc = rc])
HopRand ==
    LET start == ~s.req.active \/ RandomElement(1..4) = 1
        near == s.req.active /\ RandomElement(1..2) = 1       \* stay on the origin of the last hop
        h == IF near THEN s.req.last[1] ELSE RandomElement(Hosts)
        sc == IF near THEN s.req.last[3] ELSE RandomElement(Schemes)
    IN Hop(start, h, RandomElement(Paths), sc, IF start THEN RandomElement(RcRows) ELSE <<0, 0>>)
RecvHop ==
    /\ s.req.active
    /\ LET lt == RandomElement(Lifetimes)
           pa == RandomElement(PathAttrs)
           h == s.req.last[1]
       IN Do([Blank EXCEPT !.ev = "Receive", !.via = "session", !.host = h, !.path = s.req.last[2],
                           !.scheme = s.req.last[3], !.name = RandomElement(Names), !.val = Len(s.fate) + 1,
                           !.dom = ResolveDom(h, RandomElement(DomKinds)), !.pth = pa,
                           !.secure = RandomElement(BOOLEAN), !.maxage = lt[1], !.expires = lt[2]])
NextSim ==
    \/ \E i \in 1..6 : RecvRand
    \/ \E i \in 1..(IF Sessions THEN 5 ELSE 0) : HopRand
    \/ \E i \in 1..(IF Sessions THEN 2 ELSE 0) : RecvHop
    \/ s.store # {} /\ \E i \in 1..2 : Resend(RandomElement(s.store), RandomElement(BOOLEAN),
                                                 RandomElement(Lifetimes), RandomElement(BOOLEAN))
    \/ Tick
    \/ Clear
    \/ ClearDomain(RandomElement(Hosts))
    \/ SaveLoad
    \/ Query(RandomElement(Hosts), RandomElement(Paths), RandomElement(Schemes))

Spec == Init /\ [][Next]_vars
SpecSim == Init /\ [][NextSim]_vars

InvNoCrossSiteRead == NoCrossSiteRead(s, BatterySeq)
InvNoExpired == NoExpired(s, BatterySeq)
InvSecureOnlyOnSecure == SecureOnlyOnSecure(s, BatterySeq)
InvPathScoped == PathScoped(s, BatterySeq)
InvNoIP == NoIPUnlessUnsafe(s, BatterySeq)
InvSaveLoadIsIdentity == SaveLoadIsIdentity(s, BatterySeq)
\* NoCrossSiteWrite as an action property
NoCrossSiteWriteStep == (last'.ev = "Receive") => WriteConfined(s, s', last'.host)
NoCrossSiteWrite == [][NoCrossSiteWriteStep]_vars
\* the judge accepts the reference's own answers (self-consistency of Apply/Judge)
RefObs(st, B) == [i \in 1..Len(B) |->
                    [k \in 1..2 |-> LET S == {c.value : c \in {x \in Retrieve(st, B[i]) : x.name = <<"n", "m">>[k]}}
                                    IN IF S = {} THEN 0 ELSE CHOOSE v \in S : TRUE]]
InvJudgeSelf == Judge(s, BatterySeq, <<"n", "m">>, RefObs(s, BatterySeq)).bad = ""

\* values and rejected writes are history; the store, clock and counter decide the future
View == <<s.store, s.now, Len(s.fate), IF s.cf.hostOnlyKey THEN s.hok ELSE {}, steps>>
=============================================================================
