SPECIFICATION TSpec
INVARIANT TInvHdr
INVARIANT TInvBody
POSTCONDITION PrintVerdicts
CHECK_DEADLOCK FALSE
