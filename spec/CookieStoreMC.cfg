\* quick-tier exhaustive configuration (props/C16.py generates this and the larger ones)
SPECIFICATION Spec
CONSTANTS
  Hosts <- HostsSmall
  Paths <- PathsSmall
  Names = {"n"}
  DomKinds <- KindsTiny
  MaxAges <- MaxAgesFull
  Expiries <- ExpiriesNone
  Sessions = FALSE
  Schemes = {"http", "https"}
  MaxSteps = 3
  MaxTime = 13
  Cf <- CfProperty
INVARIANT InvNoCrossSiteRead
INVARIANT InvNoExpired
INVARIANT InvSecureOnlyOnSecure
INVARIANT InvPathScoped
INVARIANT InvNoIP
INVARIANT InvSaveLoadIsIdentity
INVARIANT InvJudgeSelf
PROPERTY NoCrossSiteWrite
VIEW View
CHECK_DEADLOCK FALSE
