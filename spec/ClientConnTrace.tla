--------------------------- MODULE ClientConnTrace ---------------------------
(* C06 - property monitor over executions of a real ClientSession talking to a
   scripted peer (engine/clikit.py).  Every response the peer emits carries a
   unique marker m (header + body); the harness stamps every chunk it feeds with
   the epoch ep = number of the request that owns the connection at that moment
   (0 = the connection is idle / pooled).

   Events
     acquire  j c samekey alive
                               request j was handed connection c (alive: its transport was still open)
     feed     c ep m part surplus
                               the peer's bytes reach connection c; part in
                               {"whole","head","body","frag"}; surplus = the bytes lie beyond
                               the end of the response of the current exchange, or the
                               connection is idle
     resp     j c m bm        the caller of request j received a response whose header
                               marker is m and whose body marker is bm (-1: none/unread)
     end      j c how         how the exchange ended: full | unread | closed | cancel |
                               timeout | error | upgrade | connclose | truncated
     peerclose c
   Clauses
     MixIdleData / MixOtherExchange   response built from bytes that arrived outside the
                                      exchange of request j
     BodyMix                          body marker differs from the header marker
     ReuseAfter<Why>                  a connection that may not be reused was handed out
     KeyMismatch                      connection reused for a different connection key    *)
EXTENDS Naturals, Integers, Sequences, FiniteSets, TLC, TraceBatch

VARIABLES tid, l, mep, dirty, bad

tvars == <<tid, l, mep, dirty, bad>>

ReuseClause(why) ==
    CASE why = "idle" -> "ReuseAfterIdleData"
      [] why = "surplus" -> "ReuseAfterSurplus"
      [] why = "partial" -> "ReuseAfterPartialSurplus"
      [] why = "unread" -> "ReuseAfterUnreadBody"
      [] why = "closed" -> "ReuseAfterClose"
      [] why = "cancel" -> "ReuseAfterCancel"
      [] why = "timeout" -> "ReuseAfterTimeout"
      [] why = "error" -> "ReuseAfterError"
      [] why = "upgrade" -> "ReuseAfterUpgrade"
      [] why = "connclose" -> "ReuseAfterConnectionClose"
      [] why = "truncated" -> "ReuseAfterTruncatedBody"
      [] why = "peerclose" -> "ReuseAfterPeerClose"
      [] OTHER -> "ReuseAfterDirty"

Upd(f, k, v) == IF k \in DOMAIN f THEN [f EXCEPT ![k] = v] ELSE f @@ (k :> v)
GetD(f, k, d) == IF k \in DOMAIN f THEN f[k] ELSE d

Step(e) ==
    CASE e.ev = "acquire" ->
            LET why == GetD(dirty, e.c, "") IN
            [mep |-> mep, dirty |-> dirty,
             \* a connection that is already closed when connect() returns it cannot carry an
             \* exchange (the request fails before a byte is sent): that is not a reuse
             bad |-> IF why # "" /\ e.alive THEN ReuseClause(why)
                     ELSE IF ~e.samekey THEN "KeyMismatch" ELSE ""]
      [] e.ev = "feed" ->
            [mep |-> Upd(mep, e.m, GetD(mep, e.m, {}) \cup {e.ep}),
             dirty |-> IF e.surplus /\ GetD(dirty, e.c, "") = ""
                       THEN Upd(dirty, e.c, IF e.ep = 0 THEN "idle"
                                            ELSE IF e.part = "frag" THEN "partial" ELSE "surplus")
                       ELSE dirty,
             bad |-> ""]
      [] e.ev = "resp" ->
            LET eps == GetD(mep, e.m, {}) IN
            [mep |-> mep, dirty |-> dirty,
             bad |-> IF eps = {} THEN "UnknownMarker"
                     ELSE IF eps # {e.j} THEN (IF 0 \in eps THEN "MixIdleData" ELSE "MixOtherExchange")
                     ELSE IF e.bm # -1 /\ e.bm # e.m THEN "BodyMix"
                     ELSE ""]
      [] e.ev = "end" ->
            [mep |-> mep,
             dirty |-> IF e.how # "full" /\ e.c >= 0 /\ GetD(dirty, e.c, "") = "" THEN Upd(dirty, e.c, e.how) ELSE dirty,
             bad |-> ""]
      [] e.ev = "peerclose" ->
            [mep |-> mep,
             dirty |-> IF GetD(dirty, e.c, "") = "" THEN Upd(dirty, e.c, "peerclose") ELSE dirty,
             bad |-> ""]
      [] OTHER -> [mep |-> mep, dirty |-> dirty, bad |-> ""]

TInit ==
    /\ tid \in 1..NTraces
    /\ l = 0
    /\ mep = <<>>
    /\ dirty = <<>>
    /\ bad = ""
    /\ Verdict(tid, 0, "", <<>>)

TNext ==
    /\ bad = ""
    /\ l < NEvents(tid)
    /\ LET r == Step(Events(tid)[l + 1])
           l2 == IF r.bad = "" THEN l + 1 ELSE l
       IN /\ mep' = r.mep /\ dirty' = r.dirty /\ bad' = r.bad /\ l' = l2
          /\ UNCHANGED tid
          /\ Verdict(tid, l2, r.bad, <<>>)

TSpec == TInit /\ [][TNext]_tvars
=============================================================================
