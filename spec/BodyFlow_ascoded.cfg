\* the code as found (stale HttpPayloadParser._paused): TLC exhibits NoDeadlock / NoSpuriousFailure counterexamples
\*   java ... tlc2.TLC -workers 16 -config BodyFlow_ascoded.cfg BodyFlow -deadlock
SPECIFICATION Spec
CONSTANTS
  Mode = "Chunked"
  Codec = "identity"
  Side = "client"
  Limit = 1
  Big = 6
  MaxPieces = 3
  MaxUnits = 1
  ReadSizes = {0, 1, 3, 1000}
  ClientMax = 2
  WithMembers = FALSE
  WithCorrupt = FALSE
  WithTrunc = FALSE
  MidChunkCuts = TRUE
  ZeroUnits = TRUE
  ClearStalePause = FALSE
  EofKeepsParser = FALSE
  UseBudget = TRUE
  ResumeReenters = TRUE
  PauseReachesParser = TRUE
  KeepPending = TRUE
  CheckEachChunk = TRUE
  ErrChecked = TRUE
  PendingCountsAvail = TRUE
  LineKeepsLimits = TRUE
INVARIANT Resident
INVARIANT OneCallBudget
INVARIANT NoInputLost
INVARIANT ErrorNotData
INVARIANT NoDeadlock
INVARIANT NoSpuriousFailure
INVARIANT EofMeansAllDelivered
INVARIANT HeldBackImpliesPaused
INVARIANT MaxSize
INVARIANT NeverReturnsMore
PROPERTY ErrStopsFeed
