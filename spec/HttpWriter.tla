----------------------------- MODULE HttpWriter -----------------------------
(* C04 - Outbound messages: field contents cannot inject structure; framing is
   truthful.   Reference machine in "acceptor" style (cf. StreamReader.tla).

   Part (a)  SerializeRule
       A supplied string is a sequence of code points.  It is placed in one
       position of a message head (start line token, field name, field value,
       cookie, multipart part header, form field name / filename, content type).
       The real code either refuses (exception, ZERO bytes written) or emits.
       SerClause(e) is the property, stated on the recorded bytes only:
         emitted  =>  bytes = start-line CRLF (name ": " value CRLF)* CRLF rest,
                      exactly 1 + nfields lines, no CR / LF byte inside a line,
                      the line of the supplied string equals  pre . ENC(sup) . post
                      (raw positions)  or  decodes back to sup (positions where
                      aiohttp documents percent- / quoted- / cookie-encoding),
                      nothing but the scenario's fixed body after the head;
         refused  =>  no byte was written.
       CR or LF in a raw position therefore forces `refused`; every other code
       point may be refused or emitted (what today's code does is only the
       refinement table Today*, reported as drift when it changes).

   Part (b)  WriterOps
       Ref(s, e): implementation-shaped model of aiohttp.http_writer.StreamWriter
       (one rule per public call, including the four header-coalescing fast
       paths) in the CORRECT design.  WireClause(s, w): the property on the bytes
       handed to the transport: HdrOnceFirst, ChunkedDecodes (RFC 9112 7.1, an
       independent minimal decoder), LengthRespected.  MsgClause(m): the same for
       one complete message produced through web.Response / StreamResponse /
       ClientRequest + Payload: framing is read off the emitted head, the body is
       decoded accordingly and compared with the data passed in;
       DeclaredEqualsActual compares Content-Length / Payload.size with the
       bytes really written.

   Byte strings are Seq(0..255); strings of code points are Seq(Nat).        *)
EXTENDS Naturals, Integers, Sequences, FiniteSets, TLC

Min(a, b) == IF a < b THEN a ELSE b
Max(a, b) == IF a > b THEN a ELSE b
Take(q, k) == SubSeq(q, 1, Min(k, Len(q)))
Drop(q, k) == SubSeq(q, k + 1, Len(q))
Slice(q, i, j) == SubSeq(q, i, j)              \* empty when j < i
SetMin(S) == CHOOSE x \in S : \A y \in S : x <= y

CRLF == <<13, 10>>
COLONSP == <<58, 32>>
DQ == 34
BSL == 92
PCT == 37

StartsWith(q, p) == Len(q) >= Len(p) /\ SubSeq(q, 1, Len(p)) = p
EndsWith(q, p) == Len(q) >= Len(p) /\ SubSeq(q, Len(q) - Len(p) + 1, Len(q)) = p
HasCRorLF(q) == \E k \in 1..Len(q) : q[k] = 13 \/ q[k] = 10

(* ------------------------------------------------------------------------ *)
(* UTF-8 (RFC 3629) - written here independently of Python's codec.          *)
IsSurrogate(c) == c >= 55296 /\ c <= 57343
U8Enc(c) ==
    IF c < 128 THEN <<c>>
    ELSE IF c < 2048 THEN <<192 + (c \div 64), 128 + (c % 64)>>
    ELSE IF c < 65536 THEN <<224 + (c \div 4096), 128 + ((c \div 64) % 64), 128 + (c % 64)>>
    ELSE <<240 + (c \div 262144), 128 + ((c \div 4096) % 64), 128 + ((c \div 64) % 64), 128 + (c % 64)>>

RECURSIVE U8EncRange(_, _, _)
U8EncRange(cs, lo, hi) ==          \* balanced: recursion depth log2(Len)
    IF lo > hi THEN <<>>
    ELSE IF lo = hi THEN U8Enc(cs[lo])
    ELSE LET m == (lo + hi) \div 2 IN U8EncRange(cs, lo, m) \o U8EncRange(cs, m + 1, hi)
U8EncSeq(cs) == U8EncRange(cs, 1, Len(cs))

Cont(b) == b >= 128 /\ b < 192
RECURSIVE U8DecFrom(_, _)
U8DecFrom(b, i) ==            \* code points; -1 marks a malformed rest
    IF i > Len(b) THEN <<>>
    ELSE LET x == b[i] IN
         IF x < 128 THEN <<x>> \o U8DecFrom(b, i + 1)
         ELSE IF x >= 194 /\ x < 224 /\ i + 1 <= Len(b) /\ Cont(b[i + 1])
              THEN <<(x - 192) * 64 + (b[i + 1] - 128)>> \o U8DecFrom(b, i + 2)
         ELSE IF x >= 224 /\ x < 240 /\ i + 2 <= Len(b) /\ Cont(b[i + 1]) /\ Cont(b[i + 2])
              THEN <<(x - 224) * 4096 + (b[i + 1] - 128) * 64 + (b[i + 2] - 128)>> \o U8DecFrom(b, i + 3)
         ELSE IF x >= 240 /\ x < 245 /\ i + 3 <= Len(b) /\ Cont(b[i + 1]) /\ Cont(b[i + 2]) /\ Cont(b[i + 3])
              THEN <<(x - 240) * 262144 + (b[i + 1] - 128) * 4096 + (b[i + 2] - 128) * 64 + (b[i + 3] - 128)>>
                       \o U8DecFrom(b, i + 4)
         ELSE <<-1>>
U8Dec(b) == U8DecFrom(b, 1)

(* ------------------------------------------------------------------------ *)
(* Decoders of the documented encodings.                                     *)
IsDigit(b) == b >= 48 /\ b <= 57
IsUpper(b) == b >= 65 /\ b <= 90
Lower(b) == IF IsUpper(b) THEN b + 32 ELSE b
LowerSeq(q) == [k \in 1..Len(q) |-> Lower(q[k])]
HexVal(b) == IF b >= 48 /\ b <= 57 THEN b - 48
             ELSE IF b >= 97 /\ b <= 102 THEN b - 87
             ELSE IF b >= 65 /\ b <= 70 THEN b - 55 ELSE -1
IsOct(b) == b >= 48 /\ b <= 55

\* percent-decoding (RFC 3986 2.1) on bytes
RECURSIVE PctFrom(_, _)
PctFrom(b, i) ==
    IF i > Len(b) THEN <<>>
    ELSE IF b[i] = PCT /\ i + 2 <= Len(b) /\ HexVal(b[i + 1]) >= 0 /\ HexVal(b[i + 2]) >= 0
         THEN <<16 * HexVal(b[i + 1]) + HexVal(b[i + 2])>> \o PctFrom(b, i + 3)
    ELSE <<b[i]>> \o PctFrom(b, i + 1)
PctDecode(b) == PctFrom(b, 1)

\* quoted-string content with quoted-pairs (RFC 9110 5.6.4), on code points
RECURSIVE QsFrom(_, _)
QsFrom(c, i) ==
    IF i > Len(c) THEN <<>>
    ELSE IF c[i] = BSL /\ i + 1 <= Len(c) THEN <<c[i + 1]>> \o QsFrom(c, i + 2)
    ELSE <<c[i]>> \o QsFrom(c, i + 1)
QsDecode(c) == QsFrom(c, 1)

\* http.cookies value coding: "..." with \ooo octal escapes and \c pairs, on code points
RECURSIVE CkFrom(_, _)
CkFrom(c, i) ==
    IF i > Len(c) THEN <<>>
    ELSE IF c[i] = BSL /\ i + 3 <= Len(c) /\ IsOct(c[i + 1]) /\ IsOct(c[i + 2]) /\ IsOct(c[i + 3])
         THEN <<64 * (c[i + 1] - 48) + 8 * (c[i + 2] - 48) + (c[i + 3] - 48)>> \o CkFrom(c, i + 4)
    ELSE IF c[i] = BSL /\ i + 1 <= Len(c) THEN <<c[i + 1]>> \o CkFrom(c, i + 2)
    ELSE <<c[i]>> \o CkFrom(c, i + 1)
CookieDecode(c) ==
    IF Len(c) >= 2 /\ c[1] = DQ /\ c[Len(c)] = DQ THEN CkFrom(SubSeq(c, 2, Len(c) - 1), 1) ELSE c

(* ------------------------------------------------------------------------ *)
(* Independent minimal head splitter: lines up to the first empty line.      *)
FindCRLF(w, i) ==              \* least j in i..i+9 with w[j..j+1] = CRLF, 0 if none (a chunk-size line is short)
    LET S == {j \in i..Min(Len(w) - 1, i + 9) : w[j] = 13 /\ w[j + 1] = 10}
    IN IF S = {} THEN 0 ELSE SetMin(S)

CRLFPositions(w) == {j \in 1..(Len(w) - 1) : w[j] = 13 /\ w[j + 1] = 10}     \* one pass over the bytes
NextIn(P, i) == LET S == {j \in P : j >= i} IN IF S = {} THEN 0 ELSE SetMin(S)

RECURSIVE HeadFrom(_, _, _, _)
HeadFrom(w, P, i, acc) ==
    LET j == NextIn(P, i) IN
    IF j = 0 THEN [ok |-> FALSE, lines |-> acc, body |-> Len(w) + 1]
    ELSE IF j = i THEN [ok |-> TRUE, lines |-> acc, body |-> j + 2]
    ELSE HeadFrom(w, P, j + 2, Append(acc, SubSeq(w, i, j - 1)))
\* .lines (without CRLF), .body = index of the first body byte.  Only CRLF pairs up to the first
\* empty line matter, so the scan stops being consulted there.
SplitHead(w) == HeadFrom(w, CRLFPositions(w), 1, <<>>)

IndexOfByte(q, x) == LET S == {k \in 1..Len(q) : q[k] = x} IN IF S = {} THEN 0 ELSE SetMin(S)
FieldName(line) == LET k == IndexOfByte(line, 58) IN IF k = 0 THEN line ELSE SubSeq(line, 1, k - 1)
FieldValue(line) ==
    LET k == IndexOfByte(line, 58) IN
    IF k = 0 THEN <<>>
    ELSE IF k + 1 <= Len(line) /\ line[k + 1] = 32 THEN SubSeq(line, k + 2, Len(line))
    ELSE SubSeq(line, k + 1, Len(line))

RECURSIVE DecNum(_, _, _)
DecNum(q, i, acc) == IF i > Len(q) THEN acc
                     ELSE IF ~IsDigit(q[i]) \/ acc > 100000000 THEN -2
                     ELSE DecNum(q, i + 1, 10 * acc + (q[i] - 48))
ParseDec(q) == IF q = <<>> THEN -2 ELSE DecNum(q, 1, 0)

NameContentLength == <<99, 111, 110, 116, 101, 110, 116, 45, 108, 101, 110, 103, 116, 104>>
NameTransferEncoding == <<116, 114, 97, 110, 115, 102, 101, 114, 45, 101, 110, 99, 111, 100, 105, 110, 103>>
ValChunked == <<99, 104, 117, 110, 107, 101, 100>>

\* values of all field lines (index >= 2) with the given lower-case name
FieldsNamed(lines, lname) ==
    LET idx == {k \in 2..Len(lines) : Len(lines[k]) > Len(lname) /\ lines[k][Len(lname) + 1] = 58
                                       /\ LowerSeq(SubSeq(lines[k], 1, Len(lname))) = lname}
    IN [k \in idx |-> FieldValue(lines[k])]

(* ------------------------------------------------------------------------ *)
(* Independent minimal chunked decoder (RFC 9112 7.1; the writer emits no     *)
(* extensions and no trailers, so none are accepted).                        *)
RECURSIVE HexNum(_, _, _)
HexNum(q, i, acc) == IF i > Len(q) THEN acc
                     ELSE IF HexVal(q[i]) < 0 \/ acc > 1000000 THEN -1
                     ELSE HexNum(q, i + 1, 16 * acc + HexVal(q[i]))

ChunkBad(acc, why) == [ok |-> FALSE, data |-> acc, last |-> FALSE, next |-> 0, why |-> why, n |-> 0]
RECURSIVE ChunkFrom(_, _, _, _)
ChunkFrom(w, i, acc, cnt) ==
    IF i > Len(w) THEN [ok |-> TRUE, data |-> acc, last |-> FALSE, next |-> i, why |-> "", n |-> cnt]
    ELSE LET j == FindCRLF(w, i) IN
         IF j = 0 \/ j = i THEN ChunkBad(acc, "size-line")
         ELSE LET n == HexNum(SubSeq(w, i, j - 1), 1, 0) IN
              IF n < 0 THEN ChunkBad(acc, "size-digits")
              ELSE IF n = 0 THEN
                   IF j + 3 <= Len(w) /\ w[j + 2] = 13 /\ w[j + 3] = 10
                   THEN [ok |-> TRUE, data |-> acc, last |-> TRUE, next |-> j + 4, why |-> "", n |-> cnt]
                   ELSE ChunkBad(acc, "last-chunk")
              ELSE IF j + 3 + n > Len(w) THEN ChunkBad(acc, "truncated")
              ELSE IF w[j + 2 + n] # 13 \/ w[j + 3 + n] # 10 THEN ChunkBad(acc, "chunk-crlf")
              ELSE ChunkFrom(w, j + 4 + n, acc \o SubSeq(w, j + 2, j + 1 + n), cnt + 1)
ChunkDecode(w) == ChunkFrom(w, 1, <<>>, 0)

(* ======================================================================== *)
(* Part (a): SerClause - the property on one recorded serialisation.         *)
(* Event fields:
     out      "refused" | "emitted"
     wire     bytes handed to the transport (or to the part writer)
     sup      the supplied string (code points)
     enc      "raw" | "pct" | "qs" | "cookie" | "ext" (charset''pct) | "unknown"
     line     1-based index of the head line that must carry the string
     pre,post bytes around the string on that line (scenario constants)
     unit     "head": wire is a message head; "body": wire is a part head inside a body
     nfields  number of field lines the scenario has with a harmless string
     body     bytes expected after the head (scenario constant)
     psize    unit "body": the size the multipart writer declared for wire (-1: none) *)
EncodedOK(e, mid) ==
    CASE e.enc = "raw"    -> mid = U8EncSeq(e.sup)
      [] e.enc = "pct"    -> PctDecode(mid) = U8EncSeq(e.sup)
      [] e.enc = "ext"    -> PctDecode(mid) = U8EncSeq(e.sup)
      [] e.enc = "qs"     -> QsDecode(U8Dec(mid)) = e.sup
      [] e.enc = "cookie" -> CookieDecode(U8Dec(mid)) = e.sup
      [] OTHER -> FALSE

SerClause(e) ==
    IF e.out = "refused"
    THEN (IF e.wire = <<>> THEN ""
          ELSE IF e.unit = "body" THEN "PartialBodyOnRefusal"   \* named deviation: part heads are validated lazily
          ELSE "PartialWriteOnRefusal")
    ELSE IF e.out # "emitted" THEN "UnknownOutcome"
    ELSE LET h == SplitHead(e.wire)
             raw == e.enc = "raw"
         IN
         IF raw /\ \E k \in 1..Len(e.sup) : e.sup[k] = 13 \/ e.sup[k] = 10 THEN "CRLFEmitted"
         ELSE IF ~h.ok THEN "HeadNotTerminated"
         ELSE IF \E k \in 1..Len(h.lines) : HasCRorLF(h.lines[k]) THEN "BareCRorLFInLine"
         ELSE IF Len(h.lines) # 1 + e.nfields THEN "LineCountChanged"
         ELSE IF e.line > Len(h.lines) THEN "LineCountChanged"
         ELSE LET ln == h.lines[e.line] IN
              IF ~StartsWith(ln, e.pre) \/ ~EndsWith(ln, e.post) \/ Len(ln) < Len(e.pre) + Len(e.post)
              THEN (IF raw THEN "LineNotAsSupplied" ELSE "EncodedFormUnrecognised")
              ELSE LET mid == SubSeq(ln, Len(e.pre) + 1, Len(ln) - Len(e.post)) IN
                   IF e.enc = "unknown" THEN "EncodedFormUnrecognised"
                   ELSE IF ~EncodedOK(e, mid) THEN (IF raw THEN "LineNotAsSupplied" ELSE "EncodedFormNotFaithful")
                   ELSE IF Drop(e.wire, h.body - 1) # e.body THEN "BytesAfterHead"
                   \* DeclaredEqualsActual for a body made of parts: the size the writer declared before
                   \* writing (MultipartWriter.size, -1 = none) is the number of bytes it then wrote
                   ELSE IF e.psize >= 0 /\ e.psize # Len(e.wire) THEN "PayloadSizeMismatch"
                   ELSE ""

(* Refinement table: what today's code does per class of code point.
   _safe_header (http_writer.py): refuse [\x00-\x08\x0a-\x1f\x7f]; the utf-8
   codec refuses surrogates; ClientRequest refuses non-token methods; cookie
   names must be http.cookies legal keys.                                     *)
Classes == {"CR", "LF", "NUL", "C0other", "DEL", "HT", "SP", "VCHAR", "COLON",
            "LATIN1", "BMP", "ASTRAL", "SURROGATE"}
Rep(c) == CASE c = "CR" -> 13 [] c = "LF" -> 10 [] c = "NUL" -> 0 [] c = "C0other" -> 1
            [] c = "DEL" -> 127 [] c = "HT" -> 9 [] c = "SP" -> 32 [] c = "VCHAR" -> 97
            [] c = "COLON" -> 58 [] c = "LATIN1" -> 233 [] c = "BMP" -> 8364
            [] c = "ASTRAL" -> 128512 [] c = "SURROGATE" -> 55296
RepSeq(cls) == [k \in 1..Len(cls) |-> Rep(cls[k])]

Positions == {"method", "target", "reason", "name", "value", "cookie-name", "cookie-value",
              "cookie-attr", "part-name", "part-value", "form-name", "form-filename", "content-type"}

SafeHeaderRefuses == {"CR", "LF", "NUL", "C0other", "DEL", "SURROGATE"}
TodayRefuses(pos) ==
    CASE pos = "method" -> Classes \ {"VCHAR"}
      [] pos = "cookie-name" -> Classes \ {"VCHAR", "COLON"}
      [] pos = "cookie-value" -> {"SURROGATE"}
      [] OTHER -> SafeHeaderRefuses
TodayEnc(pos) ==
    CASE pos = "cookie-value" -> "cookie"
      [] pos = "form-name" -> "qs"
      [] pos = "form-filename" -> "pct"
      [] OTHER -> "raw"

(* Reference serialiser (= _py_serialize_headers without the refusals): the
   bytes a head has when every supplied string is written as is.              *)
RECURSIVE JoinFields(_, _)
JoinFields(fs, i) == IF i > Len(fs) THEN <<>>
                     ELSE fs[i][1] \o COLONSP \o fs[i][2] \o CRLF \o JoinFields(fs, i + 1)
Serialize(start, fields) == start \o CRLF \o JoinFields(fields, 1) \o CRLF

(* ======================================================================== *)
(* Part (b): WriterOps.                                                      *)
None == -1
HexDigit(d) == IF d < 10 THEN 48 + d ELSE 87 + d
RECURSIVE HexBytes(_)
HexBytes(n) == IF n < 16 THEN <<HexDigit(n)>> ELSE HexBytes(n \div 16) \o <<HexDigit(n % 16)>>
Frame(d) == HexBytes(Len(d)) \o CRLF \o d \o CRLF
LastChunk == <<48, 13, 10, 13, 10>>

\* abstract compressor output unit j (the real zlib bytes are uninterpreted)
ZUnit(j) == 200 + (j % 50)
ZUnits(a, b) == [k \in 1..(b - a + 1) |-> ZUnit(a + k - 1)]      \* units a..b

WInit(ch, len, cz, head) ==
    [chunked |-> ch, length0 |-> len, length |-> len, compress |-> cz, head |-> head,
     hdr |-> "none", must |-> FALSE, eof |-> FALSE,
     app |-> <<>>,          \* bytes the application passed in so far
     fin |-> <<>>,          \* bytes handed to the framing layer (after compression)
     zin |-> 0, zout |-> 0, \* compressor: input bytes consumed, output units emitted
     wire |-> <<>>, nwr |-> 0, drains |-> 0]

\* calls the documented API allows in state s
WLegal(s, e) ==
    CASE e.op = "write_headers" -> s.hdr = "none"
      [] e.op = "send_headers" -> TRUE
      [] e.op = "write" -> s.hdr # "none" /\ ~s.eof
      [] e.op = "write_eof" -> s.hdr # "none"
      [] e.op = "set_eof" -> s.hdr # "none" /\ (s.eof \/ (s.compress => (s.zin = 0 /\ s.zout = 0)))   \* set_eof() does not flush a compressor
      [] e.op = "drain" -> TRUE
      [] OTHER -> FALSE

Emit(s, bytes) == [s EXCEPT !.wire = s.wire \o bytes, !.nwr = IF bytes = <<>> THEN 0 ELSE 1]

\* truncate a chunk to the declared length (http_writer.py write(): `if self.length is not None`)
Trunc(s, c) == IF s.length = None THEN c ELSE Take(c, s.length)
AfterTrunc(s, c) == IF s.length = None THEN s
                    ELSE [s EXCEPT !.length = IF s.length >= Len(c) THEN s.length - Len(c) ELSE 0]

(* Ref(s, e, mut): one public call.  e.k = number of units the compressor
   returns from this call (environment's choice).  mut names a seeded design
   error (""= the correct design) used by the self-test and to show that the
   invariants are not vacuous:
     "eof-no-trunc"  write_eof ignores the declared length          (today's code)
     "empty-chunk"   an empty write emits a zero-size chunk
     "hdr-twice"     send_headers() does not clear the buffer
     "no-last"       set_eof forgets the last-chunk when headers were sent *)
Ref(s, e, mut) ==
    LET s0 == [s EXCEPT !.nwr = 0] IN
    CASE e.op = "write_headers" -> [s0 EXCEPT !.hdr = "buf"]
      [] e.op = "send_headers" ->
            IF s.hdr = "buf"
            THEN [Emit(s0, s.head) EXCEPT !.hdr = IF mut = "hdr-twice" THEN "buf" ELSE "sent", !.must = TRUE]
            ELSE s0
      [] e.op = "drain" -> [s0 EXCEPT !.drains = s.drains + 1]
      [] e.op = "write" ->
            LET s1 == [s0 EXCEPT !.app = s.app \o e.data, !.zin = IF s.compress THEN s.zin + Len(e.data) ELSE s.zin]
                c1 == IF s.compress THEN ZUnits(s.zout + 1, s.zout + e.k) ELSE e.data
                s2 == [s1 EXCEPT !.fin = s1.fin \o c1, !.zout = IF s.compress THEN s.zout + e.k ELSE s.zout]
                c2 == Trunc(s2, c1)
                s3 == AfterTrunc(s2, c1)
                sd == IF e.big THEN [s3 EXCEPT !.drains = s3.drains + 1] ELSE s3
            IN
            IF s.compress /\ c1 = <<>> THEN s2
            ELSE IF s.length # None /\ c2 = <<>> /\ c1 # <<>> THEN s3      \* nothing left of the declared length
            ELSE IF s.hdr = "buf" THEN                                     \* fast path 1: headers + first data
                 [Emit(sd, s.head \o (IF c2 = <<>> THEN (IF mut = "empty-chunk" /\ s.chunked THEN Frame(c2) ELSE <<>>)
                                       ELSE IF s.chunked THEN Frame(c2) ELSE c2))
                      EXCEPT !.hdr = "sent", !.must = TRUE]
            ELSE IF c2 # <<>> THEN [Emit(sd, IF s.chunked THEN Frame(c2) ELSE c2) EXCEPT !.must = TRUE]
            ELSE IF mut = "empty-chunk" /\ s.chunked THEN Emit(sd, Frame(c2))
            ELSE s3
      [] e.op = "write_eof" ->
            IF s.eof THEN s0
            ELSE IF s.compress THEN
                LET zin1 == s.zin + Len(e.data)
                    total == zin1 + 2                        \* flush() always returns something
                    c1 == ZUnits(s.zout + 1, total)
                    s1 == [s0 EXCEPT !.app = s.app \o e.data, !.zin = zin1, !.zout = total,
                                     !.fin = s.fin \o c1, !.eof = TRUE, !.must = TRUE,
                                     !.drains = s.drains + 1]
                IN IF s.hdr = "buf"                           \* fast path 3: headers + compressed tail
                   THEN [Emit(s1, s.head \o (IF s.chunked THEN Frame(c1) \o LastChunk ELSE c1)) EXCEPT !.hdr = "sent"]
                   ELSE Emit(s1, IF s.chunked THEN Frame(c1) \o LastChunk ELSE c1)
            ELSE
                LET c1 == e.data
                    c2 == IF mut = "eof-no-trunc" THEN c1 ELSE Trunc(s0, c1)
                    s1 == [AfterTrunc(s0, c1) EXCEPT !.app = s.app \o c1, !.fin = s.fin \o c1,
                                                      !.eof = TRUE, !.must = TRUE]
                    tail == IF s.chunked THEN (IF c2 # <<>> THEN Frame(c2) ELSE <<>>) \o LastChunk ELSE c2
                    s2 == IF s.chunked \/ c2 # <<>> \/ s.hdr = "buf" THEN [s1 EXCEPT !.drains = s.drains + 1] ELSE s1
                IN IF s.hdr = "buf"                           \* fast path 2: headers + last data
                   THEN [Emit(s2, s.head \o tail) EXCEPT !.hdr = "sent"]
                   ELSE Emit(s2, tail)
      [] e.op = "set_eof" ->
            IF s.eof THEN s0
            ELSE IF s.hdr = "buf"                             \* fast path 4: headers + terminator
                 THEN [Emit(s0, s.head \o (IF s.chunked THEN LastChunk ELSE <<>>))
                          EXCEPT !.hdr = "sent", !.eof = TRUE, !.must = TRUE]
            ELSE [Emit(s0, IF s.chunked /\ mut # "no-last" THEN LastChunk ELSE <<>>) EXCEPT !.eof = TRUE, !.must = TRUE]
      [] OTHER -> s0

\* the entity bytes the framing layer must deliver, given what was handed to it
Expected(s) == IF s.length0 = None THEN s.fin ELSE Take(s.fin, s.length0)

(* WireClause(s, w, checkData): the property on the bytes w handed to the
   transport so far, s = reference state after the same calls.                *)
HdrClause(s, w) ==
    IF w = <<>> THEN (IF s.must THEN "HeadersMissing" ELSE "")
    ELSE IF s.hdr = "none" THEN "BytesBeforeHeaders"
    ELSE IF ~StartsWith(w, s.head) THEN "HeadersNotFirst"
    ELSE IF s.head # <<>> /\ StartsWith(Drop(w, Len(s.head)), s.head) THEN "HeadersTwice"
    ELSE ""

BodyClause(s, body, checkData) ==
    IF s.chunked THEN
        LET d == ChunkDecode(body) IN
        IF ~d.ok THEN "ChunkMalformed"
        ELSE IF d.last /\ ~s.eof THEN "PrematureLastChunk"
        ELSE IF d.last /\ d.next <= Len(body) THEN "DataAfterLastChunk"
        ELSE IF s.eof /\ ~d.last THEN "MissingLastChunk"
        ELSE IF checkData /\ d.data # Expected(s) THEN "ChunkedDataMismatch"
        ELSE ""
    ELSE IF ~checkData THEN ""
    ELSE IF body = Expected(s) THEN ""
    ELSE IF s.length0 # None /\ Len(body) > s.length0 THEN "LengthOverrun"
    ELSE "BodyDataMismatch"

WireClause(s, w, checkData) ==
    LET h == HdrClause(s, w) IN
    IF h # "" THEN h
    ELSE IF w = <<>> THEN (IF Expected(s) # <<>> /\ checkData THEN "BodyDataMismatch" ELSE "")
    ELSE BodyClause(s, Drop(w, Len(s.head)), checkData)

\* the invariants of the bounded model, one per clause family
HdrOnceFirst(s) == HdrClause(s, s.wire) = ""
ChunkedDecodes(s) == s.chunked => WireClause(s, s.wire, TRUE) = ""
LengthRespected(s) == (~s.chunked) => WireClause(s, s.wire, TRUE) = ""
\* a compressed stream is either untouched (set_eof without any data) or flushed completely
CompressComplete(s) == (s.compress /\ s.eof) => \/ (s.zin = 0 /\ s.zout = 0)
                                                \/ (s.zout = s.zin + 2 /\ Len(s.fin) = s.zout)
EofFramed(s) == (s.eof /\ s.chunked) => (s.wire # <<>> /\ ChunkDecode(Drop(s.wire, Len(s.head))).last)

(* ------------------------------------------------------------------------ *)
(* MsgClause(m): one complete message written through the high-level API.
   Fields:
     wire      all bytes handed to the transport
     role      "req" | "resp"
     bodyless  response to HEAD / 1xx / 204 / 304: no body allowed (RFC 9112 6.3)
     data      entity bytes the application supplied (before any compression)
     ulen      length the APPLICATION declared (-1: aiohttp declares the framing itself);
               then the entity is data cut to ulen
     z         TRUE: a content coding was applied; inflated = harness' one-shot inflate
               of its own de-framing, zlen = number of coded bytes it inflated
     psize     Payload.size as declared (-1 = None / no payload);
     pwritten  bytes the same payload wrote into a plain collecting writer
     pclass    payload class name (only used to name a deviation)                *)
MsgClause(m) ==
    LET h == SplitHead(m.wire) IN
    IF ~h.ok THEN "HeadNotTerminated"
    ELSE IF \E k \in 1..Len(h.lines) : HasCRorLF(h.lines[k]) THEN "BareCRorLFInLine"
    ELSE
    LET body == Drop(m.wire, h.body - 1)
        cls == FieldsNamed(h.lines, NameContentLength)
        tes == FieldsNamed(h.lines, NameTransferEncoding)
        te == \E k \in DOMAIN tes : LowerSeq(tes[k]) = ValChunked
        cl == IF DOMAIN cls = {} THEN None ELSE ParseDec(cls[SetMin(DOMAIN cls)])
        want == IF m.ulen >= 0 THEN Take(m.data, m.ulen) ELSE m.data
        entityOK(ent) == IF m.z THEN (m.zlen = Len(ent) /\ m.inflated = want) ELSE ent = want
    IN
    IF m.psize >= 0 /\ m.psize # Len(m.pwritten)
       THEN (IF m.pclass = "TextIOPayload" THEN "TextPayloadSizeMismatch"    \* named deviation
             ELSE "PayloadSizeMismatch")
    ELSE IF Cardinality(DOMAIN cls) > 1 \/ cl = -2 THEN "ContentLengthMalformed"
    ELSE IF Cardinality(DOMAIN tes) > 0 /\ ~te THEN "TransferEncodingUnknown"
    ELSE IF te /\ cl # None THEN "LengthAndChunkedBothDeclared"
    ELSE IF m.bodyless THEN (IF body # <<>> THEN "BodyOnBodylessResponse" ELSE "")
    ELSE IF te THEN
        LET d == ChunkDecode(body) IN
        IF ~d.ok THEN "ChunkMalformed"
        ELSE IF ~d.last THEN "MissingLastChunk"
        ELSE IF d.next <= Len(body) THEN "DataAfterLastChunk"
        ELSE IF ~entityOK(d.data) THEN "ChunkedDataMismatch"
        ELSE ""
    ELSE IF cl # None THEN
        \* a length the APPLICATION declared may be under-delivered by the application; it is
        \* never exceeded and what is sent is the prefix of the data (LengthRespected)
        IF (m.ulen < 0 /\ Len(body) = cl /\ entityOK(body)) \/ (m.ulen >= 0 /\ cl = m.ulen /\ entityOK(body)) THEN ""
        ELSE LET d == ChunkDecode(body) IN
             IF body # <<>> /\ d.ok /\ d.last /\ d.next > Len(body) /\ entityOK(d.data)
             THEN "ChunkFramingUnderContentLength"       \* named deviation (client chunked=False)
             ELSE IF Len(body) > cl /\ m.ulen >= 0 /\ Take(body, cl) = want
                  THEN (IF m.role = "resp" THEN "LengthOverrunAtEof"   \* named deviation (write_eof ignores length)
                        ELSE "LengthOverrun")                         \* a payload written past the cap it was given
             ELSE IF Len(body) # cl THEN "DeclaredLengthNotActual"
             ELSE "BodyDataMismatch"
    ELSE IF m.role = "req" THEN (IF body # <<>> THEN "UnframedRequestBody" ELSE IF want # <<>> THEN "BodyDataMismatch" ELSE "")
    ELSE IF ~entityOK(body) THEN "BodyDataMismatch"     \* close-delimited response
    ELSE ""
=============================================================================
