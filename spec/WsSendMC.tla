------------------------------ MODULE WsSendMC ------------------------------
(* Bounded instances of WsSend: programs of 2-3 concurrent senders.              *)
EXTENDS WsSend

CONSTANT ProgSel

D(size, ovr) == [op |-> "data", size |-> size, ovr |-> ovr, buf |-> 0]
DB(size, ovr, b) == [op |-> "data", size |-> size, ovr |-> ovr, buf |-> b]     \* from the caller's mutable buffer b
Ping == [op |-> "ping", size |-> "small", ovr |-> FALSE, buf |-> 0]
PingB(b) == [op |-> "ping", size |-> "small", ovr |-> FALSE, buf |-> b]
Close == [op |-> "close", size |-> "small", ovr |-> FALSE, buf |-> 0]

ProgDef ==
    CASE ProgSel = "mix3" ->
            [s \in Senders |-> CASE s = "a" -> <<D("large", FALSE), D("small", FALSE)>>
                                 [] s = "b" -> <<D("small", FALSE), Ping>>
                                 [] OTHER -> <<D("large", FALSE)>>]
      [] ProgSel = "ovr" ->
            [s \in Senders |-> CASE s = "a" -> <<D("small", FALSE), D("small", TRUE), D("small", FALSE)>>
                                 [] s = "b" -> <<D("large", TRUE), D("small", FALSE)>>
                                 [] OTHER -> <<Ping>>]
      [] ProgSel = "ovr2" ->     \* a large shared-context send in flight, small sends with and without override
            [s \in Senders |-> CASE s = "a" -> <<D("small", FALSE), D("large", FALSE)>>
                                 [] s = "b" -> <<D("small", TRUE), D("small", FALSE)>>
                                 [] OTHER -> <<D("small", FALSE), D("small", TRUE)>>]
      [] ProgSel = "rebuf" ->    \* the same mutable buffer sent twice (data and ping)
            [s \in Senders |-> CASE s = "a" -> <<DB("small", FALSE, 1), DB("small", FALSE, 1)>>
                                 [] s = "b" -> <<DB("large", FALSE, 2), D("small", FALSE)>>
                                 [] OTHER -> <<PingB(3), PingB(3)>>]
      [] ProgSel = "close" ->
            [s \in Senders |-> CASE s = "a" -> <<D("large", FALSE), D("small", FALSE)>>
                                 [] s = "b" -> <<Close, D("small", FALSE)>>
                                 [] OTHER -> <<D("small", FALSE), Ping>>]
      [] OTHER ->   \* "pair"
            [s \in Senders |-> CASE s = "a" -> <<D("large", FALSE), D("small", FALSE)>>
                                 [] OTHER -> <<D("small", FALSE), D("large", FALSE)>>]
=============================================================================
