------------------------------ MODULE WsSendMC ------------------------------
(* Bounded instances of WsSend: programs of 2-3 concurrent senders.              *)
EXTENDS WsSend

CONSTANT ProgSel

D(size, ovr) == [op |-> "data", size |-> size, ovr |-> ovr]
Ping == [op |-> "ping", size |-> "small", ovr |-> FALSE]
Close == [op |-> "close", size |-> "small", ovr |-> FALSE]

ProgDef ==
    CASE ProgSel = "mix3" ->
            [s \in Senders |-> CASE s = "a" -> <<D("large", FALSE), D("small", FALSE)>>
                                 [] s = "b" -> <<D("small", FALSE), Ping>>
                                 [] OTHER -> <<D("large", FALSE)>>]
      [] ProgSel = "ovr" ->
            [s \in Senders |-> CASE s = "a" -> <<D("small", FALSE), D("small", TRUE), D("small", FALSE)>>
                                 [] s = "b" -> <<D("large", TRUE), D("small", FALSE)>>
                                 [] OTHER -> <<Ping>>]
      [] ProgSel = "ovr2" ->     \* a large shared-context send in flight, small sends with and without override
            [s \in Senders |-> CASE s = "a" -> <<D("small", FALSE), D("large", FALSE)>>
                                 [] s = "b" -> <<D("small", TRUE), D("small", FALSE)>>
                                 [] OTHER -> <<D("small", FALSE), D("small", TRUE)>>]
      [] ProgSel = "close" ->
            [s \in Senders |-> CASE s = "a" -> <<D("large", FALSE), D("small", FALSE)>>
                                 [] s = "b" -> <<Close, D("small", FALSE)>>
                                 [] OTHER -> <<D("small", FALSE), Ping>>]
      [] OTHER ->   \* "pair"
            [s \in Senders |-> CASE s = "a" -> <<D("large", FALSE), D("small", FALSE)>>
                                 [] OTHER -> <<D("small", FALSE), D("large", FALSE)>>]
=============================================================================
