--------------------------- MODULE ClientPoolTrace ---------------------------
(* C07 - property monitor over executions recorded from the real BaseConnector.

   Every event carries an observation made by the harness from OUTSIDE the
   connector (no private attribute is consulted for the property clauses):
     st[t]    status of caller t:  new | spawned | waiting | creating | reusing | holding |
              done | failed | cancelled   (reusing = took an idle connection, still inside
              the reuseconn trace callback)
              (waiting = connect() started, still pending, and not inside
               _create_connection; creating = inside _create_connection)
     key[t]   endpoint of caller t
     idle     the event loop has no ready handle (quiescent)
     closed   connector.close() was called
     open     connections (by creator) whose transport is still open
     held[t]  creator of the connection caller t holds ("" if none)
     stale    connections that sat released in the pool when the harness let the clock run past
              keepalive_timeout (event "timepass") and have not been handed out since
   cfg: L (limit), Lh (limit_per_host).

   Clauses (C07):
     Limit          in use + being established <= L, and <= Lh per endpoint
     LostWake       quiescent, a caller waits although a slot it could use is free
                    (also catches leaked slots: the final probes of each execution
                     would have to wait for capacity that is not in use)
     CloseFails     after close(): no caller is left waiting, every connection is closed
     Transition     a caller's status changes only along the connect() life cycle
   Refinement clause (reported as DRIFT, it is not part of C07):
     StaleReuse     a caller is handed a connection whose keep-alive time had run out         *)
EXTENDS Naturals, Sequences, FiniteSets, TLC, TraceBatch

VARIABLES tid, l, prev, bad

tvars == <<tid, l, prev, bad>>

Names(o) == DOMAIN o.st
InUse(o) == {t \in Names(o) : o.st[t] \in {"creating", "holding", "reusing"}}
InUseK(o, k) == {t \in InUse(o) : o.key[t] = k}
KeysOf(o) == {o.key[t] : t \in Names(o)}

Min(a, b) == IF a < b THEN a ELSE b
AvailObs(o, c, k) ==
    LET total == IF c.L > 0 THEN c.L - Cardinality(InUse(o)) ELSE 1 IN
    IF c.L > 0 /\ total <= 0 THEN total
    ELSE IF c.Lh > 0 THEN Min(total, c.Lh - Cardinality(InUseK(o, k))) ELSE total

Legal == {<<"new", "spawned">>, <<"spawned", "waiting">>, <<"spawned", "creating">>,
          <<"spawned", "holding">>, <<"spawned", "cancelled">>, <<"spawned", "failed">>,
          <<"waiting", "creating">>, <<"waiting", "holding">>, <<"waiting", "cancelled">>,
          <<"waiting", "failed">>, <<"creating", "holding">>, <<"creating", "failed">>,
          <<"creating", "cancelled">>, <<"holding", "done">>,
          <<"spawned", "reusing">>, <<"waiting", "reusing">>, <<"reusing", "holding">>,
          <<"reusing", "cancelled">>, <<"reusing", "failed">>}

Clause(p, e, c) ==
    LET o == e.obs
        \* the step that took the count over the limit was connect()'s fast path: a caller
        \* went straight from "spawned" to "holding" by reusing an idle pooled connection
        reuse == \E t \in Names(o) : p.st[t] = "spawned" /\ o.st[t] \in {"holding", "reusing"}
        pOver == c.L > 0 /\ Cardinality(InUse(p)) > c.L
        pOverK == c.Lh > 0 /\ \E k \in KeysOf(p) : Cardinality(InUseK(p, k)) > c.Lh
    IN
    IF ~o.closed /\ c.L > 0 /\ Cardinality(InUse(o)) > c.L
       THEN (IF reuse /\ ~pOver THEN "LimitOnReuse" ELSE "Limit")
    ELSE IF ~o.closed /\ c.Lh > 0 /\ \E k \in KeysOf(o) : Cardinality(InUseK(o, k)) > c.Lh
       THEN (IF reuse /\ ~pOverK THEN "LimitPerHostOnReuse" ELSE "LimitPerHost")
    ELSE IF o.idle /\ ~o.closed /\ \E t \in Names(o) : o.st[t] = "waiting" /\ AvailObs(o, c, o.key[t]) >= 1
         THEN "LostWake"
    ELSE IF o.closed /\ o.idle /\ \E t \in Names(o) : o.st[t] = "waiting" /\ p.st[t] = "waiting" /\ ~p.closed
         THEN "CloseLeavesWaiter"
    ELSE IF o.closed /\ o.idle /\ ~p.closed /\ o.open # <<>> THEN "CloseLeavesConnectionOpen"
    ELSE IF \E t \in Names(o) : p.st[t] # o.st[t] /\ <<p.st[t], o.st[t]>> \notin Legal THEN "Transition"
    ELSE IF \E t \in Names(o) : o.held[t] # "" /\ p.held[t] # o.held[t]
                                 /\ \E i \in 1..Len(p.stale) : p.stale[i] = o.held[t] THEN "StaleReuse"
    ELSE ""

TInit ==
    /\ tid \in 1..NTraces
    /\ l = 0
    /\ prev = Cfg(tid).init
    /\ bad = ""
    /\ Verdict(tid, 0, "", <<>>)

TNext ==
    /\ bad = ""
    /\ l < NEvents(tid)
    /\ LET e == Events(tid)[l + 1]
           b == Clause(prev, e, Cfg(tid))
           l2 == IF b = "" THEN l + 1 ELSE l
       IN /\ bad' = b
          /\ l' = l2
          /\ prev' = e.obs
          /\ UNCHANGED tid
          /\ Verdict(tid, l2, b, <<>>)

TSpec == TInit /\ [][TNext]_tvars
=============================================================================
