SPECIFICATION TSpec
CONSTANTS
  DomainFirst = TRUE
POSTCONDITION PrintVerdicts
CHECK_DEADLOCK FALSE
