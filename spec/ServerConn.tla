------------------------------ MODULE ServerConn ------------------------------
(* C05 - one aiohttp server connection (aiohttp/web_protocol.py RequestHandler +
   the HttpRequestParser queue limit of http_parser.py + BaseProtocol flow control).

   Implementation-shaped model.  The peer sends a stream of abstract items; each item
   is a sequence of pieces (head, body units, chunked terminator).  The network hands
   pieces to the transport in segments; the transport calls data_received unless reading
   is paused (then the segment waits in the transport like in a socket buffer).

   asyncio is modelled by an explicit FIFO ready queue of handles; a handle runs to
   completion before anything else happens: Step pops the head and runs it, the micro
   actions (cpu # "idle") are the continuation of the handle being run - no stimulus and
   no other handle can interleave with them.  Stimuli (deliveries, peer disconnect, gate
   opening, write back-pressure) are I/O handles appended at a loop-iteration boundary
   (iter = 0), timers fire only when nothing is ready (DESIGN 3.1 schedule realism).
   Tasks are eager (Python >= 3.12): the per-request handler task runs inside start()'s
   step until its first suspension.

   c  is the connection: fields mirror the attributes of the code
        parser:    ppos (pieces consumed), inFlight (_msg_in_flight), pmode, pOpen, dirty
                   pieces ppos+1..dpos are the withheld tail (parser._tail when the queue is
                   full, RequestHandler._message_tail after an upgrade)
        protocol:  messages (FIFO; 0 = _ErrInfo), qPaused (_msg_queue_paused), rPaused
                   (_reading_paused), waiter, close, fclose, keepalive, kaTimer, kaClose
        transport: npos, dpos, inbox, tPaused, tClosing, tLost, wPaused
        tasks:     spc (start()), hid/hbeh/hpc/hres (handler task), cur, pwait
        loop:      ready, iter, cpu, now
        outcome:   escaped, wOpen/wLast/wErr/wireBad (summary of wire), sawBad

   Constants that select the design:
     MapPoisonP = TRUE   a request-target for which URL construction raises ValueError is
                         rejected like any malformed request line (400)       [ideal]
                = FALSE  the ValueError leaves feed_data and data_received     [as coded]
     GuardFactory = TRUE a request whose construction raises in start() is answered 400 and
                         the connection closed                                  [ideal]
                  = FALSE start() dies outside its try                         [as coded]
     PoisonFAtParser = TRUE  alternative repair: such a target is already rejected by the parser
     LateUpgradeReset = TRUE an upgrade request with a body that was answered (declined) before its
                         body was complete: when the deferred upgrade takes effect afterwards,
                         start() hands the buffered tail back to the parser           [ideal]
                      = FALSE nobody switches the parser back: later requests are buffered in
                         _message_tail for ever                                        [as coded]
     GuardHXOutput = TRUE  a handler that raises an HTTPException after it has started a response:
                         like handle_error(), no second response is written; the connection
                         is closed                                                    [ideal]
                   = FALSE the HTTPException's response is written behind the started one and
                         the connection kept alive                                    [as coded]
     ResumeOnPop = FALSE is a spec-level mutant (queue never resumed) used by the self-test *)
EXTENDS Integers, Sequences, FiniteSets, TLC

CONSTANTS Alphabet, MaxItems, Cap, ResumeAt, HW, Behaviours, Timers, MaxDisc, MaxWPause,
          MapPoisonP, GuardFactory, PoisonFAtParser, LateUpgradeReset, GuardHXOutput, ResumeOnPop, KA, LG

VARIABLES items, c, wire

vars == <<items, c, wire>>

Ids == 1..MaxItems
SmallBuf == HW < 9          \* read_bufsize so small that any buffered piece reaches it

(* ------------------------------------------------------------------ pieces *)
NPc(it) == IF it.kind \in {"bad", "junk"} THEN 1 ELSE 1 + it.body + (IF it.chunked THEN 1 ELSE 0)

RECURSIVE NPFrom(_, _)
NPFrom(its, i) == IF i > Len(its) THEN 0 ELSE NPc(its[i]) + NPFrom(its, i + 1)
NP == NPFrom(items, 1)

RECURSIVE Locate(_, _)
Locate(n, i) == IF n <= NPc(items[i]) THEN <<i, n - 1>> ELSE Locate(n - NPc(items[i]), i + 1)
\* piece n (1-based) = <<item index, k>>, k = 0 head, 1..body units, body+1 chunked terminator

HasBody(i) == NPc(items[i]) > 1
PayloadOpen(s, i) == i > 0 /\ ((HasBody(i) /\ i \notin s.beof) \/ items[i].kind = "connect")

(* ------------------------------------------------------------------ init *)
Conn0 ==
    [npos |-> 0, dpos |-> 0, inbox |-> <<>>, tPaused |-> FALSE, tClosing |-> FALSE, tLost |-> FALSE,
     wPaused |-> FALSE, nDisc |-> 0, nWP |-> 0,
     ppos |-> 0, inFlight |-> 0, pmode |-> "line", pOpen |-> 0, dirty |-> FALSE,
     unread |-> [i \in Ids |-> 0], beof |-> {}, pexc |-> {}, pwait |-> "none",
     messages |-> <<>>, qPaused |-> FALSE, rPaused |-> FALSE, waiter |-> "pending",
     close |-> FALSE, fclose |-> FALSE, keepalive |-> FALSE, kaTimer |-> 0, kaClose |-> 0,
     spc |-> "wait", cur |-> 0, curErr |-> FALSE, lingDl |-> 0, lgTimer |-> 0, lgFired |-> FALSE,
     hid |-> 0, hbeh |-> "none", hpc |-> "none", hres |-> "none", hka |-> FALSE, hst |-> 0,
     hopen |-> FALSE, eager |-> FALSE, goPending |-> FALSE,
     ready |-> <<>>, iter |-> 0, cpu |-> "idle", now |-> 0,
     escaped |-> "no", sawBad |-> FALSE, lateUp |-> FALSE, hxDev |-> FALSE,
     wOpen |-> 0, wIsOpen |-> FALSE, wLast |-> 0, wErr |-> FALSE, wireBad |-> FALSE,
     out |-> <<>>, sc |-> FALSE, raised |-> "no", wq |-> <<>>, exc |-> FALSE,
     hb |-> [i \in Ids |-> "none"]]

RECURSIVE SeqsUpTo(_)
SeqsUpTo(n) == IF n = 0 THEN {<<>>}
               ELSE LET S == SeqsUpTo(n - 1) IN S \cup {Append(s, a) : s \in {x \in S : Len(x) = n - 1}, a \in Alphabet}

Init ==
    /\ items \in (SeqsUpTo(MaxItems) \ {<<>>})
    /\ c = Conn0
    /\ wire = <<>>

(* ------------------------------------------------------------------ helpers on a connection record *)
E(e, n) == [e |-> e, n |-> n]
Sched(s, e) == [s EXCEPT !.ready = Append(@, E(e, 0))]
InReady(s, e) == \E k \in 1..Len(s.ready) : s.ready[k].e = e

Writable(s) == ~s.fclose /\ ~s.tClosing         \* protocol.transport is not None and not closing

\* append to the wire; keeps the summary InOrderOnce is stated on
WS(s, id, st) ==       \* first byte of a response
    [s EXCEPT !.wq = Append(@, [t |-> "S", id |-> id, st |-> st]),
              !.wireBad = @ \/ s.wIsOpen \/ s.wErr \/ (id # 0 /\ id <= s.wLast),
              !.wIsOpen = TRUE, !.wOpen = id, !.wLast = IF id # 0 THEN id ELSE @]
WB(s, id) == [s EXCEPT !.wq = Append(@, [t |-> "B", id |-> id, st |-> 0]),
                       !.wireBad = @ \/ ~s.wIsOpen \/ s.wOpen # id]
WE(s, id) == [s EXCEPT !.wq = Append(@, [t |-> "E", id |-> id, st |-> 0]),
                       !.wireBad = @ \/ ~s.wIsOpen \/ s.wOpen # id,
                       !.wIsOpen = FALSE, !.wErr = @ \/ id = 0]

TPause(s) == IF s.fclose THEN s ELSE [s EXCEPT !.tPaused = TRUE]       \* transport.pause_reading()
TResume(s) ==                                                           \* transport.resume_reading()
    IF s.fclose \/ ~s.tPaused THEN s
    ELSE LET s1 == [s EXCEPT !.tPaused = FALSE]
         IN IF s1.inbox # <<>> THEN Sched(s1, "drain") ELSE s1

\* RequestHandler._pause_msg_queue_reading
PauseQ(s) == TPause([s EXCEPT !.qPaused = TRUE])

\* the reader of the open payload is woken (StreamReader.feed_data / feed_eof: set_result(waiter))
WakeReader(s) ==
    IF s.pwait = "h" THEN Sched([s EXCEPT !.pwait = "none"], "h")
    ELSE IF s.pwait = "start" THEN Sched([s EXCEPT !.pwait = "none", !.lgTimer = 0], "start")
    ELSE s

\* StreamReader.feed_data(n units) into payload i: buffer, wake, pause above high water
FeedPayload(s, i, n) ==
    LET s1 == IF n > 0 THEN WakeReader([s EXCEPT !.unread[i] = @ + n]) ELSE s
        \* request.read() raised the payload's water marks (set_read_chunk_size(sys.maxsize))
        unlimited == s.cur = i /\ s.hid = i /\ s.hbeh = "read" /\ s.hpc = "rd"
    IN IF n > 0 /\ s1.unread[i] > HW /\ ~s1.rPaused /\ ~unlimited
       THEN TPause([s1 EXCEPT !.rPaused = TRUE])         \* BaseProtocol.pause_reading()
       ELSE s1

\* StreamReader.feed_eof(): wake, then protocol.resume_reading(resume_parser=False)
EofPayload(s, i) ==
    LET s1 == WakeReader([s EXCEPT !.beof = @ \cup {i}, !.rPaused = FALSE])
    IN IF ~s1.qPaused THEN TResume(s1) ELSE s1

(* ------------------------------------------------------------------ HttpRequestParser.feed_data *)
\* parse pieces ppos+1..hi; call-local: out (messages), raised; sc = parser._seen_close (a closing
\* message was emitted: any further line is "Data after Connection: close", in whatever call it arrives)
RECURSIVE Parse(_, _)
Parse(s, hi) ==
    IF s.ppos >= hi \/ s.raised # "no" THEN s
    ELSE
    LET loc == Locate(s.ppos + 1, 1)
        i == loc[1]
        k == loc[2]
        it == items[i]
        RaiseBad == [s EXCEPT !.raised = "bad", !.ppos = hi, !.dirty = FALSE, !.out = <<>>]
    IN
    CASE s.pmode = "line" ->
           IF s.inFlight >= Cap THEN s                               \* queue full: rest stays in _tail
           ELSE IF it.kind = "junk" THEN Parse([s EXCEPT !.ppos = @ + 1, !.dirty = TRUE], hi)
           ELSE IF k # 0 \/ it.kind = "bad" \/ s.dirty \/ s.sc THEN RaiseBad
           ELSE IF it.kind = "poisonF" /\ PoisonFAtParser THEN RaiseBad
           ELSE IF it.kind = "poisonP" THEN
                (IF MapPoisonP THEN RaiseBad
                 ELSE [s EXCEPT !.raised = "esc", !.ppos = hi, !.out = <<>>])
           ELSE IF it.kind = "upgrade" /\ NPc(it) = 1 THEN
                [s EXCEPT !.out = Append(@, i), !.inFlight = @ + 1, !.ppos = @ + 1, !.pmode = "upg"]
           ELSE IF it.kind = "connect" THEN
                \* CONNECT: the rest of this call is fed to the tunnel payload
                FeedPayload([s EXCEPT !.out = Append(@, i), !.inFlight = @ + 1, !.ppos = hi,
                                      !.pmode = "conn", !.pOpen = i], i, hi - s.ppos - 1)
           ELSE Parse([s EXCEPT !.out = Append(@, i), !.inFlight = @ + 1, !.ppos = @ + 1,
                                !.sc = (it.ka = "close"),
                                !.pmode = IF NPc(it) > 1 THEN "body" ELSE "line",
                                !.pOpen = IF NPc(it) > 1 THEN i ELSE 0], hi)
      [] s.pmode = "body" ->
           LET last == (k = NPc(it) - 1)
               data == ~(it.chunked /\ last)
               s1 == [s EXCEPT !.ppos = @ + 1]
               s2 == IF data THEN FeedPayload(s1, i, 1) ELSE s1
               \* an upgrade request with a body: the upgrade takes effect when the body is complete
               \* finish_response() of this request has already passed its decline check: the handler task
               \* is done (lingering read) or parked in drain() behind the written response
               answered == s.cur = i /\ (s.hid = 0 \/ s.hpc = "drain")
               s3 == IF last THEN EofPayload([s2 EXCEPT !.pmode = IF it.kind = "upgrade" THEN "upg" ELSE "line",
                                                        !.lateUp = @ \/ (it.kind = "upgrade" /\ answered),
                                                        !.pOpen = 0], i) ELSE s2
           IN Parse(s3, hi)
      [] s.pmode \in {"conn", "tun"} ->
           FeedPayload([s EXCEPT !.ppos = hi], s.pOpen, hi - s.ppos)
      [] OTHER -> s                                                  \* "upg": parser does not look

(* ------------------------------------------------------------------ RequestHandler.data_received *)
DataReceived(s0, hi) ==
    LET s == [s0 EXCEPT !.dpos = hi] IN
    IF s.fclose \/ s.close THEN s
    ELSE IF s.pmode \in {"upg", "conn"} THEN                          \* self._upgraded: keep in _message_tail
         (IF hi > s0.dpos /\ ~s.qPaused /\ SmallBuf THEN PauseQ(s) ELSE s)
    ELSE
    LET p == Parse([s EXCEPT !.out = <<>>, !.raised = "no"], hi)
        clean == [p EXCEPT !.out = <<>>, !.raised = "no"]
    IN
    IF p.raised = "esc" THEN
         \* ValueError leaves data_received; the transport reports a fatal error and aborts
         \* (when data_received(b"") was called from start() / a read, the exception goes up that stack)
         IF s.cpu # "idle" THEN [clean EXCEPT !.exc = TRUE]
         ELSE LET a == [clean EXCEPT !.escaped = "dr"] IN
              IF a.tClosing THEN a ELSE Sched([a EXCEPT !.tClosing = TRUE, !.inbox = <<>>], "connlost")
    ELSE
    LET msgs == IF p.raised = "bad" THEN <<0>> ELSE p.out
        s1 == [clean EXCEPT !.messages = @ \o msgs, !.sawBad = @ \/ p.raised = "bad"]
        s2 == IF msgs # <<>> /\ s1.spc = "wait" /\ s1.waiter = "pending"
              THEN Sched([s1 EXCEPT !.waiter = "done"], "start") ELSE s1
    IN IF ~s2.qPaused /\ Len(s2.messages) >= Cap THEN PauseQ(s2) ELSE s2

\* BaseProtocol.resume_reading(resume_parser)
ResumeReading(s, parser) ==
    LET s1 == [s EXCEPT !.rPaused = FALSE]
        s2 == IF parser /\ s1.pmode \notin {"upg", "conn"} THEN DataReceived(s1, s1.dpos) ELSE s1
    IN IF s2.exc THEN s2 ELSE IF ~s2.rPaused /\ ~s2.qPaused THEN TResume(s2) ELSE s2

\* RequestHandler._resume_msg_queue_reading
ResumeQ(s) ==
    IF s.pmode \in {"upg", "conn"} /\ s.dpos > s.ppos /\ SmallBuf THEN s
    ELSE LET s1 == IF s.pmode \notin {"upg", "conn"} THEN DataReceived(s, s.dpos) ELSE s
         IN IF s1.exc \/ (s.pmode \notin {"upg", "conn"} /\ Len(s1.messages) >= Cap) THEN s1
            ELSE LET s2 == [s1 EXCEPT !.qPaused = FALSE]
                 IN IF ~s2.rPaused THEN TResume(s2) ELSE s2

\* payload.readany() with a non-empty buffer: take everything; _read_nowait_chunk -> resume_reading()
ReadAny(s, i) == ResumeReading([s EXCEPT !.unread[i] = 0], TRUE)

\* force_close()
ForceClose(s) ==
    LET s1 == [s EXCEPT !.fclose = TRUE]
        s2 == IF s1.spc = "wait" /\ s1.waiter = "pending"
              THEN Sched([s1 EXCEPT !.waiter = "cancelled"], "start") ELSE s1
    IN IF ~s.fclose /\ ~s2.tClosing THEN Sched([s2 EXCEPT !.tClosing = TRUE], "connlost") ELSE s2

\* the upgrade was declined (or CONNECT answered): switch the parser back and hand the buffered tail
\* (RequestHandler._message_tail) back to it; result has exc = TRUE if an exception left the parser
DeclineUpgrade(s) ==
    IF s.pmode \in {"upg", "conn"} /\ s.messages = <<>> /\ ~s.tLost
    THEN LET u == [s EXCEPT !.pmode = IF s.pmode = "upg" THEN "line" ELSE "tun", !.lateUp = FALSE] IN
         IF u.dpos > u.ppos
         THEN LET p == Parse([u EXCEPT !.out = <<>>, !.raised = "no"], u.dpos)
                  clean == [p EXCEPT !.out = <<>>, !.raised = "no"]
                  msgs == IF p.raised = "bad" THEN <<0>> ELSE p.out
                  q == [clean EXCEPT !.messages = @ \o msgs, !.sawBad = @ \/ p.raised = "bad"]
                  q2 == IF Len(q.messages) >= Cap THEN PauseQ(q)
                        ELSE IF q.qPaused THEN ResumeQ(q) ELSE q
              IN IF p.raised = "esc" THEN [clean EXCEPT !.exc = TRUE] ELSE q2
         ELSE u
    ELSE s

(* ------------------------------------------------------------------ transport side *)
\* transport.feed(segment of n pieces)
Feed(s, n) ==
    IF s.tClosing \/ s.tLost THEN s
    ELSE IF s.tPaused \/ s.inbox # <<>> THEN [s EXCEPT !.inbox = Append(@, n)]
    ELSE DataReceived(s, s.dpos + n)

RECURSIVE Drain(_)
Drain(s) ==
    IF s.inbox = <<>> \/ s.tPaused \/ s.tClosing \/ s.tLost THEN s
    ELSE Drain(DataReceived([s EXCEPT !.inbox = Tail(@)], s.dpos + Head(s.inbox)))

InHandlerCode(s) == s.hid # 0 /\ s.hpc \in {"gate", "sgate", "rd", "never"}   \* _current_request is set

ConnLost(s) ==
    IF s.tLost THEN s
    ELSE
    LET s1 == ForceClose([s EXCEPT !.tLost = TRUE, !.tClosing = TRUE, !.inbox = <<>>])
        s2 == [s1 EXCEPT !.kaTimer = 0]
        s3 == IF InHandlerCode(s2) /\ s2.cur > 0          \* request._cancel(exc): payload.set_exception
              THEN WakeReader([s2 EXCEPT !.pexc = @ \cup {s2.cur}]) ELSE s2
    IN IF s3.hid # 0 /\ s3.hpc = "drain" /\ ~InReady(s3, "h") THEN Sched(s3, "h") ELSE s3   \* BaseProtocol wakes the drain waiter

ProcessKeepalive(s) ==
    LET s1 == [s EXCEPT !.kaTimer = 0] IN
    IF s1.fclose \/ ~s1.keepalive THEN s1
    ELSE IF s1.now < s1.kaClose THEN [s1 EXCEPT !.kaTimer = s1.kaClose]
    ELSE IF s1.spc = "wait" /\ s1.waiter = "pending" THEN ForceClose(s1)
    ELSE s1

(* ------------------------------------------------------------------ actions *)
Commit(s) == /\ c' = [s EXCEPT !.wq = <<>>]
             /\ wire' = wire \o s.wq
             /\ UNCHANGED items

Idle == c.cpu = "idle"
Boundary == Idle /\ c.iter = 0

\* one loop step: pop the head handle and run it (or start running it)
Step ==
    /\ Idle /\ c.ready # <<>>
    /\ LET e == Head(c.ready)
           s == [c EXCEPT !.ready = Tail(@), !.iter = IF c.iter = 0 THEN Len(c.ready) - 1 ELSE c.iter - 1]
       IN
       CASE e.e = "dr" -> Commit(Feed(s, e.n))
         [] e.e = "disc" -> Commit(IF s.tLost THEN s         \* transport.drop(): even if already closing
                                   ELSE Sched([s EXCEPT !.tClosing = TRUE, !.inbox = <<>>], "connlost"))
         [] e.e = "connlost" -> Commit(ConnLost(s))
         [] e.e = "drain" -> Commit(Drain(s))
         [] e.e = "go" -> Commit(IF s.hid # 0 /\ s.hpc \in {"gate", "sgate"} /\ ~s.hopen
                                 THEN Sched([s EXCEPT !.hopen = TRUE, !.goPending = FALSE], "h")
                                 ELSE [s EXCEPT !.goPending = FALSE])
         [] e.e = "wp" -> Commit([s EXCEPT !.wPaused = ~s.tClosing])
         [] e.e = "wr" -> Commit(IF s.wPaused /\ ~s.tLost /\ s.hid # 0 /\ s.hpc = "drain" /\ ~InReady(s, "h")
                                 THEN Sched([s EXCEPT !.wPaused = FALSE], "h")
                                 ELSE [s EXCEPT !.wPaused = FALSE])
         [] e.e = "t_ka" -> Commit(ProcessKeepalive(s))
         [] e.e = "t_lg" ->       \* asyncio.timeout fires: cancels the lingering read
              Commit(IF s.spc = "linger" /\ s.pwait = "start"
                     THEN Sched([s EXCEPT !.pwait = "none", !.lgFired = TRUE], "start") ELSE s)
         [] e.e = "start" ->
              (CASE s.spc = "wait" ->
                      IF s.waiter = "cancelled"
                      THEN Commit([s EXCEPT !.spc = "cancelled", !.waiter = "none"])   \* CancelledError leaves start()
                      ELSE Commit([s EXCEPT !.waiter = "none", !.cpu = "s_pop"])
                 [] s.spc = "await_h" -> Commit([s EXCEPT !.cpu = "s_after"])
                 [] s.spc = "linger" -> Commit([s EXCEPT !.cpu = IF s.lgFired THEN "s_ling" ELSE "s_lingw"])
                 [] OTHER -> Commit(s))
         [] e.e = "h" -> Commit([s EXCEPT !.cpu = "h_run"])
         [] OTHER -> Commit(s)

(* ---- start() *)
SuspendHandler(s, pc) ==        \* the handler task awaits; if it was running eagerly, start() awaits the task
    IF s.eager THEN [s EXCEPT !.hpc = pc, !.eager = FALSE, !.spc = "await_h", !.cpu = "idle"]
    ELSE [s EXCEPT !.hpc = pc, !.cpu = "idle"]

STop ==      \* while not self._force_close: if not self._messages: await waiter
    /\ c.cpu = "s_top"
    /\ Commit(IF c.fclose THEN [c EXCEPT !.cpu = "s_exit"]
              ELSE IF c.messages = <<>> THEN [c EXCEPT !.spc = "wait", !.waiter = "pending", !.cpu = "idle"]
              ELSE [c EXCEPT !.cpu = "s_pop"])

SPop ==      \* popleft; message_consumed; resume at the low-water mark; request factory; handler task
    /\ c.cpu = "s_pop"
    /\ LET m == Head(c.messages)
           s1 == [c EXCEPT !.messages = Tail(@),
                           !.inFlight = IF ~c.tLost /\ @ > 0 THEN @ - 1 ELSE @]
           s2 == IF ResumeOnPop /\ s1.qPaused /\ Len(s1.messages) <= ResumeAt THEN ResumeQ(s1) ELSE s1
           poison == m > 0 /\ items[m].kind = "poisonF"
       IN IF s2.exc \/ (poison /\ ~GuardFactory)        \* exception out of start(), outside its try
          THEN Commit([s2 EXCEPT !.spc = "dead", !.cpu = "idle", !.escaped = "task", !.cur = m, !.exc = FALSE])
          ELSE Commit([s2 EXCEPT !.spc = "run", !.cur = m, !.curErr = (m = 0 \/ poison), !.hid = IF m = 0 THEN 99 ELSE m,
                                 !.hpc = "enter", !.hres = "none", !.hopen = FALSE, !.eager = TRUE,
                                 !.cpu = "h_enter"])

SExit ==     \* if not force_close: transport.close()
    /\ c.cpu = "s_exit"
    /\ Commit(LET s == [c EXCEPT !.spc = "done", !.cpu = "idle"]
              IN IF ~s.fclose /\ ~s.tClosing THEN Sched([s EXCEPT !.tClosing = TRUE], "connlost") ELSE s)

Post(s) ==   \* after the lingering read: close() if the body is still incomplete; keep-alive decision
    \* start() calls _decline_upgrade() after every request (it is a no-op unless the connection is in
    \* upgraded state with nothing queued and nobody accepted the upgrade)
    LET s0 == IF LateUpgradeReset THEN DeclineUpgrade(s) ELSE s
        s1 == IF PayloadOpen(s0, s0.cur) /\ ~s0.fclose THEN [s0 EXCEPT !.close = TRUE] ELSE s0
    IN IF s1.exc THEN [ForceClose([s1 EXCEPT !.exc = FALSE]) EXCEPT !.cpu = "s_exit"]
       ELSE IF s1.keepalive /\ ~s1.close /\ ~s1.fclose
       THEN [s1 EXCEPT !.kaClose = s1.now + KA,
                       !.kaTimer = IF @ = 0 /\ Timers THEN s1.now + KA ELSE @,
                       !.cpu = "s_top"]
       ELSE [s1 EXCEPT !.cpu = "s_exit"]

SAfter ==    \* resp, reset = await task
    /\ c.cpu = "s_after"
    /\ LET s == [c EXCEPT !.spc = "run"] IN
       Commit(IF s.hres = "connerr" \/ s.hres = "reset" THEN [s EXCEPT !.cpu = "s_exit"]
              ELSE IF s.hres = "unhandled" THEN [ForceClose(s) EXCEPT !.cpu = "s_exit"]
              ELSE LET s1 == [s EXCEPT !.keepalive = s.hka] IN
                   IF PayloadOpen(s1, s1.cur) /\ ~s1.fclose
                   THEN [s1 EXCEPT !.lingDl = s1.now + LG, !.lgFired = FALSE, !.cpu = "s_ling"]
                   ELSE Post(s1))

SLing ==     \* while not payload.is_eof() and now < end_t: await payload.readany() under a timeout
    /\ c.cpu = "s_ling"
    /\ LET s == [c EXCEPT !.spc = "run"] IN
       Commit(IF s.lgFired \/ ~PayloadOpen(s, s.cur) \/ s.now >= s.lingDl THEN Post([s EXCEPT !.lgFired = FALSE])
              ELSE IF s.unread[s.cur] > 0 THEN
                   LET r == ReadAny(s, s.cur) IN
                   IF r.exc THEN [ForceClose([r EXCEPT !.exc = FALSE]) EXCEPT !.cpu = "s_exit"]   \* except Exception: force_close()
                   ELSE r                                                       \* loops: cpu stays s_ling
              ELSE IF s.fclose THEN [ForceClose(s) EXCEPT !.cpu = "s_exit"]  \* _wait(): "Connection closed."
              ELSE [s EXCEPT !.spc = "linger", !.pwait = "start",
                             !.lgTimer = IF Timers THEN s.lingDl ELSE 0, !.cpu = "idle"])

SLingWake == \* the pending payload.readany() was woken by data / EOF: it returns what is buffered first
    /\ c.cpu = "s_lingw"
    /\ LET s == [c EXCEPT !.spc = "run", !.cpu = "s_ling"] IN
       Commit(IF s.unread[s.cur] > 0 THEN
                   LET r == ReadAny(s, s.cur) IN
                   IF r.exc THEN [ForceClose([r EXCEPT !.exc = FALSE]) EXCEPT !.cpu = "s_exit"] ELSE r
              ELSE s)

(* ---- the handler task (_handle_request: handler, finish_response) *)
Finish(s, st, ka) ==       \* finish_response(): declined-upgrade tail, prepare + write_eof, drain
    LET id == IF s.curErr /\ s.cur = 0 THEN 0 ELSE s.cur
        d0 == DeclineUpgrade(s)
        t0 == IF d0.exc THEN [d0 EXCEPT !.hres = "unhandled", !.exc = FALSE] ELSE d0
    IN
    IF t0.hres = "unhandled" THEN [t0 EXCEPT !.cpu = "h_done"]
    ELSE IF ~Writable(t0) THEN [t0 EXCEPT !.hres = "reset", !.cpu = "h_done"]
    ELSE LET w == IF t0.hbeh \in {"stream"} THEN WE(t0, id) ELSE WE(WS(t0, id, st), id)
             r == [w EXCEPT !.hres = "ok", !.hka = ka, !.hst = st]
         IN IF r.wPaused THEN SuspendHandler(r, "drain") ELSE [r EXCEPT !.cpu = "h_done"]

\* finish_response() whose body source raises a ConnectionError midway through write_eof(): the header
\* block and the first chunk are on the wire; `except ConnectionError: return resp, True` -> start() closes
FinishFail(s) ==
    LET id == s.cur
        d0 == DeclineUpgrade(s)
        t0 == IF d0.exc THEN [d0 EXCEPT !.hres = "unhandled", !.exc = FALSE] ELSE d0
    IN IF t0.hres = "unhandled" THEN [t0 EXCEPT !.cpu = "h_done"]
       ELSE IF ~Writable(t0) THEN [t0 EXCEPT !.hres = "reset", !.cpu = "h_done"]
       ELSE [WB(WS(t0, id, 200), id) EXCEPT !.hres = "reset", !.cpu = "h_done"]

ReqKeepAlive(s) == s.cur > 0 /\ ~s.curErr /\ items[s.cur].ka = "keep"

HError(s, st) ==          \* handle_error(): 500 / 504, resp.force_close()
    Finish(s, st, FALSE)

HRead(s) ==               \* await request.read()
    LET i == s.cur IN
    IF i \in s.pexc THEN HError(s, 500)
    ELSE LET s1 == IF s.unread[i] > 0 THEN ReadAny(s, i) ELSE s IN
         IF s1.exc THEN HError([s1 EXCEPT !.exc = FALSE], 500)      \* raised inside the handler's read()
         ELSE IF ~PayloadOpen(s1, i) THEN Finish(s1, 200, ReqKeepAlive(s1))
         ELSE IF s1.fclose THEN HError(s1, 500)                  \* _wait(): RuntimeError("Connection closed.")
         ELSE SuspendHandler([s1 EXCEPT !.pwait = "h"], "rd")

HEnter(b) ==
    /\ c.cpu = "h_enter"
    /\ IF c.curErr THEN b = "preerr" ELSE b \in Behaviours
    /\ LET s == [c EXCEPT !.hbeh = b, !.hb = IF c.cur > 0 THEN [@ EXCEPT ![c.cur] = b] ELSE @]
           id == s.cur
       IN Commit(
          CASE b = "preerr" -> Finish(s, 400, FALSE)
            [] b = "ret0" -> Finish(s, 200, ReqKeepAlive(s))
            [] b = "gate" -> SuspendHandler(s, "gate")
            [] b = "read" -> HRead(s)
            [] b = "httpexc" -> Finish(s, 403, ReqKeepAlive(s))
            [] b = "exc" -> HError(s, 500)
            [] b = "timeout" -> HError(s, 504)
            [] b = "never" -> SuspendHandler(s, "never")
            [] b \in {"stream", "partial", "partialto", "partialhx"} ->
                 \* prepare() + write(): the response has started; then the handler fails with
                 \* Exception / TimeoutError / HTTPException.  handle_error() refuses to write a second
                 \* response ("Response is sent already" -> ConnectionError -> start() closes)
                 IF ~Writable(s) THEN [s EXCEPT !.hres = "connerr", !.cpu = "h_done"]
                 ELSE LET w == WB(WS(s, id, 200), id) IN
                      IF b \in {"partial", "partialto"} \/ (b = "partialhx" /\ GuardHXOutput)
                      THEN [w EXCEPT !.hres = "connerr", !.cpu = "h_done"]
                      ELSE IF b = "partialhx"       \* as coded: except HTTPException has no such guard
                      THEN Finish([w EXCEPT !.hxDev = TRUE, !.hbeh = "partialhx"], 403, ReqKeepAlive(w))
                      ELSE SuspendHandler(w, "sgate")
            [] b = "bodyfail" -> FinishFail(s)
            [] OTHER -> Finish(s, 200, ReqKeepAlive(s)))

HRun ==      \* the handler task is woken
    /\ c.cpu = "h_run"
    /\ Commit(CASE c.hpc = "gate" -> Finish(c, 200, ReqKeepAlive(c))
                [] c.hpc = "sgate" -> IF ~Writable(c) THEN [c EXCEPT !.hres = "connerr", !.cpu = "h_done"]
                                      ELSE Finish(WB(c, c.cur), 200, ReqKeepAlive(c))
                [] c.hpc = "rd" -> HRead(c)
                [] c.hpc = "drain" -> [c EXCEPT !.cpu = "h_done"]
                [] OTHER -> [c EXCEPT !.cpu = "idle"])

HDone ==     \* the handler task finishes: start() continues (eagerly, or via the task's done callback)
    /\ c.cpu = "h_done"
    /\ Commit(LET s == [c EXCEPT !.hid = 0, !.hpc = "none", !.hbeh = "none"] IN
              IF s.eager THEN [s EXCEPT !.eager = FALSE, !.cpu = "s_after"]
              ELSE Sched([s EXCEPT !.cpu = "idle"], "start"))

(* ---- stimuli: I/O handles queued at an iteration boundary *)
Deliver(n) ==
    /\ Boundary /\ ~c.tClosing /\ ~InReady(c, "dr")
    /\ n >= 1 /\ c.npos + n <= NP
    /\ Commit([c EXCEPT !.npos = @ + n, !.ready = Append(@, E("dr", n))])

PeerDisconnect ==
    /\ Boundary /\ ~c.tClosing /\ c.nDisc < MaxDisc
    /\ Commit(Sched([c EXCEPT !.nDisc = @ + 1], "disc"))

Go ==
    /\ Boundary /\ c.hid # 0 /\ c.hpc \in {"gate", "sgate"} /\ ~c.hopen /\ ~c.goPending
    /\ Commit(Sched([c EXCEPT !.goPending = TRUE], "go"))

WritePause ==
    /\ Boundary /\ ~c.tClosing /\ ~c.wPaused /\ c.nWP < MaxWPause /\ ~InReady(c, "wp")
    /\ Commit(Sched([c EXCEPT !.nWP = @ + 1], "wp"))

WriteResume ==
    /\ Boundary /\ c.wPaused /\ ~InReady(c, "wr")
    /\ Commit(Sched(c, "wr"))

Tick ==      \* nothing ready: the loop sleeps until the next timer
    /\ Timers /\ Boundary /\ c.ready = <<>>
    /\ (c.kaTimer # 0 \/ c.lgTimer # 0)
    /\ LET ts == {t \in {c.kaTimer, c.lgTimer} : t # 0}
           m == CHOOSE t \in ts : \A u \in ts : t <= u
           s1 == [c EXCEPT !.now = IF m > @ THEN m ELSE @]
           s2 == IF c.lgTimer = m THEN Sched([s1 EXCEPT !.lgTimer = 0], "t_lg") ELSE s1
           s3 == IF c.kaTimer = m THEN Sched(s2, "t_ka") ELSE s2
       IN Commit(s3)

Next ==
    \/ Step \/ STop \/ SPop \/ SExit \/ SAfter \/ SLing \/ SLingWake \/ HRun \/ HDone
    \/ \E b \in Behaviours \cup {"preerr"} : HEnter(b)
    \/ \E n \in 1..(MaxItems * 4) : Deliver(n)
    \/ PeerDisconnect \/ Go \/ WritePause \/ WriteResume \/ Tick

Spec == Init /\ [][Next]_vars

View == <<items, [c EXCEPT !.hb = <<>>]>>

(* ------------------------------------------------------------------ properties *)
\* the wire is (RespStart(i) RespBytes* RespEnd(i))* with strictly increasing i, the answer to
\* unparsable input (i = 0) last; only the last response may be unfinished
RECURSIVE WireShape(_, _, _, _)
WireShape(w, k, open, last) ==
    IF k > Len(w) THEN TRUE
    ELSE LET r == w[k] IN
         CASE r.t = "S" -> open = -1 /\ last # 0 /\ (r.id = 0 \/ r.id > last) /\ WireShape(w, k + 1, r.id, IF r.id = 0 THEN 0 ELSE r.id)
           [] r.t = "B" -> open = r.id /\ WireShape(w, k + 1, open, last)
           [] r.t = "E" -> open = r.id /\ WireShape(w, k + 1, -1, last)
InOrderOnce == ~c.wireBad /\ WireShape(wire, 1, -1, -1)

Real(q) == SelectSeq(q, LAMBDA m : m # 0)
QueueBound == /\ c.inFlight <= Cap
              /\ Len(Real(c.messages)) <= Cap
              /\ Len(c.messages) <= 2 * Cap

LoopIdle == c.cpu = "idle" /\ c.ready = <<>>
Quiet == LoopIdle /\ ~c.tClosing /\ c.hid = 0

\* unparsable input is answered 400 (by construction of Finish) and the connection is then closed;
\* a parse error is never left unanswered on an open, quiet connection
BadGets4xxAndClose ==
    /\ (LoopIdle /\ c.wErr /\ c.hid = 0) => c.tClosing
    /\ Quiet => ~c.sawBad
    /\ \A k \in 1..Len(wire) : (wire[k].t = "S" /\ wire[k].id = 0) => wire[k].st = 400

\* open + loop idle + no handler: nothing parsed is waiting, nothing delivered is withheld,
\* and start() is alive and waiting for the next message (or draining an unread body)
NoOrphan ==
    Quiet => /\ c.messages = <<>>
             /\ c.spc \in {"wait", "linger"}
             /\ (c.pmode \in {"line", "upg"} => c.ppos = c.dpos)

\* the code as it is: start() may have died on a hostile request-target (named deviation)
Deviating == c.spc = "dead" \/ c.lateUp
InOrderOnceAsCoded == c.hxDev \/ InOrderOnce
NoOrphanAsCoded == Deviating \/ NoOrphan
NoLateUpgrade == ~(c.lateUp /\ c.cpu = "idle" /\ c.ready = <<>> /\ c.hid = 0 /\ ~c.tClosing /\ c.dpos > c.ppos)

BadGetsAsCoded == c.spc = "dead" \/ c.lateUp \/ BadGets4xxAndClose

NoEscape == c.escaped = "no"
NoEscapeDR == c.escaped # "dr"          \* exception out of data_received
NoEscapeTask == c.escaped # "task"      \* start() died with an exception

PauseCoherent ==
    /\ ~c.fclose => (c.tPaused <=> (c.qPaused \/ c.rPaused))
    /\ ~(Quiet /\ c.tPaused /\ c.spc = "wait")

NoStrandedTail ==
    ~(LoopIdle /\ ~c.tClosing /\ c.pmode = "line" /\ c.dpos > c.ppos
      /\ Len(c.messages) <= ResumeAt /\ c.tPaused /\ c.hid = 0)

PauseCoherentAsCoded == Deviating \/ PauseCoherent
NoStrandedTailAsCoded == Deviating \/ NoStrandedTail

TypeOK == /\ c.dpos <= c.npos /\ c.ppos <= c.dpos
          /\ c.cpu \in {"idle", "s_top", "s_pop", "s_exit", "s_after", "s_ling", "s_lingw", "h_enter", "h_run", "h_done"}
=============================================================================
