------------------------------ MODULE AppLifecycle ------------------------------
(* C20 (A) - application life cycle: cleanup contexts, signals, entry points.

   Implementation-shaped, sequential model of
     aiosignal.Signal.send                    receivers one after the other, first exception aborts
     web_app.CleanupContext._on_startup       enter each context; append to _exits AFTER a successful enter
     web_app.CleanupContext._on_cleanup       walk reversed(_exits), collect errors, raise at the end
     web_app.Application.cleanup              frozen on_cleanup -> send ; unfrozen -> only the app's own contexts
     web_app.Application._reg_subapp_signals  a receiver on the parent's signal that sends the sub-app's signal
     web_runner.AppRunner._make_server        on_startup.freeze(); startup(); freeze(); Server(...)
     web_runner.BaseRunner.cleanup            stop sites; if server: pre_shutdown, shutdown(), server.shutdown(T);
                                              _cleanup_server(); server = None
     web._run_app                             runner.setup() ; try: sites... sleep forever  finally: runner.cleanup()

   The application tree is chosen in Init (s.tree \in Trees):
     "one"     root R (contexts r1, r2) with one sub-application S (s1, s2)
     "two"     root R (r1) with two sibling sub-applications S (s1) and U (u1), added in that order
     "nested"  root R (r1) -> sub-application S (s1) -> sub-sub-application U (u1)
   every app has one user handler on on_startup (Xsu), on_shutdown (Xsh) and on_cleanup (Xcl),
   registered before the app's add_subapp() calls.

   The interpreter is a stack machine: one frame per active coroutine call
   (send / ctxstart / ctxclean / setup / rcleanup / appcleanup), `raising` = an exception
   is propagating.  Each action is one loop iteration of the corresponding function.

   Faults are chosen in Init and never change: failStart / failShut / failClean are the
   sets of steps (context enter/exit code, user handlers) that raise; siteFails makes
   site.start() raise; entry is the way the application is driven.

   The code's deviations from the ideal are separate named alternatives (TRUE = ideal):
     SetupInTry          FALSE = web._run_app awaits runner.setup() before its try/finally
     UnfrozenCleansSubs  FALSE = Application.cleanup()'s unfrozen branch exits only the root's contexts
     CleanupCollects     FALSE = on_cleanup.send stops at the first receiver that raises
     ShutdownContained   FALSE = an exception from on_shutdown leaves BaseRunner.cleanup() at once
     RunAppCatchesBase   FALSE = web._run_app calls runner.cleanup() after a failed setup() only for
                         Exception subclasses (`except Exception:` instead of try/finally)

   Kinds of failure (chosen in Init): startKind / cleanKind = "exc" (an Exception subclass) or "base"
   (a BaseException that is not an Exception: asyncio.CancelledError raised by the step itself, the
   main task cancelled / GracefulExit arriving while the step is suspended inside its start-up code,
   or the step raising a SystemExit subclass - the driver realises "base" in these three ways).
   Every catch site of the modelled code (`except (Exception, CancelledError)`, try/finally) treats
   both kinds alike; the only place where the kind matters is the entry point's guard around setup(). *)
EXTENDS Naturals, Sequences, FiniteSets, TLC

CONSTANTS SetupInTry, UnfrozenCleansSubs, CleanupCollects, ShutdownContained, RunAppCatchesBase,
          MaxStartFaults, Entries, KindsAllowed,
          Trees,                               \* subset of {"one", "two", "nested"}
          ExtraTreeEntries, ExtraTreeKinds     \* entries / kinds explored for the trees other than "one"

VARIABLE s
vars == <<s>>

Root == "R"
Range(q) == {q[i] : i \in 1..Len(q)}
Count(q, x) == Cardinality({i \in 1..Len(q) : q[i] = x})
AppsOf(tr) == IF tr = "one" THEN {"R", "S"} ELSE {"R", "S", "U"}
AppSeqOf(tr) == IF tr = "one" THEN <<"R", "S">> ELSE <<"R", "S", "U">>       \* the tree in pre-order
SubsOf(tr) == [a \in AppsOf(tr) |->
           CASE tr = "one" -> (IF a = "R" THEN <<"S">> ELSE <<>>)
             [] tr = "two" -> (IF a = "R" THEN <<"S", "U">> ELSE <<>>)
             [] tr = "nested" -> (IF a = "R" THEN <<"S">> ELSE IF a = "S" THEN <<"U">> ELSE <<>>)]
CtxsOf(tr) == [a \in AppsOf(tr) |->
           IF tr = "one" THEN (IF a = "R" THEN <<"r1", "r2">> ELSE <<"s1", "s2">>)
           ELSE (IF a = "R" THEN <<"r1">> ELSE IF a = "S" THEN <<"s1">> ELSE <<"u1">>)]
AllCtxOf(tr) == UNION {Range(CtxsOf(tr)[a]) : a \in AppsOf(tr)}
\* names are the same in every tree
AppOf(c) == IF c \in {"r1", "r2"} THEN "R" ELSE IF c \in {"s1", "s2"} THEN "S" ELSE "U"
HName == [a \in {"R", "S", "U"} |->
            CASE a = "R" -> [startup |-> "Rsu", shutdown |-> "Rsh", cleanup |-> "Rcl"]
              [] a = "S" -> [startup |-> "Ssu", shutdown |-> "Ssh", cleanup |-> "Scl"]
              [] a = "U" -> [startup |-> "Usu", shutdown |-> "Ush", cleanup |-> "Ucl"]]
SuNames == {"Rsu", "Ssu", "Usu"}
ClNames == {"Rcl", "Scl", "Ucl"}
ShutNames == {"Rsh", "Ssh", "Ush"}
SubCtx == {"s1", "s2", "u1"}                   \* contexts of the applications below the root
StartStepsOf(tr) == AllCtxOf(tr) \cup {HName[a].startup : a \in AppsOf(tr)}
ShutStepsOf(tr) == {HName[a].shutdown : a \in AppsOf(tr)}
CleanStepsOf(tr) == AllCtxOf(tr) \cup {HName[a].cleanup : a \in AppsOf(tr)}
AllEntries == {"Runner", "RunnerNoExplicitCleanup", "RunApp"}

(* ------------------------------------------------------------------------------ *)
Frame(k, sig, app, i) == [k |-> k, sig |-> sig, app |-> app, i |-> i, errs |-> 0]

Kinds == KindsAllowed            \* subset of {"exc", "base"}
InitState(tr, e, fs, sf, fh, fc, sk, ck) ==
    [tree |-> tr, entry |-> e, failStart |-> fs, siteFails |-> sf, failShut |-> fh, failClean |-> fc,
     startKind |-> sk, cleanKind |-> ck,
     stack |-> <<>>, raising |-> FALSE,
     exits |-> [a \in AppsOf(tr) |-> <<>>],                      \* CleanupContext._exits
     frozen |-> [a \in AppsOf(tr) |-> a # Root],                \* on_cleanup.frozen (add_subapp pre-freezes the sub-app)
     server |-> FALSE,                                    \* runner._server is set
     sites |-> FALSE,                                     \* a site is registered with the runner
     top |-> "init",                                      \* program counter of the entry point
     \* history
     log |-> <<>>, entered |-> <<>>, exited |-> <<>>, failed |-> {},
     setupRes |-> "none", cleanupRes |-> "none", cleanupCalled |-> FALSE, result |-> "none"]

Init ==
    \E tr \in Trees : \E e \in Entries, fs \in SUBSET StartStepsOf(tr), sf \in BOOLEAN,
       fh \in SUBSET ShutStepsOf(tr), fc \in SUBSET CleanStepsOf(tr), sk \in Kinds, ck \in Kinds :
        /\ Cardinality(fs) <= MaxStartFaults
        /\ tr # "one" => (e \in ExtraTreeEntries /\ sk \in ExtraTreeKinds /\ ck \in ExtraTreeKinds)
        \* the kind only matters when something fails; the two "base" kinds are not crossed
        /\ fs = {} => sk = "exc"
        /\ (fh \cup fc) = {} => ck = "exc"
        /\ sk = "base" => ck = "exc"
        \* after a failed start-up there is no server: no site is started, on_shutdown is not sent
        /\ fs # {} => (~sf /\ fh = {})
        /\ s = InitState(tr, e, fs, sf, fh, fc, sk, ck)

(* ------------------------------------------------------------------------------ *)
Top(st) == st.stack[Len(st.stack)]
Popped(st) == SubSeq(st.stack, 1, Len(st.stack) - 1)
WithTop(st, f) == [st.stack EXCEPT ![Len(st.stack)] = f]
Ev(k, n) == <<k, n>>

\* receivers of a signal, in registration order (Application.__init__, user code, add_subapp)
Rcv(k, n) == [k |-> k, n |-> n]
Chain(tr, a) == [j \in 1..Len(SubsOf(tr)[a]) |-> Rcv("chain", SubsOf(tr)[a][j])]
Receivers(tr, sig, a) ==
    CASE sig = "startup"  -> <<Rcv("ctxstart", a), Rcv("h", HName[a].startup)>> \o Chain(tr, a)
      [] sig = "shutdown" -> <<Rcv("h", HName[a].shutdown)>> \o Chain(tr, a)
      [] sig = "cleanup"  -> <<Rcv("ctxclean", a), Rcv("h", HName[a].cleanup)>> \o Chain(tr, a)
FailSet(sig, st) ==
    CASE sig = "startup" -> st.failStart [] sig = "shutdown" -> st.failShut [] sig = "cleanup" -> st.failClean

\* aiosignal.Signal.send: `for receiver in self: await receiver(*args)`
SendNext(st) ==
    LET f == Top(st)
        rc == Receivers(st.tree, f.sig, f.app)
    IN IF f.i > Len(rc)
       THEN [st EXCEPT !.stack = Popped(st), !.raising = f.errs > 0]     \* errs > 0 only when CleanupCollects
       ELSE LET r == rc[f.i]
                f2 == [f EXCEPT !.i = @ + 1]
            IN CASE r.k = "h" ->
                      LET bad == r.n \in FailSet(f.sig, st) IN
                      [st EXCEPT !.stack = WithTop(st, f2),
                                 !.log = @ \o (IF bad THEN <<Ev("call", r.n), Ev("call_fail", r.n)>>
                                                      ELSE <<Ev("call", r.n)>>),
                                 !.failed = IF bad THEN @ \cup {Ev("call", r.n)} ELSE @,
                                 !.raising = bad]
                 [] r.k = "ctxstart" ->
                      [st EXCEPT !.stack = Append(WithTop(st, f2), Frame("ctxstart", "", r.n, 1))]
                 [] r.k = "ctxclean" ->
                      [st EXCEPT !.stack = Append(WithTop(st, f2), Frame("ctxclean", "", r.n, Len(st.exits[r.n])))]
                 [] r.k = "chain" ->          \* _reg_subapp_signals.handler: await subsig.send(subapp)
                      [st EXCEPT !.stack = Append(WithTop(st, f2), Frame("send", f.sig, r.n, 1))]

\* CleanupContext._on_startup: `await ctx.__aenter__(); self._exits.append(ctx)`
CtxStartNext(st) ==
    LET f == Top(st)
        cs == CtxsOf(st.tree)[f.app]
    IN IF f.i > Len(cs) THEN [st EXCEPT !.stack = Popped(st)]
       ELSE LET c == cs[f.i] IN
            IF c \in st.failStart
            THEN [st EXCEPT !.log = @ \o <<Ev("enter_begin", c), Ev("enter_fail", c)>>,
                            !.failed = @ \cup {Ev("enter", c)},
                            !.raising = TRUE]
            ELSE [st EXCEPT !.log = @ \o <<Ev("enter_begin", c), Ev("enter_done", c)>>,
                            !.entered = Append(@, c),
                            !.exits = [@ EXCEPT ![f.app] = Append(@, c)],
                            !.stack = WithTop(st, [f EXCEPT !.i = @ + 1])]

\* CleanupContext._on_cleanup: `for it in reversed(self._exits): try: await it.__aexit__() except: errors.append`
CtxCleanNext(st) ==
    LET f == Top(st) IN
    IF f.i = 0 THEN [st EXCEPT !.stack = Popped(st), !.raising = f.errs > 0]
    ELSE LET c == st.exits[f.app][f.i]
             bad == c \in st.failClean
         IN [st EXCEPT !.log = @ \o <<Ev("exit_begin", c), Ev(IF bad THEN "exit_fail" ELSE "exit_done", c)>>,
                       !.exited = Append(@, c),
                       !.failed = IF bad THEN @ \cup {Ev("exit", c)} ELSE @,
                       !.stack = WithTop(st, [f EXCEPT !.i = @ - 1, !.errs = IF bad THEN @ + 1 ELSE @])]

\* ideal replacement of Application.cleanup()'s unfrozen branch: the contexts of every app of the tree
AppCleanupNext(st) ==
    LET f == Top(st) IN
    IF f.i > Len(AppSeqOf(st.tree)) THEN [st EXCEPT !.stack = Popped(st), !.raising = f.errs > 0]
    ELSE [st EXCEPT !.stack = Append(WithTop(st, [f EXCEPT !.i = @ + 1]),
                                     Frame("ctxclean", "", AppSeqOf(st.tree)[f.i], Len(st.exits[AppSeqOf(st.tree)[f.i]])))]

\* AppRunner.setup -> _make_server
SetupNext(st) ==
    LET f == Top(st) IN
    IF f.i = 1          \* self._app.on_startup.freeze(); await self._app.startup()
    THEN [st EXCEPT !.stack = Append(WithTop(st, [f EXCEPT !.i = 2]), Frame("send", "startup", Root, 1))]
    ELSE                \* self._app.freeze(); return Server(...)
         [st EXCEPT !.frozen = [a \in AppsOf(st.tree) |-> TRUE], !.server = TRUE, !.stack = Popped(st)]

\* BaseRunner.cleanup
RunnerCleanupNext(st) ==
    LET f == Top(st)
        adv(n) == WithTop(st, [f EXCEPT !.i = n])
    IN CASE f.i = 1 ->      \* for site in list(self._sites): await site.stop()
              [st EXCEPT !.sites = FALSE, !.stack = adv(2)]
         [] f.i = 2 ->      \* if self._server: sleep(0); pre_shutdown(); await self.shutdown()
              IF st.server
              THEN [st EXCEPT !.stack = Append(adv(3), Frame("send", "shutdown", Root, 1))]
              ELSE [st EXCEPT !.stack = adv(4)]
         [] f.i = 3 ->      \* await self._server.shutdown(timeout)          (part B)
              [st EXCEPT !.stack = adv(4)]
         [] f.i = 4 ->      \* await self._cleanup_server() -> Application.cleanup()
              IF st.frozen[Root]
              THEN [st EXCEPT !.stack = Append(adv(5), Frame("send", "cleanup", Root, 1))]
              ELSE IF UnfrozenCleansSubs
              THEN [st EXCEPT !.stack = Append(adv(5), Frame("appcleanup", "", Root, 1))]
              ELSE [st EXCEPT !.stack = Append(adv(5), Frame("ctxclean", "", Root, Len(st.exits[Root])))]
         [] f.i = 5 ->      \* self._server = None
              [st EXCEPT !.server = FALSE, !.stack = Popped(st), !.raising = f.errs > 0]

\* an exception travels up one frame
Unwind(st) ==
    LET f == Top(st)
        catch == [st EXCEPT !.stack = WithTop(st, [f EXCEPT !.errs = @ + 1]), !.raising = FALSE]
    IN IF f.k = "send" /\ f.sig = "cleanup" /\ CleanupCollects THEN catch
       ELSE IF f.k = "appcleanup" THEN catch
       ELSE IF f.k = "rcleanup" /\ f.i = 3 /\ ShutdownContained THEN catch
       ELSE [st EXCEPT !.stack = Popped(st)]

\* the entry point's own code, between API calls (stack empty)
CallCleanup(st) ==
    [st EXCEPT !.stack = <<Frame("rcleanup", "", Root, 1)>>, !.top = "cleanup", !.cleanupCalled = TRUE,
               !.raising = FALSE]
Driver(st) ==
    CASE st.top = "init" ->
           [st EXCEPT !.stack = <<Frame("setup", "", Root, 1)>>, !.top = "setup"]
      [] st.top = "setup" ->
           IF st.raising
           THEN LET st1 == [st EXCEPT !.setupRes = "raised", !.log = Append(@, Ev("setup", "raised"))] IN
                CASE st.entry = "Runner" -> CallCleanup(st1)       \* the caller always calls cleanup()
                  [] st.entry = "RunnerNoExplicitCleanup" ->       \* setup(); try: ... finally: cleanup()
                       [st1 EXCEPT !.top = "done", !.raising = FALSE, !.result = "raised"]
                  [] st.entry = "RunApp" ->
                       \* try: setup() ... finally: cleanup()   /   try: setup() except Exception: cleanup(); raise
                       IF SetupInTry /\ (RunAppCatchesBase \/ st.startKind = "exc") THEN CallCleanup(st1)
                       ELSE [st1 EXCEPT !.top = "done", !.raising = FALSE, !.result = "raised"]
           ELSE [st EXCEPT !.setupRes = "ok", !.log = Append(@, Ev("setup", "ok")), !.top = "site"]
      [] st.top = "site" ->   \* site.start(): registers with the runner, then binds; afterwards
                              \* (GracefulExit / caller) cleanup() is called in every entry
           CallCleanup([st EXCEPT !.sites = TRUE,
                                  !.log = Append(@, Ev("site", IF st.siteFails THEN "raised" ELSE "ok"))])
      [] st.top = "cleanup" ->
           LET cr == IF st.raising THEN "raised" ELSE "ok" IN
           [st EXCEPT !.cleanupRes = cr, !.log = Append(@, Ev("cleanup", cr)), !.raising = FALSE,
                      !.top = "done",
                      !.result = IF st.raising \/ st.setupRes = "raised" \/ st.siteFails THEN "raised" ELSE "ok"]

StepF(st) ==
    IF st.stack = <<>> THEN Driver(st)
    ELSE IF st.raising THEN Unwind(st)
    ELSE CASE Top(st).k = "send" -> SendNext(st)
           [] Top(st).k = "ctxstart" -> CtxStartNext(st)
           [] Top(st).k = "ctxclean" -> CtxCleanNext(st)
           [] Top(st).k = "appcleanup" -> AppCleanupNext(st)
           [] Top(st).k = "setup" -> SetupNext(st)
           [] Top(st).k = "rcleanup" -> RunnerCleanupNext(st)

Finished(st) == st.top = "done" /\ st.stack = <<>>

RECURSIVE RunToEnd(_)
RunToEnd(st) == IF Finished(st) THEN st ELSE RunToEnd(StepF(st))

(* named actions (one per loop iteration of the function named) *)
Running(k) == ~Finished(s) /\ s.stack # <<>> /\ ~s.raising /\ Top(s).k = k
EntryPoint == ~Finished(s) /\ s.stack = <<>> /\ s' = Driver(s)
Propagate == s.stack # <<>> /\ s.raising /\ s' = Unwind(s)
SignalSend == Running("send") /\ s' = SendNext(s)
CtxStartup == Running("ctxstart") /\ s' = CtxStartNext(s)
CtxCleanup == Running("ctxclean") /\ s' = CtxCleanNext(s)
AppCleanupAll == Running("appcleanup") /\ s' = AppCleanupNext(s)
RunnerSetup == Running("setup") /\ s' = SetupNext(s)
RunnerCleanup == Running("rcleanup") /\ s' = RunnerCleanupNext(s)
Terminated == Finished(s) /\ UNCHANGED s

Next == EntryPoint \/ Propagate \/ SignalSend \/ CtxStartup \/ CtxCleanup \/ AppCleanupAll
        \/ RunnerSetup \/ RunnerCleanup \/ Terminated

Spec == Init /\ [][Next]_vars
SpecInitOnly == Init /\ [][FALSE]_vars          \* used to enumerate the initial states for the replay

(* ------------------------------------------------------------------------------ *)
(* Properties (on the history variables)                                             *)
Entered(st) == Range(st.entered)
Missing(st) == {c \in Entered(st) : Count(st.exited, c) = 0}
Pos(q, x) == CHOOSE i \in 1..Len(q) : q[i] = x

\* somebody had the duty to run the cleanup: the library itself (run_app), or the caller did call it
CleanupOwed(st) == st.entry = "RunApp" \/ st.cleanupCalled

ExactlyOnce(st) == \A c \in AllCtxOf(st.tree) : Count(st.exited, c) = (IF c \in Entered(st) THEN 1 ELSE 0)

ExactlyOnceIffStarted == (Finished(s) /\ CleanupOwed(s)) => ExactlyOnce(s)

\* at every moment: exit code never runs for a context whose start-up did not complete, never twice
NeverExitUnstarted == \A c \in AllCtxOf(s.tree) : Count(s.exited, c) <= (IF c \in Entered(s) THEN 1 ELSE 0)

\* per application, exits happen in the reverse order of the (completed) enters
ReverseOrder ==
    \A i, j \in 1..Len(s.exited) :
        (i < j /\ AppOf(s.exited[i]) = AppOf(s.exited[j])
             /\ s.exited[i] \in Entered(s) /\ s.exited[j] \in Entered(s))
        => Pos(s.entered, s.exited[i]) > Pos(s.entered, s.exited[j])

StartupFailed(st) == \E x \in st.failed : x[1] = "enter" \/ (x[1] = "call" /\ x[2] \in SuNames)
TeardownFailed(st) == \E x \in st.failed : x[1] = "exit" \/ (x[1] = "call" /\ x[2] \notin SuNames)
\* (stated for ordinary exceptions: a cancellation / exit request is not an error to report)
ErrorsSurface ==
    Finished(s) => /\ (StartupFailed(s) /\ s.startKind = "exc") => s.setupRes = "raised" /\ s.result = "raised"
                   /\ (TeardownFailed(s) /\ s.cleanKind = "exc") => s.cleanupRes = "raised" /\ s.result = "raised"

(* The four ways in which the code as it is misses the property; each is the observable
   shape of one deviation constant.  AsCodedExplained: nothing else goes wrong.            *)
Dev_RunAppStartupFailureSkipsCleanup(st) ==
    st.entry = "RunApp" /\ st.setupRes = "raised" /\ ~st.cleanupCalled /\ Missing(st) # {}
Dev_SubAppContextNotExitedAfterFailedStartup(st) ==
    st.setupRes = "raised" /\ st.cleanupCalled /\ Missing(st) # {} /\ Missing(st) \subseteq SubCtx
Dev_ShutdownHandlerErrorSkipsCleanup(st) ==
    /\ st.setupRes = "ok" /\ \E x \in st.failed : x[1] = "call" /\ x[2] \in ShutNames
    /\ st.exited = <<>> /\ Missing(st) # {}
Dev_CleanupErrorSkipsLaterExits(st) ==
    /\ st.setupRes = "ok" /\ \E x \in st.failed : x[1] = "exit" \/ (x[1] = "call" /\ x[2] \in ClNames)
    /\ Missing(st) # {} /\ Missing(st) \subseteq SubCtx

AsCodedExplained ==
    (Finished(s) /\ CleanupOwed(s) /\ ~ExactlyOnce(s)) =>
        \/ Dev_RunAppStartupFailureSkipsCleanup(s)
        \/ Dev_SubAppContextNotExitedAfterFailedStartup(s)
        \/ Dev_ShutdownHandlerErrorSkipsCleanup(s)
        \/ Dev_CleanupErrorSkipsLaterExits(s)

\* the caller's own omission (setup() raised, cleanup() never called): not a property of the library
CallerOmitsCleanup == Finished(s) /\ ~CleanupOwed(s) /\ Missing(s) # {}

\* exhaustive configs: the history is part of the state on purpose (the invariants read it);
\* the model is deterministic after Init, so it adds no states
=============================================================================
