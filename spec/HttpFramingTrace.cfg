SPECIFICATION TSpec
INVARIANT TInvPartition
INVARIANT TInvNoBody
INVARIANT TInvOver
POSTCONDITION PrintVerdicts
CHECK_DEADLOCK FALSE
