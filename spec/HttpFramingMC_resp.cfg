SPECIFICATION Spec
CONSTANTS
  Mode = "response"
  Lax = TRUE
  MaxLine = 64
  MaxField = 64
  MaxHeaders = 6
  UntilEof = TRUE
  WithBody = TRUE
  LexIds = {16, 18, 19, 22, 24, 28, 30, 31, 32, 35, 40, 42, 47, 49, 60, 61, 62, 63, 64, 65, 66, 67, 68}
  CutMode = FALSE
  MaxLex = 0
  MaxMsgs = 1
  MaxLines = 3
  MaxChunks = 1
  MaxPending = 0
  Mutant = ""
INVARIANT InvPartition
INVARIANT InvNoBodyWithoutFraming
INVARIANT InvOverLimitRejects
INVARIANT InvPendingBound
INVARIANT InvUnambiguous
INVARIANT InvHost
INVARIANT InvCut
PROPERTY RejectIsFinal
VIEW View
CHECK_DEADLOCK FALSE
