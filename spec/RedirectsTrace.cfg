SPECIFICATION TSpec
CONSTANTS
  StickyDrop = TRUE
  OriginCmp = "origin"
INVARIANT TInvNoCredentialOffOrigin
INVARIANT TInvCredentialKept
POSTCONDITION PrintVerdicts
CHECK_DEADLOCK FALSE
