----------------------------- MODULE TraceBatch -----------------------------
(* Shared plumbing for batched trace validation.

   A batch file (path in env TRACE_FILE) is a JSON array of executions
       [ {"tid": k, "cfg": {...}, "events": [ {...}, ... ]}, ... ]
   A trace spec picks tid in its Init (one initial state per execution), walks the
   events with position l, and calls Verdict(tid, l, clause, info) on every step.
   The POSTCONDITION PrintVerdicts prints one line per execution:
       <<"VP","T",tid, consumed, total, clause, info>>
   clause = "" and consumed = total  <=>  the execution is a behaviour of the spec
   and satisfied every property clause on the way.  Verdicts are total: a trace is
   never "just stuck" - the clause names what failed.  Run with -workers 1.       *)
EXTENDS Naturals, Sequences, TLC, TLCExt, Json, IOUtils

Batch == JsonDeserialize(IOEnv.TRACE_FILE)
NTraces == Len(Batch)
Events(tid) == Batch[tid].events
NEvents(tid) == Len(Batch[tid].events)
Cfg(tid) == Batch[tid].cfg

Reg(tid) == tid + 100

Verdict(tid, pos, clause, info) == TLCSet(Reg(tid), <<pos, clause, info>>)

PrintVerdicts ==
    \A tid \in 1..NTraces :
        LET v == TLCGet(Reg(tid))
        IN PrintT(<<"VP", "T", tid, v[1], NEvents(tid), v[2], v[3]>>)

Has(r, f) == f \in DOMAIN r
Get(r, f, d) == IF f \in DOMAIN r THEN r[f] ELSE d
=============================================================================
