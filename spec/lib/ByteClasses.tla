----------------------------- MODULE ByteClasses -----------------------------
(* RFC 9110 / RFC 9112 / RFC 5234 character classes and small byte-string
   helpers.  A byte string is a Seq(0..255).  Everything here is a pure
   operator; TLC evaluates quantifiers over 1..Len(q) linearly.               *)
EXTENDS Naturals, Integers, Sequences, FiniteSets, SequencesExt

CR == 13
LF == 10
SP == 32
HTAB == 9
COLON == 58
SEMI == 59
COMMA == 44

Big == 1000000000              \* saturation value for over-long numbers (TLC ints are 32 bit)

Min2(a, b) == IF a < b THEN a ELSE b
Max2(a, b) == IF a > b THEN a ELSE b

IsDigit(b) == b >= 48 /\ b <= 57                       \* DIGIT  (RFC 5234 B.1)
IsUpper(b) == b >= 65 /\ b <= 90
IsLowerA(b) == b >= 97 /\ b <= 122
IsAlpha(b) == IsUpper(b) \/ IsLowerA(b)                 \* ALPHA
IsHex(b) == IsDigit(b) \/ (b >= 65 /\ b <= 70) \/ (b >= 97 /\ b <= 102)   \* HEXDIG (either case, RFC 9112 7.1)
IsVchar(b) == b >= 33 /\ b <= 126                       \* VCHAR
IsObsText(b) == b >= 128 /\ b <= 255                    \* obs-text (RFC 9110 5.5)
IsWS(b) == b = SP \/ b = HTAB                           \* OWS / RWS / BWS member
IsCtl(b) == b < 32 \/ b = 127                           \* CTL
\* tchar (RFC 9110 5.6.2): "!#$%&'*+-.^_`|~" DIGIT ALPHA
TcharSpecials == {33, 35, 36, 37, 38, 39, 42, 43, 45, 46, 94, 95, 96, 124, 126}
IsTchar(b) == IsDigit(b) \/ IsAlpha(b) \/ b \in TcharSpecials
\* field-vchar / field-content (RFC 9110 5.5): VCHAR / obs-text, SP and HTAB inside
IsFieldByte(b) == IsVchar(b) \/ IsObsText(b) \/ IsWS(b)

Lower(b) == IF IsUpper(b) THEN b + 32 ELSE b
Upper(b) == IF IsLowerA(b) THEN b - 32 ELSE b

DigitVal(b) == b - 48
HexVal(b) == IF IsDigit(b) THEN b - 48 ELSE IF b >= 97 THEN b - 87 ELSE b - 55

AllB(q, T(_)) == \A i \in 1..Len(q) : T(q[i])
AnyB(q, T(_)) == \E i \in 1..Len(q) : T(q[i])
IsToken(q) == Len(q) > 0 /\ AllB(q, IsTchar)            \* token = 1*tchar
IsDigits(q) == Len(q) > 0 /\ AllB(q, IsDigit)           \* 1*DIGIT
IsHexDigits(q) == Len(q) > 0 /\ AllB(q, IsHex)          \* 1*HEXDIG

Slice(q, a, b) == IF a > b THEN <<>> ELSE SubSeq(q, a, b)
DropN(q, k) == Slice(q, k + 1, Len(q))
TakeN(q, k) == Slice(q, 1, Min2(k, Len(q)))

\* index of the first / last byte satisfying T inside a..b (0 if none); Java-backed, linear
FirstIn(q, a, b, T(_)) == IF a > b THEN 0 ELSE SelectInSubSeq(q, a, b, T)
LastIn(q, a, b, T(_)) == IF a > b THEN 0 ELSE SelectLastInSubSeq(q, a, b, T)
IndexOfByte(q, x) == FirstIn(q, 1, Len(q), LAMBDA b : b = x)
CountByte(q, x) == Cardinality({i \in 1..Len(q) : q[i] = x})

\* strip optional whitespace (SP / HTAB) at both ends
TrimWS(q) ==
    LET a == FirstIn(q, 1, Len(q), LAMBDA b : ~IsWS(b))
        z == LastIn(q, 1, Len(q), LAMBDA b : ~IsWS(b))
    IN IF a = 0 THEN <<>> ELSE SubSeq(q, a, z)
LTrimWS(q) ==
    LET a == FirstIn(q, 1, Len(q), LAMBDA b : ~IsWS(b))
    IN IF a = 0 THEN <<>> ELSE SubSeq(q, a, Len(q))

LowerSeq(q) == [i \in 1..Len(q) |-> Lower(q[i])]
UpperSeq(q) == [i \in 1..Len(q) |-> Upper(q[i])]
EqCI(q, lit) == Len(q) = Len(lit) /\ \A i \in 1..Len(q) : Lower(q[i]) = lit[i]   \* lit is lower case

\* split at every occurrence of byte x (like bytes.split); iterative (FoldLeft is Java-backed)
SplitOn(q, x) ==
    FoldLeft(LAMBDA acc, b : IF b = x THEN Append(acc, <<>>) ELSE [acc EXCEPT ![Len(acc)] = Append(@, b)],
             << <<>> >>, q)

\* decimal / hexadecimal value with saturation at Big; leading zeros allowed (1*DIGIT / 1*HEXDIG).
\* Leading zeros are dropped first so the recursion depth is at most 9 whatever the length.
SigDigits(q) == LET a == FirstIn(q, 1, Len(q), LAMBDA b : b # 48) IN IF a = 0 THEN <<>> ELSE DropN(q, a - 1)
RECURSIVE DecAcc(_, _, _)
DecAcc(q, i, acc) == IF i > Len(q) THEN acc ELSE DecAcc(q, i + 1, acc * 10 + DigitVal(q[i]))
DecVal(q) == LET d == SigDigits(q) IN IF Len(d) > 9 THEN Big ELSE DecAcc(d, 1, 0)
RECURSIVE HexAcc(_, _, _)
HexAcc(q, i, acc) == IF i > Len(q) THEN acc ELSE HexAcc(q, i + 1, acc * 16 + HexVal(q[i]))
HexValOf(q) == LET d == SigDigits(q) IN IF Len(d) > 7 THEN Big ELSE HexAcc(d, 1, 0)

\* literals (lower case) used by the framing rules
L_chunked == <<99, 104, 117, 110, 107, 101, 100>>
L_close == <<99, 108, 111, 115, 101>>
L_keepalive == <<107, 101, 101, 112, 45, 97, 108, 105, 118, 101>>
L_upgrade == <<117, 112, 103, 114, 97, 100, 101>>
L_websocket == <<119, 101, 98, 115, 111, 99, 107, 101, 116>>
L_tcp == <<116, 99, 112>>
L_host == <<104, 111, 115, 116>>
L_connection == <<99, 111, 110, 110, 101, 99, 116, 105, 111, 110>>
L_content_length == <<99, 111, 110, 116, 101, 110, 116, 45, 108, 101, 110, 103, 116, 104>>
L_transfer_encoding == <<116, 114, 97, 110, 115, 102, 101, 114, 45, 101, 110, 99, 111, 100, 105, 110, 103>>
L_sec_ws_key1 == <<115, 101, 99, 45, 119, 101, 98, 115, 111, 99, 107, 101, 116, 45, 107, 101, 121, 49>>
L_http_slash == <<72, 84, 84, 80, 47>>                 \* "HTTP/" (case-sensitive, RFC 9112 2.3)
M_CONNECT == <<67, 79, 78, 78, 69, 67, 84>>
M_OPTIONS == <<79, 80, 84, 73, 79, 78, 83>>
M_HEAD == <<72, 69, 65, 68>>
=============================================================================
