------------------------------ MODULE Redirects ------------------------------
(* C17 - redirects confine credentials and terminate.

   Reference machine of the redirect loop of aiohttp.client.ClientSession._request
   (client.py, "while True:" ... "# redirects").  The machine is sequential and
   deterministic: given a scenario q (the caller's initial request + the jar) and the
   responses of the scripted servers, it says which request every hop must carry and
   how the call must end.  It is written from the documentation / RFCs, not from the
   code:
     docs/client_reference.rst   max_redirects, allow_redirects, ClientResponse.history,
                                 TooManyRedirects, NonHttpUrlRedirectClientError,
                                 InvalidUrlRedirectClientError, "params ... Ignored for
                                 subsequent redirected requests"
     docs/client_advanced.rst    URL-embedded credentials supersede, ValueError when
                                 combined with an explicit Authorization
     docs/client_quickstart.rst  non-rewindable body + redirect => ClientPayloadError
     CHANGES (#12540, body-preservation entry), RFC 9110 15.4 (method/body table),
     RFC 6265 5.4 (cookie selection per request-uri), RFC 3986 5.2 (reference resolution)

   URLs are abstract:  origin = [scheme, host (sequence of labels), port],
   url = [o, dir, leaf] standing for  scheme://host:port/dir/leaf .

   The same operators drive
     * the bounded model RedirectsMC (TLC picks scenario and script);
     * trace validation RedirectsTrace (real ClientSession executions).

   StickyDrop / OriginCmp are the mechanism switches used by the self-test: the
   reference is StickyDrop = TRUE, OriginCmp = "origin".                          *)
EXTENDS Naturals, Sequences, FiniteSets, TLC

CONSTANTS StickyDrop,   \* TRUE: caller credentials, once dropped, never come back (A -> B -> A)
          OriginCmp     \* "origin": scheme + host + port decide "same origin"; "host": mutant

MaxChain == 12
UrlTok   == <<"url1", "url2", "url3", "url4", "url5", "url6", "url7", "url8", "url9", "url10", "url11", "url12", "url13">>
SetcName == <<"s1", "s2", "s3", "s4", "s5", "s6", "s7", "s8", "s9", "s10", "s11", "s12", "s13">>
LeafName == <<"h1", "h2", "h3", "h4", "h5", "h6", "h7", "h8", "h9", "h10", "h11", "h12", "h13">>
UrlToks  == {UrlTok[k] : k \in 1..(MaxChain + 1)}

ToSet(q) == {q[i] : i \in DOMAIN q}

\* ------------------------------------------------------------------ URLs
DefaultPort(sch) == IF sch = "https" THEN 443 ELSE 80
MkOrigin(sch, host, port) ==               \* port 0 = "not given" (RFC 3986 3.2.3: scheme default)
    [scheme |-> sch, host |-> host, port |-> IF port = 0 THEN DefaultPort(sch) ELSE port]
MkUrl(o, dir, leaf) == [o |-> o, dir |-> dir, leaf |-> leaf]

SameOrigin(o1, o2) == IF OriginCmp = "origin" THEN o1 = o2 ELSE o1.host = o2.host

\* Location forms (RFC 3986 5.2 reference resolution against the URL of the answered request)
\*   abs        scheme://host[:port]/dir/leaf
\*   cred       scheme://u:p@host[:port]/dir/leaf
\*   schemerel  //host[:port]/dir/leaf          scheme (and its default port) inherited
\*   abspath    /dir/leaf                       authority inherited
\*   relseg     leaf                            authority and directory inherited
FollowForms == {"abs", "cred", "schemerel", "abspath", "relseg"}
Resolve(cur, r) ==
    CASE r.form \in {"abs", "cred"} -> MkUrl(MkOrigin(r.sch, r.host, r.port), r.dir, r.leaf)
      [] r.form = "schemerel"        -> MkUrl(MkOrigin(cur.o.scheme, r.host, r.port), r.dir, r.leaf)
      [] r.form = "abspath"          -> MkUrl(cur.o, r.dir, r.leaf)
      [] OTHER                       -> MkUrl(cur.o, cur.dir, r.leaf)

\* ------------------------------------------------------------------ cookies (RFC 6265 5.1.3, 5.1.4, 5.4)
\* cookie = [name, host (labels), hostOnly, dir ("" = path "/", else path "/dir"), secure]
IsSuffix(suf, q) == Len(suf) <= Len(q) /\ SubSeq(q, Len(q) - Len(suf) + 1, Len(q)) = suf
DomainMatch(c, host) == host = c.host \/ (~c.hostOnly /\ Len(c.host) < Len(host) /\ IsSuffix(c.host, host))
PathMatch(c, u) == c.dir = "" \/ c.dir = u.dir
CookieMatches(c, u) == DomainMatch(c, u.o.host) /\ PathMatch(c, u) /\ (c.secure => u.o.scheme = "https")
JarSelect(jar, u) == {c.name : c \in {x \in jar : CookieMatches(x, u)}}

\* ------------------------------------------------------------------ requests
\* scenario q = [url, userinfo, method, body, hdrs, reqCookies, params, maxRedirects, jar]
\*   body \in {"none", "bytes", "stream"}; hdrs \subseteq {"Authorization","Cookie","Proxy-Authorization"}
CallerCookies(q, alive) ==
    (IF alive /\ "Cookie" \in q.hdrs THEN {"hc"} ELSE {}) \cup (IF alive /\ q.reqCookies THEN {"rc"} ELSE {})

\* auth is the SET of Authorization values the hop may carry ("" = no header)
MkReq(q, u, hop, method, body, alive, auths, jar) ==
    [url |-> u, query |-> (hop = 1 /\ q.params), method |-> method, body |-> body,
     auth |-> auths, pauth |-> (alive /\ "Proxy-Authorization" \in q.hdrs),
     ccookies |-> CallerCookies(q, alive), jcookies |-> JarSelect(jar, u)]

\* RFC 9110 15.4.2-15.4.4 + the body-preservation CHANGES entry:
\*   303 -> GET without content (HEAD stays HEAD); 301/302 + POST -> GET without content;
\*   everything else (307, 308, 301/302 with other methods) keeps method and content
Drops(status, method) ==
    (status = 303 /\ method # "HEAD") \/ (status \in {301, 302} /\ method = "POST")

Start(q) ==
    \* client_advanced.rst: explicit Authorization + credentials in the initial URL => ValueError
    LET clash == q.userinfo /\ "Authorization" \in q.hdrs
        a0 == IF q.userinfo THEN {UrlTok[1]}
              ELSE IF "Authorization" \in q.hdrs THEN {"caller"} ELSE {""}
    IN [phase |-> IF clash THEN "done" ELSE "wait",
        url |-> q.url, method |-> q.method, body |-> q.body,
        alive |-> TRUE,                          \* every hop so far stayed in the initial origin
        urlAuth |-> IF q.userinfo THEN 1 ELSE 0, \* hop whose URL credentials are still in force (0: none)
        jar |-> q.jar,
        sent |-> IF clash THEN <<>> ELSE <<MkReq(q, q.url, 1, q.method, q.body, TRUE, a0, q.jar)>>,
        history |-> <<>>,
        outcomes |-> IF clash THEN {"ValueError"} ELSE {},
        final |-> 0]

\* response r = [kind ("final" | "redirect"), status, form, sch, host, port, dir, leaf, setc, variant]
Respond(q, s, r) ==
    LET n == Len(s.sent)
        \* every response may store a cookie (host-only, Path=/) for the host that answered:
        \* "jar cookies are re-selected for each hop" includes cookies set on the way
        jar1 == IF r.setc
                THEN s.jar \cup {[name |-> SetcName[n], host |-> s.url.o.host, hostOnly |-> TRUE,
                                  dir |-> "", secure |-> FALSE]}
                ELSE s.jar
        Done(outs, fin) == [s EXCEPT !.phase = "done", !.jar = jar1, !.outcomes = outs, !.final = fin]
    IN IF r.kind = "final" THEN Done({"ok"}, r.status)
       ELSE
       LET drops == Drops(r.status, s.method)
           method2 == IF drops THEN "GET" ELSE s.method
           body2 == IF drops THEN "none" ELSE s.body
           \* request bound as the property states it: at most max_redirects requests, i.e. the
           \* max_redirects-th redirect response is refused.  (docs/client_reference.rst reads
           \* "maximum number of redirects to follow", one more than the code follows: a doc/code
           \* discrepancy recorded in DESIGN.md section 5 #19, not a violation.)  Refusing earlier
           \* than that contradicts both readings (clause EarlyTooManyRedirects).
           errs == (IF n >= q.maxRedirects THEN {"TooManyRedirects"} ELSE {})
                   \cup (IF ~drops /\ s.body = "stream" THEN {"Payload"} ELSE {})  \* consumed one-shot body
                   \cup (IF r.form = "nonhttp" THEN {"NonHttp"} ELSE {})
                   \cup (IF r.form = "invalid" THEN {"InvalidUrl"} ELSE {})
       IN IF r.form = "missing"
          THEN Done(errs \cup {"ok"}, r.status)  \* nothing to follow: the 3xx itself is the result
          ELSE IF errs # {} THEN Done(errs, 0)   \* any applicable refusal; nothing more is sent
          ELSE
          LET u2 == Resolve(s.url, r)
              same == SameOrigin(u2.o, s.url.o)
              alive2 == IF StickyDrop THEN s.alive /\ same ELSE SameOrigin(u2.o, q.url.o)
              ua2 == IF r.form = "cred" THEN n + 1 ELSE IF same THEN s.urlAuth ELSE 0
              base == IF alive2 /\ "Authorization" \in q.hdrs THEN "caller" ELSE ""
              auths == IF r.form = "cred" THEN {UrlTok[n + 1]}     \* client_advanced.rst: supersede
                       ELSE IF ua2 # 0
                            THEN (IF r.form \in {"abspath", "relseg"}
                                  THEN {UrlTok[ua2]}                \* RFC 3986 5.2.2: authority (userinfo) inherited
                                  ELSE {UrlTok[ua2], base})        \* same origin, URL without userinfo: either
                       ELSE {base}
          IN [s EXCEPT !.url = u2, !.method = method2, !.body = body2,
                       !.alive = alive2, !.urlAuth = ua2, !.jar = jar1,
                       !.sent = Append(@, MkReq(q, u2, n + 1, method2, body2, alive2, auths, jar1)),
                       !.history = Append(@, [status |-> r.status, url |-> s.url])]

\* ------------------------------------------------------------------ properties of the reference
ChainIn(s, o, from, to) == \A j \in from..to : s.sent[j].url.o = o

\* caller-supplied credentials only while the chain never left the initial origin; URL-embedded
\* credentials only while the chain never left the origin of the URL that carried them; jar
\* cookies only where RFC 6265 matching allows
NoCredentialOffOrigin(q, s) ==
    \A i \in 1..Len(s.sent) :
        LET rq == s.sent[i] IN
        /\ ("caller" \in rq.auth \/ rq.pauth \/ rq.ccookies # {}) => ChainIn(s, q.url.o, 1, i)
        /\ \A k \in 1..(MaxChain + 1) :
               UrlTok[k] \in rq.auth => (k <= i /\ ChainIn(s, s.sent[k].url.o, k, i))
        /\ \A c \in s.jar : c.name \in rq.jcookies =>
               (DomainMatch(c, rq.url.o.host) /\ (c.secure => rq.url.o.scheme = "https"))

\* ... and they are not lost while the chain stays inside the initial origin
CredentialKept(q, s) ==
    \A i \in 1..Len(s.sent) :
        LET rq == s.sent[i] IN
        ChainIn(s, q.url.o, 1, i) =>
            /\ rq.pauth = ("Proxy-Authorization" \in q.hdrs)
            /\ rq.ccookies = CallerCookies(q, TRUE)
            /\ ("Authorization" \in q.hdrs => "" \notin rq.auth)

\* the call makes at most max_redirects requests, and it is finished as soon as the script
\* has answered the last request it was allowed to make
Terminates(q, s, script) ==
    /\ Len(s.sent) <= q.maxRedirects
    /\ s.phase = "wait" => Len(script) = Len(s.sent) - 1
    /\ s.phase = "done" => (Len(script) = Len(s.sent) /\ s.outcomes # {})

\* history = the answered intermediate requests, in order
HistoryOrdered(q, s, script) ==
    /\ Len(s.history) = (IF s.phase = "wait" THEN Len(s.sent) - 1
                         ELSE IF s.sent = <<>> THEN 0 ELSE Len(s.sent) - 1)
    /\ \A i \in 1..Len(s.history) :
           s.history[i] = [status |-> script[i].status, url |-> s.sent[i].url]

\* method/content table, stated once more declaratively over consecutive hops
MethodBodyTable(q, s, script) ==
    \A i \in 1..(Len(s.sent) - 1) :
        LET a == s.sent[i]
            b == s.sent[i + 1]
            st == script[i].status
        IN /\ (st = 303 /\ a.method # "HEAD") => (b.method = "GET" /\ b.body = "none")
           /\ (st \in {301, 302} /\ a.method = "POST") => (b.method = "GET" /\ b.body = "none")
           /\ (st \in {307, 308} \/ (st = 303 /\ a.method = "HEAD") \/ (st \in {301, 302} /\ a.method # "POST"))
                  => (b.method = a.method /\ b.body = a.body /\ b.body # "stream")
           /\ ~b.query
=============================================================================
