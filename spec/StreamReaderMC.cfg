SPECIFICATION Spec
CONSTANTS
  Limit = 1
  MaxFed = 6
  WithUnread = FALSE
  WithChunks = TRUE
INVARIANT InvSize
INVARIANT InvPieces
INVARIANT InvBounds
INVARIANT InvNoStuckPause
INVARIANT InvPauseAboveHigh
INVARIANT InvBlocked
INVARIANT InvSelf
VIEW View
CHECK_DEADLOCK FALSE
