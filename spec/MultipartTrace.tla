--------------------------- MODULE MultipartTrace ---------------------------
(* Trace validation for C19.  One trace = one multipart body (written by the real
   MultipartWriter / FormData, or an arbitrary byte string) followed by any number of
   read sessions of the real MultipartReader / BodyPartReader / BaseRequest.post over a
   real StreamReader, each under its own segmentation, API and limits.

   Events (records; absent fields take defaults):
     write    parts, body, size              the writer produced `body` for the part list
     refused  crlf                           the writer refused the part list (ValueError)
     input    body                           arbitrary input (termination driver)
     session  api, strict, seg, mfs, mh, cms, chunk
     next     lvl, res, hdrs, name, filename, err, fed          reader.next()
     data     lvl, kind, data, empties, maxchunk, ateof, err, fed, cmsapi, chunkwise, codec
     post     fields, err, fed                                   request.post()
     end      ops, work, outcome, fed

   PROPERTY clauses (violations):
     SizeTruthful PartLengthTruthful WriterMalformed WriterPartCount WriterStructure
     WriterContent WriterHeaders WriterRefused
     PartMissing PartPhantom PartKind ReaderHeaders ReaderError ReaderContent DecodeContent
     NameRoundTrip FilenameRoundTrip NotAtEof
     EmptyChunk EmptyChunkLoop ChunkTooLarge NoTermination ReaderStuck StepBound WorkBound
     FieldLimitNotEnforced HeadersLimitNotEnforced LimitSpurious LimitLate
     ClientMaxNotEnforced ClientMaxSpurious ClientMaxLate PostFieldCount PostContent
   Clauses that name one specific deviation each (so that a known-findings entry can match
   exactly that and nothing else):
     DecodeChunkwise<codec>  chunk-wise decode() of a transfer-encoded part fails / corrupts
     ReadlineEndNotEof       readline() signals the end of the part before at_eof()
     WriterAssertion         the writer dies with AssertionError on input it accepted
     NameLeadingSlash        leading path separators stripped from a field NAME
     NameMultiSemicolon      a name / filename with two or more ';' comes back as None
     NameQuoteBeforeSemicolon  a '"' directly (or after blanks) before ';' inside a value
   Resource bound on arbitrary input: HeaderBlockBound (awaits / bytes of one next()).
   REFINEMENT clauses (drift): SizeNone.
   A clause violated inside a read session is recorded (viol) and ends the judgement of that
   session only; a violated writer clause ends the trace.                               *)
EXTENDS Multipart, TraceBatch

VARIABLES tid, l, m, bad, drift, viol

tvars == <<tid, l, m, bad, drift, viol>>

NoName == <<-1>>

M0 == [have |-> FALSE, written |-> FALSE, ref |-> Leaf, parts |-> <<>>, body |-> <<>>, blen |-> 0,
       trust |-> FALSE, trustS |-> FALSE, ndash |-> 0, nchk |-> 0,
       sess |-> [api |-> ""], ix |-> 0, jx |-> 0, inInner |-> FALSE, dead |-> FALSE]

FirstBad(q) == LET k == First(1, Len(q), LAMBDA i : q[i] # "") IN IF k = 0 THEN "" ELSE q[k]
MaxOver(S) == IF S = {} THEN 0 ELSE CHOOSE x \in S : \A y \in S : y <= x

(* ---- writer clauses --------------------------------------------------------- *)
RECURSIVE PartsClause(_, _)
PartClause(r, p) ==
    IF Get(p, "multi", FALSE) # r.multi THEN "WriterStructure"
    ELSE IF \E h \in 1..Len(p.hdrs) : ~\E j \in 1..Len(r.hdrs) : r.hdrs[j] = p.hdrs[h] THEN "WriterHeaders"
    ELSE IF r.multi THEN PartsClause(r.sub.parts, p.inner)
    ELSE IF r.content # p.wire THEN "WriterContent"
    ELSE ""
PartsClause(rs, ps) ==
    IF Len(rs) # Len(ps) THEN "WriterPartCount"
    ELSE FirstBad([k \in 1..Len(rs) |-> PartClause(rs[k], ps[k])])

(* Composer obligation evaluated on what the user handed to the writer: a leaf is safe if the
   reader will take it by length (bl) or if no line of its wire form starts with the dash-boundary
   of its own container; it must never imitate the delimiter of an enclosing container (encl). *)
RECURSIVE SpecClean(_, _, _, _)
SpecClean(ps, B, encl, strict) ==
    \A k \in 1..Len(ps) :
        LET p == ps[k] IN
        IF Get(p, "multi", FALSE)
        THEN /\ ~MatchAt(p.ib, 1, B)
             /\ \A x \in encl : ~MatchAt(p.ib, 1, x)
             /\ SpecClean(p.inner, p.ib, encl \cup {B}, strict)
        ELSE /\ (Get(p, "bl", FALSE) /\ ~strict) \/ CleanLeaf(p.wire, B)
             /\ \A x \in encl : CleanLeaf(p.wire, x)

RECURSIVE AnyEnc(_)
AnyEnc(ps) == \E k \in 1..Len(ps) : Get(ps[k], "enc", FALSE) \/ AnyEnc(Get(ps[k], "inner", <<>>))

NDash(s) == Cardinality({i \in 1..(Len(s) - 1) : s[i] = 45 /\ s[i + 1] = 45})

(* ---- where the reader stands -------------------------------------------------- *)
RefList(m_, lvl) == IF lvl = 1 THEN m_.ref.parts ELSE m_.ref.parts[m_.ix].sub.parts
SpecList(m_, lvl) == IF ~m_.written THEN <<>> ELSE IF lvl = 1 THEN m_.parts ELSE m_.parts[m_.ix].inner
CurIdx(m_, lvl) == IF lvl = 1 THEN m_.ix ELSE m_.jx
Trust(m_) == m_.have /\ ~m_.dead /\ (IF Get(m_.sess, "strict", FALSE) THEN m_.trustS ELSE m_.trust)

\* byte offset in the body of item index i of s = CRLF \o body
OffOf(m_, i) == BLen(SubSeq(m_.body, 1, i - 3))
\* item index i of a part at nesting level lvl, expressed as an index of the outer s: the inner
\* reference parse runs on CRLF \o (content of the enclosing part), whose first item is s[cs]
AbsIdx(m_, lvl, i) == IF lvl = 1 THEN i ELSE m_.ref.parts[m_.ix].cs + i - 3
RECURSIVE LineItems(_, _)
LineItems(lines, k) == IF k = 0 THEN 0 ELSE Len(lines[k]) + 2 + LineItems(lines, k - 1)
MaxLine(lines) == MaxOver({BLen(lines[k]) : k \in 1..Len(lines)})
SegSlack(m_) == 4 * Max(Get(m_.sess, "seg", 1), Len(Cfg(tid).b) + 6) + 64

\* header limits of one part: a line longer than max_field_size, more lines than max_headers
OverF(p, mfs) == MaxLine(p.lines) > mfs
OverH(p, mh) == Len(p.lines) > mh
Within(p, mfs, mh) == MaxLine(p.lines) + 2 <= mfs /\ Len(p.lines) <= mh
\* first byte offset of the input at which the violation of the limit is determined
LimitAt(m_, lvl, p, mfs, mh) ==
    LET kF == First(1, Len(p.lines), LAMBDA k : BLen(p.lines[k]) > mfs)
    IN IF OverH(p, mh) /\ (~OverF(p, mfs) \/ kF > mh + 1)
       THEN OffOf(m_, AbsIdx(m_, lvl, p.hs + LineItems(p.lines, mh + 1)))
       ELSE OffOf(m_, AbsIdx(m_, lvl, p.hs + LineItems(p.lines, kF - 1))) + mfs + 2

(* A name / filename is delivered verbatim or in a percent-encoded form that decodes to the
   original.  Permitted alternatives: an empty filename may be reported as "no filename"; leading
   path separators ('/', '\') of a FILENAME may be dropped (path-traversal hardening of
   parse_content_disposition).  The same stripping applied to a field NAME is reported under
   its own clause NameLeadingSlash.                                                            *)
LeadStripped(orig, obs) ==
    /\ obs # NoName /\ orig # <<>> /\ orig[1] \in {47, 92}
    /\ \E k \in 1..Len(orig) : (\A j \in 1..k : orig[j] \in {47, 92})
                               /\ (SubSeq(orig, k + 1, Len(orig)) = obs \/ PctDecode(obs) = SubSeq(orig, k + 1, Len(orig)))
QuoteThenSemi(orig) ==
    \E i \in 1..Len(orig) : orig[i] = 34 /\ \E j \in (i + 1)..Len(orig) :
        orig[j] = 59 /\ \A k \in (i + 1)..(j - 1) : orig[k] \in {32, 9}
NSemi(orig) == Cardinality({i \in 1..Len(orig) : orig[i] = 59})
PartSemis(w) == Max(NSemi(Get(w, "name", NoName)), NSemi(Get(w, "filename", NoName)))
PartQS(w) == QuoteThenSemi(Get(w, "name", NoName)) \/ QuoteThenSemi(Get(w, "filename", NoName))
NameClause(orig, obs, what, semis, qs) ==
    IF orig = NoName THEN ""
    ELSE IF obs = orig THEN ""
    ELSE IF obs # NoName /\ PctDecode(obs) = orig THEN ""
    ELSE IF orig = <<>> /\ obs = NoName THEN ""
    \* named deviation: a quoted value holding two or more ';' is not re-joined by
    \* parse_content_disposition; the whole header is dropped (name and filename None)
    ELSE IF obs = NoName /\ semis >= 2 THEN "NameMultiSemicolon"
    \* named deviation of the same splitter: '"' (escaped as \" on the wire), optional blanks, ';'
    ELSE IF qs THEN "NameQuoteBeforeSemicolon"
    ELSE IF LeadStripped(orig, obs) THEN (IF what = "FilenameRoundTrip" THEN "" ELSE "NameLeadingSlash")
    ELSE what

(* ---- one event ----------------------------------------------------------------- *)
Apply(m_, e, B, useLen) ==
    CASE e.ev \in {"write", "input"} ->
            LET wr == e.ev = "write"
                \* arbitrary input only gets the termination / limit clauses: no reference parse needed
                ref == IF wr THEN ParseBody(e.body, B, useLen) ELSE [Leaf EXCEPT !.ok = FALSE]
                obliged == wr /\ SpecClean(e.parts, B, {}, FALSE)
                c == IF ~wr THEN ""
                     ELSE IF e.size >= 0 /\ e.size # BLen(e.body) THEN "SizeTruthful"
                     ELSE IF ~obliged THEN ""           \* the user broke the composer obligation: no claim
                     ELSE IF ~ref.ok THEN (IF ref.err = "LengthMismatch" THEN "PartLengthTruthful" ELSE "WriterMalformed")
                     ELSE PartsClause(ref.parts, e.parts)
                okc == obliged /\ ref.ok /\ c = ""
            IN [m |-> [M0 EXCEPT !.have = TRUE, !.written = wr, !.ref = ref, !.nchk = m_.nchk,
                                 !.parts = IF wr THEN e.parts ELSE <<>>,
                                 !.body = e.body, !.blen = BLen(e.body), !.ndash = NDash(e.body),
                                 !.trust = okc /\ CleanParts(ref.parts, B, FALSE),
                                 !.trustS = okc /\ CleanParts(ref.parts, B, TRUE) /\ SpecClean(e.parts, B, {}, TRUE)],
                bad |-> c,
                drift |-> IF wr /\ c = "" /\ e.size < 0 /\ ~AnyEnc(e.parts) /\ ~Get(e, "nosize", FALSE) THEN "SizeNone" ELSE ""]
      [] e.ev = "refused" ->
            \* CR / LF / NUL in a name, filename or header must be refused (or encoded); anything else
            \* the writer accepts as input must be written
            [m |-> m_, bad |-> IF Get(e, "crlf", FALSE) THEN ""
                               ELSE IF Get(e, "err", "") = "AssertionError" THEN "WriterAssertion"
                               ELSE "WriterRefused", drift |-> ""]
      [] e.ev = "session" ->
            [m |-> [m_ EXCEPT !.sess = e, !.ix = 0, !.jx = 0, !.inInner = FALSE, !.dead = FALSE],
             bad |-> IF m_.have THEN "" ELSE "HarnessProtocol", drift |-> ""]
      [] e.ev = "next" ->
            LET lvl == e.lvl
                T == Trust(m_) /\ (lvl = 1 \/ m_.inInner)
                err == e.res = "err"
                hbc == IF Get(e, "hb", FALSE) /\ m_.have
                          /\ (Get(e, "nops", 0) > HeaderOpsBound(Get(m_.sess, "mh", 128))
                              \/ Get(e, "ntaken", 0) > HeaderBytesBound(Get(m_.sess, "mh", 128), Get(m_.sess, "mfs", 8190),
                                                                       Get(m_.sess, "linecap", 131072), Get(m_.sess, "seg", 1)))
                       THEN "HeaderBlockBound" ELSE ""
            IN IF ~T THEN [m |-> [m_ EXCEPT !.dead = m_.dead \/ err], bad |-> hbc, drift |-> ""]
               ELSE
               LET plist == RefList(m_, lvl)
                   cur == CurIdx(m_, lvl)
                   hasNext == cur + 1 <= Len(plist)
                   p == plist[cur + 1]
                   ws == SpecList(m_, lvl)
                   w == ws[cur + 1]
                   mfs == Get(m_.sess, "mfs", 8190)
                   mh == Get(m_.sess, "mh", 128)
                   overF == hasNext /\ OverF(p, mfs)
                   overH == hasNext /\ OverH(p, mh)
                   within == hasNext /\ Within(p, mfs, mh)
                   limitAt == LimitAt(m_, lvl, p, mfs, mh)
                   c == IF err THEN
                            (IF overF \/ overH THEN
                                 (IF e.fed > limitAt + SegSlack(m_) THEN "LimitLate" ELSE "")
                             ELSE IF hasNext /\ ~within THEN ""
                             ELSE IF e.err \in {"linetoolong", "toomany"} THEN "LimitSpurious"
                             ELSE "ReaderError")
                        ELSE IF overF THEN "FieldLimitNotEnforced"
                        ELSE IF overH THEN "HeadersLimitNotEnforced"
                        ELSE IF e.res = "none" THEN (IF hasNext THEN "PartMissing" ELSE "")
                        ELSE IF ~hasNext THEN "PartPhantom"
                        ELSE IF (e.res = "multi") # p.multi THEN "PartKind"
                        ELSE IF e.hdrs # p.hdrs THEN "ReaderHeaders"
                        ELSE IF e.err # "" THEN "ReaderError"
                        ELSE IF m_.written /\ ~p.multi
                        THEN FirstBad(<<NameClause(Get(w, "name", NoName), e.name, "NameRoundTrip", PartSemis(w), PartQS(w)),
                                        NameClause(Get(w, "filename", NoName), e.filename, "FilenameRoundTrip", PartSemis(w), PartQS(w))>>)
                        ELSE ""
                   adv == ~err /\ e.res # "none" /\ c = ""
                   m1 == [m_ EXCEPT !.nchk = @ + 1]
               IN [m |-> IF err THEN [m1 EXCEPT !.dead = TRUE]
                         ELSE IF e.res = "none" THEN (IF lvl = 2 THEN [m1 EXCEPT !.inInner = FALSE] ELSE m1)
                         ELSE IF ~adv THEN m1
                         ELSE IF lvl = 1 THEN [m1 EXCEPT !.ix = cur + 1, !.jx = 0, !.inInner = p.multi]
                         ELSE [m1 EXCEPT !.jx = cur + 1],
                   bad |-> IF hbc # "" THEN hbc ELSE c, drift |-> ""]
      [] e.ev = "data" ->
            LET lvl == e.lvl
                T == Trust(m_) /\ (lvl = 1 \/ m_.inInner) /\ CurIdx(m_, lvl) >= 1
                seterr == e.err # ""
                emp == Get(e, "empties", 0)
                \* read_chunk(size) returns at most size bytes; a transfer-encoded part (base64, quoted-
                \* printable) may add the carried partial group (< 4 bytes) to a chunk of at least the
                \* boundary window (permitted alternative)
                allow == IF Get(e, "carry", FALSE) THEN Max(Get(m_.sess, "chunk", 1000000000), Len(B) + 4) + 3
                         ELSE Get(m_.sess, "chunk", 1000000000)
                chunkc == IF Get(e, "maxchunk", 0) > allow THEN "ChunkTooLarge" ELSE ""
            IN IF ~T THEN [m |-> [m_ EXCEPT !.dead = m_.dead \/ seterr],
                           bad |-> IF emp > MaxEmptyArbitrary THEN "EmptyChunkLoop" ELSE "", drift |-> ""]
               ELSE
               LET p == RefList(m_, lvl)[CurIdx(m_, lvl)]
                   ws == SpecList(m_, lvl)
                   w == ws[CurIdx(m_, lvl)]
                   cms == Get(m_.sess, "cms", -1)
                   cmsOn == cms >= 0 /\ Get(e, "cmsapi", FALSE)
                   L == BLen(p.content)
                   DL == IF e.kind \in {"dec", "decvoid"} /\ m_.written THEN BLen(w.content) ELSE 0
                   over == cmsOn /\ (L > cms \/ DL > cms)
                   big == e.err = "toolarge"
                   c == IF p.multi THEN "HarnessProtocol"
                        ELSE IF over /\ ~big THEN "ClientMaxNotEnforced"
                        ELSE IF big /\ ~over THEN "ClientMaxSpurious"
                        ELSE IF big /\ L > cms
                                /\ e.fed > OffOf(m_, AbsIdx(m_, lvl, p.cs)) + cms + SegSlack(m_) + 2 * Min(Get(m_.sess, "seg", 1), 8192)
                             THEN "ClientMaxLate"
                        ELSE IF big THEN ""
                        ELSE IF seterr /\ Get(e, "chunkwise", FALSE) THEN "DecodeChunkwise" \o Get(e, "codec", "")
                        ELSE IF seterr THEN "ReaderError"
                        ELSE IF emp > 0 THEN "EmptyChunk"
                        ELSE IF chunkc # "" THEN chunkc
                        ELSE IF e.kind \in {"raw", "rawline"} /\ e.data # p.content THEN "ReaderContent"
                        ELSE IF e.kind = "partial" /\ BLen(e.data) > L THEN "ReaderContent"
                        ELSE IF e.kind = "dec" /\ m_.written /\ e.data # w.content
                             THEN (IF Get(e, "chunkwise", FALSE) THEN "DecodeChunkwise" \o Get(e, "codec", "") ELSE "DecodeContent")
                        ELSE IF e.kind \in {"raw", "dec", "void", "decvoid"} /\ ~Get(e, "ateof", TRUE) THEN "NotAtEof"
                        \* readline() returned b"" (its end-of-part signal) but the part is not at_eof
                        ELSE IF e.kind = "rawline" /\ ~Get(e, "ateof", TRUE) THEN "ReadlineEndNotEof"
                        ELSE ""
               IN [m |-> [m_ EXCEPT !.dead = m_.dead \/ seterr, !.nchk = @ + 1], bad |-> c, drift |-> ""]
      [] e.ev = "post" ->
            LET T == Trust(m_) /\ m_.written
                cms == Get(m_.sess, "cms", 0)
                big == e.err = "toolarge"
                seterr == e.err # ""
            IN IF ~T THEN [m |-> [m_ EXCEPT !.dead = TRUE], bad |-> "", drift |-> ""]
               ELSE
               LET rp == m_.ref.parts
                   sumc == LET RECURSIVE S(_)
                               S(k) == IF k = 0 THEN 0 ELSE BLen(rp[k].content) + S(k - 1)
                           IN S(Len(rp))
                   over == cms > 0 /\ sumc > cms
                   under == cms <= 0 \/ m_.blen <= cms
                   FieldClause(k) ==
                       LET f == e.fields[k]
                           w == m_.parts[k]
                       IN FirstBad(<<NameClause(Get(w, "name", NoName), f.name, "NameRoundTrip", PartSemis(w), PartQS(w)),
                                     NameClause(Get(w, "filename", NoName), f.filename, "FilenameRoundTrip", PartSemis(w), PartQS(w)),
                                     IF f.value # w.content THEN "PostContent" ELSE "">>)
                   mfs == Get(m_.sess, "mfs", 8190)
                   mh == Get(m_.sess, "mh", 128)
                   kO == First(1, Len(rp), LAMBDA k : OverF(rp[k], mfs) \/ OverH(rp[k], mh))
                   allWithin == \A k \in 1..Len(rp) : Within(rp[k], mfs, mh)
                   lim == e.err \in {"linetoolong", "toomany"}
                   c == IF kO > 0 /\ ~seterr THEN (IF OverF(rp[kO], mfs) THEN "FieldLimitNotEnforced" ELSE "HeadersLimitNotEnforced")
                        ELSE IF kO > 0 /\ lim THEN (IF e.fed > LimitAt(m_, 1, rp[kO], mfs, mh) + SegSlack(m_) THEN "LimitLate" ELSE "")
                        ELSE IF lim /\ allWithin THEN "LimitSpurious"
                        ELSE IF lim THEN ""
                        ELSE IF over /\ ~big THEN "ClientMaxNotEnforced"
                        ELSE IF big /\ under THEN "ClientMaxSpurious"
                        ELSE IF big /\ over /\ e.fed > cms + SegSlack(m_) + 2 * Min(Get(m_.sess, "seg", 1), 262144) THEN "ClientMaxLate"
                        ELSE IF big THEN ""
                        ELSE IF seterr /\ \E k \in 1..Len(m_.parts) : PartSemis(m_.parts[k]) >= 2 THEN "NameMultiSemicolon"
                        ELSE IF seterr /\ \E k \in 1..Len(m_.parts) : PartQS(m_.parts[k]) THEN "NameQuoteBeforeSemicolon"
                        ELSE IF seterr THEN "ReaderError"
                        ELSE IF Len(e.fields) # Len(rp) THEN "PostFieldCount"
                        ELSE FirstBad([k \in 1..Len(rp) |-> FieldClause(k)])
               IN [m |-> [m_ EXCEPT !.dead = TRUE, !.nchk = @ + 1], bad |-> c, drift |-> ""]
      [] e.ev = "end" ->
            LET c == IF e.outcome = "budget" THEN "NoTermination"
                     ELSE IF e.outcome = "stuck" THEN "ReaderStuck"
                     ELSE IF ~StepBoundOk(e.ops, e.fed, m_.ndash) THEN "StepBound"
                     ELSE IF Get(e, "work", 0) > WorkA * e.fed + WorkB * m_.ndash + WorkC THEN "WorkBound"
                     ELSE ""
            IN [m |-> m_, bad |-> c, drift |-> ""]
      [] OTHER -> [m |-> m_, bad |-> "HarnessProtocol", drift |-> ""]

TInit ==
    /\ tid \in 1..NTraces
    /\ l = 0
    /\ m = M0
    /\ bad = ""
    /\ drift = <<>>
    /\ viol = <<>>
    /\ Verdict(tid, 0, "", <<<<>>, 0, <<>>>>)

TNext ==
    /\ bad = ""
    /\ l < NEvents(tid)
    /\ LET ev == Events(tid)[l + 1]
           a == Apply(m, ev, Cfg(tid).b, Cfg(tid).uselen)
           d2 == IF a.drift # "" /\ Len(drift) < 3 THEN Append(drift, <<l + 1, a.drift>>) ELSE drift
           \* a clause violated inside a read session is recorded and ends the judgement of that
           \* session only: the other sessions of the same body are still judged
           soft == a.bad # "" /\ ev.ev \in {"next", "data", "post", "end"}
           v2 == IF soft /\ Len(viol) < 12 THEN Append(viol, <<l + 1, a.bad>>) ELSE viol
           l2 == IF a.bad = "" \/ soft THEN l + 1 ELSE l
       IN /\ m' = IF soft THEN [a.m EXCEPT !.dead = TRUE] ELSE a.m
          /\ bad' = IF soft THEN "" ELSE a.bad
          /\ drift' = d2
          /\ viol' = v2
          /\ l' = l2
          /\ UNCHANGED tid
          \* info: drift list, events judged under Trust, violated clauses of read sessions
          /\ Verdict(tid, l2, IF soft THEN "" ELSE a.bad, <<d2, a.m.nchk, v2>>)

TSpec == TInit /\ [][TNext]_tvars
=============================================================================
