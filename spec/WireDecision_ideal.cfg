\* WireDecision, ideal design: every deviation constant TRUE; all four invariants must hold.
SPECIFICATION Spec
CONSTANTS
  Http10UnsizedCloses = TRUE
  ChunkedFlagTruthy = TRUE
  ChunkedSetsTE = TRUE
  HeadStreamSuppressed = TRUE
  EmptyBodyNoFlush = TRUE
  HandlerConnHonored = TRUE
  HeadReqBodyFramed = TRUE
  HeadNoLenReusable = TRUE
  ConnectAware = TRUE
  Http10NoChunkedReq = TRUE
  Expect10Proceeds = TRUE
  RefusedPrepareCleansWriter = TRUE
  FailedPrepareCleansWriter = TRUE
  WithheldBodyCloses = TRUE
  HostKeptOnRetry = TRUE
  CutBodyCloses = TRUE
  CancelCloses = TRUE
  FreshHeaderContainer = TRUE
INVARIANT FramingTruthful
INVARIANT ReceiverFollowsRfc
INVARIANT CloseAgree
INVARIANT NoHang
INVARIANT UnfinishedNeverReused
INVARIANT RetrySameRequest
CHECK_DEADLOCK FALSE
