\* WireDecision, ideal design: every deviation constant TRUE; all four invariants must hold.
SPECIFICATION Spec
CONSTANTS
  Http10UnsizedCloses = TRUE
  ChunkedFlagTruthy = TRUE
  ChunkedSetsTE = TRUE
  HeadStreamSuppressed = TRUE
  EmptyBodyNoFlush = TRUE
  HandlerConnHonored = TRUE
  HeadReqBodyFramed = TRUE
  HeadNoLenReusable = TRUE
  ConnectAware = TRUE
  Http10NoChunkedReq = TRUE
  Expect10Proceeds = TRUE
  RefusedPrepareCleansWriter = TRUE
INVARIANT FramingTruthful
INVARIANT ReceiverFollowsRfc
INVARIANT CloseAgree
INVARIANT NoHang
CHECK_DEADLOCK FALSE
