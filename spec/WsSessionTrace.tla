--------------------------- MODULE WsSessionTrace ---------------------------
(* C13 - observational property monitor over recorded executions of a real
   WebSocketResponse / ClientWebSocketResponse talking to a scripted peer
   (engine/wskit.py, props/C13.py).  Only observables are used: frames on the wire in both
   directions, transport closed, return values / exceptions of receive() / close() /
   send_str() with the virtual time of the return, the public `closed`, `close_code`,
   `exception()`, tasks still blocked at quiescence, loop exception-handler calls.

   cfg:  side ("server" | "client"), closeTimeout, heartbeat (virtual seconds; 0 = off)
   Every event carries  ev t k code now closed cc tcl info n :
     call    t k              task t calls k in {"receive","close","send"} at time now
     ret     t k info code    ... and it returns: info = DATA CLOSE CLOSING CLOSED ERROR PING PONG |
                              True False OK | Timeout Cancelled ConnErr RuntimeError | <exception class>
     tx      k code           a frame WE put on the wire (k = data ping pong close cont other)
     rx      k code           a peer frame was handed to data_received (k = data ping pong close bad)
     drop / eof               the fault injector cut the connection / the peer sent FIN
     localclose               our own side tore the connection down without the WebSocket object
                              (session / connector / protocol close(), request.transport.close())
     pause / resume           write back-pressure from the transport began / ended
     cancel  t                task t was cancelled by the application
     tick                     virtual time advanced to now
     tclose                   our side called transport.close()
     blocked t k              (only before quiesce) task t is still suspended inside k
     quiesce info n           nothing is runnable and every timer up to the horizon has fired;
                              info = class name of ws.exception() or "", n = loop exception-handler calls
   closed / cc / tcl = ws.closed, ws.close_code (0 = None), transport closing, sampled at the event.

   Clauses (same names as the invariants of WsSession.tla, plus the named deviations)
     OneCloseFrame  NoDataAfterClose  ClosedClosesTransport  CloseCodeRule  ReceiveNotStuck
     CloseBounded  CloseWaitResolved  CloseRaises  LoopExceptionHandlerCalled
     CloseTimeoutRearmedByTraffic        client close() outlived the close timeout while the peer kept
                                         sending frames (timeout re-armed per received message)
     CloseCode1000WithoutPeerClose       server: closed with code 1000 although no peer close frame
                                         was received and a receive() saw CLOSING (the _closing short-cut)
     CloseCodeOverwrittenAfterClose      close_code is not a permitted one and differs from the one reported when
                                         close() returned True (EofStream handler of receive() writing 1000 over 1006)
     CloseReports1006AfterReceiveTookPeerClose
                                         client, two concurrent close() calls and a receive(): receive() was handed the
                                         peer's Close frame, the close() waiting on the reader found it empty
                                         (EofStream) and reported 1006 over the peer's code
     CancelledCloseSkipsCleanup          closed, a close() call ended by CancelledError, and the transport is
                                         still open or (server) the close code is not 1006: the cancel
                                         point `await self._close_wait` has no clean-up *)
EXTENDS Naturals, Integers, Sequences, FiniteSets, TLC, TraceBatch

VARIABLES tid, l, m, bad

tvars == <<tid, l, m, bad>>

Upd(f, k, v) == IF k \in DOMAIN f THEN [f EXCEPT ![k] = v] ELSE f @@ (k :> v)
GetD(f, k, d) == IF k \in DOMAIN f THEN f[k] ELSE d
NoCall == [api |-> "", at |-> 0, rx0 |-> 0]

M0 == [ nClose |-> 0, closeSent |-> FALSE, rxClose |-> 0, rxBad |-> FALSE, nRx |-> 0,
        abn |-> FALSE, soft |-> FALSE, seenClose |-> 0, cut |-> FALSE, sawClosing |-> FALSE, cancelledClose |-> FALSE,
        ccTrue |-> 0, call |-> <<>>, blkRecv |-> FALSE, blkClose |-> FALSE ]

R(mm, b) == [m |-> mm, bad |-> b]

(* abn  = something ended the session abnormally: connection cut (by the peer, the network, or our own side
          behind the WebSocket object's back), protocol error, a close() call that was cancelled or ran
          into the close timeout
   soft = an operation failed but the session stayed open: a receive() that timed out or was cancelled, a
          cancelled or refused send; likewise a recorded exception() (e.g. a heartbeat failure).  That excuses 1006 only as long as the application was not handed the
          peer's Close frame: once receive() returned CLOSE(c) and nothing abnormal ended the session, the
          reported code must be c.                                                                        *)
Allowed(mm, e) ==
    (IF mm.rxClose # 0 THEN {mm.rxClose} ELSE {})
    \cup (IF mm.abn \/ ((mm.soft \/ e.info # "") /\ mm.seenClose = 0) THEN {1006} ELSE {})
    \cup (IF mm.rxBad THEN {1002} ELSE {})

Step(e, c) ==
    CASE e.ev = "call" ->
            R([m EXCEPT !.call = Upd(@, e.t, [api |-> e.k, at |-> e.now, rx0 |-> m.nRx])], "")
      [] e.ev = "ret" ->
            LET cl == GetD(m.call, e.t, NoCall)
                dur == e.now - cl.at
                m1 == [m EXCEPT !.call = Upd(@, e.t, NoCall),
                                !.abn = @ \/ (e.k = "close" /\ (e.info = "Cancelled" \/ dur >= c.closeTimeout)),
                                !.soft = @ \/ (e.k # "close" /\ e.info \in {"Timeout", "Cancelled", "ConnErr"}),
                                !.seenClose = IF @ = 0 /\ e.k = "receive" /\ e.info = "CLOSE" THEN e.code ELSE @,
                                !.sawClosing = @ \/ (e.k = "receive" /\ e.info = "CLOSING"),
                                !.cancelledClose = @ \/ (e.k = "close" /\ e.info = "Cancelled"),
                                !.ccTrue = IF @ = 0 /\ e.k = "close" /\ e.info = "True" THEN e.cc ELSE @]
            IN IF e.k = "close" /\ e.info \notin {"True", "False", "Cancelled"} THEN R(m1, "CloseRaises")
               ELSE IF e.k = "close" /\ e.info # "Cancelled" /\ dur > c.closeTimeout
                    THEN R(m1, IF c.side = "client" /\ m.nRx > cl.rx0 THEN "CloseTimeoutRearmedByTraffic"
                               ELSE "CloseBounded")
               ELSE R(m1, "")
      [] e.ev = "tx" ->
            IF e.k = "close"
            THEN R([m EXCEPT !.nClose = @ + 1, !.closeSent = TRUE], IF m.nClose >= 1 THEN "OneCloseFrame" ELSE "")
            ELSE IF e.k \in {"data", "cont"} /\ m.closeSent THEN R(m, "NoDataAfterClose")
            ELSE R(m, "")
      [] e.ev = "rx" ->
            IF e.k = "close" THEN R([m EXCEPT !.rxClose = IF @ = 0 THEN e.code ELSE @], "")
            ELSE IF e.k = "bad" THEN R([m EXCEPT !.rxBad = TRUE, !.abn = TRUE], "")
            ELSE R([m EXCEPT !.nRx = @ + 1], "")
      [] e.ev \in {"drop", "eof"} -> R([m EXCEPT !.abn = TRUE, !.cut = TRUE], "")
      \* a local teardown is recorded when it is REQUESTED (e.g. a task that will run session.close()); that
      \* task may be cancelled before it closes anything, so whether the connection was cut is read off the
      \* transport at quiescence (e.tcl), not off this event
      [] e.ev = "localclose" -> R([m EXCEPT !.abn = TRUE], "")
      [] e.ev = "cancel" -> R([m EXCEPT !.soft = TRUE], "")
      [] e.ev = "blocked" ->
            R([m EXCEPT !.blkRecv = @ \/ e.k = "receive", !.blkClose = @ \/ e.k = "close"], "")
      [] e.ev = "quiesce" ->
            R(m, IF e.n > 0 THEN "LoopExceptionHandlerCalled"
                 ELSE IF m.blkClose
                      THEN (IF c.side = "client" /\ m.nRx > 0 /\ ~m.blkRecv THEN "CloseTimeoutRearmedByTraffic"
                            ELSE "CloseWaitResolved")
                 \* with a heartbeat a silent peer ends the session within heartbeat + pong timeout: a receive()
                 \* still blocked after the horizon means the heartbeat died
                 ELSE IF m.blkRecv /\ (e.closed \/ e.tcl \/ m.rxClose # 0 \/ m.rxBad \/ m.cut
                                       \/ Get(c, "heartbeat", 0) > 0)
                      THEN "ReceiveNotStuck"
                 ELSE IF e.closed /\ ~e.tcl
                      THEN (IF m.cancelledClose THEN "CancelledCloseSkipsCleanup" ELSE "ClosedClosesTransport")
                 ELSE IF e.closed /\ e.cc \notin Allowed(m, e)
                      THEN (IF c.side = "client" /\ m.seenClose # 0 /\ e.cc = 1006 /\ e.info = "EofStream"
                            THEN "CloseReports1006AfterReceiveTookPeerClose"
                            ELSE IF m.ccTrue # 0 /\ e.cc # m.ccTrue THEN "CloseCodeOverwrittenAfterClose"
                            ELSE IF c.side = "server" /\ m.cancelledClose /\ e.cc # 1006 THEN "CancelledCloseSkipsCleanup"
                            ELSE IF c.side = "server" /\ e.cc = 1000 /\ m.sawClosing THEN "CloseCode1000WithoutPeerClose"
                            ELSE "CloseCodeRule")
                 ELSE "")
      [] OTHER -> R(m, "")

TInit ==
    /\ tid \in 1..NTraces
    /\ l = 0
    /\ m = M0
    /\ bad = ""
    /\ Verdict(tid, 0, "", <<>>)

TNext ==
    /\ bad = ""
    /\ l < NEvents(tid)
    /\ LET r == Step(Events(tid)[l + 1], Cfg(tid))
           l2 == IF r.bad = "" THEN l + 1 ELSE l
       IN /\ m' = r.m /\ bad' = r.bad /\ l' = l2
          /\ UNCHANGED tid
          /\ Verdict(tid, l2, r.bad, <<>>)

TSpec == TInit /\ [][TNext]_tvars
=============================================================================
