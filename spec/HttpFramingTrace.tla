-------------------------- MODULE HttpFramingTrace --------------------------
(* Trace validation for C01 / C03 / C10.

   One batch item = one byte stream + one parser configuration + everything the
   real code did with it:
       stream   the bytes (Seq(0..255))
       cfg      mode/lax/limits of the parser under test (+ constants of the work bound)
       events   the DISTINCT outcomes observed when the stream was fed under many
                segmentations; every event lists the segmentations (cut positions)
                that produced exactly this outcome (lossless grouping done by the
                harness: two runs are merged only if every recorded field is equal).
                kind = "parse": aiohttp.http_parser.Http{Request,Response}Parser
                kind = "conn" : aiohttp.web_protocol.RequestHandler on a MemTransport

   TLC first runs the reference reader (HttpFraming!Step) over the stream, then
   judges every event against the reference result (JudgeParse / JudgeConn), then
   checks that the events of the group agree with each other (C03).  All grammar,
   framing and limit decisions are taken here, by the reference.

   Verdict per item:  clause (first violated PROPERTY clause, "" if none),
   info = <<devs, drift>>:
       devs   named known deviations <<event, name>> (the strict reading rejects, the code
              accepts / behaves differently in exactly the named way) - reported by the
              driver under that clause name so known_findings.json can match it exactly;
       drift  notes that are not violations (permitted alternatives taken, stricter limits).  *)
EXTENDS HttpFraming, TraceBatch

VARIABLES tid, l, stage, s, s2, s3, bad, devs, drift
tvars == <<tid, l, stage, s, s2, s3, bad, devs, drift>>

Stream(t) == Batch[t].stream
TCfg(t) == Cfg(t)
RefCfg(c) == [mode |-> c.mode, lax |-> c.lax, maxLine |-> c.maxLine, maxField |-> c.maxField,
              maxHeaders |-> c.maxHeaders, untilEof |-> c.untilEof, withBody |-> c.withBody, mutant |-> "",
              devHeadSkip |-> FALSE, declineUpgrade |-> FALSE]
\* reading of a server connection whose handler declines every upgrade offer (the harness's handler does)
DeclineCfg(c) == [RefCfg(c) EXCEPT !.declineUpgrade = TRUE]
\* second reading with the HEAD deviation enabled: used only when the strict reading does not explain
\* an execution, to name the deviation exactly (known_findings protocol, DESIGN 2.5)
DevCfg(c) == [RefCfg(c) EXCEPT !.devHeadSkip = TRUE]

(* ------------------------------------------------------------------------ *)
SoftNames(st, kind) == LET x == Softs(st, kind) IN [i \in 1..Len(x) |-> x[i].name]
\* rules that fired in one of the first k messages (a deviation is only reported for a message the code delivered)
SoftNamesUpTo(st, kind, k) == LET x == SelectSeq(st.soft, LAMBDA y : y.kind = kind /\ y.m <= k) IN [i \in 1..Len(x) |-> x[i].name]
HasSoft(st, name) == \E i \in 1..Len(st.soft) : st.soft[i].name = name
Hdrs(m) == [i \in 1..Len(m.fields) |-> <<m.fields[i][1], m.fields[i][2]>>]
AsciiOnly(q) == AllB(q, LAMBDA b : b < 128)

\* head of an implementation message against a reference message
HeadClause(rm, im, cfg) ==
    IF cfg.mode = "request" THEN
        IF im.method # UpperSeq(rm.method) THEN "MethodMismatch"
        ELSE IF im.target # rm.target THEN "TargetMismatch"
        ELSE IF im.vmaj # rm.vmaj \/ im.vmin # rm.vmin THEN "VersionMismatch"
        ELSE IF im.headers # Hdrs(rm) THEN "FieldsMismatch"
        ELSE ""
    ELSE
        IF im.code # rm.code THEN "StatusMismatch"
        ELSE IF im.vmaj # rm.vmaj \/ im.vmin # rm.vmin THEN "VersionMismatch"
        ELSE IF AsciiOnly(rm.reason) /\ im.reason # rm.reason THEN "ReasonMismatch"
        ELSE IF im.headers # Hdrs(rm) THEN "FieldsMismatch"
        ELSE ""

ImplComplete(im) == im.peof /\ im.perr = ""

\* effective message list: messages after the first one whose payload did not complete cleanly
\* are ignored (the parser is not sticky after a payload error; the connection is - see JudgeConn)
RECURSIVE FirstIncomplete(_, _)
FirstIncomplete(ms, i) == IF i > Len(ms) THEN 0 ELSE IF ~ImplComplete(ms[i]) THEN i ELSE FirstIncomplete(ms, i + 1)
Effective(ms) == LET k == FirstIncomplete(ms, 1) IN IF k = 0 THEN ms ELSE SubSeq(ms, 1, k)

ImplRejected(e) == e.exc # "" \/ \E i \in 1..Len(e.msgs) : e.msgs[i].perr # ""
Foreign(e) == (e.exc # "" /\ ~e.excHttp) \/ (e.eofExc # "" /\ ~e.eofHttp)
              \/ \E i \in 1..Len(e.msgs) : e.msgs[i].perr # "" /\ ~e.msgs[i].perrHttp
ForeignName(e) == IF e.exc # "" /\ ~e.excHttp THEN e.exc
                  ELSE IF e.eofExc # "" /\ ~e.eofHttp THEN e.eofExc ELSE "payload"

\* message-by-message comparison; result "" or the first mismatch clause
RECURSIVE MsgsClause(_, _, _, _, _, _, _, _)
MsgsClause(st, R, E, i, cfg, q, n, part) ==
    IF i > Len(E) THEN ""
    ELSE LET im == E[i] IN
         IF i <= Len(R) THEN
             LET rm == R[i]
                 h == HeadClause(rm, im, cfg)
             IN IF h # "" THEN h
                ELSE IF rm.kind = "tunnel" THEN
                    \* CONNECT: everything after the head belongs to the tunnel, not to HTTP
                    IF IsPrefix(im.body, Slice(q, st.tailFrom, n)) THEN MsgsClause(st, R, E, i + 1, cfg, q, n, part)
                    ELSE "TunnelBytes"
                ELSE IF cfg.bodyOpaque THEN
                    \* auto-decompression on: the payload holds DECODED bytes.  The codecs are black boxes; the
                    \* harness supplies the plain text it compressed (cfg.expect, may be shorter than the message
                    \* list); beyond that only the agreement of all segmentations is required (GroupClause)
                    IF ImplComplete(im) /\ i <= Len(cfg.expect) /\ im.body # cfg.expect[i] THEN "DecodedBodyMismatch"
                    ELSE MsgsClause(st, R, E, i + 1, cfg, q, n, part)
                ELSE IF ImplComplete(im) THEN
                    IF im.body # rm.body THEN "BodyMismatch"
                    ELSE IF rm.kind = "chunked" /\ im.chunksKnown /\ im.chunks # rm.chunks THEN "ChunkBoundaries"
                    ELSE MsgsClause(st, R, E, i + 1, cfg, q, n, part)
                ELSE IF ~IsPrefix(im.body, rm.body) THEN "BodyMismatch"
                ELSE MsgsClause(st, R, E, i + 1, cfg, q, n, part)
         ELSE IF i = Len(R) + 1 /\ part THEN
             LET h == HeadClause(st.cur, im, cfg)
             IN IF h # "" THEN h
                ELSE IF ImplComplete(im) THEN "CompletedPartialMessage"
                ELSE IF ~cfg.bodyOpaque /\ ~IsPrefix(im.body, st.cur.body) THEN "BodyMismatch"
                ELSE MsgsClause(st, R, E, i + 1, cfg, q, n, part)
         ELSE IF st.phase \in {"closed", "undecided"} THEN ""   \* bytes after a closing message are not processed by a
                                                                \* connection; beyond an undecided point nothing is compared
         ELSE "ExtraMessage"

LimitGray(st) == st.between \/ st.tight \/ st.nearCount
\* an unfinished start / field line at the end of the stream that is already longer than the smaller of the
\* two limits: here too it matters which limit a reader applies to what it has buffered
PendingBetween(st, n, cfg) ==
    /\ st.phase \in {"start", "fields"} /\ cfg.maxLine # cfg.maxField
    /\ n - st.pos + 1 > Min2(cfg.maxLine, cfg.maxField)

\* The parser validates a header / trailer block when it sees the empty line that ends it.  A stream
\* that the reference rejects inside a block and that ends before that block is complete has not
\* been accepted by anybody: the rejection is still pending (a different read pattern only changes
\* how early a rejection is noticed).
HasBlockEnd(q, from, n) ==
    \E j \in Max2(from, 1)..(n - 3) : q[j] = CR /\ q[j + 1] = LF /\ q[j + 2] = CR /\ q[j + 3] = LF
PendingReject(st, q, n) ==
    /\ st.phase = "rejected" /\ ~st.over
    /\ st.rejPhase \in {"start", "fields", "trailers"}
    /\ ~HasBlockEnd(q, st.rejectAt, n)        \* an empty line after the terminator of the rejected line

(* C10: work and retention bounds on the instrumented calls of this run.
   call = <<bytesInCall, retainedBefore, tailAfter, linesAfter, work, raised, nLinesAfter>>
     work   Python line events executed inside http_parser.py during the call (sys.monitoring)
     tail   bytes of the incomplete line kept for the next call, lines = bytes of the complete
            lines of a header / trailer block that is not finished yet
   LinearWork   per call:  work <= wA*bytes + wB*retainedBefore + wC
                per run :  sum(work) <= wRA*sum(bytes) + wRK*calls + wC     (a re-scan of what is
                           retained on every call makes the sum grow quadratically)
   Retention    a call never leaves more than limit + (bytes of this call) in the incomplete line,
                nor more than the header block the limits allow + this call                     *)
SumCol(cs, k, i) == FoldLeft(LAMBDA acc, c : acc + c[k], 0, cs)
CallsClause(e, cfg) ==
    IF \E i \in 1..Len(e.calls) : e.calls[i][5] > cfg.wA * e.calls[i][1] + cfg.wB * e.calls[i][2] + cfg.wC
    THEN "SuperLinearWork"
    ELSE IF Len(e.calls) > 0 /\ SumCol(e.calls, 5, 1) > cfg.wRA * SumCol(e.calls, 1, 1) + cfg.wRK * Len(e.calls) + cfg.wC
    THEN "SuperLinearWork"
    ELSE IF \E i \in 1..Len(e.calls) :
               /\ e.calls[i][6] = 0
               /\ \/ e.calls[i][3] > Max2(Max2(cfg.maxLine, cfg.maxField) + 1 + e.calls[i][1], e.calls[i][2])
                  \/ e.calls[i][3] + e.calls[i][4] >
                        Max2(cfg.maxLine + cfg.maxHeaders * (cfg.maxField + 2) + e.calls[i][1], e.calls[i][2])
                  \/ e.calls[i][7] > cfg.maxHeaders + 1          \* complete lines of an unfinished block that are kept
    THEN "RetentionBound"
    ELSE IF e.hang THEN "Hang"
    ELSE ""

\* An unterminated over-long line whose (limit+1)-th byte arrived in the last read of this run: the
\* parser notices on the next read (C10 MustReject allows one read of slack); nothing was accepted.
PendingOver(st, q, n, e, cfg) ==
    /\ st.phase = "rejected" /\ st.over
    /\ st.rejPhase \in {"start", "fields", "csize", "trailers"}
    /\ FirstIn(q, st.rejectAt, n, LAMBDA b : b = LF) = 0
    /\ e.lastStartMax + 1 <= st.rejectAt + (IF st.rejPhase \in {"start", "csize"} THEN cfg.maxLine ELSE cfg.maxField) + 1

(* Judge one parser-level outcome.  Result [bad, devs, drift].                *)
JudgeParse(st, q, n, e, cfg) ==
    LET fin == Final(st, n)
        \* without an end-of-stream signal a close-delimited body is still open
        R == IF e.fedEof THEN FinalMsgs(st) ELSE st.msgs
        part == Partial(st) \/ (~e.fedEof /\ st.phase = "eofbody")
        E == Effective(e.msgs)
        rej == ImplRejected(e)
        devNames == SoftNamesUpTo(st, "dev", Len(E))
        altNames == SoftNamesUpTo(st, "alt", Len(E))
        mc == MsgsClause(st, R, E, 1, cfg, q, n, part)
        cc == CallsClause(e, cfg)
        res(b, d, f) == [bad |-> b, devs |-> d, drift |-> f]
    IN
    IF e.kind = "client" /\ Len(e.loopExc) > 0 THEN res("ConnForeignException", <<>>, <<e.loopExc[1]>>)
    ELSE IF Foreign(e) THEN
        \* C10 Total: only HttpProcessingError subclasses may leave feed_data / feed_eof
        res("ForeignException", <<>>, <<ForeignName(e)>>)
    \* client connection: a parser error becomes a client error on the protocol and the transport is closed
    ELSE IF e.kind = "client" /\ e.exc # "" /\ ~e.closed THEN res("ClientErrorNotClosed", <<>>, <<e.exc>>)
    ELSE IF cc # "" THEN res(cc, <<>>, <<>>)
    ELSE IF e.pendingInput /\ ~rej /\ mc = ""
            /\ (fin = "reject" \/ Len(E) < Len(R) \/ \E i \in 1..Min2(Len(R), Len(E)) : ~ImplComplete(E[i]) /\ R[i].kind # "tunnel") THEN
        \* the parser still holds input back although its consumer has taken everything it was given:
        \* whatever the reference found in the rest of the stream was never looked at (stale pause flag)
        res("", <<"StalePauseStall">>, <<>>)
    ELSE IF fin = "reject" /\ ~rej /\ st.over /\ st.between THEN res("", <<"LimitByCallPosition">>, <<>>)
    ELSE IF fin = "reject" /\ ~rej /\ PendingOver(st, q, n, e, cfg) /\ mc = "" THEN res("", <<>>, <<"OverLimitInLastRead">>)
    ELSE IF fin = "reject" /\ ~rej /\ st.reason \in {"ChunkDataCRCRLF", "TrailerLeadingCR"} /\ ~PendingReject(st, q, n)
        THEN res("", <<"LaxChunkCRSegDependent">>, <<>>)
    ELSE IF fin = "reject" /\ ~rej /\ ~PendingReject(st, q, n) /\ ~(st.over /\ st.between) THEN
        res(IF st.over THEN "AcceptedOverLimit" ELSE "AcceptedMalformed", <<>>, <<st.reason>>)
    ELSE IF mc # "" THEN
        \* a head/body that differs: attribute to the HEAD deviation when that is the only explanation
        res(mc, <<>>, <<>>)
    ELSE IF fin = "undecided" THEN res("", <<>>, <<"undecided:" \o st.reason>>)
    ELSE IF fin = "reject" THEN
        IF rej THEN res("", <<>>, <<>>)
        ELSE IF PendingReject(st, q, n) THEN res("", <<>>, <<"RejectPending">>)
        ELSE IF st.over /\ st.between THEN res("", <<"LimitByCallPosition">>, <<>>)
        ELSE IF st.over THEN res("AcceptedOverLimit", <<>>, <<st.reason>>)
        ELSE res("AcceptedMalformed", <<>>, <<st.reason>>)
    ELSE \* accept / truncated
        IF rej THEN
            IF e.excLimit /\ (st.between \/ PendingBetween(st, n, cfg)) THEN res("", <<"LimitByCallPosition">>, <<>>)
            ELSE IF e.excLimit /\ st.tight THEN res("", <<>>, <<"StricterLimit">>)
            ELSE IF e.excLimit /\ st.nearCount THEN res("", <<>>, <<"StricterHeaderCount">>)
            ELSE IF Len(st.soft) > 0 THEN res("", <<>>, <<"RejectedSoft:" \o st.soft[1].name>>)
            ELSE IF (st.phase = "closed" /\ st.tailFrom <= n) \/ e.excAfterClose THEN res("", <<>>, <<"DataAfterClose">>)
            ELSE res("RejectedValid", <<>>, <<e.exc>>)
        ELSE IF Len(E) < Len(R) THEN res("MissingMessage", <<>>, <<>>)
        ELSE IF \E i \in 1..Len(R) : ~ImplComplete(E[i]) /\ R[i].kind # "tunnel" THEN
            res("MessageNotCompleted", <<>>, <<>>)     \* the reference has the whole message, the code never completed it
        ELSE IF st.phase = "tunnel" /\ e.upgraded /\ e.tail # Slice(q, st.tailFrom, n)
                /\ ~(Len(R) > 0 /\ R[Len(R)].kind = "tunnel") THEN res("TunnelBytes", <<>>, <<>>)
        ELSE res("", devNames, altNames)

(* ------------------------------------------------------------------------ *)
(* Connection level: aiohttp.web_protocol.RequestHandler.                    *)
\* parse the bytes the server wrote with the reference in strict response mode;
\* heads[i] = the i-th response answers a HEAD request (no body)
WCfg(head) == [mode |-> "response", lax |-> FALSE, maxLine |-> 65536, maxField |-> 65536, maxHeaders |-> 1000,
               untilEof |-> FALSE, withBody |-> ~head, mutant |-> "", devHeadSkip |-> FALSE,
               declineUpgrade |-> FALSE]
RECURSIVE RunOneMsg(_, _, _, _, _)
RunOneMsg(st, w, n, c, k) ==     \* run until message k is complete or the reader is stuck
    IF Stuck(st) \/ Len(st.msgs) >= k THEN st ELSE RunOneMsg(Step(st, w, n, c), w, n, c, k)
RECURSIVE ParseWritten(_, _, _, _)
ParseWritten(st, w, heads, k) ==
    LET head == IF k <= Len(heads) THEN heads[k] ELSE FALSE
        st0 == IF st.phase = "closed" THEN [st EXCEPT !.phase = "start"] ELSE st    \* the error response says close; keep reading
        st1 == RunOneMsg(Resume(st0), w, Len(w), WCfg(head), k)
    IN IF Len(st1.msgs) >= k /\ st1.pos <= Len(w) /\ st1.phase \in {"start", "closed"} THEN ParseWritten(st1, w, heads, k + 1)
       ELSE st1
Statuses(st) == [i \in 1..Len(st.msgs) |-> st.msgs[i].code]
\* the k-th response answers the k-th dispatched request; a response to HEAD carries no body
Written(e) == ParseWritten(Init0, e.written, [i \in 1..Len(e.dispatched) |-> e.dispatched[i].method = M_HEAD], 1)
ConnCodes(e) == Statuses(Written(e))

\* what BaseRequest.raw_path shows for an absolute-form target: scheme://authority stripped
RelOf(t) ==
    LET c == IndexOfByte(t, COLON)
    IN IF c = 0 \/ Len(t) < c + 2 \/ t[c + 1] # 47 \/ t[c + 2] # 47 THEN t
       ELSE LET e == FirstIn(t, c + 3, Len(t), LAMBDA b : b \in {47, 63, 35})
            IN IF e = 0 THEN <<>> ELSE DropN(t, e - 1)
SameTarget(seen, t) == seen = t \/ (Len(t) > 0 /\ t[1] # 47 /\ seen = RelOf(t))

RECURSIVE DispClause(_, _, _, _)
DispClause(st, R, D, i) ==
    IF i > Len(D) THEN ""
    ELSE LET d == D[i] IN
         IF i <= Len(R) THEN
             IF d.method # UpperSeq(R[i].method) THEN "MethodMismatch"
             ELSE IF ~SameTarget(d.target, R[i].target) THEN "TargetMismatch"
             ELSE IF d.bstate = "ok" /\ R[i].kind # "tunnel" /\ d.body # R[i].body THEN "BodyMismatch"
             ELSE DispClause(st, R, D, i + 1)
         ELSE IF i = Len(R) + 1 /\ Partial(st) THEN
             IF d.method # UpperSeq(st.cur.method) THEN "MethodMismatch"
             ELSE IF ~SameTarget(d.target, st.cur.target) THEN "TargetMismatch"
             ELSE IF d.bstate = "ok" THEN "CompletedPartialMessage"
             ELSE DispClause(st, R, D, i + 1)
         ELSE "ExtraRequestDispatched"

JudgeConn(st, q, n, e, cfg) ==
    LET fin == Final(st, n)
        R == FinalMsgs(st)
        D == e.dispatched
        w == Written(e)
        codes == Statuses(w)
        nerr == Cardinality({i \in 1..Len(codes) : codes[i] >= 400})
        lastCode == IF Len(codes) = 0 THEN 0 ELSE codes[Len(codes)]
        dc == DispClause(st, R, D, 1)
        devNames == SoftNamesUpTo(st, "dev", Len(D))
        altNames == SoftNamesUpTo(st, "alt", Len(D))
        res(b, d, f) == [bad |-> b, devs |-> d, drift |-> f]
        inBody == st.cur.delivered
    IN
    IF Len(e.loopExc) > 0 THEN res("ConnForeignException", <<>>, <<e.loopExc[1]>>)
    ELSE IF Final(w, Len(e.written)) \in {"reject", "truncated", "undecided"}
        THEN res("ServerOutputMalformed", <<>>, <<w.reason>>)       \* what the server wrote is itself well-framed
    ELSE IF fin = "reject" /\ st.over /\ st.between /\ nerr = 0 THEN res("", <<"LimitByCallPosition">>, <<>>)
    ELSE IF dc # "" THEN res(dc, <<>>, <<>>)
    ELSE IF fin = "undecided" THEN res("", <<>>, <<"undecided">>)
    ELSE IF fin = "reject" /\ nerr = 0 /\ ~e.closed /\ (PendingReject(st, q, n) \/ PendingOver(st, q, n, e, cfg))
        THEN res("", <<>>, <<"RejectPending">>)
    ELSE IF fin = "reject" THEN
        IF ~e.closed THEN res("MalformedNotClosed", <<>>, <<st.reason>>)
        ELSE IF nerr = 0 THEN
            IF st.rejObs THEN res("", <<"ErrorTextNotEncodable">>, <<>>) ELSE res("MalformedNoErrorResponse", <<>>, <<st.reason>>)
        ELSE IF nerr > 1 THEN res("SeveralErrorResponses", <<>>, <<>>)
        ELSE IF lastCode < 400 THEN res("ResponseAfterError", <<>>, <<>>)
        ELSE IF lastCode >= 500 THEN
            IF inBody THEN res("", <<"BodyError5xx">>, <<>>) ELSE res("MalformedAnswered5xx", <<>>, <<st.reason>>)
        ELSE res("", <<>>, <<>>)
    ELSE \* accept / truncated
        IF nerr > 0 THEN
            IF Len(st.soft) > 0 THEN res("", <<>>, <<"RejectedSoft:" \o st.soft[1].name>>)
            ELSE IF LimitGray(st) \/ PendingBetween(st, n, cfg)
                 THEN res("", IF st.between \/ PendingBetween(st, n, cfg) THEN <<"LimitByCallPosition">> ELSE <<>>, <<"StricterLimit">>)
            ELSE IF st.phase = "closed" /\ st.tailFrom <= n THEN res("", <<>>, <<"DataAfterClose">>)
            ELSE IF st.phase = "tunnel" THEN res("", <<>>, <<"tunnel">>)
            ELSE res("ValidAnsweredWithError", <<>>, <<>>)
        ELSE IF Len(D) < Len(R) /\ e.taskExc # "" THEN
            res("HandlerTaskDied", <<>>, <<e.taskExc>>)       \* request accepted by the parser, never answered: the task of
                                                               \* RequestHandler.start() ended with an exception
        ELSE IF Len(D) < Len(R) /\ ~(st.phase = "tunnel") THEN
            IF Len(st.soft) > 0 THEN res("", <<>>, <<"SoftZone">>)
            ELSE res("RequestNotDispatched", <<>>, <<>>)
        ELSE IF Len(codes) < Len(R) /\ ~(st.phase = "tunnel") THEN
            IF Len(st.soft) > 0 THEN res("", <<>>, <<"SoftZone">>) ELSE res("RequestNotAnswered", <<>>, <<>>)
        ELSE IF Len(codes) > Len(D) THEN res("ExtraResponse", <<>>, <<>>)      \* every request is answered exactly once
        ELSE res("", devNames, altNames)

Judge1(st, q, n, e, cfg) ==
    IF e.kind = "conn" THEN JudgeConn(st, q, n, e, cfg) ELSE JudgeParse(st, q, n, e, cfg)   \* "parse" and "client"
\* st = strict reading, st2 = reading with the HEAD deviation (only differs if the stream has a HEAD
\* request that announces a body)
Judge(st0, st2, st3, q, n, e, cfg) ==
    LET st == IF e.kind = "conn" /\ st0.upOffer THEN st3 ELSE st0      \* the harness's handler declines every upgrade offer
        j == Judge1(st, q, n, e, cfg)
    IN IF j.bad = "" \/ ~st.headBody THEN j
       ELSE LET k == Judge1(st2, q, n, e, cfg)
            IN IF k.bad = "" THEN [k EXCEPT !.devs = <<"HeadRequestBodySkipped">> \o k.devs] ELSE j

(* ------------------------------------------------------------------------ *)
(* C03: the outcomes of one stream under different segmentations agree.      *)
\* what must not depend on the segmentation: verdict and delivered messages
Verd(e) == IF e.kind = "conn" THEN (LET c == ConnCodes(e) IN \E i \in 1..Len(c) : c[i] >= 400) \/ Len(e.loopExc) > 0
           ELSE ImplRejected(e) \/ Foreign(e)
SameMsgs(a, b) ==
    IF a.kind = "conn" THEN a.dispatched = b.dispatched /\ ConnCodes(a) = ConnCodes(b)
    ELSE Effective(a.msgs) = Effective(b.msgs) /\ a.upgraded = b.upgraded /\ a.tail = b.tail /\ a.eofExc = b.eofExc
PrefixMsgs(a, b) ==          \* two rejected runs: what both delivered must be the same messages (heads)
    IF a.kind = "conn" THEN
        \A i \in 1..Min2(Len(a.dispatched), Len(b.dispatched)) :
            a.dispatched[i].method = b.dispatched[i].method /\ a.dispatched[i].target = b.dispatched[i].target
    ELSE LET x == Effective(a.msgs) y == Effective(b.msgs) IN
         \A i \in 1..Min2(Len(x), Len(y)) : x[i].method = y[i].method /\ x[i].target = y[i].target /\ x[i].code = y[i].code
                                             /\ x[i].headers = y[i].headers
GroupClause(st, q, n, evs, cfg) ==
    LET N == Len(evs)
        codes == [i \in 1..N |-> IF evs[i].kind = "conn" THEN ConnCodes(evs[i]) ELSE <<>>]     \* computed once per event
        vd == [i \in 1..N |-> IF evs[i].kind = "conn"
                                THEN (\E k \in 1..Len(codes[i]) : codes[i][k] >= 400) \/ Len(evs[i].loopExc) > 0
                                ELSE Verd(evs[i])]
        same(i, j) == IF evs[i].kind = "conn" THEN evs[i].dispatched = evs[j].dispatched /\ codes[i] = codes[j]
                      ELSE SameMsgs(evs[i], evs[j])
        dis == \E i, j \in 1..N : i < j /\ evs[i].kind = evs[j].kind /\ vd[i] # vd[j]
        diff == \E i, j \in 1..N : i < j /\ evs[i].kind = evs[j].kind /\ ~vd[i] /\ ~vd[j] /\ ~same(i, j)
        pre == \E i, j \in 1..N : i < j /\ evs[i].kind = evs[j].kind /\ vd[i] /\ vd[j] /\ ~PrefixMsgs(evs[i], evs[j])
    IN IF ~dis /\ ~diff /\ ~pre THEN [bad |-> "", devs |-> <<>>]
       ELSE IF dis /\ ~diff /\ ~pre /\ PendingReject(st, q, n) THEN [bad |-> "", devs |-> <<>>]   \* noticed early vs. still pending
       ELSE IF dis /\ ~diff /\ ~pre /\ \A i \in 1..N : ~vd[i] => PendingOver(st, q, n, evs[i], cfg)
            THEN [bad |-> "", devs |-> <<>>]                                                       \* one read of slack
       ELSE IF dis /\ ((st.phase = "closed" /\ st.tailFrom <= n) \/ \E i \in 1..Len(evs) : evs[i].excAfterClose)
            THEN \* named only when the PARSER's verdict differs; on a connection nothing after the closing request is
                 \* dispatched either way
                 IF \E i, j \in 1..N : i < j /\ evs[i].kind = evs[j].kind /\ evs[i].kind # "conn" /\ vd[i] # vd[j]
                 THEN [bad |-> "", devs |-> <<"DataAfterCloseSegDependent">>] ELSE [bad |-> "", devs |-> <<>>]
       ELSE IF st.rejObs THEN [bad |-> "", devs |-> <<"ErrorTextNotEncodable">>]   \* no 400 at all, so "rejected" looks like "accepted"
       ELSE IF dis /\ st.reason \in {"ChunkDataCRCRLF", "TrailerLeadingCR"} THEN [bad |-> "", devs |-> <<"LaxChunkCRSegDependent">>]
       ELSE IF \E i \in 1..Len(evs) : evs[i].pendingInput THEN [bad |-> "", devs |-> <<"StalePauseStall">>]
       ELSE IF st.between \/ PendingBetween(st, n, cfg) THEN [bad |-> "", devs |-> <<"LimitByCallPosition">>]
       ELSE IF dis /\ st.tight THEN [bad |-> "", devs |-> <<"LimitCutBeforeLF">>]
       ELSE IF dis /\ \E i \in 1..N : /\ ~vd[i] /\ evs[i].kind # "conn"
                                        /\ \E k \in 1..Len(st.soft) : st.soft[k].name = "TargetCTLAccepted"
                                                                         /\ st.soft[k].m <= Len(evs[i].msgs)
            THEN [bad |-> "", devs |-> <<"TargetCTLAccepted">>]     \* some run delivered the request whose target holds the LF
       ELSE IF dis /\ HasSoft(st, "TargetCTLAccepted") THEN [bad |-> "", devs |-> <<>>]   \* noticed early vs. pending
       ELSE [bad |-> IF dis THEN "SegmentationVerdict" ELSE IF diff THEN "SegmentationMessages" ELSE "SegmentationPrefix",
             devs |-> <<>>]

(* ------------------------------------------------------------------------ *)
StepsPerState == 8
RECURSIVE RunK(_, _, _, _, _)
RunK(st, q, n, c, k) == IF k = 0 \/ Stuck(st) THEN st ELSE RunK(Step(st, q, n, c), q, n, c, k - 1)

TInit ==
    /\ tid \in 1..NTraces
    /\ l = 0 /\ stage = "ref" /\ s = Init0 /\ s2 = Init0 /\ s3 = Init0 /\ bad = "" /\ devs = <<>> /\ drift = <<>>
    /\ Verdict(tid, 0, "", <<>>)

TNext ==
    /\ bad = ""
    /\ LET q == Stream(tid)
           n == Len(q)
           c == TCfg(tid)
       IN
       \/ /\ stage = "ref"
          /\ IF Stuck(s) THEN stage' = (IF s.headBody THEN "ref2" ELSE IF s.upOffer THEN "ref3" ELSE "judge") /\ s' = s
             ELSE stage' = "ref" /\ s' = RunK(s, q, n, RefCfg(c), StepsPerState)
          /\ UNCHANGED <<tid, l, s2, s3, bad, devs, drift>>
          /\ Verdict(tid, 0, "", <<devs, drift>>)
       \/ /\ stage = "ref2"
          /\ IF Stuck(s2) THEN stage' = (IF s.upOffer THEN "ref3" ELSE "judge") /\ s2' = s2
             ELSE stage' = "ref2" /\ s2' = RunK(s2, q, n, DevCfg(c), StepsPerState)
          /\ UNCHANGED <<tid, l, s, s3, bad, devs, drift>>
          /\ Verdict(tid, 0, "", <<devs, drift>>)
       \/ /\ stage = "ref3"
          /\ IF Stuck(s3) THEN stage' = "judge" /\ s3' = s3
             ELSE stage' = "ref3" /\ s3' = RunK(s3, q, n, DeclineCfg(c), StepsPerState)
          /\ UNCHANGED <<tid, l, s, s2, bad, devs, drift>>
          /\ Verdict(tid, 0, "", <<devs, drift>>)
       \/ /\ stage = "judge" /\ l < NEvents(tid)
          /\ LET e == Events(tid)[l + 1]
                 j == Judge(s, s2, s3, q, n, e, c)
                 d2 == devs \o [i \in 1..Len(j.devs) |-> <<l + 1, j.devs[i]>>]
                 f2 == IF Len(drift) < 6 THEN drift \o [i \in 1..Len(j.drift) |-> <<l + 1, j.drift[i]>>] ELSE drift
                 l2 == IF j.bad = "" THEN l + 1 ELSE l
             IN /\ bad' = j.bad /\ devs' = d2 /\ drift' = f2 /\ l' = l2
                /\ Verdict(tid, l2, j.bad, <<d2, f2>>)
          /\ UNCHANGED <<tid, stage, s, s2, s3>>
       \/ /\ stage = "judge" /\ l = NEvents(tid)
          /\ LET g == GroupClause(s, q, n, Events(tid), c)
                 d2 == devs \o [i \in 1..Len(g.devs) |-> <<0, g.devs[i]>>]
             IN /\ bad' = g.bad /\ devs' = d2
                /\ Verdict(tid, IF g.bad = "" THEN l ELSE 0, g.bad, <<d2, drift>>)
          /\ stage' = "end"
          /\ UNCHANGED <<tid, l, s, s2, s3, drift>>

TSpec == TInit /\ [][TNext]_tvars

\* the reference's own invariants hold along every real stream too
TInvPartition == Partition(s)
TInvNoBody == NoBodyWithoutFraming(s)
TInvOver == OverLimitRejects(s)
=============================================================================
