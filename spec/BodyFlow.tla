------------------------------ MODULE BodyFlow ------------------------------
(* C09 - body decoding: transparent, memory-bounded, always progresses.

   Implementation-shaped model of the flow-control protocol between

     Network    pieces wait in the transport ("socket buffer"); they are handed to the
                protocol only while the transport is not paused          (engine.memnet /
                asyncio selector transport)
     Protocol   BaseProtocol.pause_reading / resume_reading(): resume re-enters
                data_received(b"") so that the parser continues the input it holds back
                                                                         (base_protocol.py)
     Parser     HttpParser.feed_data `while data or _payload_has_more_data` +
                HttpPayloadParser (PARSE_LENGTH / PARSE_CHUNKED / PARSE_UNTIL_EOF):
                _paused, _more_data_available, _chunk_tail, _eof_pending (http_parser.py)
     Decoder    DeflateBuffer.feed_data + ZLibDecompressor / BrotliDecompressor /
                ZSTDDecompressor: per call output budget max_length = max(limit, low water),
                unconsumed input kept for the next call (unconsumed_tail,
                _pending_unused_data), data_available              (compression_utils.py)
     Reader     StreamReader: _size, low/high water, waiter, eof, exception   (streams.py)
     Consumer   read(n) / read() / readany(), server side BaseRequest.read() with
                client_max_size                                      (web_request.py)

   The codec itself is abstract.  The body is a sequence of INPUT UNITS; unit u decodes
   to E(u) OUTPUT UNITS, E(u) in {0, 1, Big} ("expansion factor"; Big models a
   decompression bomb).  M ends a member of a multi-member stream, X is corrupt input
   (the decoder raises when it reaches it).  All sizes are in units: Limit is
   read_bufsize.

   Everything that happens inside one data_received() call is synchronous in the code;
   the model still takes one step per parser loop iteration (pc # "idle": no other party
   can move) so that the invariants are evaluated after every single decoder call.

   Design switches (TRUE = the design that satisfies the property).  The two marked
   "as coded: FALSE" are the deviations of the code as found; they are taken by the
   separate actions Dev_StalePauseKept and Dev_EofDropsParser:
     ClearStalePause   a pause request that arrives when the parser has nothing left to
                       hold back is forgotten when feed_data returns NEEDS_INPUT
                       (as coded: FALSE - HttpPayloadParser._paused stays set and stops the
                       NEXT feed_data before it feeds anything, with nobody left to resume)
     EofKeepsParser    connection_lost keeps the parser while it still holds pending output
                       (as coded: FALSE - ResponseHandler.connection_lost sets _parser=None)
   The others are mutants for sensitivity: UseBudget (max_length passed),
   ResumeReenters (resume_reading calls data_received(b"")), PauseReachesParser
   (pause_reading reaches the payload parser), KeepPending (_pending_unused_data kept),
   CheckEachChunk (413 test inside the read loop).                                      *)
EXTENDS Naturals, Sequences, FiniteSets, TLC

CONSTANTS Mode, Codec, Side, Limit, Big, MaxPieces, MaxUnits, ReadSizes, ClientMax,
          WithMembers, WithCorrupt, WithTrunc,
          ClearStalePause, EofKeepsParser,
          UseBudget, ResumeReenters, PauseReachesParser, KeepPending, CheckEachChunk

VARIABLES netLeft, finSent, inbox, tPaused, netEof,          \* network / transport
          rPaused, connected,                                 \* protocol
          pst, pPaused, more, tail, eofPending, hasMore, finSeen,   \* parser
          pendIn, pendOut, lastOut,                           \* decoder
          size, low, high, reof, rexc,                        \* reader
          cst, acc,                                           \* consumer
          owed, afterErr,                                     \* bookkeeping (history)
          pc, ret, arg

vars == <<netLeft, finSent, inbox, tPaused, netEof, rPaused, connected,
          pst, pPaused, more, tail, eofPending, hasMore, finSeen,
          pendIn, pendOut, lastOut, size, low, high, reof, rexc, cst, acc,
          owed, afterErr, pc, ret, arg>>

INF == 1000            \* "no limit": read() / read(-1) set the water marks to sys.maxsize
M == 100               \* member end
X == 101               \* corrupt input
FIN == 102             \* terminal chunk (only inside `tail`, chunked mode)

Min(a, b) == IF a < b THEN a ELSE b
Max(a, b) == IF a > b THEN a ELSE b

E(u) == IF u < 100 THEN u ELSE 0
RECURSIVE SumE(_)
SumE(s) == IF s = <<>> THEN 0 ELSE E(Head(s)) + SumE(Tail(s))

Units == {0, 1, Big} \cup (IF WithMembers THEN {M} ELSE {}) \cup (IF WithCorrupt THEN {X} ELSE {})
UnitSeqs == UNION {[1..k -> Units] : k \in 1..MaxUnits}
NoPiece == [u |-> <<>>, fin |-> FALSE]

RECURSIVE Latent(_)
Latent(q) == IF q = <<>> THEN 0 ELSE SumE(Head(q).u) + Latent(Tail(q))

Init ==
    /\ netLeft = MaxPieces /\ finSent = FALSE /\ inbox = <<>> /\ tPaused = FALSE /\ netEof = "no"
    /\ rPaused = FALSE /\ connected = TRUE
    /\ pst = "open" /\ pPaused = FALSE /\ more = FALSE /\ tail = <<>> /\ eofPending = FALSE
    /\ hasMore = FALSE /\ finSeen = FALSE
    /\ pendIn = <<>> /\ pendOut = 0 /\ lastOut = 0
    /\ size = 0 /\ low = Limit /\ high = 2 * Limit /\ reof = FALSE /\ rexc = FALSE
    /\ cst = "run" /\ acc = 0
    /\ owed = 0 /\ afterErr = FALSE
    /\ pc = "idle" /\ ret = "net" /\ arg = NoPiece

(* ------------------------------------------------------------------ decoder *)
\* DeflateBuffer.feed_data: max_length = 0 if low_water >= sys.maxsize else max(limit, low_water)
Budget == IF ~UseBudget \/ Codec = "identity" \/ low >= INF THEN INF ELSE Max(Limit, low)

\* one decompress_sync(data, max_length) call: consume pending input in order, never emit
\* more than `room`; what is not consumed stays pending (unconsumed_tail /
\* _pending_unused_data / the zstd object's own buffer)
RECURSIVE Dec(_, _, _, _)
Dec(pin, pout, room, out) ==
    IF pout > 0
    THEN IF room = 0 THEN [pin |-> pin, pout |-> pout, out |-> out, err |-> FALSE]
         ELSE LET k == Min(pout, room) IN Dec(pin, pout - k, room - k, out + k)
    ELSE IF pin = <<>> THEN [pin |-> pin, pout |-> 0, out |-> out, err |-> FALSE]
    ELSE IF Head(pin) = X THEN [pin |-> <<>>, pout |-> 0, out |-> out, err |-> TRUE]
    ELSE IF room = 0
         THEN \* _decompress_members: budget <= 0 -> _pending_unused_data = rest; break
              [pin |-> IF Head(pin) = M /\ ~KeepPending THEN <<>> ELSE pin,
               pout |-> 0, out |-> out, err |-> FALSE]
    ELSE Dec(Tail(pin), E(Head(pin)), room, out)

\* decompressor.data_available after a call that returned `out` units
Avail(r) ==
    CASE Codec = "identity" -> FALSE                                  \* StreamReader.feed_data returns False
      [] Codec = "zstd" -> r.pin # <<>> \/ r.pout > 0                  \* not needs_input, or pending
      [] OTHER -> r.pin # <<>> \/ r.pout > 0 \/ r.out > 0              \* zlib / brotli: "not _last_empty"

\* DeflateBuffer.feed_data(input) -> StreamReader.feed_data(out) -> (size > high) pause_reading
\* sets: pendIn pendOut lastOut more size rPaused pPaused tPaused pst rexc
DoCall(input) ==
    LET r == Dec(pendIn \o input, pendOut, Budget, 0) IN
    IF r.err
    THEN \* ContentEncodingError: HttpParser.feed_data sets the payload exception, drops the parser
         /\ pendIn' = <<>> /\ pendOut' = 0 /\ lastOut' = 0 /\ more' = FALSE
         /\ rexc' = TRUE /\ pst' = "error"
         /\ UNCHANGED <<size, rPaused, pPaused, tPaused>>
    ELSE /\ pendIn' = r.pin /\ pendOut' = r.pout /\ lastOut' = r.out /\ more' = Avail(r)
         /\ size' = size + r.out
         /\ UNCHANGED <<rexc, pst>>
         /\ IF r.out > 0 /\ size + r.out > high
            THEN \* BaseProtocol.pause_reading
                 /\ rPaused' = TRUE
                 /\ pPaused' = IF PauseReachesParser THEN TRUE ELSE pPaused
                 /\ tPaused' = IF connected THEN TRUE ELSE tPaused
            ELSE UNCHANGED <<rPaused, pPaused, tPaused>>

(* ------------------------------------------------------------------ network *)
\* the peer writes one more piece; it waits in the transport
NetSend(us, fin) ==
    /\ pc = "idle" /\ netLeft > 0 /\ ~finSent /\ netEof = "no"
    /\ (Mode # "UntilEOF" /\ netLeft = 1 /\ ~WithTrunc) => fin
    /\ Mode = "UntilEOF" => ~fin
    /\ netLeft' = netLeft - 1
    /\ finSent' = fin
    /\ inbox' = Append(inbox, [u |-> us, fin |-> fin])
    /\ owed' = owed + SumE(us)
    /\ UNCHANGED <<tPaused, netEof, rPaused, connected, pst, pPaused, more, tail, eofPending, hasMore,
                   finSeen, pendIn, pendOut, lastOut, size, low, high, reof, rexc, cst, acc, afterErr,
                   pc, ret, arg>>

\* the peer closes: end of an until-EOF body, or a truncation (WithTrunc)
NetClose ==
    /\ pc = "idle" /\ netEof = "no"
    /\ \/ Mode = "UntilEOF"
       \/ finSent
       \/ WithTrunc
    /\ netEof' = "queued"
    /\ UNCHANGED <<netLeft, finSent, inbox, tPaused, rPaused, connected, pst, pPaused, more, tail, eofPending,
                   hasMore, finSeen, pendIn, pendOut, lastOut, size, low, high, reof, rexc, cst, acc, owed,
                   afterErr, pc, ret, arg>>

\* transport -> protocol.data_received(piece): only while reading is not paused
NetDeliver ==
    /\ pc = "idle" /\ connected /\ ~tPaused /\ inbox # <<>>
    /\ inbox' = Tail(inbox)
    /\ arg' = Head(inbox) /\ ret' = "net" /\ pc' = "entry"
    /\ UNCHANGED <<netLeft, finSent, tPaused, netEof, rPaused, connected, pst, pPaused, more, tail, eofPending,
                   hasMore, finSeen, pendIn, pendOut, lastOut, size, low, high, reof, rexc, cst, acc, owed, afterErr>>

\* EOF reaches the protocol after all queued data: connection_lost -> parser.feed_eof()
NetEofDeliver ==
    /\ pc = "idle" /\ connected /\ ~tPaused /\ inbox = <<>> /\ netEof = "queued"
    /\ netEof' = "lost"
    /\ connected' = FALSE
    /\ IF pst # "open"
       THEN UNCHANGED <<pst, rexc, eofPending, pc, ret, arg>>
       ELSE IF Mode = "UntilEOF" \/ (Mode = "Length" /\ finSeen)
       THEN \* HttpPayloadParser.feed_eof: flush what the decoder still holds, then feed_eof
            /\ eofPending' = (Mode = "UntilEOF") /\ pc' = "loop" /\ ret' = "eof" /\ arg' = NoPiece
            /\ UNCHANGED <<pst, rexc>>
       ELSE \* ContentLengthError / TransferEncodingError -> ClientPayloadError on the payload
            /\ pst' = "error" /\ rexc' = TRUE
            /\ UNCHANGED <<eofPending, pc, ret, arg>>
    /\ UNCHANGED <<netLeft, finSent, inbox, tPaused, rPaused, pPaused, more, tail, hasMore, finSeen,
                   pendIn, pendOut, lastOut, size, low, high, reof, cst, acc, owed, afterErr>>

(* ------------------------------------------------------------------- parser *)
\* how a feed_data call ends; `k` in {"needs", "pending", "complete"}
\*   pending  : PAYLOAD_HAS_PENDING_INPUT (parser holds input back, waits for resume)
\*   complete : payload.feed_eof() -> StreamReader.feed_eof -> resume_reading(resume_parser=False)
Exit(k, clearPause, drop) ==
    /\ pc' = "idle" /\ arg' = NoPiece
    /\ hasMore' = (k = "pending")
    /\ pPaused' = IF clearPause THEN FALSE ELSE pPaused
    /\ LET rp == IF k = "complete" THEN FALSE ELSE rPaused IN
       /\ rPaused' = rp
       /\ reof' = (reof \/ k = "complete")
       /\ pst' = IF k = "complete" THEN "complete"
                 ELSE IF drop THEN "dropped"
                 ELSE pst
       /\ tPaused' = IF ~connected THEN tPaused
                     ELSE IF k = "complete" THEN FALSE
                     ELSE IF ret = "resume" /\ ~rp THEN FALSE      \* BaseProtocol.resume_reading tail
                     ELSE tPaused
    /\ UNCHANGED <<netLeft, finSent, inbox, netEof, connected, more, tail, eofPending, finSeen,
                   pendIn, pendOut, lastOut, size, low, high, rexc, cst, acc, owed, afterErr, ret>>

\* HttpParser.feed_data entry: `while start_pos < data_len or self._payload_has_more_data`
Entry ==
    /\ pc = "entry"
    /\ IF pst # "open" \/ (arg.u = <<>> /\ ~arg.fin /\ ~hasMore)
       THEN \* nothing to do (no parser any more / no data and nothing held back)
            /\ pc' = "idle" /\ arg' = NoPiece
            /\ tPaused' = IF connected /\ ret = "resume" /\ ~rPaused THEN FALSE ELSE tPaused
            /\ UNCHANGED <<pst, pPaused, more, tail, hasMore, finSeen, pendIn, pendOut, lastOut, size,
                           rPaused, rexc>>
       ELSE IF Mode = "Chunked"
       THEN /\ tail' = tail \o arg.u \o (IF arg.fin THEN <<FIN>> ELSE <<>>)
            /\ pc' = "loop" /\ arg' = NoPiece
            /\ UNCHANGED <<pst, pPaused, more, hasMore, finSeen, pendIn, pendOut, lastOut, size, rPaused,
                           tPaused, rexc>>
       ELSE \* PARSE_LENGTH / PARSE_UNTIL_EOF: the first payload.feed_data(chunk) is unconditional
            /\ finSeen' = (finSeen \/ arg.fin)
            /\ DoCall(arg.u)
            /\ pc' = IF pst' = "error" THEN "idle" ELSE "loop"
            /\ arg' = NoPiece
            /\ UNCHANGED <<tail, hasMore>>
    /\ UNCHANGED <<netLeft, finSent, inbox, netEof, connected, eofPending, low, high, reof, cst, acc,
                   owed, afterErr, ret>>

\* a further decoder call inside the loop
LoopCall ==
    /\ pc = "loop" /\ ~pPaused
    /\ IF Mode = "Chunked"
       THEN \/ /\ more /\ DoCall(<<>>) /\ UNCHANGED tail
            \/ /\ ~more /\ tail # <<>> /\ Head(tail) # FIN
               /\ DoCall(<<Head(tail)>>) /\ tail' = Tail(tail)
       ELSE more /\ DoCall(<<>>) /\ UNCHANGED tail
    /\ pc' = IF pst' = "error" THEN "idle" ELSE "loop"
    /\ UNCHANGED <<netLeft, finSent, inbox, netEof, connected, eofPending, hasMore, finSeen, low, high,
                   reof, cst, acc, owed, afterErr, ret, arg>>

\* `if self._paused: self._paused = False; ...; return PAYLOAD_HAS_PENDING_INPUT`
HoldsBack == more \/ (Mode = "Chunked" /\ tail # <<>> /\ Head(tail) # FIN)

LoopPending ==
    /\ pc = "loop" /\ pPaused /\ HoldsBack
    /\ ret # "eof" \/ EofKeepsParser
    /\ Exit("pending", TRUE, FALSE)

\* as coded: feed_eof() returns early ("will resume via feed_data(b'') later"), but
\* ResponseHandler.connection_lost then sets self._parser = None: the held-back output and the
\* end-of-body never reach the reader
Dev_EofDropsParser ==
    /\ ~EofKeepsParser
    /\ pc = "loop" /\ pPaused /\ HoldsBack /\ ret = "eof"
    /\ Exit("pending", TRUE, TRUE)

\* payload.feed_eof(): length reached / terminal chunk / EOF of an until-EOF body
LoopComplete ==
    /\ pc = "loop" /\ ~more
    /\ CASE Mode = "Chunked" -> tail # <<>> /\ Head(tail) = FIN
         [] Mode = "Length" -> finSeen
         [] OTHER -> eofPending
    /\ Exit("complete", TRUE, FALSE)

NothingLeft ==
    /\ pc = "loop" /\ ~more
    /\ CASE Mode = "Chunked" -> tail = <<>>
         [] Mode = "Length" -> ~finSeen
         [] OTHER -> ~eofPending

\* return PAYLOAD_NEEDS_INPUT; a pause request that found nothing to hold back is forgotten
LoopNeedsInput ==
    /\ NothingLeft
    /\ Exit("needs", TRUE, FALSE)

\* as coded: the bottom `return PAYLOAD_NEEDS_INPUT` leaves HttpPayloadParser._paused set
Dev_StalePauseKept ==
    /\ ~ClearStalePause
    /\ NothingLeft /\ pPaused
    /\ Exit("needs", FALSE, FALSE)

(* ----------------------------------------------------------------- consumer *)
\* StreamReader.read(n) / read() / readany() by the application (client side)
ConsumerRead(n) ==
    /\ pc = "idle" /\ cst = "run" /\ Side = "client"
    /\ rexc \/ size > 0 \/ reof                          \* otherwise it awaits the waiter
    /\ IF rexc
       THEN /\ cst' = "failed"
            /\ UNCHANGED <<size, low, high, rPaused, owed, pc, ret, arg, afterErr>>
       ELSE IF size = 0
       THEN /\ cst' = "done"
            /\ UNCHANGED <<size, low, high, rPaused, owed, pc, ret, arg, afterErr>>
       ELSE LET lo == IF n >= INF THEN INF ELSE Max(low, n)      \* set_read_chunk_size
                k == Min(n, size) IN
            /\ low' = lo /\ high' = IF n >= INF THEN INF ELSE IF n > low THEN 2 * n ELSE high
            /\ size' = size - k /\ owed' = owed - k
            /\ afterErr' = (afterErr \/ rexc)
            /\ cst' = cst
            /\ IF size - k < lo
               THEN \* _read_nowait_chunk: protocol.resume_reading() -> data_received(b"")
                    /\ rPaused' = FALSE
                    /\ pc' = IF ResumeReenters THEN "entry" ELSE "resumetail"
                    /\ ret' = "resume" /\ arg' = NoPiece
               ELSE UNCHANGED <<rPaused, pc, ret, arg>>
    /\ UNCHANGED <<netLeft, finSent, inbox, tPaused, netEof, connected, pst, pPaused, more, tail, eofPending,
                   hasMore, finSeen, pendIn, pendOut, lastOut, reof, rexc, acc>>

\* mutant only (ResumeReenters = FALSE): resume_reading without the data_received(b"") call
ResumeTail ==
    /\ pc = "resumetail"
    /\ pc' = "idle"
    /\ tPaused' = IF connected /\ ~rPaused THEN FALSE ELSE tPaused
    /\ UNCHANGED <<netLeft, finSent, inbox, netEof, rPaused, connected, pst, pPaused, more, tail, eofPending,
                   hasMore, finSeen, pendIn, pendOut, lastOut, size, low, high, reof, rexc, cst, acc, owed,
                   afterErr, ret, arg>>

\* BaseRequest.read(): set_read_chunk_size(client_max_size); loop { chunk = readany(); body += chunk;
\* if len(body) > client_max_size: raise 413; if not chunk: break }
ServerRead ==
    /\ pc = "idle" /\ cst = "run" /\ Side = "server"
    /\ rexc \/ size > 0 \/ reof
    /\ IF rexc
       THEN /\ cst' = "failed" /\ UNCHANGED <<size, low, high, rPaused, owed, pc, ret, arg, acc>>
       ELSE IF size = 0
       THEN /\ cst' = IF acc > ClientMax THEN "413" ELSE "done"
            /\ UNCHANGED <<size, low, high, rPaused, owed, pc, ret, arg, acc>>
       ELSE LET lo == Max(low, ClientMax) IN
            /\ low' = lo /\ high' = IF ClientMax > low THEN 2 * ClientMax ELSE high
            /\ size' = 0 /\ owed' = owed - size /\ acc' = acc + size
            /\ cst' = IF CheckEachChunk /\ acc + size > ClientMax THEN "413" ELSE "run"
            /\ rPaused' = FALSE
            /\ pc' = "entry" /\ ret' = "resume" /\ arg' = NoPiece
    /\ UNCHANGED <<netLeft, finSent, inbox, tPaused, netEof, connected, pst, pPaused, more, tail, eofPending,
                   hasMore, finSeen, pendIn, pendOut, lastOut, reof, rexc, afterErr>>

Terminal == cst \in {"done", "failed", "413"}

\* the exchange is over; keeps TLC's deadlock check meaningful (a state without successor is a hang)
Finished == pc = "idle" /\ Terminal /\ UNCHANGED vars

Next ==
    \/ \E us \in UnitSeqs, fin \in BOOLEAN : NetSend(us, fin)
    \/ NetClose \/ NetDeliver \/ NetEofDeliver
    \/ Entry \/ LoopCall \/ LoopPending \/ LoopComplete \/ LoopNeedsInput \/ Dev_StalePauseKept \/ Dev_EofDropsParser
    \/ \E n \in ReadSizes : ConsumerRead(n)
    \/ ResumeTail \/ ServerRead
    \/ Finished

Spec == Init /\ [][Next]_vars

\* every party keeps going: the peer eventually finishes the body, the loop runs, the application reads
FairSpec ==
    /\ Spec
    /\ WF_vars(\E us \in UnitSeqs : NetSend(us, TRUE) \/ (Mode = "UntilEOF" /\ NetSend(us, FALSE)))
    /\ WF_vars(NetClose) /\ WF_vars(NetDeliver) /\ WF_vars(NetEofDeliver)
    /\ WF_vars(Entry \/ LoopCall \/ LoopPending \/ LoopComplete \/ LoopNeedsInput \/ Dev_StalePauseKept \/ Dev_EofDropsParser \/ ResumeTail)
    /\ WF_vars(\E n \in ReadSizes : ConsumerRead(n)) /\ WF_vars(ServerRead)

(* --------------------------------------------------------------- properties *)
Clean == ~WithCorrupt /\ ~WithTrunc

\* decoded bytes buffered never exceed high water + one call's budget (= 3 * limit while the
\* application has not raised the water marks); identity bodies: high water + one network piece
Resident ==
    low < INF =>
        IF Codec = "identity" THEN size <= high + MaxUnits * Big
        ELSE size <= high + Max(Limit, low)

\* a single decoder call never emits more than the budget
OneCallBudget == (Codec # "identity" /\ low < INF) => lastOut <= Max(Limit, low)

\* conservation of units: what the peer sent is delivered, buffered, or still latent in the
\* transport / the parser's held-back tail / the decoder - nothing is dropped
NoInputLost ==
    (~rexc /\ pst # "error") =>
        owed = size + pendOut + SumE(pendIn) + SumE(tail) + Latent(inbox) + SumE(arg.u)

\* after a decoding error the reader carries the error and nothing more reaches the application
ErrorNotData ==
    /\ pst = "error" => rexc
    /\ ~afterErr
ErrStopsFeed == [][rexc => size' <= size]_vars

\* the consumer waits on an empty reader, not at EOF, and no other party can move
NetCanMove ==
    \/ netLeft > 0 /\ ~finSent /\ netEof = "no"
    \/ netEof = "no" /\ (Mode = "UntilEOF" \/ finSent \/ WithTrunc)
    \/ connected /\ ~tPaused /\ (inbox # <<>> \/ netEof = "queued")
Stuck == pc = "idle" /\ cst = "run" /\ size = 0 /\ ~reof /\ ~rexc /\ ~NetCanMove
NoDeadlock == ~Stuck

\* whenever the parser holds input back, the transport is paused - so neither new data nor EOF can
\* overtake the held-back input (this is what makes the deferred EOF of feed_eof unreachable)
HeldBackImpliesPaused == (pc = "idle" /\ pst = "open" /\ hasMore /\ connected) => tPaused

\* server: BaseRequest.read() never accumulates more than client_max_size + one readany() chunk
MaxSize == Side = "server" => acc <= ClientMax + high + Max(Limit, low)
NeverReturnsMore == (Side = "server" /\ cst = "done") => acc <= ClientMax

\* reading always progresses to the end of the body (or to the reported error)
Progress == <>(Terminal)
ReachesEof == Clean /\ Side = "client" => <>(reof /\ size = 0 /\ cst = "done")
=============================================================================
