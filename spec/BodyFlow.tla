------------------------------ MODULE BodyFlow ------------------------------
(* C09 - body decoding: transparent, memory-bounded, always progresses.

   Implementation-shaped model of the flow-control protocol between

     Network    pieces wait in the transport ("socket buffer"); they are handed to the
                protocol only while the transport is not paused          (engine.memnet /
                asyncio selector transport)
     Protocol   BaseProtocol.pause_reading / resume_reading(): resume re-enters
                data_received(b"") so that the parser continues the input it holds back
                                                                         (base_protocol.py)
     Parser     HttpParser.feed_data `while data or _payload_has_more_data` +
                HttpPayloadParser (PARSE_LENGTH / PARSE_CHUNKED / PARSE_UNTIL_EOF):
                _paused, _more_data_available, _chunk_tail, _eof_pending (http_parser.py)
     Decoder    DeflateBuffer.feed_data + ZLibDecompressor / BrotliDecompressor /
                ZSTDDecompressor: per call output budget max_length = max(limit, low water),
                unconsumed input kept for the next call (unconsumed_tail,
                _pending_unused_data), data_available              (compression_utils.py)
     Reader     StreamReader: _size, low/high water, waiter, eof, exception   (streams.py)
     Consumer   read(n) / read() / readany(), server side BaseRequest.read() with
                client_max_size                                      (web_request.py)

   The codec itself is abstract.  The body is a sequence of INPUT UNITS; unit u decodes
   to E(u) OUTPUT UNITS, E(u) in {0, 1, Big} ("expansion factor"; Big models a
   decompression bomb).  M ends a member of a multi-member stream, X is corrupt input
   (the decoder raises when it reaches it).  All sizes are in units: Limit is
   read_bufsize.

   Everything that happens inside one data_received() call or one read call is synchronous
   in the code; the model still takes one step per parser loop iteration and per buffer
   chunk taken by a read (pc # "idle": no other party can move) so that the invariants are
   evaluated after every single decoder call.  A read is a loop over the reader's buffer
   chunks (StreamReader._read_nowait): after every chunk taken, `size < low water` calls
   protocol.resume_reading() re-entrantly, which may refill the buffer the same read is
   still draining (ret = "read").

   Abstractions: the reader's second water mark (number of buffered HTTP chunk ends,
   max(4, limit // 16)) is not modelled - it only adds pause requests at chunk ends, which
   the size water mark produces as well; eof_received and connection_lost are one step
   (NetEofDeliver); one HTTP chunk = one input unit; "zstd" stands for any decoder whose
   data_available does not ask for one more empty call after a non-empty result.

   Design switches (TRUE = the design that satisfies the property).  The two marked
   "as coded: FALSE" are the deviations of the code as found; they are taken by the
   separate actions Dev_StalePauseKept and Dev_EofDropsParser:
     ClearStalePause   a pause request that arrives when the parser has nothing left to
                       hold back is forgotten when feed_data returns NEEDS_INPUT
                       (as coded: FALSE - HttpPayloadParser._paused stays set and stops the
                       NEXT feed_data before it feeds anything, with nobody left to resume)
     EofKeepsParser    connection_lost keeps the parser while it still holds pending output
                       (as coded: FALSE - ResponseHandler.connection_lost sets _parser=None)
   ZeroUnits = TRUE admits input units that decode to nothing (headers, empty blocks).
   MidChunkCuts = TRUE lets a network piece end inside an HTTP chunk (FALSE: pieces end at chunk
   boundaries, which is what the replay driver renders).
   The others are mutants for sensitivity: UseBudget (max_length passed),
   ResumeReenters (resume_reading calls data_received(b"")), PauseReachesParser
   (pause_reading reaches the payload parser), KeepPending (_pending_unused_data kept),
   CheckEachChunk (413 test inside the read loop), ErrChecked (a read call raises the stored
   payload error before it takes anything), PendingCountsAvail (data_available also reports input
   parked for the next call: unconsumed_tail / _pending_unused_data), LineKeepsLimits (a line read -
   read size 0 in ReadSizes - leaves the water marks alone).                                      *)
EXTENDS Naturals, Sequences, FiniteSets, TLC

CONSTANTS Mode, Codec, Side, Limit, Big, MaxPieces, MaxUnits, ReadSizes, ClientMax,
          WithMembers, WithCorrupt, WithTrunc, MidChunkCuts, ZeroUnits,
          ClearStalePause, EofKeepsParser,
          UseBudget, ResumeReenters, PauseReachesParser, KeepPending, CheckEachChunk, ErrChecked,
          PendingCountsAvail, LineKeepsLimits

VARIABLES netLeft, finSent, inbox, tPaused, netEof,          \* network / transport
          rPaused, connected,                                 \* protocol
          pst, pPaused, more, tail, eofPending, hasMore, finSeen,   \* parser
          pendIn, pendOut, lastOut,                           \* decoder
          buf, low, high, reof, rexc,                         \* reader (buf: sizes of the buffered chunks)
          cst, acc, want, cnt, req,                           \* consumer (req: largest size it asked for)
          owed, afterErr,                                     \* bookkeeping (history)
          pc, ret, arg

vars == <<netLeft, finSent, inbox, tPaused, netEof, rPaused, connected,
          pst, pPaused, more, tail, eofPending, hasMore, finSeen,
          pendIn, pendOut, lastOut, buf, low, high, reof, rexc, cst, acc, want, cnt, req,
          owed, afterErr, pc, ret, arg>>

netv == <<netLeft, finSent, inbox, netEof>>
parv == <<pst, pPaused, more, tail, eofPending, hasMore, finSeen>>
decv == <<pendIn, pendOut, lastOut>>
conv == <<cst, acc, want, cnt, req>>

INF == 1000            \* "no limit": read() / read(-1) set the water marks to sys.maxsize
M == 100               \* member end
X == 101               \* corrupt input
FIN == 102             \* terminal chunk (only inside `tail`, chunked mode)

Min(a, b) == IF a < b THEN a ELSE b
Max(a, b) == IF a > b THEN a ELSE b

E(u) == IF u < 100 THEN u ELSE 0
RECURSIVE SumE(_)
SumE(s) == IF s = <<>> THEN 0 ELSE E(Head(s)) + SumE(Tail(s))
RECURSIVE Sum(_)
Sum(s) == IF s = <<>> THEN 0 ELSE Head(s) + Sum(Tail(s))
size == Sum(buf)                                   \* StreamReader._size

\* (an identity body has no input that decodes to nothing, no members and no decoder to fail)
Units == (IF Codec = "identity" \/ ~ZeroUnits THEN {1, Big} ELSE {0, 1, Big}) \cup (IF WithMembers THEN {M} ELSE {}) \cup (IF WithCorrupt THEN {X} ELSE {})
UnitSeqs == UNION {[1..k -> Units] : k \in 1..MaxUnits}
NoPiece == [u |-> <<>>, fin |-> FALSE]

RECURSIVE Latent(_)
Latent(q) == IF q = <<>> THEN 0 ELSE SumE(Head(q).u) + Latent(Tail(q))

Init ==
    /\ netLeft = MaxPieces /\ finSent = FALSE /\ inbox = <<>> /\ tPaused = FALSE /\ netEof = "no"
    /\ rPaused = FALSE /\ connected = TRUE
    /\ pst = "open" /\ pPaused = FALSE /\ more = FALSE /\ tail = <<>> /\ eofPending = FALSE
    /\ hasMore = FALSE /\ finSeen = FALSE
    /\ pendIn = <<>> /\ pendOut = 0 /\ lastOut = 0
    /\ buf = <<>> /\ low = Limit /\ high = 2 * Limit /\ reof = FALSE /\ rexc = FALSE
    /\ cst = "run" /\ acc = 0 /\ want = 0 /\ cnt = 0 /\ req = 0
    /\ owed = 0 /\ afterErr = FALSE
    /\ pc = "idle" /\ ret = "net" /\ arg = NoPiece

(* ------------------------------------------------------------------ decoder *)
\* DeflateBuffer.feed_data: max_length = 0 if low_water >= sys.maxsize else max(limit, low_water)
Budget == IF ~UseBudget \/ Codec = "identity" \/ low >= INF THEN INF ELSE Max(Limit, low)

\* one decompress_sync(data, max_length) call: consume pending input in order, never emit
\* more than `room`; what is not consumed stays pending (unconsumed_tail /
\* _pending_unused_data / the zstd object's own buffer)
RECURSIVE Dec(_, _, _, _)
Dec(pin, pout, room, out) ==
    IF pout > 0
    THEN IF room = 0 THEN [pin |-> pin, pout |-> pout, out |-> out, err |-> FALSE]
         ELSE LET k == Min(pout, room) IN Dec(pin, pout - k, room - k, out + k)
    ELSE IF pin = <<>> THEN [pin |-> pin, pout |-> 0, out |-> out, err |-> FALSE]
    ELSE IF Head(pin) = X THEN [pin |-> <<>>, pout |-> 0, out |-> out, err |-> TRUE]
    ELSE IF room = 0 /\ E(Head(pin)) = 0 /\ (Head(pin) # M \/ Tail(pin) = <<>>)
         THEN Dec(Tail(pin), 0, 0, out)      \* input that decodes to nothing is absorbed by the decoder
    ELSE IF room = 0
         THEN \* _decompress_members: budget <= 0 -> _pending_unused_data = rest; break
              [pin |-> IF Head(pin) = M /\ ~KeepPending THEN <<>> ELSE pin,
               pout |-> 0, out |-> out, err |-> FALSE]
    ELSE Dec(Tail(pin), E(Head(pin)), room, out)

\* decompressor.data_available after a call that returned `out` units
Avail(r) ==
    CASE Codec = "identity" -> FALSE                                  \* StreamReader.feed_data returns False
      [] Codec = "zstd" -> r.pout > 0 \/ (PendingCountsAvail /\ r.pin # <<>>)   \* not needs_input, or _pending_unused_data
      [] OTHER -> r.pout > 0 \/ r.out > 0 \/ (PendingCountsAvail /\ r.pin # <<>>)   \* zlib / brotli: "not _last_empty"

\* DeflateBuffer.feed_data(input) -> StreamReader.feed_data(out) -> (size > high) pause_reading
\* sets: pendIn pendOut lastOut more buf rPaused pPaused tPaused pst rexc
DoCall(input) ==
    LET r == Dec(pendIn \o input, pendOut, Budget, 0) IN
    IF r.err
    THEN \* ContentEncodingError: HttpParser.feed_data sets the payload exception, drops the parser
         /\ pendIn' = <<>> /\ pendOut' = 0 /\ lastOut' = 0 /\ more' = FALSE
         /\ rexc' = TRUE /\ pst' = "error"
         /\ UNCHANGED <<buf, rPaused, pPaused, tPaused>>
    ELSE /\ pendIn' = r.pin /\ pendOut' = r.pout /\ lastOut' = r.out /\ more' = Avail(r)
         /\ buf' = IF r.out > 0 THEN Append(buf, r.out) ELSE buf
         /\ UNCHANGED <<rexc, pst>>
         /\ IF r.out > 0 /\ size + r.out > high
            THEN \* BaseProtocol.pause_reading
                 /\ rPaused' = TRUE
                 /\ pPaused' = IF PauseReachesParser THEN TRUE ELSE pPaused
                 /\ tPaused' = IF connected THEN TRUE ELSE tPaused
            ELSE UNCHANGED <<rPaused, pPaused, tPaused>>

(* ------------------------------------------------------------------ network *)
\* the peer writes one more piece; it waits in the transport
NetSend(us, fin) ==
    /\ pc = "idle" /\ netLeft > 0 /\ ~finSent /\ netEof = "no"
    /\ (Mode # "UntilEOF" /\ netLeft = 1 /\ ~WithTrunc) => fin
    /\ Mode = "UntilEOF" => ~fin
    /\ netLeft' = netLeft - 1
    /\ finSent' = fin
    /\ inbox' = Append(inbox, [u |-> us, fin |-> fin])
    /\ owed' = owed + SumE(us)
    /\ UNCHANGED <<tPaused, netEof, rPaused, connected, parv, decv, buf, low, high, reof, rexc, conv,
                   afterErr, pc, ret, arg>>

\* the peer closes: end of an until-EOF body, or a truncation (WithTrunc)
NetClose ==
    /\ pc = "idle" /\ netEof = "no"
    /\ \/ Mode = "UntilEOF"
       \/ finSent
       \/ WithTrunc
    /\ netEof' = "queued"
    /\ UNCHANGED <<netLeft, finSent, inbox, tPaused, rPaused, connected, parv, decv, buf, low, high, reof,
                   rexc, conv, owed, afterErr, pc, ret, arg>>

\* transport -> protocol.data_received(piece): only while reading is not paused
NetDeliver ==
    /\ pc = "idle" /\ connected /\ ~tPaused /\ inbox # <<>>
    /\ inbox' = Tail(inbox)
    /\ arg' = Head(inbox) /\ ret' = "net" /\ pc' = "entry"
    /\ UNCHANGED <<netLeft, finSent, tPaused, netEof, rPaused, connected, parv, decv, buf, low, high, reof,
                   rexc, conv, owed, afterErr>>

\* EOF reaches the protocol after all queued data: connection_lost -> parser.feed_eof()
NetEofDeliver ==
    /\ pc = "idle" /\ connected /\ ~tPaused /\ inbox = <<>> /\ netEof = "queued"
    /\ netEof' = "lost"
    /\ connected' = FALSE
    /\ IF pst # "open"
       THEN UNCHANGED <<pst, rexc, eofPending, pc, ret, arg>>
       ELSE IF Mode = "UntilEOF" \/ (Mode = "Length" /\ finSeen)
       THEN \* HttpPayloadParser.feed_eof: flush what the decoder still holds, then feed_eof
            /\ eofPending' = (Mode = "UntilEOF") /\ pc' = "loop" /\ ret' = "eof" /\ arg' = NoPiece
            /\ UNCHANGED <<pst, rexc>>
       ELSE \* ContentLengthError / TransferEncodingError -> ClientPayloadError on the payload
            /\ pst' = "error" /\ rexc' = TRUE
            /\ UNCHANGED <<eofPending, pc, ret, arg>>
    /\ UNCHANGED <<netLeft, finSent, inbox, tPaused, rPaused, pPaused, more, tail, hasMore, finSeen,
                   decv, buf, low, high, reof, conv, owed, afterErr>>

(* ------------------------------------------------------------------- parser *)
\* where a synchronous parser call returns to
Back == IF ret = "read" THEN "read" ELSE "idle"
FromResume == ret \in {"resume", "read"}

\* how a feed_data call ends; `k` in {"needs", "pending", "complete"}
\*   pending  : PAYLOAD_HAS_PENDING_INPUT (parser holds input back, waits for resume)
\*   complete : payload.feed_eof() -> StreamReader.feed_eof -> resume_reading(resume_parser=False)
Exit(k, clearPause, drop) ==
    /\ pc' = Back /\ arg' = NoPiece
    /\ hasMore' = (k = "pending")
    /\ pPaused' = IF clearPause THEN FALSE ELSE pPaused
    /\ LET rp == IF k = "complete" THEN FALSE ELSE rPaused IN
       /\ rPaused' = rp
       /\ reof' = (reof \/ k = "complete")
       /\ pst' = IF k = "complete" THEN "complete"
                 ELSE IF drop THEN "dropped"
                 ELSE pst
       /\ tPaused' = IF ~connected THEN tPaused
                     ELSE IF k = "complete" THEN FALSE
                     ELSE IF FromResume /\ ~rp THEN FALSE      \* BaseProtocol.resume_reading tail
                     ELSE tPaused
    /\ UNCHANGED <<netv, connected, more, tail, eofPending, finSeen, decv, buf, low, high, rexc, conv,
                   owed, afterErr, ret>>

\* HttpParser.feed_data entry: `while start_pos < data_len or self._payload_has_more_data`
Entry ==
    /\ pc = "entry"
    /\ IF pst # "open" \/ (arg.u = <<>> /\ ~arg.fin /\ ~hasMore)
       THEN \* nothing to do (no parser any more / no data and nothing held back)
            /\ pc' = Back /\ arg' = NoPiece
            /\ tPaused' = IF connected /\ FromResume /\ ~rPaused THEN FALSE ELSE tPaused
            /\ UNCHANGED <<pst, pPaused, more, tail, hasMore, finSeen, decv, buf, rPaused, rexc>>
       ELSE IF Mode = "Chunked"
       THEN /\ tail' = tail \o arg.u \o (IF arg.fin THEN <<FIN>> ELSE <<>>)
            /\ pc' = "loop" /\ arg' = NoPiece
            /\ UNCHANGED <<pst, pPaused, more, hasMore, finSeen, decv, buf, rPaused, tPaused, rexc>>
       ELSE \* PARSE_LENGTH / PARSE_UNTIL_EOF: the first payload.feed_data(chunk) is unconditional
            /\ finSeen' = (finSeen \/ arg.fin)
            /\ DoCall(arg.u)
            /\ pc' = IF pst' = "error" THEN Back ELSE "loop"
            /\ arg' = NoPiece
            /\ UNCHANGED <<tail, hasMore>>
    /\ UNCHANGED <<netv, connected, eofPending, low, high, reof, conv, owed, afterErr, ret>>

\* a further decoder call inside the loop
LoopCall ==
    /\ pc = "loop" /\ ~pPaused
    /\ IF Mode = "Chunked"
       THEN \/ /\ more /\ DoCall(<<>>) /\ UNCHANGED tail
            \/ /\ ~more /\ tail # <<>> /\ Head(tail) # FIN
               /\ DoCall(<<Head(tail)>>) /\ tail' = Tail(tail)
       ELSE more /\ DoCall(<<>>) /\ UNCHANGED tail
    /\ pc' = IF pst' = "error" THEN Back ELSE "loop"
    /\ UNCHANGED <<netv, connected, eofPending, hasMore, finSeen, low, high, reof, conv, owed, afterErr,
                   ret, arg>>

HoldsBack == more \/ (Mode = "Chunked" /\ tail # <<>> /\ Head(tail) # FIN)

\* `if self._paused: self._paused = False; ...; return PAYLOAD_HAS_PENDING_INPUT`
LoopPending ==
    /\ pc = "loop" /\ pPaused /\ HoldsBack
    /\ ret # "eof" \/ EofKeepsParser
    /\ Exit("pending", TRUE, FALSE)

\* as coded: feed_eof() returns early ("will resume via feed_data(b'') later"), but
\* ResponseHandler.connection_lost then sets self._parser = None: the held-back output and the
\* end-of-body never reach the reader
Dev_EofDropsParser ==
    /\ ~EofKeepsParser
    /\ pc = "loop" /\ pPaused /\ HoldsBack /\ ret = "eof"
    /\ Exit("pending", TRUE, TRUE)

\* payload.feed_eof(): length reached / terminal chunk / EOF of an until-EOF body
LoopComplete ==
    /\ pc = "loop" /\ ~more
    /\ CASE Mode = "Chunked" -> tail # <<>> /\ Head(tail) = FIN
         [] Mode = "Length" -> finSeen
         [] OTHER -> eofPending
    /\ Exit("complete", TRUE, FALSE)

NothingLeft ==
    /\ pc = "loop" /\ ~more
    /\ CASE Mode = "Chunked" -> tail = <<>>
         [] Mode = "Length" -> ~finSeen
         [] OTHER -> ~eofPending

\* return PAYLOAD_NEEDS_INPUT; a pause request that found nothing to hold back is forgotten
LoopNeedsInput ==
    /\ NothingLeft
    /\ ClearStalePause \/ ~pPaused
    /\ Exit("needs", TRUE, FALSE)

\* as coded: the bottom `return PAYLOAD_NEEDS_INPUT` leaves HttpPayloadParser._paused set
\* (chunked: only when the piece ends exactly at a chunk boundary; mid-chunk it is cleared)
Dev_StalePauseKept ==
    /\ ~ClearStalePause
    /\ NothingLeft /\ pPaused
    /\ \/ Exit("needs", FALSE, FALSE)
       \/ Mode = "Chunked" /\ MidChunkCuts /\ Exit("needs", TRUE, FALSE)

(* ----------------------------------------------------------------- consumer *)
\* the application calls StreamReader.read(n) / readany() (n = INF: one iteration of read(), i.e.
\* set_read_chunk_size(sys.maxsize) + readany());  server: BaseRequest.read() =
\* set_read_chunk_size(client_max_size); loop { chunk = readany(); body += chunk;
\* if len(body) > client_max_size: raise 413; if not chunk: break }
ReadSet == IF Side = "server" THEN {INF} ELSE ReadSizes
ConsumerRead(n) ==
    /\ pc = "idle" /\ cst = "run"
    /\ rexc \/ buf # <<>> \/ reof \/ ~connected            \* otherwise it awaits the waiter
    /\ afterErr' = (afterErr \/ (rexc /\ buf # <<>> /\ ~ErrChecked))
    /\ IF rexc /\ (ErrChecked \/ buf = <<>>)
       THEN \* `if self._exception is not None: raise self._exception` before anything is taken
            /\ cst' = "failed"
            /\ UNCHANGED <<low, high, want, cnt, pc, req>>
       ELSE IF buf = <<>>
       THEN \* StreamReader._wait: `if not self._protocol.connected: raise RuntimeError("Connection closed.")`
            /\ cst' = IF ~reof THEN "closed"
                      ELSE IF Side = "server" /\ acc > ClientMax THEN "413" ELSE "done"
            /\ UNCHANGED <<low, high, want, cnt, pc, req>>
       ELSE \* set_read_chunk_size(m); n = 0 is a line read (readline / readuntil / async for line): it takes
            \* one unit and does not touch the water marks (mutant: raises them to the high-water mark)
            LET m == IF Side = "server" THEN ClientMax
                     ELSE IF n = 0 THEN (IF LineKeepsLimits THEN 0 ELSE high) ELSE n IN
            /\ low' = IF m >= INF THEN INF ELSE Min(INF, Max(low, m))
            /\ high' = IF m >= INF THEN INF ELSE IF m > low THEN Min(INF, 2 * m) ELSE high
            /\ req' = IF Side = "server" THEN Max(req, ClientMax) ELSE IF n = 0 THEN req ELSE Max(req, n)
            /\ want' = IF n = 0 THEN 1 ELSE n
            /\ cnt' = IF n >= INF THEN Len(buf) ELSE 0       \* readany drains only the chunks present now
            /\ pc' = "read"
            /\ cst' = cst
    /\ UNCHANGED <<netv, tPaused, rPaused, connected, parv, decv, buf, reof, rexc, acc, owed, ret, arg>>

\* StreamReader._read_nowait_chunk: take (part of) the first buffered chunk; `size < low` resumes
ReadChunk ==
    /\ pc = "read" /\ buf # <<>> /\ want > 0 /\ (want >= INF => cnt > 0)
    /\ LET k == IF want >= INF THEN Head(buf) ELSE Min(want, Head(buf))
           nb == IF k = Head(buf) THEN Tail(buf) ELSE [buf EXCEPT ![1] = @ - k] IN
       /\ buf' = nb
       /\ want' = IF want >= INF THEN want ELSE want - k
       /\ cnt' = IF want >= INF THEN cnt - 1 ELSE cnt
       /\ owed' = owed - k
       /\ acc' = IF Side = "server" THEN acc + k ELSE acc
       /\ IF Sum(nb) < low
          THEN \* protocol.resume_reading() -> data_received(b"")
               /\ rPaused' = FALSE
               /\ pc' = IF ResumeReenters THEN "entry" ELSE "resumetail"
               /\ ret' = "read" /\ arg' = NoPiece
          ELSE UNCHANGED <<rPaused, pc, ret, arg>>
    /\ UNCHANGED <<netv, tPaused, connected, parv, decv, low, high, reof, rexc, cst, afterErr, req>>

\* the read call returns
ReadDone ==
    /\ pc = "read" /\ (buf = <<>> \/ want = 0 \/ (want >= INF /\ cnt = 0))
    /\ pc' = "idle" /\ want' = 0 /\ cnt' = 0
    /\ cst' = IF Side = "server" /\ CheckEachChunk /\ acc > ClientMax THEN "413" ELSE cst
    /\ UNCHANGED <<netv, tPaused, rPaused, connected, parv, decv, buf, low, high, reof, rexc, acc, owed,
                   afterErr, ret, arg, req>>

\* mutant only (ResumeReenters = FALSE): resume_reading without the data_received(b"") call
ResumeTail ==
    /\ pc = "resumetail"
    /\ pc' = Back
    /\ tPaused' = IF connected /\ ~rPaused THEN FALSE ELSE tPaused
    /\ UNCHANGED <<netv, rPaused, connected, parv, decv, buf, low, high, reof, rexc, conv, owed, afterErr, ret, arg>>

Terminal == cst \in {"done", "failed", "413", "closed"}

\* the exchange is over; keeps TLC's deadlock check meaningful (a state without successor is a hang)
Finished == pc = "idle" /\ Terminal /\ UNCHANGED vars

ParserStep == Entry \/ LoopCall \/ LoopPending \/ LoopComplete \/ LoopNeedsInput \/ Dev_StalePauseKept
              \/ Dev_EofDropsParser \/ ResumeTail
ReaderStep == ReadChunk \/ ReadDone

Next ==
    \/ \E us \in UnitSeqs, fin \in BOOLEAN : NetSend(us, fin)
    \/ NetClose \/ NetDeliver \/ NetEofDeliver
    \/ ParserStep \/ ReaderStep
    \/ \E n \in ReadSet : ConsumerRead(n)
    \/ Finished

Spec == Init /\ [][Next]_vars

\* every party keeps going: the peer eventually finishes the body, the loop runs, the application reads
FairSpec ==
    /\ Spec
    /\ WF_vars(\E us \in UnitSeqs : NetSend(us, TRUE) \/ (Mode = "UntilEOF" /\ NetSend(us, FALSE)))
    /\ WF_vars(NetClose) /\ WF_vars(NetDeliver) /\ WF_vars(NetEofDeliver)
    /\ WF_vars(ParserStep) /\ WF_vars(ReaderStep)
    /\ WF_vars(\E n \in ReadSet : ConsumerRead(n))

(* --------------------------------------------------------------- properties *)
Clean == ~WithCorrupt /\ ~WithTrunc

\* decoded bytes buffered never exceed high water + one call's budget (= 3 * limit while the
\* application has not raised the water marks); identity bodies: high water + one network piece
\* The bound is relative to Lim = max(read_bufsize, largest size the application asked for): water marks
\* that the code raises on its own must not lift it.
Lim == Max(Limit, req)
Resident ==
    req < INF =>
        IF Codec = "identity" THEN size <= 2 * Lim + MaxUnits * Big
        ELSE size <= 3 * Lim

\* a single decoder call never emits more than the budget
OneCallBudget == (Codec # "identity" /\ req < INF) => lastOut <= Lim

\* conservation of units: what the peer sent is delivered, buffered, or still latent in the
\* transport / the parser's held-back tail / the decoder - nothing is dropped
NoInputLost ==
    (~rexc /\ pst # "error") =>
        owed = size + pendOut + SumE(pendIn) + SumE(tail) + Latent(inbox) + SumE(arg.u)

\* after a decoding error the reader carries the error, and no read call that starts afterwards
\* returns data (the call that was draining the buffer when the error was discovered re-entrantly
\* still returns the chunks decoded before it)
ErrorNotData ==
    /\ pst = "error" => rexc
    /\ ~afterErr
ErrStopsFeed == [][rexc => Sum(buf') <= Sum(buf)]_vars

\* the consumer waits on an empty reader, not at EOF, and no other party can move
NetCanMove ==
    \/ netLeft > 0 /\ ~finSent /\ netEof = "no"
    \/ netEof = "no" /\ (Mode = "UntilEOF" \/ finSent \/ WithTrunc)
    \/ connected /\ ~tPaused /\ (inbox # <<>> \/ netEof = "queued")
Stuck == pc = "idle" /\ cst = "run" /\ buf = <<>> /\ ~reof /\ ~rexc /\ connected /\ ~NetCanMove
NoDeadlock == ~Stuck

\* transparency at the level of units: when the application has seen the end of a well-formed body,
\* it has been given every unit the peer sent (nothing is left parked in the decoder or the parser)
EofMeansAllDelivered == (Clean /\ cst = "done") => owed = 0

\* a well-formed body that the peer sent completely is never answered with an error
NoSpuriousFailure == Clean => cst \notin {"failed", "closed"}

\* whenever the parser holds input back, the transport is paused - so neither new data nor EOF can
\* overtake the held-back input (this is what makes the deferred EOF of feed_eof unreachable)
HeldBackImpliesPaused == (pc = "idle" /\ pst = "open" /\ hasMore /\ connected) => tPaused

\* server: BaseRequest.read() never accumulates more than client_max_size + one readany() chunk
MaxSize == Side = "server" => acc <= ClientMax + 3 * Lim
NeverReturnsMore == (Side = "server" /\ cst = "done") => acc <= ClientMax

\* reading always progresses to the end of the body (or to the reported error)
Progress == <>(Terminal)
ReachesEof == (Clean /\ Side = "client") => <>(reof /\ buf = <<>> /\ cst = "done")
=============================================================================
