-------------------------- MODULE UrlDispatchTrace --------------------------
(* Trace validation for C14 (oracle style).  One execution = one route table built into a
   real web.Application (cfg.table, same structure as UrlDispatch entries) followed by
   independent observations of the frozen router:

     ev = "Query"     raw request path (code points, any spelling) + Host header (code points)
                      + method, and what
                      `await app.router.resolve(request)` answered (obs)
     ev = "UrlFor"    entry idx, parameter values vals, the path url_for() produced (raw) and
                      what resolving that path answered (obs)
     ev = "Redirect"  normalize_path_middleware(append_slash=ap, remove_slash=rm,
                      merge_slashes=mg) in front of the table, raw target (with query),
                      observed status and Location

   Observations of one execution are made on the SAME application object, in an order the
   driver varies, some of them twice: the router's answers must not depend on what was
   asked before.

   Every observation is compared with the reference (UrlDispatch!Resolve on Canon(raw)).
   Observations are independent, so a failing one does not end the trace: hard failures
   (property clauses) and named known deviations (Dev_...) are collected with their
   positions; the verdict names the first hard failure, else the first deviation.
   dstat counts the observations on which DomainFirst = TRUE and FALSE differ and which of
   the two the code followed (doc/code discrepancy: reported, never an alarm by itself;
   the driver only requires that the code is consistent with one value).                 *)
EXTENDS UrlDispatch, TraceBatch

VARIABLES tid, l, T, fails, devs, dstat

tvars == <<tid, l, T, fails, devs, dstat>>

EntryOf(j) == [tpl |-> [parts |-> j.tpl.parts, slash |-> j.tpl.slash],
               methods |-> Range(j.methods), app |-> j.app, domain |-> j.domain]
TableOfCfg(c) == [k \in DOMAIN c.table |-> EntryOf(c.table[k])]

ObsRes(o) == [t |-> o.t, i |-> o.i, vars |-> o.vars, allowed |-> Range(o.allowed)]

HasDomain(tb) == \E i \in DOMAIN tb : tb[i].domain # ""
Opt(df, merge, deadq) == [df |-> df, merge |-> merge, deadq |-> deadq, mut |-> ""]

(* how an observation that differs from the reference is named *)
Mismatch(obs, ref) ==
    CASE obs.t = "404" /\ ref.t # "404" -> "NotFoundButResourceMatches"
      [] obs.t = "405" /\ ref.t = "405" -> "NotAllowedSetWrong"
      [] obs.t = "405" /\ ref.t = "match" -> "NotAllowedButRouteServes"
      [] obs.t = "match" /\ ref.t = "match" /\ obs.i # ref.i -> "WrongHandler"
      [] obs.t = "match" /\ ref.t = "match" -> "WrongMatchInfo"
      [] obs.t = "match" -> "MatchedButNoRouteServes"
      [] OTHER -> "ResolveMismatch"

(* the domains of the table (cfg.domains = [[name, code points], ...]) the Host header matches *)
HostsOf(doms, hostcp, p80) == {doms[k][1] : k \in {n \in DOMAIN doms : HostMatches(doms[n][2], hostcp, p80)}}

(* Judge one resolution for a given set of matched domains.  Result [hard, dev, disc, asT, asF]. *)
JudgeHosts(tb, host, path, method, obs) ==
    LET rT == ResolveOpt(Ideal(TRUE), tb, host, path, method)
        rF == IF \E i \in DOMAIN tb : tb[i].domain \in host   \* else both orders agree trivially
              THEN ResolveOpt(Ideal(FALSE), tb, host, path, method) ELSE rT
        disc == ~SameResult(rT, rF)
        okT == SameResult(obs, rT)
        okF == SameResult(obs, rF)
        ref == IF DomainFirst THEN rT ELSE rF
        Explains(m, d) == \E df \in BOOLEAN : SameResult(obs, ResolveOpt(Opt(df, m, d), tb, host, path, method))
    IN IF okT \/ okF
       THEN [hard |-> "", dev |-> "", disc |-> disc, asT |-> disc /\ okT, asF |-> disc /\ okF]
       ELSE [hard |-> IF Explains(FALSE, FALSE) \/ Explains(TRUE, TRUE) \/ Explains(FALSE, TRUE)
                      THEN "" ELSE Mismatch(obs, ref),
             dev |-> IF Explains(TRUE, TRUE) THEN "Dev_QuotedLiteralUnreachable"
                     ELSE IF Explains(FALSE, FALSE) THEN "Dev_SubAppDropsAllowed"
                     ELSE IF Explains(FALSE, TRUE) THEN "Dev_QuotedLiteralUnreachable+Dev_SubAppDropsAllowed"
                     ELSE "",
             disc |-> FALSE, asT |-> FALSE, asF |-> FALSE]

Clean == [hard |-> "", dev |-> "", disc |-> FALSE, asT |-> FALSE, asF |-> FALSE]
Hard(c) == [Clean EXCEPT !.hard = c]

(* hostcp: the Host header.  An explicit ":80" against a port-less rule may match or not
   (both permitted): the observation is accepted if it agrees with either reading.        *)
JudgeResolve(tb, doms, hostcp, path, method, obs) ==
    LET hs == HostsOf(doms, hostcp, FALSE)
        hl == HostsOf(doms, hostcp, TRUE)
        j1 == JudgeHosts(tb, hs, path, method, obs)
    IN IF hl = hs \/ (j1.hard = "" /\ j1.dev = "") THEN j1
       ELSE LET j2 == JudgeHosts(tb, hl, path, method, obs) IN
            IF j2.hard = "" /\ j2.dev = "" THEN j2 ELSE j1

JudgeQuery(tb, doms, e) == JudgeResolve(tb, doms, e.host, Canon(e.raw), e.method, ObsRes(e.obs))

(* url_for(vals) must spell a path the template matches with exactly vals (UrlForEncoding),
   and resolving it must give the values back (UrlForInverse) whenever the rule says the
   entry itself serves that path.                                                        *)
JudgeUrlFor(tb, doms, e) ==
    LET path == Canon(e.raw)
        m == MatchEntry(tb[e.idx], path)
        obs == ObsRes(e.obs)
        j == JudgeResolve(tb, doms, e.host, path, e.method, obs)
        ref == ResolveOpt(Ideal(DomainFirst), tb, HostsOf(doms, e.host, FALSE), path, e.method)
    IN IF e.raw = <<>> \/ e.raw[1] # 47 THEN Hard("UrlForEncoding")
       ELSE IF \E k \in DOMAIN e.raw : e.raw[k] <= 32 \/ e.raw[k] >= 127   \* not a request-target
            THEN (IF NeedsQuoteSegs(Flat(tb[e.idx].app))
                  THEN [Clean EXCEPT !.dev = "Dev_UrlForUnquotedSubAppPrefix"]
                  ELSE Hard("UrlForNotEncoded"))
       ELSE IF ~(m.ok /\ VarSet(m.vars) = VarSet(e.vals)) THEN Hard("UrlForEncoding")
       ELSE IF j.hard # "" \/ j.dev # "" THEN j
       ELSE IF ref.t = "match" /\ ref.i = e.idx
                 /\ ~(obs.t = "match" /\ obs.i = e.idx /\ VarSet(obs.vars) = VarSet(e.vals))
            THEN Hard("UrlForInverse")
       ELSE j

(* normalising redirects: never off-site, only to a path that resolves, only when the
   request itself did not resolve, query string kept.  Only RedirectOffSite is the listed
   property; the other clauses are sanity conditions on the same observations.           *)
JudgeRedirect(tb, doms, e) ==
    LET hs == HostsOf(doms, e.host, FALSE)
        Res(p) == ResolveOpt(Ideal(DomainFirst), tb, hs, p, e.method)
        orig == Res(Canon(PathOnly(e.raw)))
        lp == PathOnly(e.loc)
    IN IF e.status >= 500 THEN Hard("MiddlewareRaised")
       ELSE IF ~e.hasloc THEN
            (IF orig.t = "match" /\ e.status # 200 THEN Hard("ResolvableButNotServed") ELSE Clean)
       ELSE IF ~OnSite(e.loc) THEN Hard("RedirectOffSite")
       ELSE IF orig.t = "match" THEN Hard("RedirectOfResolvablePath")
       ELSE IF Res(Canon(lp)).t # "match" THEN Hard("RedirectTargetUnresolved")
       ELSE IF DecodeSeg(Drop(e.loc, Len(lp))) # DecodeSeg(Drop(e.raw, Len(PathOnly(e.raw))))
            THEN Hard("RedirectQueryLost")     \* same query up to percent-spelling (yarl re-spells it)
       ELSE Clean

Judge(tb, doms, e) ==
    CASE e.ev = "Query" -> JudgeQuery(tb, doms, e)
      [] e.ev = "UrlFor" -> JudgeUrlFor(tb, doms, e)
      [] e.ev = "Redirect" -> JudgeRedirect(tb, doms, e)
      [] OTHER -> Hard("UnknownEvent")

Note(list, pos, name) == IF name # "" /\ Len(list) < 4 THEN Append(list, <<pos, name>>) ELSE list
Clause(f, d) == IF f # <<>> THEN f[1][2] ELSE IF d # <<>> THEN d[1][2] ELSE ""

TInit ==
    /\ tid \in 1..NTraces
    /\ l = 0
    /\ T = TableOfCfg(Cfg(tid))
    /\ fails = IF ValidTable(T) THEN <<>> ELSE << <<0, "InvalidTable">> >>
    /\ devs = <<>>
    /\ dstat = <<0, 0, 0>>
    /\ Verdict(tid, 0, Clause(fails, <<>>), <<fails, <<>>, <<0, 0, 0>>>>)

TNext ==
    /\ l < NEvents(tid)
    /\ LET j == Judge(T, Cfg(tid).domains, Events(tid)[l + 1])
           f2 == Note(fails, l + 1, j.hard)
           d2 == Note(devs, l + 1, j.dev)
           s2 == <<dstat[1] + (IF j.disc THEN 1 ELSE 0),
                   dstat[2] + (IF j.asT THEN 1 ELSE 0),
                   dstat[3] + (IF j.asF THEN 1 ELSE 0)>>
       IN /\ l' = l + 1
          /\ fails' = f2
          /\ devs' = d2
          /\ dstat' = s2
          /\ UNCHANGED <<tid, T>>
          /\ Verdict(tid, l + 1, Clause(f2, d2), <<f2, d2, s2>>)

TSpec == TInit /\ [][TNext]_tvars
=============================================================================
