----------------------------- MODULE WsFramesMC -----------------------------
(* Bounded model for the WsFrames reference reader (C12).

   The environment appends frames taken from a lexeme alphabet (every header
   defect, every length encoding, masked / unmasked, fragments, control frames
   with each defect, toy-compressed messages) to the byte stream and delivers the
   stream to the reader in arbitrary chunks (chunks may span frame boundaries:
   up to PendMax unfed bytes may precede a newly appended frame).  There is no
   bound on the number of frames: the state is finite because the reader forgets
   completed frames (the stream is re-based at every frame boundary).

   Checked in every reachable state / on every transition:
     DeliveredIsPrefixOfValid  what the byte-level reader makes observable equals,
                        frame by frame, what an independent FRAME-level rule table
                        (AbsFrame, stated over frame attributes, not bytes) expects,
                        up to and including the first violation
     FailLatch          after a violation nothing is consumed or delivered, the
                        failure never goes away
     FailCodes          the close codes of the violation equal the table's
     CutInvariance      feeding a chunk == feeding the same bytes one at a time
     RetainedBound      bytes retained for an incomplete frame/message
                        <= max_msg_size + 14 + 125  (when max_msg_size > 0)
   `last` carries the stimulus so behaviours can be replayed into the real reader. *)
EXTENDS WsFrames

CONSTANTS MaxMsg,        \* max_msg_size: 0 (unlimited) or 4
          Compress,      \* permessage-deflate negotiated
          Decode,        \* decode_text
          PendMax,       \* unfed bytes that may precede an appended frame
          ExpMax,        \* frames appended and not yet seen by the reader
          AccMax,        \* no further frame once this many bytes of a message are assembled (MaxMsg = 0)
          Alphabet       \* "full" | "small"

VARIABLES S, avail, r, a, exp, rej, ok, last

vars == <<S, avail, r, a, exp, rej, ok, last>>

C == [compress |-> Compress, decode |-> Decode, max |-> MaxMsg]

Key == <<55, 250, 33, 61>>

(* ---------------------------------------------------------------- lexemes --- *)
F(fin, rsv, op, enc, mask, pl) ==
    [fin |-> fin, rsv |-> rsv, op |-> op, enc |-> enc, mask |-> mask, pl |-> pl, lk |-> "exact", dl |-> 0]
FD(fin, rsv, op, enc, mask, pl, lk, dl) ==
    [fin |-> fin, rsv |-> rsv, op |-> op, enc |-> enc, mask |-> mask, pl |-> pl, lk |-> lk, dl |-> dl]

T == TRUE
N == FALSE
ab == <<97, 98>>

Core ==
    { F(T, 0, 1, 7, N, ab),                 \* text "ab"
      F(T, 0, 2, 7, T, ab),                 \* binary masked
      F(T, 0, 1, 7, N, <<97, 98, 99, 100>>),          \* exactly max_msg_size = 4
      F(T, 0, 2, 7, T, <<97, 98, 99, 100, 101>>),     \* above it
      F(N, 0, 1, 7, N, ab),                 \* first fragment
      F(N, 0, 1, 7, T, <<>>),               \* empty first fragment
      F(N, 0, 0, 7, N, <<97>>),             \* middle fragment
      F(T, 0, 0, 7, T, <<98>>),             \* last fragment
      F(T, 0, 0, 7, N, <<>>),               \* empty last fragment
      F(T, 0, 0, 7, N, <<98, 99, 100>>),    \* last fragment that may exceed the cap
      F(T, 0, 9, 7, N, <<112>>),            \* ping
      F(T, 0, 10, 7, T, <<>>),              \* pong
      F(T, 0, 8, 7, N, <<>>),               \* close, no payload
      F(T, 0, 8, 7, T, <<3, 232, 111, 107>>) }        \* close 1000 "ok"

Defects ==
    { F(T, 2, 1, 7, N, ab),                 \* RSV2
      F(T, 1, 9, 7, N, <<>>),               \* RSV3 on a ping
      F(T, 4, 9, 7, N, <<>>),               \* RSV1 on a control frame
      F(T, 4, 0, 7, N, <<98>>),             \* RSV1 on a continuation
      F(T, 0, 3, 7, N, ab),                 \* reserved data opcode
      F(T, 0, 11, 7, N, <<>>),              \* reserved control opcode
      F(N, 0, 9, 7, N, <<>>),               \* fragmented ping
      FD(T, 0, 9, 16, N, <<>>, "decl", 126),           \* control frame longer than 125
      F(T, 0, 8, 7, N, <<3>>),              \* close with a 1-byte payload
      F(T, 0, 8, 7, N, <<3, 237>>),         \* close 1005
      F(T, 0, 8, 7, T, <<3, 238>>),         \* close 1006
      F(T, 0, 8, 7, N, <<3, 232, 255>>),    \* close 1000, reason not UTF-8
      F(T, 0, 8, 7, N, <<11, 184>>),        \* close 3000 (valid)
      F(T, 0, 1, 7, N, <<195>>),            \* text, truncated UTF-8
      F(T, 0, 1, 7, T, <<195, 169>>),       \* text "e-acute"
      F(N, 0, 1, 7, N, <<195>>),            \* UTF-8 sequence split over fragments
      F(T, 0, 0, 7, N, <<169>>),
      F(N, 0, 2, 7, N, <<97>>) }            \* non-final binary (interleaving when inside a message)

Lengths ==
    { F(T, 0, 2, 16, N, ab),                \* non-minimal 16-bit length (readers accept it)
      F(T, 0, 2, 64, T, ab),                \* non-minimal 64-bit length
      F(N, 0, 0, 16, T, <<97>>),
      FD(T, 0, 2, 64, N, <<1>>, "top", 0),  \* 64-bit length with the top bit set
      FD(T, 0, 2, 64, T, <<1>>, "huge", 0), \* 2^32
      FD(T, 0, 9, 64, N, <<>>, "huge", 0) } \* control frame announcing 2^32 bytes

Deflated ==                                  \* toy codec, see ModelInfl
    { F(T, 4, 1, 7, N, <<3>>),              \* -> "aaa"
      F(T, 4, 2, 7, T, <<9>>),              \* -> 9 bytes (bomb w.r.t. cap 4)
      F(T, 4, 2, 7, N, <<4>>),              \* -> exactly 4 bytes
      F(T, 4, 2, 7, N, <<255>>),            \* inflate error
      F(T, 4, 1, 7, N, <<2, 255>>),         \* -> text that is not UTF-8
      F(N, 4, 1, 7, N, <<2>>),              \* compressed message in two fragments
      F(T, 4, 2, 7, N, <<9, 9, 9, 9, 9>>) } \* wire length above the cap

Span ==                                      \* for chunks that span frame boundaries
    { F(T, 0, 1, 7, N, ab), F(T, 0, 2, 7, T, ab), F(N, 0, 1, 7, N, ab), F(T, 0, 0, 7, T, <<98>>),
      F(T, 0, 9, 7, N, <<112>>), F(T, 0, 8, 7, T, <<3, 232, 111, 107>>), F(N, 0, 0, 16, T, <<97>>),
      F(T, 2, 1, 7, N, ab), F(T, 0, 2, 7, T, <<97, 98, 99, 100, 101>>), F(T, 4, 1, 7, N, <<3>>) }

Lexemes == IF Alphabet = "full" THEN Core \cup Defects \cup Lengths \cup Deflated
           ELSE IF Alphabet = "span" THEN Span
           ELSE IF Alphabet = "small" THEN Core
           ELSE Core \cup Defects

DeclLen(f) == IF f.lk = "exact" THEN Len(f.pl) ELSE IF f.lk = "decl" THEN f.dl ELSE Big

(* writer-side framing, RFC 6455 5.2 *)
Encode(f) ==
    LET n == IF f.lk = "exact" THEN Len(f.pl) ELSE f.dl
        b1 == (IF f.fin THEN 128 ELSE 0) + f.rsv * 16 + f.op
        l7 == IF f.enc = 7 THEN n ELSE IF f.enc = 16 THEN 126 ELSE 127
        b2 == (IF f.mask THEN 128 ELSE 0) + l7
        ext == IF f.enc = 7 THEN <<>>
               ELSE IF f.enc = 16 THEN <<n \div 256, n % 256>>
               ELSE IF f.lk = "top" THEN <<128, 0, 0, 0, 0, 0, 0, 1>>
               ELSE IF f.lk = "huge" THEN <<0, 0, 0, 1, 0, 0, 0, 0>>
               ELSE <<0, 0, 0, 0, 0, 0, n \div 256, n % 256>>
        body == IF f.mask THEN Key \o Unmask(f.pl, Key) ELSE f.pl
    IN <<b1, b2>> \o ext \o body

(* toy inflater: first byte = output length (255 = corrupt stream), second = fill byte *)
ModelInfl(k, full) ==
    LET n == IF full = <<>> THEN 0 ELSE full[1]
        fill == IF Len(full) >= 2 THEN full[2] ELSE 97
        out == [i \in 1..(IF n = 255 THEN 0 ELSE n) |-> fill]
    IN [has |-> TRUE, inp |-> full \o DeflateTail, ok |-> n # 255, outlen |-> Len(out),
        utf8 |-> Utf8Valid(out), out |-> out, full |-> TRUE]

RECURSIVE Quiesce(_, _, _, _, _)
Quiesce(rr, SS, av, rj, outs) ==
    IF ~CanStep(rr, av) THEN [r |-> rr, outs |-> outs]
    ELSE One({Quiesce(st.r, SS, av, rj,
                      IF st.out.k \in {"msg", "fail", "frame", "badinfl", "noinfl", "truncinfl"}
                      THEN Append(outs, st.out) ELSE outs) : st \in {Step(rr, SS, av, C, ModelInfl, rj)}})

RECURSIVE ByteWise(_, _, _, _, _, _)
ByteWise(rr, SS, from, to, rj, outs) ==
    IF from >= to THEN [r |-> rr, outs |-> outs]
    ELSE One({ByteWise(q.r, SS, from + 1, to, rj, q.outs) : q \in {Quiesce(rr, SS, from + 1, rj, outs)}})

(* ------------------------------------------------ frame-level rule table ------ *)
(* Independent statement of RFC 6455 5.2/5.4/5.5/5.6/7.4 and RFC 7692 6.1/7.2 over
   frame attributes.  a = [inMsg, op, comp, acc, dead, codes].                      *)
A0 == [inMsg |-> FALSE, op |-> 0, comp |-> FALSE, acc |-> <<>>, dead |-> FALSE, codes |-> {}]

AbsFrame(st, f, rj) ==
    LET ctl == f.op >= 8
        data == f.op < 8
        rsv1 == f.rsv \div 4 = 1
        n == DeclLen(f)
        hdrBad == \/ f.rsv % 4 # 0
                  \/ (rsv1 /\ ~Compress)
                  \/ f.op \notin {0, 1, 2, 8, 9, 10}
                  \/ (ctl /\ ~f.fin)
                  \/ (ctl /\ n > 125)
                  \/ (ctl /\ rsv1)
                  \/ (f.op = 0 /\ rsv1)
                  \/ (f.op = 0 /\ ~st.inMsg)
                  \/ (f.op \in {1, 2} /\ st.inMsg)
        accLen == IF data /\ st.inMsg THEN Len(st.acc) ELSE 0
        total == IF n = Big THEN Big ELSE accLen + n
        over == data /\ MaxMsg > 0 /\ total > MaxMsg
        atcap == data /\ MaxMsg > 0 /\ total >= MaxMsg
        die(codes) == [a |-> [st EXCEPT !.dead = TRUE, !.codes = codes], out |-> FailOut]
    IN
    IF st.dead THEN [a |-> st, out |-> NoneOut]
    ELSE IF hdrBad THEN die({1002} \cup (IF atcap \/ f.lk = "top" THEN {1009} ELSE {}))
    ELSE IF f.lk = "top" THEN die({1002, 1009})
    ELSE IF over \/ (atcap /\ rj) THEN die({1009})
    ELSE IF f.op \in {9, 10} THEN [a |-> st, out |-> MsgOut(f.op, f.pl, 0)]
    ELSE IF f.op = 8 THEN
        IF f.pl = <<>> THEN [a |-> st, out |-> MsgOut(8, <<>>, 0)]
        ELSE IF Len(f.pl) = 1 THEN die({1002})
        ELSE LET code == f.pl[1] * 256 + f.pl[2]
                 reason == SubSeq(f.pl, 3, Len(f.pl))
                 cok == code \in (1000..1003) \cup (1007..1014) \cup (3000..4999)
             IN IF ~cok THEN die(IF Utf8Valid(reason) THEN {1002} ELSE {1002, 1007})
                ELSE IF ~Utf8Valid(reason) THEN die({1007})
                ELSE [a |-> st, out |-> MsgOut(8, reason, code)]
    ELSE
        LET first == f.op # 0
            mop == IF first THEN f.op ELSE st.op
            mcomp == IF first THEN rsv1 ELSE st.comp
            full == IF first THEN f.pl ELSE st.acc \o f.pl
        IN IF ~f.fin THEN [a |-> [st EXCEPT !.inMsg = TRUE, !.op = mop, !.comp = mcomp, !.acc = full],
                           out |-> FrameOut]
           ELSE LET idle == [st EXCEPT !.inMsg = FALSE, !.acc = <<>>, !.comp = FALSE]
                    payload == IF mcomp THEN ModelInfl(0, full).out ELSE full
                    iok == ~mcomp \/ ModelInfl(0, full).ok
                IN IF ~iok THEN die({NoCode, 1002, 1007, 1009})
                   ELSE IF mcomp /\ MaxMsg > 0 /\ Len(payload) > MaxMsg THEN die({1009})
                   ELSE IF mcomp /\ MaxMsg > 0 /\ Len(payload) = MaxMsg /\ rj THEN die({1009})
                   ELSE IF mop = 1 /\ Decode /\ ~Utf8Valid(payload) THEN die({1007})
                   ELSE [a |-> idle, out |-> MsgOut(mop, payload, 0)]

(* ------------------------------------------------------------------ model ----- *)
Init ==
    /\ S = <<>> /\ avail = 0 /\ r = Init0 /\ a = A0 /\ exp = <<>>
    /\ rej \in BOOLEAN
    /\ ok = ""
    /\ last = [ev |-> "init", bytes |-> <<>>, n |-> 0]

AppendFrame(f) ==
    /\ ok = ""
    /\ Len(S) - avail <= PendMax
    /\ Len(exp) < ExpMax
    /\ ~(r.ph = "P" /\ r.need = Big /\ avail > r.pos + 4)   \* a frame announcing 2^32 bytes never ends
    /\ Len(S) <= 60
    /\ Len(a.acc) <= AccMax
    /\ ~(a.dead /\ Len(S) - avail > 0)          \* after the violation: one more frame at a time
    /\ LET x == AbsFrame(a, f, rej)
       IN /\ a' = x.a
          /\ exp' = IF a.dead THEN exp ELSE Append(exp, x.out)
          /\ S' = S \o Encode(f)
          /\ last' = [ev |-> "frame", bytes |-> Encode(f), n |-> 0]
    /\ UNCHANGED <<avail, r, rej, ok>>

Drop(q, k) == SubSeq(q, k + 1, Len(q))

\* at a frame boundary the reader has forgotten the frame: only message assembly survives
Norm(rr) == [rr EXCEPT !.pos = 0, !.hstart = 0, !.fin = FALSE, !.rsv1 = FALSE, !.op = 0, !.masked = FALSE,
                       !.enc = 7, !.need = 0, !.key = <<0, 0, 0, 0>>, !.nframes = 0, !.ninfl = 0]

RECURSIVE Match(_, _)
Match(outs, ex) ==      \* "" if outs is a prefix-wise match of the expectations, else what differs
    IF outs = <<>> THEN ""
    ELSE IF ex = <<>> THEN "unexpected-output"
    ELSE IF Head(outs).k # Head(ex).k THEN "kind:" \o Head(outs).k \o "/" \o Head(ex).k
    ELSE IF Head(outs).k = "msg" /\ Head(outs).m # Head(ex).m THEN "message-differs"
    ELSE Match(Tail(outs), Tail(ex))

Feed(n) ==
    /\ ok = ""
    /\ avail + n <= Len(S)
    /\ \E q \in {Quiesce(r, S, avail + n, rej, <<>>)} :
       \E b \in {ByteWise(r, S, avail, avail + n, rej, <<>>)} :
       LET m == Match(q.outs, exp)
           latch == Failed(r) /\ (q.outs # <<>> \/ ~Failed(q.r) \/ ~(r.failed \subseteq q.r.failed))
           dead == q.r.ph = "F"
       IN /\ ok' = IF q.r # b.r \/ q.outs # b.outs THEN "CutInvariance"
                   ELSE IF latch THEN "FailLatch"
                   ELSE IF m # "" THEN "DeliveredIsPrefixOfValid:" \o m
                   ELSE ""
          /\ exp' = Drop(exp, Len(q.outs))
          /\ IF dead THEN /\ S' = <<>> /\ avail' = 0
                          /\ r' = [Norm(q.r) EXCEPT !.fend = 0]
             ELSE IF Failed(q.r) THEN /\ S' = S /\ avail' = avail + n         \* doomed frame: length still unknown
                                      /\ r' = [q.r EXCEPT !.nframes = 0, !.ninfl = 0]
             ELSE IF q.r.ph = "H" THEN /\ S' = Drop(S, q.r.pos) /\ avail' = avail + n - q.r.pos
                                       /\ r' = Norm(q.r)
             ELSE \* inside a frame: forget everything before its first byte
                  /\ S' = Drop(S, q.r.hstart) /\ avail' = avail + n - q.r.hstart
                  /\ r' = [q.r EXCEPT !.pos = q.r.pos - q.r.hstart, !.hstart = 0, !.nframes = 0, !.ninfl = 0]
          /\ last' = [ev |-> "feed", bytes |-> SubSeq(S, avail + 1, avail + n), n |-> n]
    /\ UNCHANGED <<a, rej>>

Next == (\E f \in Lexemes : AppendFrame(f)) \/ (\E n \in 1..24 : Feed(n))

Spec == Init /\ [][Next]_vars

MutNoCap == "nocap"
MutNoLatch == "nolatch"
MutNoContCheck == "nocont"

(* ---------------------------------------------------------------- invariants -- *)
InvSelf == ok = ""            \* DeliveredIsPrefixOfValid, FailLatch, CutInvariance (named in `ok`)
InvFailCodes == (r.ph = "F" /\ a.dead /\ exp = <<>>) => r.failed = a.codes
InvDeadAgree == (r.ph = "F" /\ exp = <<>>) => a.dead
InvRetained == MaxMsg > 0 => Retained(r, avail) <= MaxMsg + 14 + 125
InvType == r.pos <= avail /\ avail <= Len(S) /\ ~CanStep(r, avail)
InvAssembly == (~Failed(r) /\ exp = <<>>) =>
                   (r.inMsg = a.inMsg /\ (r.inMsg => (r.msgAcc = a.acc /\ r.msgOp = a.op /\ r.msgComp = a.comp)))
View == <<S, avail, r, a, exp, rej, ok>>
=============================================================================
