--------------------------- MODULE ServerConnTrace ---------------------------
(* C05 - observational property monitor over executions recorded from a real
   aiohttp RequestHandler (engine/srvkit.py, props/C05.py).

   Nothing here reads a private attribute.  What the harness supplies per execution:

   cfg.items   ground truth about the byte stream the peer sent, in order:
               [k, id, start, hend, end, term, sp]   sp = "" | "upgrade" | "connect";  k in "req" | "bad" | "junk" | "poisonP" | "poisonF"
               start/hend/end = byte offsets (head end, item end); id = position (also sent as X-Id);
               term = nothing after this item has to be answered (Connection: close, HTTP/1.0
               without keep-alive, CONNECT, malformed / hostile member)
   cfg.qlim    the byte offset up to which the stream is a clean pipeline of plain requests
               (queue clauses are stated on that prefix only)
   cfg.alim    the byte offset up to which the segmentation was aligned with the items (see Entries)
   cfg.cap     MAX_MSG_QUEUE_SIZE of the connection;  cfg.slack = 1 when tasks start lazily
   cfg.resps   the bytes written by the server split by an independent minimal response framer:
               [start, hend, end, complete, status, minor, sl, cl, te, close, id, fr, chunks,
                bodylen, garbage, att, dat]    id = echoed X-Id (0 = none), att = id of the handler
               entered last when the first byte was written (0 = none / error entry), dat = bytes
               handed to data_received by then
   cfg.escs    loop exception-handler calls: [at, msg, exc, dr]
   event.o     after every stimulus / loop handle:  w (bytes written), d (bytes handed to
               data_received), closed (transport closing), lost, paused (transport reading
               paused), idle (no ready handle), hrun (handlers entered and not exited),
               hin (handler entries), esc (exception-handler calls so far), wp (the harness has
               paused the protocol's writing: a finished handler may be parked in drain())
               An interim (1xx) response is written before the scripted handler is entered, so its
               att may still name the previous request: interim/final pairs are only required to be
               non-decreasing, final/final pairs strictly increasing.

   Clauses (first failing one is the verdict):
     WireGarbage WireContiguous StatusLine Framing          the wire is a sequence of well-formed responses
     InOrderOnce ResponseOwner ResponseAfterError           <= 1 final response per request, in request order
     BadGets4xxAndClose                                     unparsable input: 4xx, then closed, nothing else; also: the
                                                            server itself closed (o.pd = the harness did not disconnect)
                                                            on reaching fully delivered unparsable input, without a 4xx
     NoOrphan                                               open + idle + next request fully delivered + no handler
     NoEscape                                               loop exception handler called / exception left data_received
     QueueBound Backpressure PausedNobodyHome               bounded queue (requests AND 400 placeholders); pause is
                                                            applied and never stranded
     RunawayExecution                                       the server exceeded the harness budget (bytes written,
                                                            handler entries, loop steps): e.g. answers in a loop
     ResponseTruncatedOpen
   Named deviations (own clause names so that a known finding matches nothing else):
     NoEscape_PoisonTarget     exception out of data_received while a request whose target makes
                               yarl raise ValueError was being parsed
     NoOrphan_PoisonTarget     request accepted by the parser whose URL makes BaseRequest()
                               raise inside start(): never answered, connection left open
     StartCrash_PoisonTarget   the same, seen as "Task exception was never retrieved"
     NoOrphan_UpgradeBodyAfterResponse   an upgrade request with a body was answered (declined) before its body
                               was complete; the deferred upgrade takes effect afterwards and is never undone:
                               later requests are buffered, never answered
     InOrderOnce_HTTPExceptionAfterOutput   a handler that had already started its response (prepare() /
                               write()) raised an HTTPException: the exception's response is written behind
                               the started one (a status line inside the chunked body), connection kept alive
     CloseDelimitedKeptOpen    a close-delimited response was written and the connection stays open
                               (C02's subject: HTTP/1.0 keep-alive + unsized StreamResponse; the C05
                               drivers do not generate it)                                         *)
EXTENDS Naturals, Sequences, FiniteSets, TLC, TraceBatch

VARIABLES tid, l, prev, bad

tvars == <<tid, l, prev, bad>>

Digit(b) == b >= 48 /\ b <= 57
HTTP1 == <<72, 84, 84, 80, 47, 49, 46>>            \* "HTTP/1."

RECURSIVE SumSeq(_, _)
SumSeq(s, i) == IF i > Len(s) THEN 0 ELSE s[i] + SumSeq(s, i + 1)

HexLen(n) == IF n < 16 THEN 1 ELSE IF n < 256 THEN 2 ELSE IF n < 4096 THEN 3 ELSE IF n < 65536 THEN 4
             ELSE IF n < 1048576 THEN 5 ELSE 6
RECURSIVE ChunkWire(_, _)
ChunkWire(s, i) == IF i > Len(s) THEN 0 ELSE HexLen(s[i]) + 2 + s[i] + 2 + ChunkWire(s, i + 1)

Final(r) == r.status >= 200
IdOf(r) == IF r.id > 0 THEN r.id ELSE r.att
Closing(r) == r.close \/ (r.minor = 0 /\ ~r.ka)      \* the response announces that the connection ends
Bodiless(r) == r.status < 200 \/ r.status = 204 \/ r.status = 304

StatusLineOk(r) ==
    LET s == r.sl IN
    /\ Len(s) >= 12
    /\ \A i \in 1..7 : s[i] = HTTP1[i]
    /\ s[8] \in {48, 49} /\ s[8] - 48 = r.minor
    /\ s[9] = 32
    /\ Digit(s[10]) /\ Digit(s[11]) /\ Digit(s[12])
    /\ (s[10] - 48) * 100 + (s[11] - 48) * 10 + (s[12] - 48) = r.status
    /\ (Len(s) > 12 => s[13] = 32)
    /\ r.status >= 100 /\ r.status <= 599

FramingOk(r) ==
    /\ r.hend > r.start
    /\ r.complete =>
         CASE r.fr = "none"    -> r.end = r.hend      \* 1xx/204/304, HEAD
           [] r.fr = "cl"      -> ~Bodiless(r) /\ ~r.te /\ r.cl >= 0 /\ r.end = r.hend + r.cl
           [] r.fr = "chunked" -> ~Bodiless(r) /\ r.te /\ r.minor = 1
                                  /\ r.end = r.hend + ChunkWire(r.chunks, 1) + 5
           [] r.fr = "close"   -> ~Bodiless(r) /\ ~r.te /\ r.cl < 0
           [] r.fr = "tunnel"  -> r.status >= 200 /\ r.status < 300      \* 2xx to CONNECT: the rest is tunnel data
           [] OTHER -> FALSE

(* ---- static clauses over the split wire *)
WireClause(c) ==
    LET R == c.resps
        n == Len(R)
    IN
    IF \E k \in 1..n : R[k].garbage /\ R[k].hxw THEN "InOrderOnce_HTTPExceptionAfterOutput"
    ELSE IF \E k \in 1..n : R[k].garbage THEN "WireGarbage"
    ELSE IF n > 0 /\ R[1].start # 0 THEN "WireContiguous"
    ELSE IF \E k \in 1..n : k < n /\ (R[k + 1].start # R[k].end \/ ~R[k].complete) THEN "WireContiguous"
    ELSE IF n > 0 /\ R[n].end # c.wlen THEN "WireContiguous"
    ELSE IF n = 0 /\ c.wlen # 0 THEN "WireGarbage"
    ELSE IF \E k \in 1..n : R[k].hend > 0 /\ ~StatusLineOk(R[k]) THEN "StatusLine"
    ELSE IF \E k \in 1..n : R[k].hend > 0 /\ ~FramingOk(R[k]) THEN "Framing"
    ELSE IF \E k \in 1..n : R[k].id > 0 /\ R[k].att > 0 /\ R[k].id # R[k].att THEN "ResponseOwner"
    ELSE IF \E k \in 1..n : IdOf(R[k]) > Len(c.items) THEN "ResponseOwner"
    ELSE IF \E k \in 1..n : k < n /\ IdOf(R[k]) > 0 /\ IdOf(R[k + 1]) > 0 /\
               (IF Final(R[k]) /\ Final(R[k + 1]) THEN IdOf(R[k + 1]) <= IdOf(R[k]) ELSE IdOf(R[k + 1]) < IdOf(R[k]))
         THEN "InOrderOnce"
    ELSE IF \E k \in 1..n : Final(R[k]) /\ IdOf(R[k]) > 0 /\
               c.items[IdOf(R[k])].k \in {"bad", "junk"} /\ ~(R[k].status >= 400 /\ R[k].status <= 499)
         THEN "BadGets4xxAndClose"
    ELSE IF \E k \in 1..n : Final(R[k]) /\ IdOf(R[k]) = 0 /\ ~(R[k].status >= 400 /\ R[k].status <= 499)
         THEN "BadGets4xxAndClose"
    ELSE IF \E k \in 1..n : k < n /\ Final(R[k]) /\ IdOf(R[k]) = 0 THEN "ResponseAfterError"
    ELSE ""

(* ---- what has been answered when w bytes are on the wire *)
RECURSIVE LastFinal(_, _, _)
LastFinal(R, w, k) ==       \* index of the last final response completely written, 0 if none
    IF k = 0 THEN 0
    ELSE IF Final(R[k]) /\ R[k].complete /\ R[k].end <= w THEN k ELSE LastFinal(R, w, k - 1)

RECURSIVE LastIdFrom(_, _)
LastIdFrom(R, k) == IF k = 0 THEN 0 ELSE IF IdOf(R[k]) > 0 THEN IdOf(R[k]) ELSE LastIdFrom(R, k - 1)

RECURSIVE NextItem(_, _)
NextItem(items, i) ==       \* first item after position i - 1 that is not junk; 0 if none
    IF i > Len(items) THEN 0 ELSE IF items[i].k # "junk" THEN i ELSE NextItem(items, i + 1)

RECURSIVE TermBefore(_, _)
TermBefore(items, i) ==     \* some item at a position < i ends the obligations
    IF i <= 1 THEN FALSE ELSE items[i - 1].term \/ TermBefore(items, i - 1)

RECURSIVE HeadsIn(_, _, _, _)
HeadsIn(items, d, qlim, i) ==   \* request heads completely handed to data_received (clean prefix)
    IF i > Len(items) \/ items[i].hend > d \/ items[i].hend > qlim THEN 0
    ELSE 1 + HeadsIn(items, d, qlim, i + 1)

\* o.nh / o.ni are HeadsIn / ItemsIn evaluated by the harness (same definition; kept here as reference)
Unhandled(c, o) == LET h == o.nh IN IF h > o.hin THEN h - o.hin ELSE 0

\* aligned segmentation (every segment = whole items or a single piece; a malformed member is alone in
\* its segment): every complete non-junk item handed to data_received is exactly one queue entry
\* (a parsed request or the 400 placeholder of a malformed one) until start() takes it off the queue
\* (o.pop = request objects built so far) - ALL entries count, not only well-formed requests
RECURSIVE ItemsIn(_, _, _, _)
ItemsIn(items, d, alim, i) ==
    IF i > Len(items) \/ items[i].end > d \/ items[i].end > alim THEN 0
    ELSE (IF items[i].k = "junk" THEN 0 ELSE 1) + ItemsIn(items, d, alim, i + 1)
Entries(c, o) == LET h == o.ni
                 IN IF h > o.pop THEN h - o.pop ELSE 0

PoisonIn(items, k, lo, hi) == \E i \in 1..Len(items) : items[i].k = k /\ items[i].hend > lo /\ items[i].start < hi

EscClause(c, p, o) ==
    LET x == c.escs[p.esc + 1] IN
    IF x.dr /\ x.exc = "ValueError" /\ PoisonIn(c.items, "poisonP", p.d, o.d) THEN "NoEscape_PoisonTarget"
    ELSE IF ~x.dr /\ x.exc = "ValueError" /\ PoisonIn(c.items, "poisonF", 0, o.d + 1) THEN "StartCrash_PoisonTarget"
    ELSE "NoEscape"

Clause(p, e, c) ==
    LET o == e.o
        R == c.resps
        lf == LastFinal(R, o.w, Len(R))
        errDone == lf > 0 /\ IdOf(R[lf]) = 0
        lastId == LastIdFrom(R, lf)
        nx == NextItem(c.items, lastId + 1)
        quiet == o.idle /\ ~o.closed /\ o.hrun = 0 /\ ~o.wp
        \* the last answered request is an upgrade request with a body whose response was started
        \* before the body had been delivered completely (named deviation)
        lateUp == lf > 0 /\ lastId > 0 /\ c.items[lastId].sp = "upgrade"
                  /\ c.items[lastId].end > c.items[lastId].hend /\ R[lf].dat < c.items[lastId].end
        delivered == o.d > p.d
    IN
    IF o.bud THEN "RunawayExecution"
    ELSE IF o.esc > p.esc THEN EscClause(c, p, o)
    ELSE IF delivered /\ p.d < c.qlim /\ Unhandled(c, p) > c.cap - 1 + c.slack THEN "QueueBound"
    ELSE IF ~o.closed /\ o.d <= c.qlim /\ Unhandled(c, o) >= c.cap + c.slack /\ ~o.paused THEN "Backpressure"
    ELSE IF delivered /\ p.d < c.alim /\ Entries(c, p) > c.cap - 1 THEN "QueueBound"
    ELSE IF ~o.closed /\ o.d <= c.alim /\ Entries(c, o) >= c.cap /\ ~o.paused THEN "Backpressure"
    ELSE IF quiet /\ lf > 0 /\ R[lf].fr = "close" THEN "CloseDelimitedKeptOpen"
    ELSE IF quiet /\ errDone THEN "BadGets4xxAndClose"
    ELSE IF quiet /\ ~errDone /\ nx > 0 /\ ~TermBefore(c.items, nx) /\ c.items[nx].end <= o.d THEN
         (CASE lateUp -> "NoOrphan_UpgradeBodyAfterResponse"
            [] c.items[nx].k = "req" -> "NoOrphan"
            [] c.items[nx].k = "bad" -> "BadGets4xxAndClose"
            [] c.items[nx].k = "poisonF" -> "NoOrphan_PoisonTarget"
            [] c.items[nx].k = "poisonP" -> "BadGets4xxAndClose_PoisonTarget"
            [] OTHER -> "NoOrphan")
    ELSE IF quiet /\ o.paused THEN (IF lateUp THEN "NoOrphan_UpgradeBodyAfterResponse" ELSE "PausedNobodyHome")
    ELSE IF e.ev = "end" /\ o.closed /\ ~o.pd /\ ~o.bud /\ o.hrun = 0 /\ ~errDone /\ nx > 0
            /\ ~TermBefore(c.items, nx) /\ c.items[nx].k \in {"bad", "poisonP", "poisonF"} /\ c.items[nx].end <= o.d
            /\ (lf = 0 \/ ~Closing(R[lf])) /\ (Len(R) = 0 \/ R[Len(R)].complete)
         THEN "BadGets4xxAndClose"      \* the server closed on unparsable input without answering it
    ELSE IF quiet /\ o.w = c.wlen /\ Len(R) > 0 /\ ~R[Len(R)].complete /\ e.ev = "end" THEN "ResponseTruncatedOpen"
    ELSE ""

TInit ==
    /\ tid \in 1..NTraces
    /\ l = 0
    /\ prev = [w |-> 0, d |-> 0, closed |-> FALSE, lost |-> FALSE, paused |-> FALSE, idle |-> TRUE,
               hrun |-> 0, hin |-> 0, hin0 |-> 0, esc |-> 0, wp |-> FALSE, bud |-> FALSE, pop |-> 0, pd |-> FALSE, nh |-> 0, ni |-> 0]
    /\ bad = WireClause(Cfg(tid))
    /\ Verdict(tid, 0, bad, <<>>)

TNext ==
    /\ bad = ""
    /\ l < NEvents(tid)
    /\ LET e == Events(tid)[l + 1]
           b == Clause(prev, e, Cfg(tid))
           l2 == IF b = "" THEN l + 1 ELSE l
       IN /\ bad' = b
          /\ l' = l2
          /\ prev' = e.o
          /\ UNCHANGED tid
          /\ Verdict(tid, l2, b, <<>>)

TSpec == TInit /\ [][TNext]_tvars
=============================================================================
