SPECIFICATION TSpec
POSTCONDITION PrintVerdicts
CHECK_DEADLOCK FALSE
