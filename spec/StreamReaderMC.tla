--------------------------- MODULE StreamReaderMC ---------------------------
(* Bounded model of StreamReader: every interleaving of producer stimuli and
   consumer calls over a small alphabet.  `last` carries the event (with the
   reference's own result) so behaviours can be replayed into the real class. *)
EXTENDS StreamReader

CONSTANTS Limit, MaxFed, WithUnread, WithChunks

VARIABLES s, last, selfok

vars == <<s, last, selfok>>

Feeds == {<<>>, <<97>>, <<10>>, <<97, 98>>, <<97, 10, 99>>, <<97, 98, 99, 100, 10>>}
Calls == {[op |-> "read", n |-> 1], [op |-> "read", n |-> 2], [op |-> "read", n |-> 5],
          [op |-> "readany", n |-> 0], [op |-> "readall", n |-> 0],
          [op |-> "readexactly", n |-> 3], [op |-> "readuntil", n |-> 0],
          [op |-> "readuntil", n |-> 2], [op |-> "readchunk", n |-> 0]}

Blank == [ev |-> "", data |-> <<>>, rdata |-> <<>>, rflag |-> FALSE, rerr |-> "", n |-> 0, op |-> "", then |-> "none", via |-> "direct"]

Stimuli ==
    {[Blank EXCEPT !.ev = "feed", !.data = d] : d \in Feeds}
      \cup {[Blank EXCEPT !.ev = x] : x \in {"eof", "setexc"}}
      \cup (IF WithChunks THEN {[Blank EXCEPT !.ev = x] : x \in {"begin", "end", "endexc"}} ELSE {})
      \cup (IF WithUnread THEN {[Blank EXCEPT !.ev = "unread", !.data = <<120>>]} ELSE {})
      \cup {[Blank EXCEPT !.ev = "call", !.op = c.op, !.n = c.n] : c \in Calls}

BlankEv == [Blank EXCEPT !.ev = "init"]

Init == s = Init0(Limit) /\ last = BlankEv /\ selfok = TRUE

Stimulate(e) ==
    /\ ~s.desync            \* the reference judges nothing after a LineTooLong error
    /\ Legal(s, e)
    /\ e.ev = "feed" => s.fed + Len(e.data) <= MaxFed
    /\ e.ev = "unread" => Len(s.pend) < MaxFed /\ s.cursor > 0
    /\ e.ev \in {"end", "endexc"} => Cardinality(s.ends) < 4
    /\ LET s1 == Stim(s, e)
           pr == Progress(s1)
           full == IF pr.r.done
                   THEN [e EXCEPT !.then = "ret", !.rdata = pr.r.data, !.rflag = pr.r.flag, !.rerr = pr.r.err]
                   ELSE IF s1.op # "none" THEN [e EXCEPT !.then = "block"] ELSE e
           a == Apply(s, full)
       IN /\ s' = pr.s
          /\ last' = full
          /\ selfok' = (a.bad = "" /\ a.drift = "" /\ a.s = pr.s)

NoWait(n) ==
    /\ ~s.desync
    /\ s.op = "none"
    /\ LET avail == Len(s.pend)
           kk == IF n < 0 THEN avail ELSE Min(n, avail)
           e == [Blank EXCEPT !.ev = "nowait", !.n = n,
                            !.rdata = IF s.exc THEN <<>> ELSE Take(s.pend, kk),
                            !.rerr = IF s.exc THEN "exc" ELSE ""]
           a == Apply(s, e)
       IN /\ s' = a.s /\ last' = e /\ selfok' = (a.bad = "" /\ a.drift = "")

Next == (\E e \in Stimuli : Stimulate(e))
        \/ (\E n \in {-1, 2} : NoWait(n))

Spec == Init /\ [][Next]_vars

InvSize == WithUnread \/ SizeInv(s)
InvPieces == PiecesInv(s)
InvBounds == BoundsInv(s)
InvNoStuckPause == NoStuckPause(s)
InvPauseAboveHigh == s.unread \/ PauseAboveHigh(s)
InvBlocked == BlockedOnlyWhenEmpty(s)
InvSelf == selfok = TRUE
View == <<s>>
=============================================================================
