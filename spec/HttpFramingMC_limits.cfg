SPECIFICATION Spec
CONSTANTS
  Mode = "request"
  Lax = FALSE
  MaxLine = 30
  MaxField = 28
  MaxHeaders = 3
  UntilEof = FALSE
  WithBody = TRUE
  LexIds = {1, 16, 17, 24, 31, 40, 42, 47, 50, 51, 52, 53, 54, 55, 56, 57, 58, 59}
  CutMode = FALSE
  MaxLex = 0
  MaxMsgs = 1
  MaxLines = 5
  MaxChunks = 1
  MaxPending = 60
  Mutant = ""
INVARIANT InvPartition
INVARIANT InvNoBodyWithoutFraming
INVARIANT InvOverLimitRejects
INVARIANT InvPendingBound
INVARIANT InvUnambiguous
INVARIANT InvHost
INVARIANT InvCut
PROPERTY RejectIsFinal
VIEW View
CHECK_DEADLOCK FALSE
