SPECIFICATION SpecB
CONSTANTS
  MaxOps = 5
  MaxSize = 2
  Lengths = {0, 1, 3}
  MutB = ""
INVARIANT InvHdrOnceFirst
INVARIANT InvChunkedDecodes
INVARIANT InvLengthRespected
INVARIANT InvCompressComplete
INVARIANT InvEofFramed
INVARIANT InvDeclaredEqualsActual
INVARIANT InvNoEmptyChunk
VIEW ViewB
CHECK_DEADLOCK FALSE
