SPECIFICATION SpecB
CONSTANTS
  MaxOps = 6
  MaxSize = 1
  Lengths = {0, 1, 2}
  MutB = ""
INVARIANT InvHdrOnceFirst
INVARIANT InvChunkedDecodes
INVARIANT InvLengthRespected
INVARIANT InvCompressComplete
INVARIANT InvEofFramed
INVARIANT InvDeclaredEqualsActual
INVARIANT InvNoEmptyChunk
VIEW ViewB
CHECK_DEADLOCK FALSE
