#!/usr/bin/env python3
"""Regenerate MANIFEST.json from the table below (single source of truth)."""
import json, os
HERE = os.path.dirname(os.path.abspath(__file__))
PROPS = [json.loads(l)["id"] for l in open(os.path.join(HERE, "properties.jsonl"))]

TRUST = ("TLC 1.8 + CommunityModules; CPython 3.12 asyncio semantics under the deterministic stepping loop "
         "(pure-Python Task/Future); in-memory transports honour the asyncio.Transport contract; pure-Python "
         "aiohttp code paths only (no C extensions are built in this tree)")

CHECKS = {
 "C01": dict(
   technique="RFC 9112 reference reader in TLA+ (HttpFraming.tla) model-checked exhaustively over a lexeme alphabet; TLC-simulated "
             "lexeme paths plus grammar-generated, mutated and random byte streams are fed to the real HttpRequestParser and "
             "RequestHandler, and every recorded execution is judged against the reference by TLC trace validation "
             "(HttpFramingTrace.tla)",
   text="Bounded exhaustive model checking of the reference's internal invariants (every consumed byte belongs to exactly one "
        "message, no body without framing, never both Content-Length and Transfer-Encoding, Host on every HTTP/1.1 request, "
        "reject is final) plus conformance: for each stream the parser's verdict, message boundaries, method/target/version/"
        "fields, body bytes and chunk boundaries, and the server connection's dispatched requests and its one-4xx-and-close "
        "behaviour must equal the strict reading; TLC decides.",
   design_ref="DESIGN.md §4 C01",
   note="the reference is a reading of RFC 9112 / 9110 section 5 (target checked at byte-class level plus authority syntax, not "
        "full RFC 3986); permitted alternatives (method case, TE gzip,chunked per THREAT_MODEL 1.8, other HTTP versions, obs-text "
        "in target) are listed in the evidence; segmentations and positions sampled in quick, exhaustive per stream in thorough; "
        "pure-Python parser only; " + TRUST),
 "C02": dict(
   technique="Exhaustive TLC enumeration of the implementation-shaped framing / keep-alive decision tables of both ends "
             "(WireDecision.tla) against the RFC 9112 section 6.3 body-length oracle, bound to the code by TLC trace validation "
             "(WireDecisionTrace.tla) of end-to-end executions (real ClientSession <-> segmenting relay <-> real "
             "RequestHandler/web.Application) of the same input combinations",
   text="All 15,552 response-side and 384 request-side combinations are enumerated by TLC (FramingTruthful, ReceiverFollowsRfc, "
        "CloseAgree, NoHang; ideal and as-coded configurations, each remaining deviation exhibited separately); the same "
        "combinations (pairwise cover in quick, all in thorough) are executed end to end under several segmentations and every "
        "execution is judged in TLA+: request as issued vs as seen by the handler, response as returned vs as seen by the caller, "
        "wire framing vs the oracle, both ends' persistence decision, nobody left waiting.",
   design_ref="DESIGN.md §4 C02",
   note="sizes symbolic in the model; secondary dimensions (URL shape, header sets, cookies, sizes around 2 KiB / 64 KiB, reason) "
        "randomised; in-memory transports with FINs delivered at loop idle (a legal schedule used as observation device); body "
        "digests CRC-32 after a one-shot zlib decode by the harness (brotli/zstd not exercised); independent wire splitter whose "
        "arithmetic is re-checked in TLA+; " + TRUST),
 "C03": dict(
   technique="Segmentation-free TLA+ reference (HttpFraming.tla) whose cut-invariance is model-checked over every read pattern of "
             "short lexeme streams; each stream's real parser/connection runs under whole, every single cut, byte-at-a-time, "
             "random and all-pairs segmentations x 6 limit configs are merged losslessly into distinct outcomes, which TLC judges "
             "against the reference and against each other (HttpFramingTrace.tla GroupClause)",
   text="Exhaustive check that the reference outcome is a function of the bytes read (InvCut, up to 4-lexeme streams, reads of "
        "1/2/3/all) plus conformance: all observed segmentations of a stream yield the same verdict, messages, bodies and chunk "
        "boundaries, and match the reference, for request and response parsers and for server and client connections "
        "(quick: 387,744 runs in 2,443 groups).",
   design_ref="DESIGN.md §4 C03",
   note="single cuts exhaustive per stream, pairs only in thorough for <= 90 B; early or late notice of a rejection allowed "
        "(pending header block, one read of slack); the consumer drains payloads after every read; response parser in lax mode; " + TRUST),
 "C04": dict(
   technique="TLC exhaustively checks an explicit TLA+ model of the header-serialisation rule and of all StreamWriter call sequences "
             "(HttpWriter.tla); the same TLA+ clause functions then judge, via an independent in-TLA+ CRLF splitter and chunk "
             "decoder, every recorded execution of the real aiohttp serialisation paths and writer (HttpWriterTrace.tla)",
   text="Bounded exhaustive model checking (class strings of length <= 3 over 13 classes x 13 positions; writer call sequences of "
        "depth <= 6) plus conformance by trace validation: 32 public positions, every code point below 0x800 in every position "
        "(all 0x110000 in the raw positions in thorough), ~2.7k call sequences (transition cover + simulated + random) on the real "
        "StreamWriter and ~1.4k complete messages over 13 payload kinds; CR/LF anywhere forces refusal with zero bytes written, "
        "emitted bytes must split into exactly the supplied lines, chunked wire must decode to exactly the written data, declared "
        "lengths must equal the bytes written.",
   design_ref="DESIGN.md §4 C04",
   note="yarl trusted for the request-target; harness inflates compressed bodies (zlib) and TLA+ compares; Python upper/lower for "
        "method and charset; only the pure-Python _py_serialize_headers is bound; multipart/FormData codec correctness is C19; " + TRUST),
 "C05": dict(
   technique="Implementation-shaped TLA+ model of one RequestHandler connection (ServerConn.tla) checked exhaustively by TLC over "
             "all segmentations, handler behaviours, disconnect points, write pauses and timers for small constants; TLC-simulated "
             "behaviours replayed into the real web.Server/RequestHandler one ready handle at a time; all recorded executions "
             "(replays + seeded random pipelines around the real queue cap with hostile members) judged by the TLC trace monitor "
             "ServerConnTrace.tla on observables only",
   text="Bounded exhaustive model checking of the connection protocol (in-order single responses, queue bound, 4xx-and-close for "
        "unparsable input, no orphaned request, no escaped exception, pause coherence, no stranded tail) plus two-way conformance: "
        "model behaviours are forced on the real code handle by handle with the projected state compared after every handle, and "
        "every real execution is validated by TLC against an observational monitor of the same properties, including response "
        "framing re-checked in TLA+.",
   design_ref="DESIGN.md §4 C05",
   note="cap 2 / resume 1 and bodies <= 2 units in the model (the real 32/16 cap is exercised by the sampled random driver); one "
        "connection; scripted handlers; handler_cancellation=False; upgrades declined; HTTP/1.0 keep-alive with an unsized "
        "StreamResponse is left to C02; no access log, no TLS; the wire is split by srvkit's framer and re-checked in TLA+; "
        "SrvTransport emulates asyncio's fatal-error-on-data_received contract; " + TRUST),
 "C06": dict(
   technique="Implementation-shaped TLA+ model of one pooled client connection with an adversarial peer (ClientConn.tla) checked "
             "exhaustively by TLC; every edge of its state graph (transition cover from TLC's graph dump) plus simulated "
             "behaviours replayed into a real ClientSession against a scripted in-memory peer; all recorded executions "
             "(replays + random histories) judged by the TLC trace monitor ClientConnTrace.tla (epoch-stamped bytes, markers)",
   text="Exhaustive bounded model checking of the reuse protocol (NoMix, RightMessage, NoReuseAfterDirty) and conformance of "
        "the real client stack: each response carries a unique marker, each fed chunk the epoch in which it arrived; TLC "
        "validates for every execution that a response is built only from bytes of its own exchange and that a connection "
        "that saw idle/surplus data, an unread/truncated body, peer close, cancel, timeout, error or upgrade is never handed out again.",
   design_ref="DESIGN.md §4 C06",
   note="connector is a BaseConnector subclass on in-memory transports (no TLS/proxy/socket layer); arrival = data_received call; "
        "bytes reaching a fresh connection after it was handed to its first request count as inside that exchange; " + TRUST),
 "C07": dict(
   technique="Implementation-shaped TLA+ model of BaseConnector (ClientPool.tla) checked exhaustively by TLC over all "
             "interleavings of 3-4 callers/2 endpoints with cancels, failures, peer closes and close(); TLC-simulated "
             "behaviours replayed handle-by-handle into the real BaseConnector; all recorded executions (replays + random "
             "schedules incl. connect timeouts) judged by the TLC trace monitor ClientPoolTrace.tla",
   text="Exhaustive bounded model checking of the pool protocol (limits, accounting, no lost wake-up, no leak, close fails "
        "all waiters) plus two-way conformance: model behaviours are forced on the real connector one ready handle at a "
        "time with the projected state compared after every action, and every real execution is validated by TLC against "
        "an observational monitor of the same properties.",
   design_ref="DESIGN.md §4 C07",
   note="connection attempts succeed/fail when the harness says so; observations are taken from outside the connector; "
        "connect() on an already closed connector and TraceConfig awaits are outside the model; " + TRUST),
 "C08": dict(
   technique="TLA+ reference machine (StreamReader.tla) model-checked with TLC over all producer/consumer interleavings; "
             "TLC-simulated behaviours replayed into the real StreamReader and recorded executions (replays + random) "
             "validated against the spec by TLC trace validation",
   text="Bounded exhaustive model checking of the reader's flow-control design (no stuck pause, pause above high water, "
        "bookkeeping invariants) plus conformance: every recorded execution of the real class must be accepted by the "
        "reference machine, which checks byte-exact ordered delivery, EOF ordering, chunk boundaries and pause/resume "
        "after every event.",
   design_ref="DESIGN.md §4 C08",
   note="limit >= 1; single consumer; bytes compared exactly in TLA+ (small alphabets, pieces <= ~200 bytes); " + TRUST),
 "C15": dict(
   technique="TLC decides every recorded request/response pair of a real add_static() RequestHandler (raw request bytes on an "
             "in-memory transport) against two explicit TLA+ reference machines (StaticServe.tla: tree/symlink confinement "
             "and RFC 9110 range/conditional arithmetic) whose request spaces TLC also enumerates exhaustively while "
             "checking the references' own sanity invariants",
   text="Exhaustive bounded reference models (983,672 traversal targets x options; 19,696 range/conditional requests) plus "
        "conformance of the implementation on the complete (thorough) or stratified-sampled (quick) request space; the "
        "confinement oracle is one-sided (nothing outside the root is ever served or listed) and also fixes the positive "
        "outcome for canonical spellings; range results must be one of the RFC-permitted outcomes and internally consistent.",
   design_ref="DESIGN.md §4 C15",
   note="fixed 15-node tree, 22 segment spellings x <= 4 segments, file sizes 0..4 and the listed header value classes; POSIX "
        "only; no stat/open races; bodies via the loop.sendfile fallback or the NOSENDFILE path, never kernel sendfile; one "
        "request per connection; pathlib/the kernel are ground truth for what a path resolves to; " + TRUST),
 "C20": dict(
   technique="Exhaustive TLC model checking of two implementation-shaped TLA+ models (AppLifecycle.tla: all fault masks x entry "
             "points; ServerShutdown.tla: all placements of the shutdown moment over connection phases under virtual time); "
             "every initial state replayed into the real Application/AppRunner/run_app and AppRunner/Server/RequestHandler "
             "(plus seeded random placements) and every recorded execution judged by the TLC trace monitors "
             "AppLifecycleTrace.tla / ServerShutdownTrace.tla",
   text="The life-cycle and shutdown designs satisfy all C20 clauses (ExactlyOnceIffStarted, ReverseOrder, ErrorsSurface; "
        "NoNewRequests, IdleClosedAtOnce, GraceRespected, CancelledBy2T, AllClosedAtReturn) for every bounded fault mask, entry "
        "point and placement; all 2,688 / 1,764 model initial states (quick) and 1,500 random placements are executed on the "
        "real code and validated by TLC; the six deviations found on the original tree were repaired and are re-detected if they return.",
   design_ref="DESIGN.md §4 C20",
   note="app tree = root + one sub-app with two contexts each, <= 1 (quick) / 2 (thorough) failing start-up steps; GracefulExit "
        "raised by a loop callback (no OS signals, no gunicorn); part B on in-memory transports with a recording BaseSite, scripted "
        "handler durations, T=2 virtual ticks (random driver up to T=6); eager task start not reproduced by the stepping loop; " + TRUST),
 "C09": dict(
   technique="Explicit-state model checking with TLC of an implementation-shaped TLA+ model of the transport / parser / decoder / "
             "reader flow-control protocol (BodyFlow.tla: all interleavings for small constants, safety, deadlock, liveness under "
             "weak fairness), bound to the code by replaying TLC behaviours (transition cover + simulated) into the real pipeline "
             "and by TLC trace validation (BodyFlowTrace.tla) of every recorded execution against an observational monitor",
   text="Exhaustive for the bounded model (<= 4 pieces, expansions {0,1,6}, limit in {1,2}, reads {1,3,all}; Length / Chunked / "
        "UntilEOF x zlib-like / zstd-like / identity; client and server): Resident (decoded bytes buffered <= 3 x limit), "
        "OneCallBudget, NoInputLost, ErrorNotData, NoDeadlock, MaxSize, progress to EOF; plus conformance of the real code on "
        "~1.1k (quick) / ~10k (thorough) recorded executions over a payload corpus (bombs, members, truncations, bit flips) x "
        "framings x segmentations x consumer schedules x buffer sizes, each judged clause by clause in TLC.",
   design_ref="DESIGN.md §4 C09",
   note="zlib, brotli and zstd are trusted (reference = their one-shot decode, CRC digests); Brotli's output limit is soft (bound "
        "2 x limit + 32 KiB per call); decode calls observed through a harness-side wrapper; read()/read(-1) lift the memory bound "
        "by design; codec abstract in the model, zstd block buffering and the reader's chunk-count water mark not modelled; " + TRUST),
 "C10": dict(
   technique="TLA+ reference with limit constants (HttpFraming.tla) model-checked over limit-1/0/+1 lexemes; real parser and "
             "server/client connection runs on limit families, hostile targets, mutations and random bytes are instrumented with a "
             "sys.monitoring line-event counter scoped to http_parser.py; totality, must-reject, retention and linear-work clauses "
             "are judged by TLC trace validation (HttpFramingTrace.tla)",
   text="Exhaustive bounded check that over-limit constructs end rejected and that the reader never waits on more than limit+1 "
        "unterminated bytes; conformance: only HttpProcessingError subclasses leave feed_data/feed_eof (400 + close on the server, "
        "client error + close on the client); over-limit lines and counts are rejected in every syntactic position; retained bytes "
        "<= limits + one read; Python-level work per call and per run stays within linear bounds.",
   design_ref="DESIGN.md §4 C10",
   note="work counts Python line events only (constants fitted x4 on the unchanged tree; never wall clock); retention read from "
        "private buffers (skipped if they disappear); one read of slack for an unterminated line; header count may be enforced 3 "
        "lines early; " + TRUST),
 "C11": dict(
   technique="Implementation-shaped TLA+ model of concurrent senders through WebSocketWriter (WsSend.tla) checked exhaustively by "
             "TLC; TLC schedules and seeded random schedules executed on the real writer -> reader pipe under the stepping loop "
             "and every execution judged by TLC (WsSendTrace.tla), the wire bytes parsed by the WsFrames reference",
   text="Exhaustive bounded model checking of lock / shield / executor / cancel / override interleavings (context order, "
        "cancellation atomicity, decode, exactly-once, order, close) plus conformance: real executions must deliver identical "
        "payloads exactly once and in per-sender order in every segmentation, with reference-valid framing (minimal length, mask "
        "bit, RSV1, deflate tail) at payload sizes around 125/126/65535/65536 and the 16 KiB executor threshold.",
   design_ref="DESIGN.md §4 C11",
   note="zlib trusted; payload equality byte-exact <= 256 bytes, length + SHA-1 above; the executor runs inline on a later loop "
        "step; model steps match real handles only approximately (affects schedule coverage, never verdicts); " + TRUST),
 "C12": dict(
   technique="TLA+ reference machine of an RFC 6455 / 7692 frame reader (WsFrames.tla) model-checked exhaustively by TLC against "
             "an independent frame-level rule table, with executions of the real WebSocketReader in grouped segmentations "
             "validated by TLC trace validation (WsFramesTrace.tla)",
   text="Bounded exhaustive model checking of the reference reader (agreement with a frame-level rule table, fail latch, cut "
        "invariance, retained-bytes bound) plus conformance: every recorded feed_data call of the real reader must match the "
        "reference's delivered messages, close code, latch, memory bound and segmentation independence (82 violation classes "
        "injected at frame positions; whole / every single cut / byte-wise / random / pairs of cuts).",
   design_ref="DESIGN.md §4 C12",
   note="inflate uninterpreted (results logged by a wrapper class in the harness); size equality permits either outcome; detection "
        "allowed between the earliest point and the frame end; masking direction and minimal length not enforced (THREAT_MODEL); "
        "pure-Python reader only; " + TRUST),
 "C13": dict(
   technique="Explicit-state model checking with TLC of an implementation-shaped TLA+ model of both WebSocket session classes "
             "(WsSession.tla) over all interleavings of tasks, peer frames, timers, cancellation and connection loss, bound to the "
             "code by replaying every edge of the model's state graph into the real WebSocketResponse / ClientWebSocketResponse "
             "and by TLC-judged trace validation (WsSessionTrace.tla) of all recorded executions",
   text="Exhaustive for the bounded configurations (1 receiver, 1 closer, optional sender; <= 3 peer frames, <= 1 drop, <= 1 cancel, "
        "virtual time): OneCloseFrame, NoDataAfterClose, ClosedClosesTransport, CloseCodeRule, ReceiveNotStuck, CloserNotStuck, "
        "CloseBounded, CloseWaitResolved; plus conformance over 7.6k (quick) / 76k (thorough) recorded executions of the real "
        "classes (transition cover, simulated, random schedules incl. heartbeat, autoclose/autoping off, receive timeouts).",
   design_ref="DESIGN.md §4 C13",
   note="no compression or write back-pressure in the model; time is virtual and advances only when the loop is idle; "
        "CloseCodeRule judged permissively on observables; independent frame codec in engine/wskit.py; " + TRUST),
 "C14": dict(
   technique="TLC model-checks the documented lookup rule as a structural TLA+ reference machine (UrlDispatch.tla) exhaustively over "
             "small route tables, and decides, as an oracle trace specification (UrlDispatchTrace.tla), every observation recorded "
             "from the real UrlDispatcher, url_for and normalize_path_middleware for the same TLC-enumerated (table, query) states "
             "plus odd spellings",
   text="Reference invariants (FixedBeatsVariable, LongestKeyFirst, RegistrationOrderAmongEqualKeys, NotAllowedIsComplete, "
        "Deterministic) exhaustive for all tables of <= 2 entries (<= 3 over the core grammar) x all model queries; conformance of "
        "the code decided by TLC on a stratified sample of those states (quick) or all 2-entry states (thorough) plus "
        "percent-encoding/odd-spelling, url_for round-trip and redirect drivers.",
   design_ref="DESIGN.md §4 C14",
   note="paths of <= 3-4 segments over {a, b, ab, 1, ''}; methods GET/POST (+HEAD for static); regexes other than [^{}/]+, \\d+, .* "
        "and custom rules/Views not modelled; sub-app take-over read from the add_subapp documentation; domain sub-apps consulted "
        "first (doc/code discrepancy, reported not alarmed); harness uses make_mocked_request / the real HttpRequestParser and "
        "private app._handle; " + TRUST),
 "C16": dict(
   technique="RFC 6265 reference store in TLA+ (CookieStore.tla) whose scoping invariants TLC checks exhaustively on a restricted "
             "host/path lattice and by simulation on the full one; TLC-simulated and seeded random histories are replayed into a "
             "real CookieJar / ClientSession and TLC trace validation (CookieStoreTrace.tla) decides, after every action, all 60 "
             "filter_cookies answers against the reference, naming the violated rule and which modelled deviation, if any, explains it",
   text="Bounded exhaustive model checking of the reference store's own properties (no cross-site read/write, no expired or "
        "insecure send, path scoping, save/load identity) plus conformance of the real jar: every recorded execution must give, for "
        "every host x path x scheme after every action, exactly the cookies the RFC 6265 reference attaches; leaks and under-sends "
        "are separate named clauses.",
   design_ref="DESIGN.md §4 C16",
   note="lattice of 6 hosts, 5 paths, 2 names; histories of <= ~12 actions; expiry is `expiry <= now` on a patched clock; documented "
        "aiohttp constants (no cookies for IP hosts unless unsafe, no public-suffix list, trailing-dot Domain = host-only, shared "
        "('','') bucket excluded); one cookie per name returned, ordering not judged; well-formed Set-Cookie spelling variants only; "
        "yarl and http.cookies are black boxes; " + TRUST),
 "C17": dict(
   technique="An explicit TLA+ reference machine of the redirect loop (Redirects.tla) is model-checked by TLC (exhaustive for chains "
             "<= 2, exhaustive for the cookie slice, -simulate for chains <= 3); every TLC behaviour (simulated and "
             "transition-covering) plus seeded random longer chains is executed against a real ClientSession on in-memory "
             "transports and the recorded per-origin requests, outcome, history and connector residue are decided by TLC against "
             "the reference (RedirectsTrace.tla)",
   text="Bounded exhaustive check of the reference (NoCredentialOffOrigin, CredentialKept, Terminates, HistoryOrdered, "
        "MethodBodyTable) with reference-equality trace validation of the implementation: which origin received which method, "
        "body, Authorization / Cookie / Proxy-Authorization, how many requests were made, how the call ended, history order and "
        "released connections.",
   design_ref="DESIGN.md §4 C17",
   note="origins are in-memory peers behind a BaseConnector subclass (no DNS/TLS/proxies; https differs from http in the "
        "connection key, URL and cookie handling only); trust_env/netrc/middlewares at defaults; yarl decides which Locations are "
        "malformed; 301/302+POST->GET taken as the documented table; jar matching is a small RFC 6265 subset; chains of up to 9 "
        "requests over 3-4 origins; " + TRUST),
 "C19": dict(
   technique="TLA+ reference boundary scanner and writer/size model (Multipart.tla) whose windowed byte-level machine TLC checks "
             "exhaustively against the declarative definition for all contents over {CR, LF, '-', b, x} and all cuts; every "
             "execution of the real MultipartWriter, FormData, MultipartReader, BodyPartReader and BaseRequest.post - on "
             "TLC-classified adversarial contents, mutated bodies and limit cases, under enumerated segmentations and read APIs - "
             "is judged by TLC trace validation (MultipartTrace.tla)",
   text="Bounded exhaustive model checking of the scanner design (round trip, size rule, window sufficiency under every "
        "segmentation, termination) plus conformance: for every recorded session TLC compares the real reader's parts, headers, "
        "names and content byte for byte with the reference parse of the bytes the real writer produced, checks declared size = "
        "bytes written, bounded awaits and loop iterations on arbitrary mutated input, and header / size limits enforced within a "
        "bounded number of bytes fed.",
   design_ref="DESIGN.md §4 C19",
   note="round-trip equality only for contents honouring the RFC 2046 composer obligation or read by Content-Length; transfer "
        "encodings inverted by the stdlib in the harness (chunk-wise decode claimed for base64 and quoted-printable only); runs of a "
        "non-structural byte are run-length encoded identically on both sides; work counted as awaits and loop back-edges via "
        "sys.monitoring against calibrated linear bounds, never wall clock; request.post() on a mocked Request over a real "
        "StreamReader; " + TRUST),
 "C18": dict(
   technique="Explicit-state model checking with TLC of an implementation-shaped TLA+ model (ClientTimeouts.tla), bound to the code "
             "by replaying every scripted TLC scenario (stall point x timeout kind x cancel point) and random schedules into the "
             "real ClientSession / TCPConnector under a virtual-time stepping loop and validating every recorded execution against "
             "the TLA+ trace specification (ClientTimeoutsTrace.tla)",
   text="Exhaustive for small constants (victim + bystander, pool limit 1-2, one caller cancel, delays in half-seconds): Bounded "
        "(total / connect / sock_connect / sock_read incl. the documented ceiling), TimeoutClass, CancelPropagates, NoResidue, "
        "BystanderUnharmed, SessionUsable; all 795 scripted scenarios (3,800 replays) plus random fault schedules are executed on "
        "the real client stack and judged by TLC.",
   design_ref="DESIGN.md §4 C18",
   note="resolver, sockets and transports below TCPConnector are replaced by stallable in-memory fakes (engine/tcpkit.py); one "
        "resolved address; TLS, proxies, happy-eyeballs, redirects and traces not driven; WebSocket close timeout is C13; the "
        "harness attributes transports, tasks and timers to the victim; " + TRUST),
}

NA_REASON = "check not built yet (in progress)"

def main():
    checks = []
    for pid in PROPS:
        if pid not in CHECKS:
            continue
        c = CHECKS[pid]
        checks.append({
            "property_id": pid,
            "quick_cmd": f"./check {pid} --tier quick",
            "thorough_cmd": f"./check {pid} --tier thorough",
            "evidence_file": f"/verif/evidence/{pid}.json",
            "replay_cmd_template": f"./check {pid} --replay {{path}}",
            "engine": "tlc+steploop",
            "level_claimed": {"category": "model_checking", "text": c["text"], "design_ref": c["design_ref"]},
            "level_note": c["note"],
            "technique": c["technique"],
        })
    m = {
        "version": 1,
        "setup_cmd": "./check --setup",
        "hooks": {"guard": "AIOHTTP_VERIF",
                  "enable": "no source hooks: checks import /repo's working tree (pure Python, PYTHONPATH=/repo) and observe from the harness process",
                  "baseline_off_cmd": "cd /repo && /venv/bin/python -m pytest -ra -q -p no:cacheprovider --timeout=900 --continue-on-collection-errors",
                  "source_commits": [], "add_only": True},
        "engines": [
            {"name": "tlc+steploop", "path": "/verif/engine", "serves_properties": sorted(CHECKS),
             "kind_free_text": "TLA+ specs in /verif/spec checked by TLC (exhaustive + simulate); behaviours replayed into real aiohttp objects under a deterministic virtual-time asyncio loop; recorded executions validated by TLC trace specs in batches"}],
        "checks": checks,
        "notes": "See DESIGN.md. known_findings.json lists genuine defects (open / fixed).",
        "not_applicable": [{"property_id": p, "reason": NA_REASON} for p in PROPS if p not in CHECKS],
    }
    json.dump(m, open(os.path.join(HERE, "MANIFEST.json"), "w"), indent=1)
    print("MANIFEST.json:", len(checks), "checks;", len(m["not_applicable"]), "not claimed")

if __name__ == "__main__":
    main()
