#!/usr/bin/env python3
"""Regenerate DESIGN.md sections 8.2-8.5 from MANIFEST.json, known_findings.json and seeded/*/meta.json."""
import json, glob, os, re
V = "/verif"
man = json.load(open(f"{V}/MANIFEST.json"))
kf = json.load(open(f"{V}/known_findings.json"))["findings"]
SPECS = {
 "C01": "HttpFraming.tla / HttpFramingMC.tla / HttpFramingTrace.tla; props/C01.py, engine/httpframing.py, engine/gen/http.py",
 "C02": "WireDecision.tla (+Exhibit) / WireDecisionTrace.tla; props/C02.py, engine/wirekit.py",
 "C03": "HttpFraming.tla (cuts config, GroupClause); props/C03.py",
 "C04": "HttpWriter.tla / HttpWriterSerMC.tla / HttpWriterMC.tla / HttpWriterTrace.tla; props/C04.py, engine/gen/strings.py",
 "C05": "ServerConn.tla / ServerConnMC.tla / ServerConnTrace.tla; props/C05.py, engine/srvkit.py",
 "C06": "ClientConn.tla / ClientConnTrace.tla; props/C06.py, engine/clikit.py",
 "C07": "ClientPool.tla / ClientPoolMC.tla / ClientPoolTrace.tla; props/C07.py",
 "C08": "StreamReader.tla / StreamReaderMC.tla / StreamReaderTrace.tla; props/C08.py",
 "C09": "BodyFlow.tla / BodyFlowTrace.tla; props/C09.py, engine/gen/bodies.py",
 "C10": "HttpFraming.tla (limits config) / HttpFramingTrace.tla; props/C10.py",
 "C11": "WsSend.tla / WsSendMC.tla / WsSendTrace.tla (+WsFrames.tla); props/C11.py",
 "C12": "WsFrames.tla / WsFramesMC.tla / WsFramesTrace.tla; props/C12.py, engine/gen/wsframes.py",
 "C13": "WsSession.tla / WsSessionTrace.tla; props/C13.py, engine/wskit.py",
 "C14": "UrlDispatch.tla / UrlDispatchMC.tla / UrlDispatchTrace.tla; props/C14.py, engine/gen/urls.py",
 "C15": "StaticServe.tla / StaticServeMC.tla / StaticServeTrace.tla; props/C15.py",
 "C16": "CookieStore.tla / CookieStoreMC.tla / CookieStoreTrace.tla; props/C16.py, engine/gen/cookies.py",
 "C17": "Redirects.tla / RedirectsMC.tla / RedirectsTrace.tla; props/C17.py",
 "C18": "ClientTimeouts.tla / ClientTimeoutsTrace.tla; props/C18.py, engine/tcpkit.py",
 "C19": "Multipart.tla / MultipartMC.tla / MultipartCls.tla / MultipartTrace.tla; props/C19.py, engine/gen/multipart.py",
 "C20": "AppLifecycle.tla / AppLifecycleTrace.tla, ServerShutdown.tla / ServerShutdownTrace.tla; props/C20.py",
}
out = []
out.append("### 8.2 Per property (as built)\n")
out.append("All 20 properties are claimed; none is listed under not_applicable. C06, C07, C08 and the engine were built "
           "first as exemplars; the other checks were built by sub-agents against `engine/GUIDE.md` and then reviewed, "
           "run, and integrated (fixes applied, constants flipped, findings recorded) in the main session. "
           "Every check has `--selftest` (corrupted traces must be rejected, spec-level mutants must be caught by TLC) and `--replay`.\n")
out.append("| Id | Specification / model / trace spec; driver | What decides (technique) |")
out.append("|----|---------------------------------------------|--------------------------|")
for c in man["checks"]:
    pid = c["property_id"]
    out.append(f"| {pid} | {SPECS.get(pid,'')} | {c['technique']} |")
out.append("")
out.append("### 8.3 Genuine defects found (details, signatures and commits in `known_findings.json`)\n")
out.append("`fixed` = repaired by a minimal unguarded `fix:` commit in /repo (the repository's pinned suite — 4398 stable tests — "
           "was re-run with `tools/baseline_check.py` after each batch and matched BASELINE.json); the check reports the violation "
           "again if it returns. `open` = recorded, not repaired (reason in the entry); the check prints `KNOWN-FINDING:` and exits 0, "
           "and the deviation has its own clause name / model constant so that any other violation of the same property is still reported.\n")
out.append("| Prop | Finding id | Status | What |")
out.append("|------|------------|--------|------|")
for f in sorted(kf, key=lambda f: (f["property"], f["status"], f["id"])):
    what = f["what"].replace("|", "\\|").replace("\n", " ")
    what = re.sub(r"^fixed: property=C\d+ ", "", what)
    if len(what) > 330:
        what = what[:327] + "..."
    st = f["status"] + (f" ({f.get('commit')})" if f["status"] == "fixed" else "")
    out.append(f"| {f['property']} | {f['id']} | {st} | {what} |")
out.append("")
out.append("Observations recorded but deliberately not claimed as violations: `connect()` on an already closed connector can leave a later "
           "caller waiting (C07, outside the property as stated); domain sub-apps are consulted before the index although the docs say "
           "after (C14); `max_redirects=N` follows N-1 redirects (C17); an unsolicited 101 response is treated as a final response and "
           "the connection pooled (C06); lower-case methods are upper-cased and `Transfer-Encoding: gzip, chunked` is accepted "
           "(C01, documented in THREAT_MODEL.md / pinned by tests).\n")
out.append("### 8.4 Seeded changes (`/verif/seeded/<id>/`: patch.diff, demonstration, meta.json) and which check catches them\n")
out.append("Each seed was written by a fresh sub-agent that saw only the property text and its own scratch worktree, then confirmed "
           "with `tools/try_seed.sh` (demonstration passes on HEAD, fails with the patch, in a scratch worktree) and run against the "
           "quick tier of the property's check. `Cxx-1..4` are the first round; `Cxx-b1..b4` a second round (`Cxx-c1` a third, on twelve properties) whose agents were given "
           "the titles of the first round and asked for different mechanisms, code sites and parts of the statement. A seed the "
           "quick tier missed went back to the builder of that check with the request to add the missing *dimension* to the model "
           "and drivers (never a seed-specific test), and was evaluated again; the column shows the last evaluation "
           "(`tools/eval_seed.py`). Seeds whose change a later `fix:` commit made ineffective are marked as such.\n")
out.append("| Seed | Change | Result |")
out.append("|------|--------|--------|")
for d in sorted(glob.glob(f"{V}/seeded/*/meta.json")):
    m = json.load(open(d))
    sid = os.path.basename(os.path.dirname(d))
    title = str(m.get("title", "")).replace("|", "\\|").replace("\n", " ")
    if len(title) > 150:
        title = title[:147] + "..."
    res = str(m.get("check_result", "not evaluated yet")).replace("|", "\\|")
    out.append(f"| {sid} | {title} | {res} |")
out.append("")
out.append(open(f"{V}/tools/design_8_5.md").read())
txt = open(f"{V}/DESIGN.md").read()
i = txt.index("### 8.2 Per property")
txt = txt[:i] + "\n".join(out) + "\n"
open(f"{V}/DESIGN.md", "w").write(txt)
print("DESIGN.md sections 8.2-8.5 regenerated:", len(out), "lines")
