#!/usr/bin/env python3
"""Run the repository's pinned test suite (guard off) and compare with BASELINE.json stable_pass."""
import json, subprocess, sys, tempfile, os, xml.etree.ElementTree as ET
base = json.load(open('/root/.vp/BASELINE.json'))
out = tempfile.mktemp(suffix='.xml', dir='/var/tmp')
cmd = base['cmd'].replace('<file>', out)
env = dict(os.environ); env.pop('AIOHTTP_VERIF', None)
extra = sys.argv[1:]
if extra:
    cmd = cmd.replace('--junitxml', ' '.join(extra) + ' --junitxml')
p = subprocess.run(cmd, shell=True, env=env, capture_output=True, text=True)
passed = set()
for tc in ET.parse(out).getroot().iter('testcase'):
    if not any(ch.tag in ('failure', 'error', 'skipped') for ch in tc):
        passed.add(f"{tc.get('classname')}::{tc.get('name')}")
os.unlink(out)
stable = set(base['stable_pass'])
missing = sorted(stable - passed)
print(f"passed={len(passed)} stable={len(stable)} missing_from_stable={len(missing)}")
for m in missing[:40]:
    print("  MISSING", m)
sys.exit(1 if missing else 0)
