#!/bin/bash
# tools/sweep.sh "<seeds>" "<props>" [tier] [jobs]  - run checks for several seeds, evidence/replays redirected; summary on stdout
SEEDS="${1:-1 2 3}"; PROPS="${2:-C01 C02 C03 C04 C05 C06 C07 C08 C09 C10 C11 C12 C13 C14 C15 C16 C17 C18 C19 C20}"; TIER="${3:-quick}"; JOBS="${4:-4}"
OUT="${SWEEP_OUT:-/var/tmp/sweep.$$}"; mkdir -p "$OUT"
cd "$(dirname "$0")/.." || exit 2
run_one() { s=$1; p=$2; d="$OUT/$p.s$s"; mkdir -p "$d"; t0=$(date +%s)
  VERIF_SEED=$s VERIF_EVIDENCE_DIR="$d" VERIF_REPLAY_DIR="$d" ./check "$p" --tier "$TIER" > "$d/log" 2>&1; rc=$?
  t1=$(date +%s); echo "RESULT prop=$p seed=$s rc=$rc wall=$((t1-t0))s $(grep -h '^VIOLATION\|^MACHINERY' "$d/log" | head -2 | cut -c1-160 | tr '\n' ' ') $(grep -h 'clause=' "$d/log" | head -2 | cut -c1-160 | tr '\n' ' ')"; }
export -f run_one; export OUT TIER
for s in $SEEDS; do for p in $PROPS; do echo "$s $p"; done; done | xargs -P "$JOBS" -L 1 bash -c 'run_one $0 $1'
echo "SWEEP DONE out=$OUT"
