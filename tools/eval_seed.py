#!/usr/bin/env python3
"""tools/eval_seed.py <Cxx> <seed-dir>...  - run tools/try_seed.sh for each seed and record the outcome
(demo exit codes, check exit code, clauses) in the seed's meta.json (confirmed_by_me / check_result)."""
import json, re, subprocess, sys

prop = sys.argv[1]
for sd in sys.argv[2:]:
    out = subprocess.run(["tools/try_seed.sh", sd, prop], capture_output=True, text=True, cwd="/verif").stdout
    m0 = re.search(r"demo without patch: exit (\d+)", out)
    m1 = re.search(r"demo with patch:\s+exit (\d+)", out)
    mc = re.search(r"check \S+ \(\w+\) with patch: exit (\d+)", out)
    clauses = sorted(set(re.findall(r"clause=(\S+)", out)))
    mp = f"{sd}/meta.json"
    meta = json.load(open(mp))
    d0, d1, rc = (m0 and m0.group(1)), (m1 and m1.group(1)), (mc and mc.group(1))
    if d0 == "0" and d1 not in (None, "0"):
        meta["confirmed_by_me"] = f"tools/try_seed.sh: demo exits 0 on HEAD and {d1} with the patch in a scratch worktree"
    else:
        meta["confirmed_by_me"] = f"NOT confirmed: demo exits {d0} on HEAD and {d1} with the patch"
    if "PATCH DOES NOT APPLY" in out:
        meta["check_result"] = "patch no longer applies to HEAD (a later fix: commit touched the same lines)"
    elif rc == "1":
        meta["check_result"] = f"caught by {prop}: {', '.join(clauses[:4]) or 'VIOLATION'} (quick)"
    elif rc == "0":
        meta["check_result"] = f"missed by {prop} (quick)"
    else:
        meta["check_result"] = f"check exit {rc} (machinery error)"
    json.dump(meta, open(mp, "w"), indent=1, ensure_ascii=False)
    print(sd, "demo", d0, d1, "check", rc, clauses[:4], flush=True)
