#!/bin/bash
# tools/try_seed.sh <seed-dir> <Cxx> [tier]   - apply seed-dir/patch.diff in a scratch worktree of /repo,
# run the demo with and without it, run the check against it; clean up.
SEED="$(cd "$1" && pwd)"; PROP="$2"; TIER="${3:-quick}"
WT=/tmp/wt-seed-$$
git -C /repo worktree add -q "$WT" HEAD || exit 2
trap 'git -C /repo worktree remove --force "$WT" >/dev/null 2>&1; rm -rf /tmp/ev-seed-$$ /tmp/rp-seed-$$' EXIT
# the demos expect to live at <checkout>/out/<k>/ (helper modules locate the checkout relative to themselves)
mkdir -p "$WT/out" && cp -r "$SEED" "$WT/out/seed"
DEMO=$(ls "$WT/out/seed"/demo* "$WT/out/seed"/test_* 2>/dev/null | head -1)
rundemo() { case "$DEMO" in *test_*|*_test.py) (cd "$WT" && AIOHTTP_ROOT="$WT" PYTHONPATH="$WT" timeout 300 /venv/bin/python -m pytest -q -p no:cacheprovider "$DEMO" >/dev/null 2>&1);; *) (cd "$WT" && AIOHTTP_ROOT="$WT" PYTHONPATH="$WT" timeout 300 /venv/bin/python "$DEMO" >/dev/null 2>&1);; esac; echo $?; }
echo "demo without patch: exit $(rundemo)"
git -C "$WT" apply "$SEED/patch.diff" || { echo "PATCH DOES NOT APPLY"; exit 2; }
echo "demo with patch:    exit $(rundemo)"
mkdir -p /tmp/ev-seed-$$ /tmp/rp-seed-$$
cd /verif && VERIF_REPO="$WT" VERIF_EVIDENCE_DIR=/tmp/ev-seed-$$ VERIF_REPLAY_DIR=/tmp/rp-seed-$$ ./check "$PROP" --tier "$TIER" > /tmp/seed-check-$$.log 2>&1
RC=$?
echo "check $PROP ($TIER) with patch: exit $RC"
grep -h "^VIOLATION\|clause=\|MACHINERY\|^DRIFT" /tmp/seed-check-$$.log | cut -c1-220 | head -8
rm -f /tmp/seed-check-$$.log
