"""Code point classes and string generators for C04 (outbound serialisation).

The TLA+ model (spec/HttpWriter.tla, SerializeRule) abstracts code points into the
classes below; the harness substitutes concrete members.  Nothing here decides
whether an output is right - spec/HttpWriterTrace.tla does.
"""
from __future__ import annotations

import random
from typing import Dict, Iterator, List, Sequence, Tuple

CLASSES = ["CR", "LF", "NUL", "C0other", "DEL", "HT", "SP", "VCHAR", "COLON",
           "LATIN1", "BMP", "ASTRAL", "SURROGATE"]

# representative member used by the model (HttpWriter!Rep) first, then boundary members
MEMBERS: Dict[str, List[int]] = {
    "CR": [0x0D],
    "LF": [0x0A],
    "NUL": [0x00],
    "C0other": [0x01, 0x08, 0x0B, 0x0C, 0x0E, 0x1B, 0x1F],
    "DEL": [0x7F],
    "HT": [0x09],
    "SP": [0x20],
    "VCHAR": [0x61, 0x21, 0x22, 0x25, 0x2C, 0x2F, 0x3B, 0x3D, 0x5C, 0x7E],
    "COLON": [0x3A],
    "LATIN1": [0xE9, 0x80, 0x85, 0xA0, 0xFF],
    "BMP": [0x20AC, 0x100, 0x7FF, 0x800, 0x2028, 0x2029, 0xFEFF, 0xD7FF, 0xE000, 0xFFFF],
    "ASTRAL": [0x1F600, 0x10000, 0x10FFFF],
    "SURROGATE": [0xD800, 0xDBFF, 0xDC00, 0xDFFF],
}


def class_of(cp: int) -> str:
    if cp == 0x0D:
        return "CR"
    if cp == 0x0A:
        return "LF"
    if cp == 0x00:
        return "NUL"
    if cp == 0x09:
        return "HT"
    if cp < 0x20:
        return "C0other"
    if cp == 0x20:
        return "SP"
    if cp == 0x3A:
        return "COLON"
    if cp < 0x7F:
        return "VCHAR"
    if cp == 0x7F:
        return "DEL"
    if cp < 0x100:
        return "LATIN1"
    if 0xD800 <= cp <= 0xDFFF:
        return "SURROGATE"
    if cp < 0x10000:
        return "BMP"
    return "ASTRAL"


def classes_of(cps: Sequence[int]) -> List[str]:
    return [class_of(c) for c in cps]


def representative(cls: str) -> int:
    return MEMBERS[cls][0]


def concretise(cls_string: Sequence[str], rng: random.Random, variants: int) -> List[List[int]]:
    """Concrete code point strings for one class string: the model's representatives
    first, then `variants` strings with seeded boundary members."""
    out = [[MEMBERS[c][0] for c in cls_string]]
    seen = {tuple(out[0])}
    for _ in range(variants):
        s = [rng.choice(MEMBERS[c]) for c in cls_string]
        if tuple(s) not in seen:
            seen.add(tuple(s))
            out.append(s)
    return out


def single_code_points(quick: bool, rng: random.Random, sample: int = 256) -> List[int]:
    """quick: every code point below 0x800 + class boundaries + a seeded sample of the
    rest; thorough: the same list (the rest is covered by blocks(), see below)."""
    cps = list(range(0x800))
    extra = set()
    for ms in MEMBERS.values():
        extra.update(ms)
    for lo, hi in ((0x800, 0xD7FF), (0xD800, 0xDFFF), (0xE000, 0xFFFF), (0x10000, 0x10FFFF)):
        for _ in range(sample // 4):
            extra.add(rng.randint(lo, hi))
    cps += sorted(c for c in extra if c >= 0x800)
    return cps


def blocks(lo: int, hi: int, size: int) -> Iterator[List[int]]:
    """Consecutive blocks of code points lo..hi (inclusive): all members of a block are
    supplied together in one string; a refused block is re-tried one code point at a
    time by the caller, so every code point gets its own verdict."""
    cur: List[int] = []
    for cp in range(lo, hi + 1):
        cur.append(cp)
        if len(cur) == size:
            yield cur
            cur = []
    if cur:
        yield cur


def to_str(cps: Sequence[int]) -> str:
    return "".join(chr(c) for c in cps)


def random_strings(rng: random.Random, n: int, maxlen: int = 6) -> List[List[int]]:
    """Random class-mixed strings (hostile shapes first: CRLF pairs, header look-alikes)."""
    shapes = [
        [0x0D, 0x0A], [0x0D, 0x0A, 0x58, 0x3A, 0x20, 0x79], [0x0A, 0x58, 0x3A, 0x79], [0x0D, 0x58],
        [0x0D, 0x0A, 0x0D, 0x0A, 0x47, 0x45, 0x54, 0x20, 0x2F], [0x61, 0x0D], [0x61, 0x0A], [0x0A],
        [0x2028], [0x85], [0x0B], [0x0C], [0x1C], [0x1D], [0x1E],
    ]
    out = [list(s) for s in shapes]
    names = CLASSES
    while len(out) < n:
        k = rng.randint(1, maxlen)
        out.append([rng.choice(MEMBERS[rng.choice(names)]) for _ in range(k)])
    return out[:n]
