"""WebSocket frame generators for C12 / C11.

Nothing here is an oracle: the functions only build byte strings (RFC 6455 frames, valid
sequences, one defect of each class, random bytes) and segmentations.  What a stream means is
decided by spec/WsFrames.tla.
"""
from __future__ import annotations

import struct
import zlib
from typing import Any, Callable, Dict, List, Optional, Sequence, Tuple

OP_CONT, OP_TEXT, OP_BIN, OP_CLOSE, OP_PING, OP_PONG = 0, 1, 2, 8, 9, 10


def frame(fin: int, op: int, payload: bytes = b"", *, rsv: int = 0, mask: Optional[bytes] = None,
          enc: Optional[int] = None, declared: Optional[int] = None, raw_len8: Optional[bytes] = None) -> bytes:
    """One frame.  rsv = RSV1*4 + RSV2*2 + RSV3; enc in {7,16,64} forces the length encoding
    (None = minimal); declared = length written in the header (default len(payload));
    raw_len8 = the 8 bytes of a 64-bit length verbatim."""
    n = len(payload) if declared is None else declared
    b0 = (0x80 if fin else 0) | ((rsv & 7) << 4) | (op & 0xF)
    mb = 0x80 if mask else 0
    if raw_len8 is not None:
        h = bytes([b0, mb | 127]) + raw_len8
    else:
        if enc is None:
            enc = 7 if n < 126 else (16 if n < 65536 else 64)
        if enc == 7:
            h = bytes([b0, mb | (n & 0x7F)])
        elif enc == 16:
            h = bytes([b0, mb | 126]) + struct.pack("!H", n & 0xFFFF)
        else:
            h = bytes([b0, mb | 127]) + struct.pack("!Q", n)
    if mask:
        payload = bytes(b ^ mask[i & 3] for i, b in enumerate(payload))
        h += mask
    return h + payload


class Deflater:
    """permessage-deflate sender side (for building compressed input frames)."""

    def __init__(self, wbits: int = 15, takeover: bool = True) -> None:
        self.wbits, self.takeover = wbits, takeover
        self.c = zlib.compressobj(wbits=-wbits)

    def message(self, data: bytes) -> bytes:
        if not self.takeover:
            self.c = zlib.compressobj(wbits=-self.wbits)
        z = self.c.compress(data) + self.c.flush(zlib.Z_SYNC_FLUSH)
        assert z.endswith(b"\x00\x00\xff\xff")
        return z[:-4]


def close_payload(code: int, reason: bytes = b"") -> bytes:
    return struct.pack("!H", code) + reason


UTF8_GOOD = ["", "a", "héllo", "€", "\U0001f600", "퟿", "\U0010ffff", "x\u0080y"]
UTF8_BAD = [b"\xff", b"\xc3", b"a\xc3", b"\xc0\xaf", b"\xe0\x80\xaf", b"\xed\xa0\x80", b"\xf4\x90\x80\x80",
            b"\xf8\x88\x80\x80\x80", b"\x80", b"ab\xe2\x82", b"\xf0\x9f\x98", b"\xc3\x28", b"\xe2\x28\xa1"]
BAD_CLOSE_CODES = [0, 1, 999, 1004, 1005, 1015, 1016, 1100, 2000, 2999, 5000, 65535]
GOOD_CLOSE_CODES = [1000, 1001, 1002, 1003, 1007, 1008, 1009, 1010, 1011, 1012, 1013, 1014, 3000, 4999]

M1 = b"\x37\xfa\x21\x3d"
M2 = b"\x00\x00\x00\x00"
M3 = b"\xff\x01\x80\x7f"


def valid_sequences(rng: Any, compress: bool) -> List[Tuple[str, List[bytes]]]:
    """Valid frame sequences (lists of frames).  With compress=True some messages are deflated."""
    out: List[Tuple[str, List[bytes]]] = []
    out.append(("text", [frame(1, OP_TEXT, b"hello")]))
    out.append(("bin-masked", [frame(1, OP_BIN, bytes(range(7)), mask=M1)]))
    out.append(("two-msgs", [frame(1, OP_TEXT, "hé".encode()), frame(1, OP_BIN, b"\x00\xff", mask=M3)]))
    out.append(("frag3", [frame(0, OP_TEXT, b"ab"), frame(0, OP_CONT, b"", mask=M1), frame(1, OP_CONT, b"cd")]))
    out.append(("frag-empty-first", [frame(0, OP_BIN, b""), frame(1, OP_CONT, b"xyz", mask=M2)]))
    out.append(("frag-utf8-split", [frame(0, OP_TEXT, b"\xe2\x82"), frame(1, OP_CONT, b"\xac!")]))
    out.append(("frag-ctl-between", [frame(0, OP_TEXT, b"a"), frame(1, OP_PING, b"p"),
                                     frame(1, OP_PONG, b"", mask=M1), frame(1, OP_CONT, b"b")]))
    out.append(("controls", [frame(1, OP_PING, b"x" * 125), frame(1, OP_PONG, b"yo", mask=M1),
                             frame(1, OP_CLOSE, close_payload(1000, b"bye"))]))
    out.append(("close-empty", [frame(1, OP_TEXT, b""), frame(1, OP_CLOSE, b"")]))
    out.append(("close-codes", [frame(1, OP_CLOSE, close_payload(c, b"\xe2\x82\xac")) for c in (3000, 1014)]))
    out.append(("len16", [frame(1, OP_BIN, bytes(126)), frame(1, OP_TEXT, b"z" * 200, mask=M1)]))
    out.append(("len-nonminimal", [frame(1, OP_BIN, b"A", enc=16), frame(1, OP_TEXT, b"B", enc=64, mask=M1),
                                   frame(1, OP_PING, b"", enc=7)]))
    if compress:
        d = Deflater()
        out.append(("deflate-2", [frame(1, OP_TEXT, d.message(b"hello hello hello"), rsv=4),
                                  frame(1, OP_TEXT, d.message(b"hello hello again"), rsv=4, mask=M1)]))
        d = Deflater()
        z = d.message("€ uro €".encode())
        out.append(("deflate-frag", [frame(0, OP_TEXT, z[:3], rsv=4), frame(1, OP_PING, b""),
                                     frame(1, OP_CONT, z[3:]), frame(1, OP_BIN, b"plain")]))
        d = Deflater()
        out.append(("deflate-empty", [frame(1, OP_BIN, d.message(b""), rsv=4), frame(1, OP_BIN, d.message(b"x"), rsv=4)]))
    return out


def violations(rng: Any, max_size: int, compress: bool, in_msg: bool) -> List[Tuple[str, List[bytes]]]:
    """One representative (or a few) of every violation class, as frame lists.  `in_msg` tells
    whether the injection point lies inside a fragmented message (some classes only exist there,
    others only outside)."""
    v: List[Tuple[str, List[bytes]]] = []
    a = v.append
    a(("rsv2", [frame(1, OP_TEXT, b"ab", rsv=2)]))
    a(("rsv3", [frame(1, OP_PING, b"", rsv=1, mask=M1)]))
    a(("rsv23-cont", [frame(1, OP_CONT, b"q", rsv=3)]))
    if not compress:
        a(("rsv1-not-negotiated", [frame(1, OP_BIN, b"ab", rsv=4)]))
    else:
        a(("rsv1-control", [frame(1, OP_PING, b"p", rsv=4)]))
        a(("rsv1-close", [frame(1, OP_CLOSE, b"", rsv=4)]))
        if in_msg:
            a(("rsv1-continuation", [frame(1, OP_CONT, b"c", rsv=4)]))
            a(("rsv1-continuation-nonfin", [frame(0, OP_CONT, b"c", rsv=4)]))
    for op in (3, 7, 11, 15):
        a((f"opcode-{op}", [frame(1, op, b"ab")]))
    a(("opcode-5-nonfin", [frame(0, 5, b"")]))
    a(("control-fragmented-ping", [frame(0, OP_PING, b"p")]))
    a(("control-fragmented-close", [frame(0, OP_CLOSE, b"", mask=M1)]))
    a(("control-126", [frame(1, OP_PING, bytes(126))]))
    a(("control-len16-small", [frame(1, OP_PONG, b"ab", enc=16)]))
    a(("control-len64", [frame(1, OP_CLOSE, close_payload(1000), enc=64)]))
    if in_msg:
        a(("interleave-fin", [frame(1, OP_TEXT, b"new")]))
        a(("interleave-nonfin", [frame(0, OP_BIN, b"new"), frame(1, OP_CONT, b"end")]))
        a(("interleave-nonfin-alone", [frame(0, OP_TEXT, b"")]))
    else:
        a(("continuation-without-start", [frame(1, OP_CONT, b"zz")]))
        a(("continuation-without-start-nonfin", [frame(0, OP_CONT, b"", mask=M1)]))
        a(("interleave-fin-empty", [frame(0, OP_TEXT, b""), frame(1, OP_TEXT, b"abc")]))
        a(("interleave-fin-after-fragment", [frame(0, OP_TEXT, b"x"), frame(1, OP_BIN, b"abc")]))
        for k, bad in enumerate(UTF8_BAD):
            a((f"text-utf8-{k}", [frame(1, OP_TEXT, b"ok " + bad, mask=M1 if k % 2 else None)]))
        a(("text-utf8-fragmented", [frame(0, OP_TEXT, b"\xe2\x82"), frame(1, OP_CONT, b"\x28")]))
        a(("text-utf8-fragment-boundary-ok-then-bad", [frame(0, OP_TEXT, b"\xf0\x9f"), frame(0, OP_CONT, b"\x98"),
                                                      frame(1, OP_CONT, b"")]))
    a(("close-len1", [frame(1, OP_CLOSE, b"\x03")]))
    for c in BAD_CLOSE_CODES:
        a((f"close-code-{c}", [frame(1, OP_CLOSE, close_payload(c, b"r"), mask=M1 if c % 2 else None)]))
    a(("close-code-1006", [frame(1, OP_CLOSE, close_payload(1006, b"abnormal"))]))
    a(("close-reason-utf8", [frame(1, OP_CLOSE, close_payload(1000, b"\xc3\x28"))]))
    a(("close-badcode-badreason", [frame(1, OP_CLOSE, close_payload(1005, b"\xff"))]))
    a(("len64-topbit", [frame(1, OP_BIN, b"abc", raw_len8=b"\x80\x00\x00\x00\x00\x00\x00\x03")]))
    a(("len64-allones", [frame(1, OP_TEXT, b"abc", raw_len8=b"\xff" * 8, mask=M1)]))
    if max_size:
        m = max_size
        if not in_msg:
            a(("too-big-1frame", [frame(1, OP_BIN, bytes(m + 1))]))
            a(("too-big-declared-only", [frame(1, OP_TEXT, b"ab", declared=m + 1)]))
            a(("too-big-len64-2^31", [frame(1, OP_BIN, b"ab", raw_len8=struct.pack("!Q", 2 ** 31))]))
            a(("too-big-len64-2^32", [frame(1, OP_BIN, b"ab", raw_len8=struct.pack("!Q", 2 ** 32 + 5), mask=M1)]))
            a(("too-big-len64-2^62", [frame(0, OP_BIN, b"ab", raw_len8=struct.pack("!Q", 2 ** 62))]))
            a(("too-big-fragments", [frame(0, OP_BIN, bytes(m // 2 + 1)), frame(0, OP_CONT, bytes(m // 2)),
                                     frame(1, OP_CONT, b"x")]))
            a(("too-big-empty-then-big", [frame(0, OP_TEXT, b""), frame(1, OP_CONT, bytes(m + 1), mask=M1)]))
            a(("at-cap-1frame", [frame(1, OP_BIN, bytes(m)), frame(1, OP_TEXT, b"t")]))
            if m >= 2:
                a(("at-cap-fragments", [frame(0, OP_BIN, bytes(m - 1)), frame(1, OP_CONT, b"x"), frame(1, OP_TEXT, b"t")]))
                a(("below-cap", [frame(1, OP_BIN, bytes(m - 1)), frame(1, OP_TEXT, b"")]))
            if compress and m <= 4096:
                d = Deflater()
                a(("deflate-bomb", [frame(1, OP_BIN, d.message(bytes(m * 8 + 100)), rsv=4)]))
                d = Deflater()
                a(("deflate-inflated-cap+1", [frame(1, OP_BIN, d.message(b"z" * (m + 1)), rsv=4)]))
                d = Deflater()
                a(("deflate-inflated-at-cap", [frame(1, OP_BIN, d.message(b"z" * m), rsv=4), frame(1, OP_TEXT, b"")]))
        else:
            a(("too-big-continuation", [frame(1, OP_CONT, bytes(m))]))
            a(("too-big-continuation-len64", [frame(0, OP_CONT, b"", raw_len8=struct.pack("!Q", 2 ** 40))]))
    else:
        if not in_msg:
            a(("huge-len64-unlimited", [frame(1, OP_BIN, b"abc", raw_len8=struct.pack("!Q", 2 ** 33))]))
    if compress and not in_msg:
        a(("deflate-corrupt", [frame(1, OP_BIN, b"\xff\xff\xff\x00", rsv=4)]))
        d = Deflater()
        a(("deflate-text-utf8", [frame(1, OP_TEXT, d.message(b"bad \xff text"), rsv=4)]))
        d = Deflater()
        z = d.message(b"abcabcabc")
        a(("deflate-rsv1-on-second-fragment", [frame(0, OP_BIN, z[:2], rsv=4), frame(1, OP_CONT, z[2:], rsv=4)]))
        d = Deflater()
        a(("deflate-truncated-stream", [frame(1, OP_BIN, d.message(b"hello world, hello world")[:-3], rsv=4),
                                        frame(1, OP_BIN, d.message(b"next"), rsv=4)]))
    return v


def frames_in_msg_after(frames: Sequence[bytes], k: int) -> bool:
    """Is position k (after k frames) inside a fragmented data message?  (header inspection only;
    used to pick applicable defect classes, not to judge anything)"""
    inm = False
    for f in frames[:k]:
        fin, op = f[0] >> 7, f[0] & 0xF
        if op < 8:
            inm = not fin
    return inm


def injected_streams(rng: Any, max_size: int, compress: bool,
                     pick: Callable[[int], bool] = lambda i: True) -> List[Tuple[str, bytes]]:
    """Every violation class at every frame position of every valid sequence."""
    out: List[Tuple[str, bytes]] = []
    i = 0
    for name, frames in valid_sequences(rng, compress):
        if max_size and any(len(f) > max_size for f in frames):
            pass  # still a legitimate stream: the reference decides what happens
        out.append((f"valid:{name}", b"".join(frames)))
        for k in range(len(frames) + 1):
            inm = frames_in_msg_after(frames, k)
            for vname, vf in violations(rng, max_size, compress, inm):
                i += 1
                if not pick(i):
                    continue
                out.append((f"{name}@{k}:{vname}", b"".join(frames[:k]) + b"".join(vf) + b"".join(frames[k:])))
    return out


def random_streams(rng: Any, n: int) -> List[Tuple[str, bytes]]:
    out = []
    heads = [0x81, 0x82, 0x01, 0x02, 0x00, 0x80, 0x88, 0x89, 0x8A, 0xC1, 0xC2, 0x41, 0x83, 0x8B, 0x09, 0xA1, 0x91]
    for i in range(n):
        kind = rng.choice(["uniform", "plausible", "plausible", "truncated"])
        if kind == "uniform":
            out.append((f"random-uniform-{i}", bytes(rng.randrange(256) for _ in range(rng.randint(1, 48)))))
        elif kind == "plausible":
            b = bytearray()
            for _ in range(rng.randint(1, 6)):
                h = rng.choice(heads) if rng.random() < 0.9 else rng.randrange(256)
                ln = rng.choice([0, 0, 1, 2, 3, 5, 8, 125, 126, 127]) if rng.random() < 0.3 else rng.randint(0, 6)
                m = 0x80 if rng.random() < 0.4 else 0
                b += bytes([h, m | ln])
                if ln == 126:
                    b += struct.pack("!H", rng.choice([0, 3, 125, 126, 300]))
                elif ln == 127:
                    b += rng.choice([struct.pack("!Q", 4), struct.pack("!Q", 2 ** 63 + 1), struct.pack("!Q", 2 ** 31 + 7),
                                     struct.pack("!Q", 70000)])
                b += bytes(rng.choice([0x61, 0xC3, 0xA9, 0xFF, 0x03, 0xE8, rng.randrange(256)])
                           for _ in range(rng.randint(0, 9)))
            out.append((f"random-plausible-{i}", bytes(b)))
        else:
            seqs = valid_sequences(rng, False)
            s = b"".join(rng.choice(seqs)[1])
            out.append((f"truncated-{i}", s[: rng.randint(1, len(s))]))
    return out


# ------------------------------------------------------------------ segmentations
def frame_header_offsets(stream: bytes, limit: int = 400) -> List[int]:
    """Offsets that lie inside frame headers when the stream is read as a frame sequence
    (only used to choose interesting cut points for long streams)."""
    offs: List[int] = []
    p = 0
    n = len(stream)
    while p + 2 <= n and len(offs) < limit:
        start = p
        ln = stream[p + 1] & 0x7F
        masked = stream[p + 1] >> 7
        p += 2
        if ln == 126:
            if p + 2 > n:
                break
            ln = struct.unpack("!H", stream[p:p + 2])[0]
            p += 2
        elif ln == 127:
            if p + 8 > n:
                break
            ln = struct.unpack("!Q", stream[p:p + 8])[0]
            p += 8
        if masked:
            p += 4
        offs.extend(range(start, min(p + 2, n) + 1))
        p += ln
        if p <= n:
            offs.extend([p - 1, p])
    return sorted(set(o for o in offs if 0 < o < n))


def segmentations(rng: Any, stream: bytes, *, pairs_upto: int = 0, all_cuts_upto: int = 96,
                  bytewise_upto: int = 700, n_random: int = 3) -> List[Tuple[str, List[int]]]:
    """List of (name, chunk lengths).  The first entry is always the whole stream."""
    n = len(stream)
    segs: List[Tuple[str, List[int]]] = [("whole", [n])]
    if n <= 1:
        return segs
    if n <= all_cuts_upto:
        cuts = list(range(1, n))
    else:
        cuts = frame_header_offsets(stream)[:120]
        cuts = sorted(set(cuts + [rng.randrange(1, n) for _ in range(20)]))
    for c in cuts:
        segs.append((f"cut{c}", [c, n - c]))
    if n <= bytewise_upto:
        segs.append(("bytewise", [1] * n))
    for k in range(n_random):
        m = rng.randint(2, min(8, n - 1)) if n > 2 else 1
        pts = sorted(set(rng.randrange(1, n) for _ in range(m)))
        prev = 0
        ch = []
        for p in pts + [n]:
            ch.append(p - prev)
            prev = p
        segs.append((f"random{k}", ch))
    if n <= pairs_upto:
        for i in range(1, n):
            for j in range(i + 1, n):
                segs.append((f"cuts{i},{j}", [i, j - i, n - j]))
    return segs
