"""Generators for C19 (multipart): run-length item codec, concretisation of the class
contents enumerated by TLC, padding, segmentation scripts, name classes, mutators.

Nothing here decides anything: the functions only build inputs and encode observations
for spec/MultipartTrace.tla."""
from __future__ import annotations

import base64
import binascii
import zlib
from typing import Dict, Iterable, List, Optional, Sequence, Tuple

# ---------------------------------------------------------------- run-length items
# item < 256: one byte;  item = 256 + v + 256*n : n copies of byte v  (n >= MIN_RUN)
MIN_RUN = 8
_STRUCT = frozenset(b"\r\n-: \t\";=%")


def forbidden(boundaries: Iterable[bytes]) -> frozenset:
    """Bytes that must never be folded into a run (they matter to the scanner)."""
    s = set(_STRUCT)
    for b in boundaries:
        s.update(b)
    return frozenset(s)


def rle(data: bytes, forbid: frozenset = _STRUCT) -> List[int]:
    """Canonical item encoding: maximal runs (>= MIN_RUN) of a non-structural byte."""
    out: List[int] = []
    n = len(data)
    i = 0
    while i < n:
        v = data[i]
        j = i + 1
        while j < n and data[j] == v:
            j += 1
        k = j - i
        if k >= MIN_RUN and v not in forbid:
            while k > 0:                       # keep items < 2**31
                take = min(k, 4_000_000)
                if take < MIN_RUN and out:     # tail too short for a run: literal bytes
                    out.extend([v] * take)
                else:
                    out.append(256 + v + 256 * take)
                k -= take
        else:
            out.extend(data[i:j])
        i = j
    return out


def unrle(items: Sequence[int]) -> bytes:
    out = bytearray()
    for it in items:
        if it < 256:
            out.append(it)
        else:
            out += bytes([(it - 256) % 256]) * ((it - 256) // 256)
    return bytes(out)


# ---------------------------------------------------------------- class contents
# class alphabet of MultipartMC: 13 CR, 10 LF, 45 '-', 98 'b' (boundary prefix), 120 'x'
def concretise(cls: Sequence[int], boundary: bytes, bprefix: int, xbyte: int = 120) -> bytes:
    """Replace the class letter b by the first `bprefix` bytes of the boundary and x by xbyte."""
    out = bytearray()
    for c in cls:
        if c == 98:
            out += boundary[:max(1, bprefix)]
        elif c == 120:
            out.append(xbyte)
        else:
            out.append(c)
    return bytes(out)


def pad(core: bytes, total: int, where: str, fill: int) -> bytes:
    """Pad core with `fill` bytes to `total` bytes; the core sits at the head, tail or both ends."""
    k = max(0, total - len(core))
    f = bytes([fill]) * k
    if where == "head":          # core first, padding after
        return core + f
    if where == "tail":          # padding first: the core straddles the end (next to the boundary)
        return f + core
    if where == "both":
        return core + f + core
    h = k // 2
    return f[:h] + core + f[h:]


BOUNDARIES = {
    1: "b",
    2: "bx",
    70: ("boundary-0123456789-abcdefghijklmnopqrstuvwxy-ABCDEFGHIJKLMNOPQRSTUVWXY" + "." * 70)[:70],
}
assert all(len(v) == k for k, v in BOUNDARIES.items())


# ---------------------------------------------------------------- transfer encodings (stdlib = the transducers)
def encode_wire(content: bytes, te: str, ce: str) -> bytes:
    """Enc(content): what a conforming writer puts on the wire for these part encodings."""
    data = content
    if ce in ("gzip", "deflate"):
        co = zlib.compressobj(wbits=16 + zlib.MAX_WBITS if ce == "gzip" else -zlib.MAX_WBITS)
        data = co.compress(data) + co.flush()
    if te == "base64":
        data = base64.b64encode(data)
    elif te == "quoted-printable":
        data = binascii.b2a_qp(data)
    return data


def decode_wire(wire: bytes, te: str, ce: str) -> bytes:
    """Dec(wire) with the stdlib (used to establish the invertibility axiom per input)."""
    data = wire
    if te == "base64":
        data = base64.b64decode(data)
    elif te == "quoted-printable":
        data = binascii.a2b_qp(data)
    if ce in ("gzip", "deflate"):
        d = zlib.decompressobj(wbits=16 + zlib.MAX_WBITS if ce == "gzip" else -zlib.MAX_WBITS)
        data = d.decompress(data) + d.flush()
    return data


# ---------------------------------------------------------------- names / filenames
NAME_CLASSES: Dict[str, str] = {
    "ascii": "field1",
    "space": "a field",
    "quote": 'a"b',
    "backslash": "a\\b",
    "both": 'q"\\"x\\\\',
    "percent": "100%25 %zz",
    "semicolon": "a;b=c",
    "nonascii": "naïve-名前",
    "emoji": "f\U0001f600",
    "cr": "a\rb",
    "lf": "a\nb",
    "crlf": "a\r\nX-Injected: 1",
    "crlfcrlf": "a\r\n\r\nbody",
    "nul": "a\x00b",
    "tab": "a\tb",
    "trailing_bs": "tail\\",
    "leading_slash": "/etc/passwd",
    "dots": "../x.txt",
    "empty": "",
    "eq": "a=b",
    "star": "name*",
    "apostrophe": "utf-8''x",
}
CRLF_NAME_CLASSES = {"cr", "lf", "crlf", "crlfcrlf"}


# structural characters of a Content-Disposition parameter value (quoted-string / RFC 5987 /
# percent-encoding machinery) and CR/LF-free controls
STRUCTURAL = [";", '"', "\\", "=", " ", "%", "\t", "\x01", "\x7f", "'", "*", ","]
STRUCTURAL_CORE = STRUCTURAL[:9]


def structural_names(rng, quick: bool, sample: int = 0) -> List[str]:
    """Strings over the code point classes of engine/gen/strings.py crossed with the structural
    characters: each one in every position of a short base, and every ordered pair of two of
    them in every pair of positions.  quick: all singles + a seeded sample of the pairs."""
    from . import strings as S
    fillers = []
    for cls in ("VCHAR", "LATIN1", "BMP", "ASTRAL", "SP", "HT", "COLON"):
        fillers += [chr(cp) for cp in S.MEMBERS[cls][: (2 if quick else 4)]]

    def base() -> str:
        return "a" + rng.choice(fillers)

    singles, pairs = [], []
    for c in STRUCTURAL:
        for i in range(3):
            b = base()
            singles.append(b[:i] + c + b[i:])
    for c1 in STRUCTURAL_CORE:
        for c2 in STRUCTURAL_CORE:
            for i in range(3):
                for j in range(i, 3):
                    t = list(base())
                    t.insert(j, c2)
                    t.insert(i, c1)
                    pairs.append("".join(t))
    # three or more: the parameter splitter of the reader sees several pieces
    extra = ["a;b;c", "a; b;c d", 'x";";"y', "a\\;\\", ";;;", "a=b;c=d;e", "%3B;%22", "q\" ;\\ z", " lead;trail ",
             "utf-8''a;b", "a;\tb", "тест;файл я", "a;b c"]
    if quick and sample:
        pairs = rng.sample(pairs, min(sample, len(pairs)))
    seen, out = set(), []
    for x in singles + extra + pairs:
        if x not in seen:
            seen.add(x)
            out.append(x)
    return out


# ---------------------------------------------------------------- segmentation scripts
def find_all(hay: bytes, needle: bytes) -> List[int]:
    out = []
    i = hay.find(needle)
    while i >= 0:
        out.append(i)
        i = hay.find(needle, i + 1)
    return out


def boundary_cuts(body: bytes, boundary: bytes) -> List[int]:
    """Every cut position within +-(|B|+4) of every occurrence of --B in the body."""
    dash = b"--" + boundary
    w = len(boundary) + 4
    cuts = set()
    for p in find_all(body, dash):
        for c in range(p - 2 - w, p + len(dash) + 2 + w + 1):
            if 0 < c < len(body):
                cuts.add(c)
    return sorted(cuts)


def split_at(body: bytes, cuts: Sequence[int]) -> List[bytes]:
    segs = []
    prev = 0
    for c in sorted(set(cuts)):
        if prev < c < len(body):
            segs.append(body[prev:c])
            prev = c
    segs.append(body[prev:])
    return [s for s in segs if s]


def fixed_segments(body: bytes, k: int) -> List[bytes]:
    return [body[i:i + k] for i in range(0, len(body), k)] or []


def random_segments(body: bytes, rng, mean: int) -> List[bytes]:
    segs = []
    i = 0
    while i < len(body):
        k = max(1, int(rng.expovariate(1.0 / mean)))
        segs.append(body[i:i + k])
        i += k
    return segs


# ---------------------------------------------------------------- mutators (termination driver)
def mutations(body: bytes, boundary: bytes, rng) -> List[Tuple[str, bytes]]:
    """Malformed variants of a valid body: each is (label, bytes)."""
    dash = b"--" + boundary
    out: List[Tuple[str, bytes]] = []
    occ = find_all(body, dash)
    # boundary truncated / altered at each occurrence
    for k, p in enumerate(occ):
        out.append((f"delim{k}-truncated", body[:p + len(dash) - 1] + body[p + len(dash):]))
        out.append((f"delim{k}-altered", body[:p + 2] + bytes([body[p + 2] ^ 1]) + body[p + 3:]))
        out.append((f"delim{k}-nocrlf-before", body[:max(0, p - 2)] + body[p:]) if p >= 2 else ("noop", body))
        out.append((f"delim{k}-lf-only", body[:max(0, p - 2)] + b"\n" + body[p:]) if p >= 2 else ("noop", body))
        out.append((f"delim{k}-trailing-junk", body[:p + len(dash)] + b"junk" + body[p + len(dash):]))
        out.append((f"delim{k}-trailing-space", body[:p + len(dash)] + b" \t" + body[p + len(dash):]))
    # final "--" removed / final CRLF removed / everything after the last delimiter removed
    if body.endswith(dash + b"--\r\n"):
        out.append(("close-dashes-removed", body[:-4] + b"\r\n"))
        out.append(("close-crlf-removed", body[:-2]))
        out.append(("close-removed", body[:-len(dash) - 4]))
        out.append(("close-half-dash", body[:-3]))
        out.append(("epilogue-added", body + b"epilogue\r\nmore\r\n" + dash + b"\r\n"))
    out.append(("preamble-added", b"preamble line\r\n" + dash[:-1] + b"\r\n\r\n" + body))
    # header block unterminated: drop the blank line after the first header block
    h = body.find(b"\r\n\r\n")
    if h >= 0:
        out.append(("headers-unterminated", body[:h + 2] + body[h + 4:]))
        out.append(("headers-eof", body[:h + 1]))
        out.append(("header-no-colon", body[:h] + b"\r\nno colon here" + body[h:]))
        out.append(("header-huge-name", body[:h] + b"\r\n" + b"h" * 300 + b": v" + body[h:]))
    # hostile header blocks, in the header block of every part
    hb, q = [], body.find(b"\r\n\r\n")
    while q >= 0 and len(hb) < 3:
        hb.append(q)
        q = body.find(b"\r\n\r\n", q + 4)
    for k, h in enumerate(hb):
        ins = h + 2                      # after the CRLF of the last header line
        out.append((f"hdr{k}-fields-200", body[:ins] + b"".join(b"X-F%d: v\r\n" % i for i in range(200)) + body[ins:]))
        out.append((f"hdr{k}-cont-sp-300", body[:ins] + b" folded\r\n" * 300 + body[ins:]))
        out.append((f"hdr{k}-cont-ht-2000", body[:ins] + b"\tx\r\n" * 2000 + body[ins:]))
        out.append((f"hdr{k}-cont-mixed-1260", body[:ins] + (b" a\r\nX-Real: 1\r\n" + b"\t b\r\n" * 40) * 30 + body[ins:]))
        out.append((f"hdr{k}-long-line", body[:ins] + b"X-Long: " + b"v" * 100000 + b"\r\n" + body[ins:]))
        out.append((f"hdr{k}-long-cont", body[:ins] + b" " + b"v" * 100000 + b"\r\n" + body[ins:]))
        out.append((f"hdr{k}-no-blank-line-flood", body[:h + 2] + b"".join(b"line %d\r\n" % i for i in range(3000))))
        out.append((f"hdr{k}-lf-only-flood", body[:ins] + b"X: y\n" * 5000 + body[ins:]))
    # lying Content-Length
    cl = body.lower().find(b"content-length:")
    if cl >= 0:
        e = body.find(b"\r\n", cl)
        val = body[cl + 15:e].strip()
        if val.isdigit():
            n = int(val)
            for lab, m in (("plus1", n + 1), ("minus1", max(0, n - 1)), ("zero", 0), ("huge", n + 100000),
                           ("double", 2 * n + 7)):
                out.append((f"content-length-{lab}", body[:cl + 15] + b" " + str(m).encode() + body[e:]))
            out.append(("content-length-sign", body[:cl + 15] + b" +" + val + body[e:]))
            out.append(("content-length-alpha", body[:cl + 15] + b" 1_0" + body[e:]))
    # base64 with stray bytes
    low = body.lower()
    if b"base64" in low:
        hb = body.find(b"\r\n\r\n", low.find(b"base64"))
        if hb >= 0:
            st = hb + 4
            en = body.find(b"\r\n" + dash, st)
            if en > st:
                w = body[st:en]
                for lab, junk in (("nl", b"\r\n"), ("space", b" "), ("bang", b"!"), ("pad", b"="), ("nul", b"\x00")):
                    q = rng.randrange(0, len(w) + 1)
                    out.append((f"base64-stray-{lab}", body[:st] + w[:q] + junk + w[q:] + body[en:]))
                out.append(("base64-every4-nl", body[:st] + b"\r\n".join(w[i:i + 4] for i in range(0, len(w), 4)) + body[en:]))
                out.append(("base64-odd", body[:st] + w[:-1] + body[en:]))
                out.append(("base64-all-junk", body[:st] + b"!" * max(5, len(w)) + body[en:]))
    out.append(("empty", b""))
    out.append(("only-crlf", b"\r\n"))
    out.append(("only-close", dash + b"--"))
    out.append(("only-open", dash + b"\r\n"))
    out.append(("open-twice", dash + b"\r\n" + dash + b"\r\n" + dash + b"--\r\n"))
    return [(l, b) for (l, b) in out if l != "noop"]


def eof_positions(body: bytes, boundary: bytes, rng, every: bool, cap: int) -> List[int]:
    """Positions k at which the input is cut and EOF is delivered (body[:k])."""
    if every or len(body) <= cap:
        return list(range(0, len(body)))
    pos = set(boundary_cuts(body, boundary))
    pos.update(rng.randrange(0, len(body)) for _ in range(cap // 4))
    pos = sorted(pos)
    if len(pos) > cap:
        pos = sorted(rng.sample(pos, cap))
    return pos
