"""HTTP/1.x byte-stream generators for C01 / C03 / C10.

A message is a list of tagged PARTS (tag, bytes); a stream is the concatenation of the
parts of its messages.  Generators produce grammar-valid requests / responses; mutators
take the parts and apply one smuggling-mutation class at one applicable position (or one
random byte edit).  Nothing here decides whether a stream is valid - the TLA+ reference
(spec/HttpFraming.tla) does; labels only say how a stream was made.

Tags: method sp target version eol | hname colon ows hvalue tows eol | eoh |
      body | csize cext eol cdata ceol | tname colon ows tvalue eol | eot |
      vers status reason (responses) | blank (empty line before a message)
"""
from __future__ import annotations

import random
from typing import Callable, Iterable, Iterator, List, Optional, Sequence, Tuple

Part = Tuple[str, bytes]
Parts = List[Part]
CRLF = b"\r\n"


def render(parts: Sequence[Part]) -> bytes:
    return b"".join(p[1] for p in parts)


def offsets(parts: Sequence[Part]) -> List[int]:
    """Start offset of every part (+ total length at the end)."""
    out = [0]
    for _t, b in parts:
        out.append(out[-1] + len(b))
    return out


# ------------------------------------------------------------------ valid requests
METHODS = [b"GET", b"GET", b"GET", b"POST", b"POST", b"PUT", b"DELETE", b"PATCH", b"OPTIONS", b"HEAD",
           b"TRACE", b"PROPFIND", b"M-SEARCH", b"X_a.b~c!"]
BODY_METHODS = [b"POST", b"PUT", b"PATCH", b"DELETE", b"GET", b"PROPFIND"]
ORIGIN_TARGETS = [b"/", b"/", b"/a", b"/a/b/c", b"/a?x=1&y=2", b"/%41%20b", b"/a;p=1", b"/~u/-._", b"/?", b"/a//b",
                  b"/a?b?c", b"/:@!$&'()*+,;=", b"/index.html", b"//double", b"/a%zz", b"/a[1]", b"/a|b", b"/a^b`c{d}"]
ABS_TARGETS = [b"http://example.com/", b"http://example.com", b"http://example.com:8080/p?q", b"https://h/x",
               b"http://[::1]/", b"http://[::1]:80/a", b"http://127.0.0.1/", b"http://a.b-c_d/"]
HEADER_POOL = [(b"Accept", b"*/*"), (b"User-Agent", b"x/1.0 (y; z)"), (b"X-Empty", b""), (b"Cookie", b"a=b; c=d"),
               (b"X-Obs", b"caf\xe9"), (b"X-Tab", b"a\tb"), (b"Content-Type", b"text/plain"),
               (b"Connection", b"keep-alive"), (b"Accept-Encoding", b"gzip, deflate"), (b"X-Colon", b"a:b:c"),
               (b"x-lower", b"v"), (b"X-Num-1_2.3", b"!#$%&'*+-.^_`|~"), (b"If-None-Match", b'"abc"'),
               (b"X-Spaces", b"a  b   c"), (b"Referer", b"http://r/?a=b"), (b"X-Utf8", "\u00e9\u4e2d".encode())]
OWS_CHOICES = [b" ", b" ", b" ", b"", b"  ", b"\t", b" \t "]
BODY_ALPHABET = [b"a", b"b", b"0", b" ", b"\r\n", b"\n", b"\r", b"\x00", b"\xff", b"GET / HTTP/1.1\r\n", b"0\r\n\r\n",
                 b"Host: x\r\n", b":", b";"]


def _rand_body(rng: random.Random, n: int) -> bytes:
    out = bytearray()
    while len(out) < n:
        out += rng.choice(BODY_ALPHABET)
    return bytes(out[:n])


def header_parts(name: bytes, value: bytes, ows: bytes = b" ", tows: bytes = b"", kind: str = "h") -> Parts:
    return [(kind + "name", name), ("colon", b":"), ("ows", ows), (kind + "value", value), ("tows", tows),
            ("eol", CRLF)]


def chunk_parts(data: bytes, size_txt: Optional[bytes] = None, ext: bytes = b"") -> Parts:
    if size_txt is None:
        size_txt = b"%x" % len(data)
    return [("csize", size_txt), ("cext", ext), ("eol", CRLF), ("cdata", data), ("ceol", CRLF)]


def last_chunk_parts(trailers: Sequence[Tuple[bytes, bytes]] = (), size_txt: bytes = b"0", ext: bytes = b"") -> Parts:
    out: Parts = [("csize", size_txt), ("cext", ext), ("eol", CRLF)]
    for n, v in trailers:
        out += header_parts(n, v, kind="t")
    out.append(("eot", CRLF))
    return out


def request_parts(method: bytes, target: bytes, version: bytes = b"HTTP/1.1",
                  headers: Sequence[Tuple[bytes, bytes]] = (), body: Optional[bytes] = None,
                  chunks: Optional[Sequence[bytes]] = None, trailers: Sequence[Tuple[bytes, bytes]] = (),
                  rng: Optional[random.Random] = None) -> Parts:
    parts: Parts = [("method", method), ("sp", b" "), ("target", target), ("sp", b" "), ("version", version),
                    ("eol", CRLF)]
    for n, v in headers:
        ows = rng.choice(OWS_CHOICES) if rng else b" "
        tows = rng.choice([b"", b"", b"", b" ", b"\t"]) if rng else b""
        parts += header_parts(n, v, ows, tows)
    parts.append(("eoh", CRLF))
    if chunks is not None:
        for c in chunks:
            if rng:
                st = rng.choice([b"%x", b"%X", b"0%x", b"%x"]) % len(c)
                ext = rng.choice([b"", b"", b"", b";a=b", b";a", b';a="q s"', b";a=b;c=d"])
            else:
                st, ext = b"%x" % len(c), b""
            parts += chunk_parts(c, st, ext)
        parts += last_chunk_parts(trailers)
    elif body is not None:
        parts.append(("body", body))
    return parts


def gen_request(rng: random.Random, *, last: bool = False, allow_close: bool = True) -> Parts:
    """One grammar-valid request (method x target form x field set x body kind)."""
    r = rng.random()
    version = b"HTTP/1.1"
    headers: List[Tuple[bytes, bytes]] = []
    if last and r < 0.04:
        tgt = rng.choice([b"example.com:443", b"[::1]:8080", b"a:1"])
        return request_parts(b"CONNECT", tgt, headers=[(b"Host", tgt)], rng=rng)
    if r < 0.10:
        method, target = b"OPTIONS", b"*"
    elif r < 0.22:
        method, target = rng.choice(METHODS), rng.choice(ABS_TARGETS)
    else:
        method, target = rng.choice(METHODS), rng.choice(ORIGIN_TARGETS)
    if last and rng.random() < 0.12:
        version = b"HTTP/1.0"
    extra = rng.sample(HEADER_POOL, rng.choice([0, 0, 1, 1, 2, 3]))
    headers = list(extra)
    if version == b"HTTP/1.1" or rng.random() < 0.5:
        headers.insert(rng.randint(0, len(headers)), (rng.choice([b"Host", b"Host", b"host", b"HOST"]),
                                                      rng.choice([b"example.com", b"a", b"h:8080", b"[::1]", b""])))
    body = None
    chunks = None
    trailers: List[Tuple[bytes, bytes]] = []
    kind = rng.random()
    if method != b"HEAD" and (method in BODY_METHODS) and kind < 0.75:
        if kind < 0.35 or version == b"HTTP/1.0":
            n = rng.choice([0, 1, 2, 3, 5, 8, 17, 40])
            body = _rand_body(rng, n)
            cl = rng.choice([b"%d", b"%d", b"%d", b"0%d", b"000%d"]) % n
            headers.insert(rng.randint(0, len(headers)), (rng.choice([b"Content-Length", b"content-length"]), cl))
        else:
            chunks = [_rand_body(rng, rng.choice([1, 1, 2, 3, 7, 16, 20])) for _ in range(rng.choice([0, 1, 1, 2, 3, 4]))]
            headers.insert(rng.randint(0, len(headers)),
                           (b"Transfer-Encoding", rng.choice([b"chunked", b"chunked", b"Chunked", b"CHUNKED"])))
            if rng.random() < 0.3:
                trailers = rng.sample(HEADER_POOL[:6], rng.choice([1, 2]))
    if last and allow_close and version == b"HTTP/1.1" and rng.random() < 0.15:
        headers.append((b"Connection", rng.choice([b"close", b"Close", b"foo, close"])))
    return request_parts(method, target, version, headers, body, chunks, trailers, rng)


def gen_request_stream(rng: random.Random, max_msgs: int = 3) -> List[Parts]:
    """A pipeline of 1..max_msgs valid requests (list of messages)."""
    k = rng.choice([1, 1, 1, 2, 2, 3][:max(1, 2 * max_msgs)])
    k = min(k, max_msgs)
    msgs = []
    for i in range(k):
        m = gen_request(rng, last=(i == k - 1))
        if rng.random() < 0.08:
            m = [("blank", CRLF)] * rng.choice([1, 2]) + m
        msgs.append(m)
    if rng.random() < 0.2:
        # stray empty lines behind the last request (also behind one that closes the connection)
        msgs[-1] = msgs[-1] + [("blank", CRLF)] * rng.choice([1, 2, 3])
    return msgs


def flatten(msgs: Sequence[Parts]) -> Parts:
    out: Parts = []
    for m in msgs:
        out += m
    return out


# ------------------------------------------------------------------ valid / lax responses
def response_parts(code: int, reason: bytes = b"OK", version: bytes = b"HTTP/1.1",
                   headers: Sequence[Tuple[bytes, bytes]] = (), body: Optional[bytes] = None,
                   chunks: Optional[Sequence[bytes]] = None, trailers: Sequence[Tuple[bytes, bytes]] = (),
                   eol: bytes = CRLF, rng: Optional[random.Random] = None) -> Parts:
    parts: Parts = [("vers", version), ("sp", b" "), ("status", b"%d" % code)]
    if reason is not None:
        parts += [("sp", b" "), ("reason", reason)]
    parts.append(("eol", eol))
    for n, v in headers:
        hp = header_parts(n, v, rng.choice(OWS_CHOICES) if rng else b" ")
        hp[-1] = ("eol", eol)
        parts += hp
    parts.append(("eoh", eol))
    if chunks is not None:
        for c in chunks:
            cp = chunk_parts(c)
            cp[2] = ("eol", eol)
            cp[4] = ("ceol", eol)
            parts += cp
        lp = last_chunk_parts(trailers)
        lp = [(t, eol if b == CRLF else b) for t, b in lp]
        parts += lp
    elif body is not None:
        parts.append(("body", body))
    return parts


def gen_response_stream(rng: random.Random) -> Tuple[List[Parts], dict]:
    """1..3 responses; returns (messages, parser options).  Includes the lax forms the client
    parser deliberately accepts (LF-only line ends, folded lines, repeated singleton fields)."""
    opts = {"until_eof": False, "with_body": True}
    msgs: List[Parts] = []
    eol = CRLF if rng.random() < 0.75 else b"\n"
    k = rng.choice([1, 1, 2, 3])
    if rng.random() < 0.08:
        opts["with_body"] = False      # response to HEAD
    for i in range(k):
        lastm = i == k - 1
        if not lastm and rng.random() < 0.35:
            msgs.append(response_parts(rng.choice([100, 102, 103]), rng.choice([b"Continue", b"Early Hints", b""]),
                                       eol=eol, headers=rng.sample(HEADER_POOL[:5], rng.choice([0, 1])), rng=rng))
            continue
        code = rng.choice([200, 200, 200, 201, 204, 304, 404, 500, 301, 206, 299, 999])
        reason = rng.choice([b"OK", b"OK", b"Not Found", b"", b"Multi Word  Reason", b"caf\xe9", None])
        version = rng.choice([b"HTTP/1.1", b"HTTP/1.1", b"HTTP/1.1", b"HTTP/1.0"]) if lastm else b"HTTP/1.1"
        headers = rng.sample(HEADER_POOL, rng.choice([0, 1, 2]))
        if rng.random() < 0.15:
            headers += [(b"Content-Type", b"a/b"), (b"Content-Type", b"c/d")]      # repeated singleton (lax)
        body = None
        chunks = None
        trailers: List[Tuple[bytes, bytes]] = []
        kind = rng.random()
        if code in (204, 304):
            if rng.random() < 0.3:
                headers.append((b"Content-Length", b"5"))
        elif kind < 0.4:
            n = rng.choice([0, 1, 3, 9, 30])
            body = _rand_body(rng, n)
            headers.insert(rng.randint(0, len(headers)), (b"Content-Length", b"%d" % n))
        elif kind < 0.75 and version == b"HTTP/1.1":
            chunks = [_rand_body(rng, rng.choice([1, 2, 5, 16])) for _ in range(rng.choice([0, 1, 2, 3]))]
            headers.insert(rng.randint(0, len(headers)), (b"Transfer-Encoding", rng.choice([b"chunked", b"gzip, chunked"])))
            if rng.random() < 0.3:
                trailers = rng.sample(HEADER_POOL[:6], 1)
        elif lastm and kind < 0.9:
            body = _rand_body(rng, rng.choice([0, 4, 25]))      # close-delimited
            opts["until_eof"] = True
        if lastm and rng.random() < 0.1:
            headers.append((b"Connection", b"close"))
        m = response_parts(code, reason, version, headers, body, chunks, trailers, eol=eol, rng=rng)
        if rng.random() < 0.12 and len(headers) > 0:
            # obs-fold after a random field line
            idx = [j for j, p in enumerate(m) if p[0] == "eol" and j > 0 and m[j - 1][0] == "tows"]
            if idx:
                j = rng.choice(idx)
                m = m[:j + 1] + [("fold", rng.choice([b" ", b"\t", b"  "]) + b"cont"), ("eol", eol)] + m[j + 1:]
        msgs.append(m)
    return msgs, opts


# ------------------------------------------------------------------ smuggling mutation classes
Mut = Tuple[str, bytes]
CTLS = [b"\x00", b"\x01", b"\x0b", b"\x0c", b"\x1f", b"\x7f", b"\r", b"\n", b"\t"]
# byte sequences that str.strip()/str.split() treat as white space after decoding (UTF-8 NBSP, NEL, LINE SEPARATOR,
# IDEOGRAPHIC SPACE, EM SPACE), their latin-1 single bytes, and the ASCII separators FS..US / VT / FF
UWS = [b"\xc2\xa0", b"\xc2\x85", b"\xe2\x80\xa8", b"\xe3\x80\x80", b"\xe2\x80\x83", b"\xa0", b"\x85", b"\x1c", b"\x1f", b"\x0b", b"\x0c"]


def _uws_variants(token: bytes) -> List[bytes]:
    out = []
    for u in UWS:
        out += [u + token, token + u, u + token + u]
    return out


CL_BAD = _uws_variants(b"5") + [b"+5", b"-5", b"0x5", b"5,5", b"5, 5", b"5 5", b"5.0", b"5e0", b"", b"1_0", b"\xd9\xa5", b"5;", b"0b1",
          b"5\x0b", b"five", b" 5", b"5\t", b"00000000000000000005", b"99999999999999999999"]
TE_VALUES = _uws_variants(b"chunked") + [b"gzip," + u + b"chunked" for u in UWS[:5]] + [b"chunked" + u + b", chunked" for u in UWS[:2]] + [b"chunked, chunked", b"gzip, chunked", b"chunked, gzip", b"xchunked", b"chunkedx", b"chunked;q=1",
             b"identity", b"chunked,", b",chunked", b", chunked", b"\x0bchunked", b"chunked\x00", b"chunk ed", b"",
             b"gzip", b"identity, chunked", b"chunked , chunked", b"CHUNKED", b"\"chunked\"", b"chunked\t"]
CSIZE_BAD = _uws_variants(b"3")[:15] + [b"+3", b"0x3", b"3 ", b" 3", b"3\t", b"-3", b"", b"g", b"3,3", b"3.", b"0000000000000000000003",
             b"fffffffffffffffff", b"\xef\xbc\x93", b"3\x00", b"3\r"]
CEXT_VARIANTS = [b";", b";;", b"; a", b";a=", b";=b", b";a=b\x00", b";a=\x01", b";a=b\r", b';a="x', b";a=b c",
                 b" ;a=b", b"\t;a", b";a\x7f"]


def _splice(parts: Sequence[Part], i: int, new: Sequence[Part]) -> bytes:
    return render(list(parts[:i]) + list(new) + list(parts[i + 1:]))


def _insert(parts: Sequence[Part], i: int, new: Sequence[Part]) -> bytes:
    return render(list(parts[:i]) + list(new) + list(parts[i:]))


def header_slots(parts: Sequence[Part], kinds: Tuple[str, ...] = ("hname",)) -> List[int]:
    """Indices at which a new field line can be inserted in each header section (before every
    existing field line and before the end of the section)."""
    out = []
    for i, (t, _b) in enumerate(parts):
        if t in kinds or t == "eoh":
            out.append(i)
    return out


def trailer_slots(parts: Sequence[Part]) -> List[int]:
    return [i for i, (t, _b) in enumerate(parts) if t in ("tname", "eot")]


def mutate_class(parts: Sequence[Part], cls: str, rng: random.Random, per_class: Optional[int] = None) -> List[Mut]:
    """All applications of one mutation class (every applicable position); `per_class` samples."""
    out: List[Mut] = []
    P = list(parts)

    def idx(*tags: str) -> List[int]:
        return [i for i, (t, _b) in enumerate(P) if t in tags]

    def emit(label: str, b: bytes) -> None:
        out.append((f"{cls}:{label}", b))

    if cls == "cl-te":            # Content-Length together with Transfer-Encoding, in every slot / order
        for i in header_slots(P):
            emit(f"te@{i}", _insert(P, i, header_parts(b"Transfer-Encoding", b"chunked")))
            emit(f"cl@{i}", _insert(P, i, header_parts(b"Content-Length", b"3")))
            emit(f"both@{i}", _insert(P, i, header_parts(b"Content-Length", b"3") + header_parts(b"Transfer-Encoding", b"chunked")))
    elif cls == "cl-repeat":      # repeated lengths (same / different value / list syntax)
        for i in header_slots(P):
            for v in (b"3", b"4", b"0"):
                emit(f"{v.decode()}x2@{i}", _insert(P, i, header_parts(b"Content-Length", v) + header_parts(b"content-length", v)))
            emit(f"3,4@{i}", _insert(P, i, header_parts(b"Content-Length", b"3") + header_parts(b"Content-Length", b"4")))
        for i in idx("hvalue"):
            if P[i - 3][1].lower() == b"content-length":
                emit(f"dup-existing@{i}", _insert(P, i + 3, header_parts(P[i - 3][1], P[i][1])))
                emit(f"dup-other@{i}", _insert(P, i + 3, header_parts(P[i - 3][1], P[i][1] + b"1")))
    elif cls == "cl-nondecimal":
        targets = [i for i in idx("hvalue") if P[i - 3][1].lower() == b"content-length"]
        for i in targets:
            for v in CL_BAD:
                emit(f"{v!r}@{i}", _splice(P, i, [("hvalue", v)]))
        if not targets:
            for i in header_slots(P)[-1:]:
                for v in CL_BAD:
                    emit(f"new{v!r}@{i}", _insert(P, i, header_parts(b"Content-Length", v)))
    elif cls == "te-not-chunked":  # a transfer coding that is not a single final chunked
        targets = [i for i in idx("hvalue") if P[i - 3][1].lower() == b"transfer-encoding"]
        for i in targets:
            for v in TE_VALUES:
                emit(f"{v!r}@{i}", _splice(P, i, [("hvalue", v)]))
            emit(f"dup@{i}", _insert(P, i + 3, header_parts(b"Transfer-Encoding", b"chunked")))
            emit(f"second-gzip@{i}", _insert(P, i + 3, header_parts(b"Transfer-Encoding", b"gzip")))
        if not targets:
            for i in header_slots(P)[-1:]:
                for v in TE_VALUES[:8]:
                    emit(f"new{v!r}@{i}", _insert(P, i, header_parts(b"Transfer-Encoding", v)))
    elif cls == "te-http10":
        for i in idx("version"):
            emit(f"@{i}", _splice(P, i, [("version", b"HTTP/1.0")]))
    elif cls == "bare-lf":        # LF instead of CRLF at every line end
        for i in idx("eol", "eoh", "ceol", "eot", "blank"):
            if P[i][1] == CRLF:
                emit(f"@{i}", _splice(P, i, [(P[i][0], b"\n")]))
    elif cls == "bare-cr":
        for i in idx("eol", "eoh", "ceol", "eot", "blank"):
            if P[i][1] == CRLF:
                emit(f"cr@{i}", _splice(P, i, [(P[i][0], b"\r")]))
                emit(f"crcrlf@{i}", _splice(P, i, [(P[i][0], b"\r\r\n")]))
                emit(f"lfcr@{i}", _splice(P, i, [(P[i][0], b"\n\r")]))
    elif cls == "fold":           # obs-fold after every line of a header / trailer section
        for i in idx("eol"):
            if i + 1 < len(P) and P[i + 1][0] in ("hname", "eoh", "tname", "eot"):
                for ws in (b" ", b"\t"):
                    emit(f"{ws!r}@{i}", _insert(P, i + 1, [("fold", ws + b"folded"), ("eol", CRLF)]))
                emit(f"empty-fold@{i}", _insert(P, i + 1, [("fold", b" "), ("eol", CRLF)]))
    elif cls == "ctl":            # control bytes in every syntactic position
        for i in idx("method", "target", "version", "hname", "hvalue", "csize", "cext", "tname", "tvalue", "vers",
                     "status", "reason"):
            b = P[i][1]
            for c in CTLS:
                for where, nb in (("start", c + b), ("mid", b[:len(b) // 2] + c + b[len(b) // 2:]), ("end", b + c)):
                    if where == "mid" and len(b) < 2:
                        continue
                    emit(f"{P[i][0]}-{c!r}-{where}@{i}", _splice(P, i, [(P[i][0], nb)]))
    elif cls == "unicode-ws":     # bytes that decode to Unicode white space, around every token-like part
        for i in idx("method", "version", "hname", "hvalue", "csize", "tname", "tvalue", "vers", "status"):
            b = P[i][1]
            for u in UWS[:7]:
                emit(f"{P[i][0]}-{u!r}-lead@{i}", _splice(P, i, [(P[i][0], u + b)]))
                emit(f"{P[i][0]}-{u!r}-trail@{i}", _splice(P, i, [(P[i][0], b + u)]))
                if b"," in b:
                    emit(f"{P[i][0]}-{u!r}-comma@{i}", _splice(P, i, [(P[i][0], b.replace(b",", b"," + u, 1))]))
    elif cls == "name-ws":        # whitespace around field names
        for i in idx("hname", "tname"):
            n = P[i][1]
            for label, nn in (("sp-colon", n + b" "), ("tab-colon", n + b"\t"), ("lead-sp", b" " + n), ("lead-tab", b"\t" + n),
                              ("inner-sp", n[:1] + b" " + n[1:]), ("empty", b""), ("crlf-in", n[:1] + b"\r\n" + n[1:]),
                              ("paren", n + b"("), ("utf8", n + "\u00e9".encode()), ("colon-first", b":" + n)):
                emit(f"{label}@{i}", _splice(P, i, [(P[i][0], nn)]))
            emit(f"no-colon@{i}", render(P[:i + 1] + P[i + 2:]))
    elif cls == "chunk-size":
        for i in idx("csize"):
            for v in CSIZE_BAD:
                emit(f"{v!r}@{i}", _splice(P, i, [("csize", v)]))
            try:
                n = int(P[i][1], 16)
            except ValueError:
                continue
            emit(f"plus1@{i}", _splice(P, i, [("csize", b"%x" % (n + 1))]))
            if n > 0:
                emit(f"minus1@{i}", _splice(P, i, [("csize", b"%x" % (n - 1))]))
    elif cls == "chunk-ext":
        for i in idx("cext"):
            for v in CEXT_VARIANTS:
                emit(f"{v!r}@{i}", _splice(P, i, [("cext", v)]))
            emit(f"lf@{i}", _splice(P, i, [("cext", b";a=b\nX: y")]))
    elif cls == "chunk-data-end":  # chunk data not followed by exactly CRLF
        for i in idx("ceol"):
            for label, v in (("none", b""), ("lf", b"\n"), ("cr", b"\r"), ("xx", b"XX"), ("crlfcrlf", b"\r\n\r\n"),
                             ("sp-crlf", b" \r\n"), ("crcrlf", b"\r\r\n")):
                emit(f"{label}@{i}", _splice(P, i, [("ceol", v)]))
    elif cls == "trailer":
        for i in trailer_slots(P):
            for label, hp in (("ws-colon", [("tname", b"X "), ("colon", b":"), ("tvalue", b"y"), ("eol", CRLF)]),
                              ("no-colon", [("tname", b"Xy"), ("eol", CRLF)]),
                              ("bare-lf", [("tname", b"X"), ("colon", b":"), ("tvalue", b"y"), ("eol", b"\n")]),
                              ("ctl", [("tname", b"X"), ("colon", b":"), ("tvalue", b"y\x00z"), ("eol", CRLF)]),
                              ("fold", [("tname", b"X"), ("colon", b":"), ("tvalue", b"y"), ("eol", CRLF), ("fold", b" z"), ("eol", CRLF)]),
                              ("cl", header_parts(b"Content-Length", b"5", kind="t")),
                              ("te", header_parts(b"Transfer-Encoding", b"chunked", kind="t")),
                              ("good", header_parts(b"X-T", b"v", kind="t"))):
                emit(f"{label}@{i}", _insert(P, i, hp))
        for i in idx("eot"):
            emit(f"missing-eot@{i}", render(P[:i] + P[i + 1:]))
            emit(f"lf-eot@{i}", _splice(P, i, [("eot", b"\n")]))
    elif cls == "host":
        hosts = [i for i in idx("hname") if P[i][1].lower() == b"host"]
        for i in hosts:
            j = i
            while P[j][0] != "eol":
                j += 1
            emit(f"missing@{i}", render(P[:i] + P[j + 1:]))
            emit(f"dup-same@{i}", _insert(P, j + 1, P[i:j + 1]))
            emit(f"dup-other@{i}", _insert(P, j + 1, header_parts(b"Host", b"evil")))
            emit(f"dup-case@{i}", _insert(P, i, header_parts(b"hOST", b"evil")))
        for i in header_slots(P)[-1:]:
            emit(f"extra-end@{i}", _insert(P, i, header_parts(b"Host", b"evil")))
    elif cls == "request-line":
        for i in idx("method"):
            m = P[i][1]
            for label, v in (("lower", m.lower()), ("mixed", m[:1].lower() + m[1:]), ("empty", b""), ("paren", m + b"("),
                             ("at", m[:1] + b"@" + m[1:]), ("utf8", m + "\u00e9".encode()), ("lead-sp", b" " + m),
                             ("lead-crlf-sp", b"\r\n " + m), ("tls", b"\x16\x03\x01")):
                emit(f"method-{label}@{i}", _splice(P, i, [("method", v)]))
        for i in idx("sp"):
            for label, v in (("tab", b"\t"), ("2sp", b"  "), ("none", b""), ("sp-tab", b" \t"), ("vt", b"\x0b")):
                emit(f"sp-{label}@{i}", _splice(P, i, [("sp", v)]))
        for i in idx("version"):
            for v in (b"HTTP/1.10", b"HTTP/11", b"HTTP/1.", b"http/1.1", b"HTTP/1.1 ", b" HTTP/1.1", b"HTTP/2.0", b"HTTP/0.9",
                      b"HTTP/1.2", b"HTTP/1,1", b"HTTP/\xd9\xa1.1", b"HTTPS/1.1", b"", b"HTTP/1.1\t", b"HTTP /1.1", b"HTTP/9.9"):
                emit(f"version-{v!r}@{i}", _splice(P, i, [("version", v)]))
            emit(f"no-version@{i}", render(P[:i - 1] + P[i + 1:]))
        for i in idx("target"):
            for v in (b"*", b"example.com:80", b"example.com", b"", b"http://", b"http:///x", b"http:/x", b"http:x", b"//h/x",
                      b"/a b", b"/a\xe9", b"/\xff\xfe", b"?x", b"#f", b"a/b", b"/a#frag", b"http://h/ /", b"HTTP://H/"):
                emit(f"target-{v!r}@{i}", _splice(P, i, [("target", v)]))
            if i >= 2 and P[i - 2][0] == "method":
                emit(f"connect-origin@{i}", _splice(P, i - 2, [("method", b"CONNECT")]))
    elif cls == "status-line":
        for i in idx("status"):
            for v in (b"20", b"2000", b"+20", b"2 0", b"abc", b"", b"\xd9\xa2\xd9\xa0\xd9\xa0", b"200\t", b"-20", b"099", b"1e2"):
                emit(f"status-{v!r}@{i}", _splice(P, i, [("status", v)]))
        for i in idx("vers"):
            for v in (b"HTTP/1.10", b"HTTP/11", b"http/1.1", b"HTTP/2.0", b"HTTP/0.9", b"ICY", b"", b" HTTP/1.1", b"\tHTTP/1.1",
                      b"HTTP/1.1\x0b", b"HTTP/\xd9\xa1.1"):
                emit(f"vers-{v!r}@{i}", _splice(P, i, [("vers", v)]))
        for i in idx("sp"):
            for label, v in (("tab", b"\t"), ("2sp", b"  "), ("none", b""), ("vt", b"\x0b"), ("cr", b"\r"), ("fs", b"\x1c"),
                             ("nbsp", b"\xc2\xa0")):
                emit(f"sp-{label}@{i}", _splice(P, i, [("sp", v)]))
    elif cls == "lax-forms":      # forms the lax client parser accepts: applied everywhere
        for i in idx("eol", "eoh", "ceol", "eot"):
            if P[i][1] == CRLF:
                emit(f"lf@{i}", _splice(P, i, [(P[i][0], b"\n")]))
                emit(f"crcrlf@{i}", _splice(P, i, [(P[i][0], b"\r\r\n")]))
        for i in idx("csize"):
            for label, v in (("sp-after", P[i][1] + b" "), ("sp-before", b" " + P[i][1]), ("tab", b"\t" + P[i][1] + b"\t"),
                             ("vt", P[i][1] + b"\x0b")):
                emit(f"csize-{label}@{i}", _splice(P, i, [("csize", v)]))
        alls = [(t, b"\n" if b == CRLF and t in ("eol", "eoh", "ceol", "eot", "blank") else b) for t, b in P]
        emit("all-lf", render(alls))
    elif cls == "inter-junk":     # stray bytes between messages (before every start line but the first, and at the end)
        starts = [i for i in idx("method", "vers") if i > 0]
        for i in starts + [len(P)]:
            for label, j in (("crlf", b"\r\n"), ("lf", b"\n"), ("cr", b"\r"), ("crlfcrlf", b"\r\n\r\n"), ("lflf", b"\n\n"),
                             ("crcrlf", b"\r\r\n"), ("sp", b" "), ("sp-crlf", b" \r\n"), ("nul", b"\x00")):
                emit(f"{label}@{i}", render(P[:i] + [("junk", j)] + P[i:]))
    elif cls == "truncate":       # every prefix that ends at a part boundary
        off = offsets(P)
        data = render(P)
        for i, o in enumerate(off[1:-1], 1):
            emit(f"@{i}", data[:o])
    else:
        raise KeyError(cls)
    # drop no-op mutations
    base = render(P)
    out = [(l, b) for l, b in out if b != base]
    if per_class is not None and len(out) > per_class:
        out = rng.sample(out, per_class)
    return out


REQUEST_CLASSES = ["cl-te", "cl-repeat", "cl-nondecimal", "te-not-chunked", "te-http10", "bare-lf", "bare-cr", "fold",
                   "ctl", "unicode-ws", "name-ws", "chunk-size", "chunk-ext", "chunk-data-end", "trailer", "host", "request-line",
                   "inter-junk", "truncate"]
RESPONSE_CLASSES = ["cl-te", "cl-repeat", "cl-nondecimal", "te-not-chunked", "bare-cr", "fold", "ctl", "unicode-ws", "name-ws",
                    "chunk-size", "chunk-ext", "chunk-data-end", "trailer", "status-line", "lax-forms", "inter-junk", "truncate"]


CLASS_WEIGHT = {"inter-junk": 3, "te-not-chunked": 5, "cl-nondecimal": 4, "cl-te": 2, "cl-repeat": 2, "chunk-size": 3, "unicode-ws": 2}


def random_byte_mutations(data: bytes, rng: random.Random, n: int) -> List[Mut]:
    """n random byte-level edits (flip / insert / delete / duplicate a run / swap)."""
    out: List[Mut] = []
    interesting = [0, 9, 10, 13, 32, 58, 59, 44, 48, 57, 65, 97, 127, 128, 255, 47, 42, 43, 45]
    for _ in range(n):
        b = bytearray(data)
        k = rng.choice([1, 1, 1, 2, 3])
        label = []
        for _j in range(k):
            if not b:
                break
            op = rng.choice(["flip", "flip", "ins", "del", "dup", "swap", "set"])
            i = rng.randrange(len(b))
            if op == "flip":
                b[i] ^= 1 << rng.randrange(8)
            elif op == "set":
                b[i] = rng.choice(interesting)
            elif op == "ins":
                b[i:i] = bytes([rng.choice(interesting)])
            elif op == "del":
                del b[i:i + rng.choice([1, 1, 2, 4])]
            elif op == "dup":
                j = min(len(b), i + rng.choice([1, 2, 8, 20]))
                b[i:i] = b[i:j]
            else:
                j = rng.randrange(len(b))
                b[i], b[j] = b[j], b[i]
            label.append(f"{op}{i}")
        out.append(("bytes:" + ",".join(label), bytes(b)))
    return out


def raw_random(rng: random.Random, n: int) -> bytes:
    """Raw random bytes biased towards HTTP-looking fragments."""
    frags = [b"GET ", b"POST ", b"/", b" HTTP/1.1", b"HTTP/1.1 200 OK", b"\r\n", b"\n", b"\r", b":", b" ", b"Host", b"Content-Length",
             b"Transfer-Encoding", b"chunked", b"0", b"3", b"a", b";", b",", b"\x00", b"\xff", b"\t", b"http://", b"[", b"]", b"@", b"%",
             b"CONNECT ", b"*", b"Connection", b"close", b"upgrade", b"Upgrade", b"websocket", b"\x16\x03\x01"]
    out = bytearray()
    while len(out) < n:
        out += rng.choice(frags) if rng.random() < 0.8 else bytes([rng.randrange(256)])
    return bytes(out[:n])


HOSTILE_TARGETS = [b"http://a:+80/", b"http://a:8_0/", b"http://[::1]:+1/", b"a:+80", b"a:8_0", b"http://a:080/", b"http://a: 80/",
                   b"http://[::1", b"http://[::1]x/", b"http://]/", b"http://[/", b"http://[]/", b"http://[zz]/", b"http://a:b/",
                   b"http://a:99999999999/", b"http://a:-1/", b"http://a:/", b"http://:80/", b"http://@/", b"http://u:p@h/",
                   b"http://h\\x/", b"http://h%zz/", b"http://\xe9/", b"http://h:80:90/", b"http://[::1]:x/", b"//[::1", b"//a:b/",
                   b"/\x00", b"/\xff\xff", b"/%", b"/%0", b"/%zz", b"/" + b"a" * 300, b"/?" + b"q" * 300, b"http://" + b"h" * 300 + b"/",
                   b"[::1", b"a:b", b"a:99999999999", b":", b"::", b"@", b"[", b"]", b"http://h/[", b"http://h/?[", b"/[", b"\\", b"/\\",
                   b"http://xn--/", b"http://a..b/", b"http://.a/", b"http://a./", b"ht!tp://h/", b"1http://h/", b"http://h /",
                   b"http://h:80a/", b"http://h:0x50/", b"http://[::ffff:1.2.3.4]/", b"http://[v1.x]/", b"http://[::1%25eth0]/",
                   b"http://h#f", b"http://h?q", b"http:///", b"http://?", b"http://#", b"s://h", b"s:/h", b"s:h", b"s:", b":h",
                   # bytes that are not valid UTF-8, alone and inside otherwise hostile targets
                   b"\xff", b"\xff\xfe", b"\xe9", b"\xc3", b"foo\xc3", b"*\xff", b"a\xc3:b", b"a:b\xff", b"http://a:b/\xe9",
                   b"http://[::1\xff", b"http://\xff:x/", b"http://:80/\xe9", b"/\x00\xff", b"/\xe9\x00", b"\xff/", b"http:/\xe9",
                   b"h\xe9:80", b"\xe9:\xe9", b"http://a\xff:b\xff/"]


# ------------------------------------------------------------------ segmentations
def single_cuts(n: int) -> Iterator[List[int]]:
    for c in range(1, n):
        yield [c]


def byte_at_a_time(n: int) -> List[int]:
    return list(range(1, n))


def random_cuts(rng: random.Random, n: int, k: int) -> List[int]:
    if n < 2:
        return []
    k = min(k, n - 1)
    return sorted(rng.sample(range(1, n), k))


def pair_cuts(n: int) -> Iterator[List[int]]:
    for a in range(1, n):
        for b in range(a + 1, n):
            yield [a, b]


# ------------------------------------------------------------------ limit families (C10)
def limit_family(position: str, L: int, F: int, H: int) -> List[Tuple[str, bytes, List[List[int]], str]]:
    """For one syntactic position: streams whose construct has length limit-1 / limit / limit+1,
    each with cut sets that put a read boundary at limit-1 / limit / limit+1 inside the construct.
    Returns (label, stream, extra cut sets, mode)."""
    out: List[Tuple[str, bytes, List[List[int]], str]] = []
    host = b"Host: a\r\n"

    def cuts_at(start: int, lim: int, total: int) -> List[List[int]]:
        cs = []
        for d in (-1, 0, 1, 2, 3):
            c = start + lim + d
            if 0 < c < total:
                cs.append([c])
        if 0 < start < total:
            cs.append([start])
        return cs

    for delta in (-1, 0, 1):
        if position == "request-line":
            n = L + delta
            pad = n - len(b"GET / HTTP/1.1")
            if pad < 0:
                continue
            s = b"GET /" + b"a" * pad + b" HTTP/1.1\r\n" + host + b"\r\n"
            out.append((f"{position}{delta:+d}", s, cuts_at(0, L, len(s)), "request"))
            s2 = b"GET / HTTP/1.1\r\n" + host + b"\r\n" + s          # the same line as start of a pipelined message
            out.append((f"{position}-second{delta:+d}", s2, cuts_at(27, L, len(s2)) + [[27]], "request"))
        elif position == "status-line":
            n = L + delta
            pad = n - len(b"HTTP/1.1 200 ")
            if pad < 0:
                continue
            s = b"HTTP/1.1 200 " + b"r" * pad + b"\r\nContent-Length: 0\r\n\r\n"
            out.append((f"{position}{delta:+d}", s, cuts_at(0, L, len(s)), "response"))
        elif position in ("field", "field-first", "field-value-ows"):
            n = F + delta
            if position == "field-value-ows":
                pad = n - len(b"X:") - 4
                if pad < 0:
                    continue
                line = b"X:  " + b"v" * pad + b"  "
            else:
                pad = n - len(b"X: ")
                if pad < 0:
                    continue
                line = b"X: " + b"v" * pad
            if position == "field-first":
                s = b"GET / HTTP/1.1\r\n" + line + b"\r\n" + host + b"\r\n"
                st = 16
            else:
                s = b"GET / HTTP/1.1\r\n" + host + line + b"\r\n\r\n"
                st = 25
            out.append((f"{position}{delta:+d}", s, cuts_at(st, F, len(s)), "request"))
            r = b"HTTP/1.1 200 OK\r\n" + line + b"\r\nContent-Length: 0\r\n\r\n"
            out.append((f"resp-{position}{delta:+d}", r, cuts_at(17, F, len(r)), "response"))
        elif position == "field-name":
            n = F + delta
            pad = n - len(b": v")
            if pad < 1:
                continue
            s = b"GET / HTTP/1.1\r\n" + host + b"N" * pad + b": v\r\n\r\n"
            out.append((f"{position}{delta:+d}", s, cuts_at(25, F, len(s)), "request"))
        elif position == "fold":
            n = F + delta
            pad = n - 3
            if pad < 2:
                continue
            r = b"HTTP/1.1 200 OK\r\nX: " + b"v" * (pad // 2) + b"\r\n " + b"w" * (pad - pad // 2 - 1) + b"\r\nContent-Length: 0\r\n\r\n"
            out.append((f"{position}{delta:+d}", r, cuts_at(17, F, len(r)), "response"))
        elif position in ("chunk-size", "chunk-ext"):
            n = L + delta
            if position == "chunk-size":
                line = b"0" * (n - 1) + b"3"
            else:
                if n < 3:
                    continue
                line = b"3;" + b"x" * (n - 2)
            s = b"POST / HTTP/1.1\r\n" + host + b"Transfer-Encoding: chunked\r\n\r\n" + line + b"\r\nabc\r\n0\r\n\r\n"
            st = s.index(b"\r\n\r\n") + 4
            out.append((f"{position}{delta:+d}", s, cuts_at(st, L, len(s)), "request"))
            r = b"HTTP/1.1 200 OK\r\nTransfer-Encoding: chunked\r\n\r\n" + line + b"\r\nabc\r\n0\r\n\r\n"
            out.append((f"resp-{position}{delta:+d}", r, cuts_at(r.index(b"\r\n\r\n") + 4, L, len(r)), "response"))
        elif position == "trailer":
            n = F + delta
            pad = n - 3
            if pad < 0:
                continue
            line = b"T: " + b"v" * pad
            s = b"POST / HTTP/1.1\r\n" + host + b"Transfer-Encoding: chunked\r\n\r\n3\r\nabc\r\n0\r\n" + line + b"\r\n\r\n"
            st = s.index(b"0\r\n") + 3
            out.append((f"{position}{delta:+d}", s, cuts_at(st, F, len(s)), "request"))
            r = b"HTTP/1.1 200 OK\r\nTransfer-Encoding: chunked\r\n\r\n3\r\nabc\r\n0\r\n" + line + b"\r\n\r\n"
            out.append((f"resp-{position}{delta:+d}", r, cuts_at(r.index(b"0\r\n") + 3, F, len(r)), "response"))
        elif position == "header-count":
            for d2 in (-2, -1, 0, 1):
                k = H + d2 + delta * 0
                if k < 1 or delta != 0:
                    continue
                s = b"GET / HTTP/1.1\r\n" + host + b"".join(b"X%d: v\r\n" % i for i in range(k - 1)) + b"\r\n"
                out.append((f"{position}{d2:+d}", s, [[len(s) // 2], [len(s) - 3]], "request"))
                r = b"HTTP/1.1 200 OK\r\n" + b"".join(b"X%d: v\r\n" % i for i in range(k - 1)) + b"Content-Length: 0\r\n\r\n"
                out.append((f"resp-{position}{d2:+d}", r, [[len(r) // 2]], "response"))
        elif position == "trailer-count":
            for d2 in (-3, -2, -1, 0, 1):
                k = H + d2
                if k < 1 or delta != 0:
                    continue
                s = (b"POST / HTTP/1.1\r\n" + host + b"Transfer-Encoding: chunked\r\n\r\n0\r\n"
                     + b"".join(b"T%d: v\r\n" % i for i in range(k)) + b"\r\n")
                out.append((f"{position}{d2:+d}", s, [[len(s) // 2], [len(s) - 3]], "request"))
        elif position == "unterminated":
            # a line that never ends: the bytes retained must stay bounded, rejection must come
            for kind, pre, lim in (("start", b"", L), ("field", b"GET / HTTP/1.1\r\n", F),
                                   ("chunk", b"POST / HTTP/1.1\r\n" + host + b"Transfer-Encoding: chunked\r\n\r\n", L),
                                   ("trailer", b"POST / HTTP/1.1\r\n" + host + b"Transfer-Encoding: chunked\r\n\r\n0\r\n", F)):
                if delta != 0:
                    continue
                s = pre + b"x" * (3 * max(L, F) + 10)
                out.append((f"{position}-{kind}", s, [[len(pre) + lim - 1], [len(pre) + lim], [len(pre) + lim + 1],
                                                       list(range(len(pre), len(s), 7))], "request"))
    return out


LIMIT_POSITIONS = ["request-line", "status-line", "field", "field-first", "field-value-ows", "field-name", "fold",
                   "chunk-size", "chunk-ext", "trailer", "header-count", "trailer-count", "unterminated"]


# ------------------------------------------------------------------ pipelines with upgrade offers
def gen_upgrade_pipeline(rng: random.Random) -> List[Parts]:
    """3..6 requests on one connection of which one or more offer a protocol upgrade (Connection: upgrade +
    Upgrade: ...), each followed by ordinary pipelined requests.  What an offer means for the rest of the stream
    depends on whether the server accepts it; the reference has a reading for either case."""
    k = rng.choice([3, 3, 4, 4, 5, 6])
    # offers at any position: first, in the middle (followers pipelined behind them) and last (nothing behind)
    offers = set(rng.sample(range(k), rng.choice([1, 2, 2, 3])))
    msgs: List[Parts] = []
    for i in range(k):
        if i in offers:
            up = rng.choice([b"websocket", b"websocket", b"WebSocket", b"tcp", b"h2c", b"websocket, foo"])
            hs = [(b"Host", b"example.com"), (b"Connection", rng.choice([b"upgrade", b"Upgrade", b"keep-alive, upgrade"])),
                  (b"Upgrade", up)]
            rng.shuffle(hs)
            body = None
            method = rng.choice([b"GET", b"GET", b"POST"])
            if method == b"POST" and rng.random() < 0.6:
                body = _rand_body(rng, rng.choice([1, 4, 12]))
                hs.append((b"Content-Length", b"%d" % len(body)))
            msgs.append(request_parts(method, rng.choice([b"/ws", b"/chat?x=1", b"/"]), headers=hs, body=body, rng=rng))
        else:
            m = gen_request(rng, last=False, allow_close=False)
            # keep the followers on the connection: no HTTP/1.0, no close
            msgs.append(m)
    return msgs


# ------------------------------------------------------------------ coded bodies (auto-decompression)
def _codecs() -> List[Tuple[str, bytes, Callable[[bytes], bytes]]]:
    import zlib

    def gz(b: bytes) -> bytes:
        c = zlib.compressobj(6, zlib.DEFLATED, 16 + zlib.MAX_WBITS)
        return c.compress(b) + c.flush()

    def raw(b: bytes) -> bytes:
        c = zlib.compressobj(6, zlib.DEFLATED, -zlib.MAX_WBITS)
        return c.compress(b) + c.flush()

    out: List[Tuple[str, bytes, Callable[[bytes], bytes]]] = [
        ("gzip", b"gzip", gz), ("zlib-deflate", b"deflate", zlib.compress), ("raw-deflate", b"deflate", raw)]
    try:
        import brotli  # type: ignore[import-not-found]
        out.append(("br", b"br", brotli.compress))
    except Exception:  # noqa: BLE001
        pass
    try:
        try:
            from compression import zstd  # type: ignore[import-not-found]
        except Exception:  # noqa: BLE001
            from backports import zstd  # type: ignore[import-not-found,no-redef]
        out.append(("zstd", b"zstd", zstd.compress))
    except Exception:  # noqa: BLE001
        pass
    return out


def gen_coded_stream(rng: random.Random, mode: str) -> Tuple[List[Parts], List[bytes], str]:
    """1..2 messages whose bodies are content-coded (gzip / zlib deflate / raw deflate / br / zstd), framed by
    Content-Length or chunked.  Returns (messages, plain bodies in order, label)."""
    codecs = _codecs()
    msgs: List[Parts] = []
    plain: List[bytes] = []
    labels = []
    for _i in range(rng.choice([1, 1, 2])):
        name, token, comp = rng.choice(codecs)
        n = rng.choice([1, 5, 40, 200, 700])
        words = [b"alpha ", b"beta ", b"gamma\n", b"\x00\x01", b"0123456789", b"\r\n"]
        text = b"".join(rng.choice(words) for _ in range(n))[:n]
        coded = comp(text)
        # coding names are case-insensitive (RFC 9110 8.4.1): GZIP / Gzip must decode like gzip
        if rng.random() < 0.3:
            token = rng.choice([token.upper(), token.capitalize()])
        hs = [(b"Content-Encoding", token)]
        chunks = None
        body = None
        if rng.random() < 0.6:
            # chunk the coded bytes; small first chunks put read boundaries right behind the first size line
            cuts = sorted(set([rng.choice([1, 2, 3, 10])] + [rng.randrange(1, len(coded)) for _ in range(rng.choice([0, 1, 3]))])) if len(coded) > 1 else []
            pieces = [coded[a:b] for a, b in zip([0] + cuts, cuts + [len(coded)]) if b > a]
            chunks = pieces
            hs.append((b"Transfer-Encoding", b"chunked"))
        else:
            body = coded
            hs.append((b"Content-Length", b"%d" % len(coded)))
        rng.shuffle(hs)
        if mode == "request":
            msgs.append(request_parts(b"POST", b"/upload", headers=[(b"Host", b"a")] + hs, body=body, chunks=chunks))
        else:
            msgs.append(response_parts(200, b"OK", headers=hs, body=body, chunks=chunks))
        plain.append(text)
        labels.append(f"{name}/{'chunked' if chunks is not None else 'cl'}/{n}")
    return msgs, plain, "coded " + "+".join(labels)


# ------------------------------------------------------------------ more limit / totality families (C10, C03)
def unterminated_family(L: int, F: int, H: int) -> List[Tuple[str, bytes, List[List[int]], str]]:
    """Input that never completes what it started: a plausible line followed by a run of one byte value that is
    not LF (CR, SP, HTAB, NUL, 0xff, 'x'), and header / trailer blocks with more than max_headers well-formed
    lines but no empty line.  Retained bytes must stay bounded and the stream must be rejected."""
    out: List[Tuple[str, bytes, List[List[int]], str]] = []
    host = b"Host: a\r\n"
    n = 3 * max(L, F) + 10
    prefixes = [("start", b"GET / HTTP/1.1", L, "request"), ("field", b"GET / HTTP/1.1\r\n" + host + b"X: v", F, "request"),
                ("status", b"HTTP/1.1 200 OK", L, "response"), ("resp-field", b"HTTP/1.1 200 OK\r\nX: v", F, "response"),
                ("chunk-size", b"POST / HTTP/1.1\r\n" + host + b"Transfer-Encoding: chunked\r\n\r\n3", L, "request"),
                ("trailer", b"POST / HTTP/1.1\r\n" + host + b"Transfer-Encoding: chunked\r\n\r\n0\r\nT: v", F, "request")]
    for name, pre, lim, mode in prefixes:
        line_start = pre.rfind(b"\n") + 1
        for bname, bv in (("cr", b"\r"), ("sp", b" "), ("tab", b"\t"), ("nul", b"\x00"), ("hi", b"\xff"), ("x", b"x")):
            s = pre + bv * n
            cuts = [[line_start + lim - 1], [line_start + lim + 1], list(range(len(pre), len(s), 7)), list(range(len(pre), len(s), max(2, lim // 3)))]
            out.append((f"run-{name}-{bname}", s, cuts, mode))
    for k in (H + 1, H + 3, 2 * H + 1, 3 * H + 5):
        block = b"".join(b"X%d: v\r\n" % i for i in range(k))
        s = b"GET / HTTP/1.1\r\n" + host + block
        out.append((f"open-header-block-{k}", s, [list(range(30, len(s), 9)), list(range(30, len(s), 64))], "request"))
        r = b"HTTP/1.1 200 OK\r\n" + block
        out.append((f"resp-open-header-block-{k}", r, [list(range(20, len(r), 9))], "response"))
        t = b"POST / HTTP/1.1\r\n" + host + b"Transfer-Encoding: chunked\r\n\r\n0\r\n" + block
        out.append((f"open-trailer-block-{k}", t, [list(range(60, len(t), 9))], "request"))
    return out


def long_number_family() -> List[Tuple[str, bytes, str]]:
    """Content-Length values and chunk sizes with very many digits (int() refuses > 4300 decimal digits)."""
    out = []
    for n in (19, 20, 21, 4299, 4300, 4301, 8000):
        for name, digits in (("ones", b"1" * n), ("zeros5", b"0" * (n - 1) + b"5"), ("nines", b"9" * n)):
            out.append((f"cl-{name}-{n}", b"POST / HTTP/1.1\r\nHost: a\r\nContent-Length: " + digits + b"\r\n\r\nhello", "request"))
            out.append((f"resp-cl-{name}-{n}", b"HTTP/1.1 200 OK\r\nContent-Length: " + digits + b"\r\n\r\nhello", "response"))
        for name, digits in (("zeros5", b"0" * (n - 1) + b"5"), ("effs", b"f" * n), ("nines", b"9" * n)):
            out.append((f"chunk-{name}-{n}", b"POST / HTTP/1.1\r\nHost: a\r\nTransfer-Encoding: chunked\r\n\r\n" + digits + b"\r\nhello\r\n0\r\n\r\n", "request"))
            out.append((f"resp-chunk-{name}-{n}", b"HTTP/1.1 200 OK\r\nTransfer-Encoding: chunked\r\n\r\n" + digits + b"\r\nhello\r\n0\r\n\r\n", "response"))
    return out


# ------------------------------------------------------------------ round-2 families: lines between two unequal limits
def between_limits_family(L: int, F: int) -> List[Tuple[str, bytes, List[List[int]], str]]:
    """Pipelines in which ONE line (a start line or a field line of the first / second / third message) has a length
    between the two limits, lo+1 .. hi, every other line being short; both orders (long message first / last).  With
    line != field the verdict depends only on which kind of line it is - never on which message of a read it is in."""
    out: List[Tuple[str, bytes, List[List[int]], str]] = []
    lo, hi = min(L, F), max(L, F)
    if lo == hi:
        return out
    host = b"Host: a\r\n"
    short_req = b"GET /s HTTP/1.1\r\n" + host + b"\r\n"
    short_resp = b"HTTP/1.1 200 OK\r\nContent-Length: 0\r\n\r\n"
    for n in sorted({lo + 1, (lo + hi) // 2, hi - 1, hi}):
        req_line = b"GET /" + b"a" * (n - len(b"GET / HTTP/1.1")) + b" HTTP/1.1\r\n"
        fld = b"X: " + b"v" * (n - 3) + b"\r\n"
        st_line = b"HTTP/1.1 200 " + b"r" * (n - len(b"HTTP/1.1 200 ")) + b"\r\n"
        long_start = req_line + host + b"\r\n"
        long_field = b"GET /f HTTP/1.1\r\n" + host + fld + b"\r\n"
        body_req = b"POST /b HTTP/1.1\r\n" + host + b"Content-Length: 3\r\n\r\nabc"
        chunk_req = b"POST /c HTTP/1.1\r\n" + host + b"Transfer-Encoding: chunked\r\n\r\n3\r\nabc\r\n0\r\n\r\n"
        rl_start = st_line + b"Content-Length: 0\r\n\r\n"
        rl_field = b"HTTP/1.1 200 OK\r\n" + fld + b"Content-Length: 0\r\n\r\n"
        for kind, longm in (("start", long_start), ("field", long_field)):
            for label, pre, post in (("alone", b"", b""), ("first", b"", short_req), ("second", short_req, b""),
                                     ("third", short_req + short_req, short_req), ("after-body", body_req, b""),
                                     ("after-chunked", chunk_req, short_req)):
                s = pre + longm + post
                cuts = [[len(pre)], [len(pre) + 1], [len(pre) + lo], [len(pre) + len(longm)]] if pre or post else [[lo]]
                out.append((f"between-{kind}-{label}-{n}", s, cuts, "request"))
        for kind, longm in (("start", rl_start), ("field", rl_field)):
            for label, pre, post in (("alone", b"", b""), ("first", b"", short_resp), ("second", short_resp, b""),
                                     ("third", short_resp + short_resp, short_resp)):
                s = pre + longm + post
                cuts = [[len(pre)], [len(pre) + lo], [len(pre) + len(longm)]] if pre or post else [[lo]]
                out.append((f"resp-between-{kind}-{label}-{n}", s, cuts, "response"))
    return out


def header_count_family(H: int) -> List[Tuple[str, bytes, List[List[int]], str]]:
    """Header blocks with H-3 .. H+1 field lines (so that the block has max_headers-1 / max_headers / max_headers+1 lines
    under either way of counting) crossed with the body kinds: none, Content-Length, chunked without / with trailers."""
    out: List[Tuple[str, bytes, List[List[int]], str]] = []
    for nf in range(max(1, H - 4), H + 2):
        for bk, te, body in (("none", b"", b""), ("cl", b"Content-Length: 3\r\n", b"abc"),
                             ("chunked", b"Transfer-Encoding: chunked\r\n", b"3\r\nabc\r\n0\r\n\r\n"),
                             ("chunked-empty", b"Transfer-Encoding: chunked\r\n", b"0\r\n\r\n"),
                             ("chunked-trailer", b"Transfer-Encoding: chunked\r\n", b"3\r\nabc\r\n0\r\nT: v\r\n\r\n"),
                             ("chunked-2trailers", b"Transfer-Encoding: chunked\r\n", b"1\r\na\r\n2\r\nbc\r\n0\r\nT: v\r\nU: w\r\n\r\n")):
            used = 1 + (1 if te else 0)
            extra = nf - used
            if extra < 0:
                continue
            fields = b"".join(b"X%d: v\r\n" % i for i in range(extra))
            follow = b"GET /next HTTP/1.1\r\nHost: a\r\n\r\n"
            s = b"POST /h HTTP/1.1\r\nHost: a\r\n" + te + fields + b"\r\n" + body + follow
            out.append((f"header-lines-{nf}-{bk}", s, [], "request"))
            r = b"HTTP/1.1 200 OK\r\n" + (te or b"Content-Length: 0\r\n") + b"".join(b"X%d: v\r\n" % i for i in range(nf - 1)) + b"\r\n" + body \
                + b"HTTP/1.1 204 No\r\n\r\n"
            out.append((f"resp-header-lines-{nf}-{bk}", r, [], "response"))
    return out


def fold_sum_family(F: int) -> List[Tuple[str, bytes, List[List[int]], str]]:
    """Folded response headers (obs-fold, lax client parser only) whose continuation lines are each well below the
    field limit but whose sum reaches limit-1 / limit / limit+1 / several times the limit; the continuation lines start
    with short or long runs of SP / HTAB (what is delivered and counted is the raw join, not one SP per fold)."""
    out: List[Tuple[str, bytes, List[List[int]], str]] = []
    for ws_name, ws in (("sp1", b" "), ("tab1", b"\t"), ("sp-run", None), ("mixed-run", None)):
        for total in (F - 1, F, F + 1, 3 * F, 12 * F):
            first = b"v" * min(8, max(1, total // 4))
            remain = total - len(first)
            piece = max(4, min(F - 2, remain // 3 if total <= F + 1 else F - 2))
            lines = []
            while remain > 0:
                n = min(piece, remain)
                if ws is not None:
                    lead = ws
                elif ws_name == "sp-run":
                    lead = b" " * max(1, n - 1)
                else:
                    lead = (b" \t" * n)[: max(1, n - 2)]
                lead = lead[: max(1, n - 1)] if n > 1 else lead[:1]
                lines.append(lead + b"c" * (n - len(lead)))
                remain -= n
            r = b"HTTP/1.1 200 OK\r\nX: " + first + b"\r\n" + b"".join(l + b"\r\n" for l in lines) + b"Content-Length: 0\r\n\r\n"
            out.append((f"fold-sum-{ws_name}-{total}", r, [[len(r) // 2], list(range(20, len(r), max(7, F // 3)))], "response"))
    return out
