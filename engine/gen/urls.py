"""Route-table / URL generators for C14 (rendering, spellings, substitutions).

Nothing here judges anything: the structures (templates, entries, paths) come from the
TLA+ model (spec/UrlDispatchMC.tla prints its grammar), this module only turns them into
the strings the aiohttp API takes, and derives odd spellings / substituted alphabets whose
expected results the trace spec computes itself (UrlDispatch!Canon, UrlDispatch!Resolve).

Conventions (same as the spec): a segment is a list of code points, a path a non-empty
list of segments ("/" = [[]]), a template {"parts": [{"k","s","n"}], "slash": bool}, an
entry {"tpl", "methods": [..], "app": [[seg,..],..], "domain": str}.
"""
from __future__ import annotations

import copy
import random
from typing import Any, Dict, Iterable, List, Sequence, Tuple

Seg = List[int]
Path = List[Seg]


def cps(s: str) -> List[int]:
    return [ord(c) for c in s]


def seg_str(seg: Sequence[int]) -> str:
    return "".join(chr(c) for c in seg)


# ------------------------------------------------------------------ from TLC values
def entry_from_tla(v: Dict[str, Any]) -> dict:
    """tlaval-parsed entry record -> JSON-able entry."""
    tpl = v["tpl"]
    return {
        "tpl": {"parts": [{"k": p["k"], "s": list(p["s"]), "n": p["n"]} for p in tpl["parts"]],
                "slash": bool(tpl["slash"])},
        "methods": sorted(v["methods"]),
        "app": [[list(seg) for seg in prefix] for prefix in v["app"]],
        "domain": v["domain"],
    }


# ------------------------------------------------------------------ rendering
def render_part(p: dict) -> str:
    k = p["k"]
    if k == "lit":
        return seg_str(p["s"])
    if k == "var":
        return "{" + p["n"] + "}"
    if k == "mid":
        return seg_str(p["s"]) + "{" + p["n"] + "}"
    if k == "num":
        return "{" + p["n"] + r":\d+}"
    if k == "tail":
        return "{" + p["n"] + ":.*}"
    raise ValueError(f"cannot render part {p!r}")


def is_static(tpl: dict) -> bool:
    return any(p["k"] == "static" for p in tpl["parts"])


def is_dynamic(tpl: dict) -> bool:
    return any(p["k"] != "lit" for p in tpl["parts"])


def render_template(tpl: dict) -> str:
    """The path string given to add_route (for static: the prefix given to add_static)."""
    parts = [p for p in tpl["parts"] if p["k"] != "static"]
    if not parts:
        return "/"
    s = "/" + "/".join(render_part(p) for p in parts)
    if tpl["slash"]:
        s += "/"
    return s


def render_prefix(prefix: Sequence[Seg]) -> str:
    return "/" + "/".join(seg_str(s) for s in prefix)


def render_path(path: Path) -> str:
    """Plain spelling of a model path (ASCII, nothing needing quoting)."""
    return "/" + "/".join(seg_str(s) for s in path)


def describe_entry(e: dict) -> str:
    where = "".join(render_prefix(p) + ">" for p in e["app"])
    dom = (e["domain"] + ":") if e["domain"] else ""
    kind = "static " if is_static(e["tpl"]) else ""
    return f"{dom}{where}{kind}{render_template(e['tpl'])}[{','.join(e['methods'])}]"


def describe_table(table: List[dict]) -> str:
    return " ; ".join(describe_entry(e) for e in table)


# ------------------------------------------------------------------ spellings
_UNRESERVED = set(cps("abcdefghijklmnopqrstuvwxyzABCDEFGHIJKLMNOPQRSTUVWXYZ0123456789-._~"))
_PCHAR_EXTRA = set(cps("!$&'()*+,;=:@"))
_MUST_ENCODE = {0x2F, 0x25, 0x3F, 0x23, 0x20, 0x5C, 0x7B, 0x7D, 0x22, 0x3C, 0x3E, 0x5E, 0x60, 0x7C, 0x5B, 0x5D}


def _pct(c: int, lower: bool) -> str:
    out = "".join("%%%02X" % b for b in chr(c).encode("utf-8"))
    return out.lower() if lower else out


def spell_segment(seg: Seg, style: str, rng: random.Random) -> str:
    """One raw spelling of a decoded segment; every style percent-decodes back to seg."""
    out = []
    for k, c in enumerate(seg):
        must = c in _MUST_ENCODE or c < 0x21 or c == 0x7F
        if style == "plain":
            enc = must or c > 0x7F
        elif style == "raw8":            # non-ASCII sent as raw UTF-8 in the request line
            enc = must
        elif style == "all":
            enc = True
        elif style == "first":
            enc = must or k == 0 or c > 0x7F
        elif style == "mixed":
            enc = must or rng.random() < 0.4
        else:
            raise ValueError(style)
        lower = style in ("first", "mixed") and rng.random() < 0.5
        out.append(_pct(c, lower) if enc else chr(c))
    return "".join(out)


SPELL_STYLES = ("plain", "raw8", "all", "first", "mixed")


def spell_path(path: Path, style: str, rng: random.Random) -> str:
    return "/" + "/".join(spell_segment(s, style, rng) for s in path)


ODD_SEGMENTS: List[str] = [
    "é", "a b", "%", "%2F", "%2f", "%25", "a/b", "/", "a+b", "a;b", "a:b@c", "日本", "~a.-_", "1", "12",
    "{x}", "a?b", "a#b", "a%zz", "ab", "A", "b\\c", "=&", "€uro", "😀",
]


def odd_paths(path: Path, rng: random.Random, n: int) -> List[Path]:
    """Paths derived from a model path by structural mutations (still canonical segment lists)."""
    out: List[Path] = []
    for _ in range(n):
        p = [list(s) for s in path]
        kind = rng.choice(["slash-in-seg", "double", "trail", "replace", "replace", "append", "lead", "swapcase"])
        if kind == "slash-in-seg" and len(p) >= 2:
            j = rng.randrange(len(p) - 1)
            p[j:j + 2] = [p[j] + [0x2F] + p[j + 1]]          # "%2F" is not a separator
        elif kind == "double":
            p.insert(rng.randrange(len(p) + 1), [])
        elif kind == "trail":
            p += [[]] * rng.choice([1, 2])
        elif kind == "lead":
            p = [[]] * rng.choice([1, 2]) + p
        elif kind == "append":
            p.append(cps(rng.choice(ODD_SEGMENTS)))
        elif kind == "swapcase":
            j = rng.randrange(len(p))
            p[j] = cps(seg_str(p[j]).swapcase())
        else:
            j = rng.randrange(len(p))
            p[j] = cps(rng.choice(ODD_SEGMENTS))
        if p:
            out.append(p)
    return out


# ------------------------------------------------------------------ alphabet substitution
SUBSTITUTE_LITERALS: List[str] = ["é", "a b", "a+b", "日本", "a;b:@", "ü~", "x=1&y", "a,b!"]


def substitute_table(table: List[dict], old: Seg, new: Seg) -> List[dict]:
    """Rename literal segment `old` to `new` everywhere in templates and sub-app prefixes.

    The rule is structural, so the expected answers are the same up to this renaming."""
    t2 = copy.deepcopy(table)
    for e in t2:
        for p in e["tpl"]["parts"]:
            if p["k"] in ("lit", "mid") and p["s"] == old:
                p["s"] = list(new)
        e["app"] = [[list(new) if s == old else s for s in prefix] for prefix in e["app"]]
    return t2


def substitute_path(path: Path, old: Seg, new: Seg) -> Path:
    out = []
    for s in path:
        if s == old:
            out.append(list(new))
        elif len(s) > len(old) and s[:len(old)] == old:
            out.append(list(new) + s[len(old):])         # "ab" under /a{x}
        else:
            out.append(list(s))
    return out


# ------------------------------------------------------------------ url_for values
VALUE_CLASSES: Dict[str, List[str]] = {
    "alnum": ["ab1", "Z", "0"],
    "space": ["a b", " "],
    "percent": ["%", "100%", "%zz"],
    "pct2F": ["%2F", "a%2Fb", "%2f"],
    "pct25": ["%25", "%41"],
    "question": ["?", "a?b=c"],
    "hash": ["#", "a#b"],
    "nonascii": ["é", "日本", "😀", "ü b"],
    "plus": ["+", "a+b"],
    "semicolon": [";", "a;b=c"],
    "colon": [":", "a:b"],
    "at": ["@", "u@h"],
    "misc": ["~-._", "!$&'()*,=", "\\", "|^`[]<>\"", ".", ".."],
}


def values_for(kind: str) -> List[Tuple[str, str]]:
    """(class, value) pairs usable for a variable of the given part kind."""
    if kind == "num":
        return [("digits", "0"), ("digits", "42"), ("digits", "007")]
    return [(c, v) for c, vs in VALUE_CLASSES.items() for v in vs]


def _lit(s: str) -> dict:
    return {"k": "lit", "s": cps(s), "n": ""}


def _var(n: str) -> dict:
    return {"k": "var", "s": [], "n": n}


def _mid(s: str, n: str) -> dict:
    return {"k": "mid", "s": cps(s), "n": n}


def urlfor_templates() -> List[dict]:
    """Dynamic templates for the url_for inverse driver (beyond the model's own)."""
    T = lambda parts, slash=False: {"parts": parts, "slash": slash}  # noqa: E731
    return [
        T([_var("x")]),
        T([_var("x")], True),
        T([_lit("a"), _var("x")]),
        T([_var("x"), _lit("b")]),
        T([_mid("a", "x")]),
        T([_lit("a"), _var("x"), _lit("b")]),
        T([_var("x"), _var("y")]),
        T([_lit("a"), _mid("b", "x"), _var("y")], True),
        T([_lit("a"), {"k": "num", "s": [], "n": "n"}]),
        T([_lit("a"), {"k": "tail", "s": [], "n": "t"}]),
        T([_lit("é"), _var("x")]),                      # literal text that needs quoting
        T([_lit("a b"), _var("x"), _lit("c")]),
        T([_lit("a+b;c"), _var("x")]),                    # literal text that needs none
    ]


def variables_of(tpl: dict) -> List[Tuple[str, str]]:
    return [(p["n"], p["k"]) for p in tpl["parts"] if p["k"] in ("var", "mid", "num", "tail")]


# ------------------------------------------------------------------ redirect targets
REDIRECT_TARGETS: List[str] = [
    "//evil", "//evil/", "/\\evil", "/\\evil/", "/\\/evil", "///a", "/a//b/", "/a//b", "/a/b", "/a/b/",
    "//evil?x=1", "//evil//?x=//y", "/%2Fevil", "/%2F/evil", "/%5Cevil", "/%5C/evil//q",
    "//evil.com/%2e%2e", "/\\\\evil", "//evil//q", "/\\/evil//q", "//evil/x/r", "/\\evil/x//r",
    "/\\evil//x/r", "///evil///", "//evil/?next=//evil2", "/a//b/?q=%2F%2Fx", "////", "//", "/",
    "/evil", "/evil/", "//evil.com", "//evil.com/", "/.//evil", "//evil%2F", "/%09/evil", "/a//b//q",
    "//@evil", "//evil:80/", "/a/b//", "///a/b", "/\\a\\b", "/\\/\\evil/",
]

REDIRECT_OPTIONS: List[Tuple[bool, bool, bool]] = [
    (True, False, True), (True, False, False), (False, True, True), (False, True, False),
    (False, False, True), (False, False, False),
]


def redirect_table() -> List[dict]:
    """A table under which many odd targets resolve after normalisation."""
    T = lambda parts, slash=False: {"parts": parts, "slash": slash}  # noqa: E731
    tpls = [
        T([_var("x")]), T([_var("x")], True), T([_lit("a"), _lit("b")]), T([_lit("a"), _lit("b")], True),
        T([_lit("z"), {"k": "tail", "s": [], "n": "t"}]), T([_var("x"), _var("y"), _lit("q")]),
        T([_var("x"), _var("y"), _lit("r")], True), T([], True),
    ]
    return [{"tpl": t, "methods": ["GET"], "app": [], "domain": ""} for t in tpls]


# ------------------------------------------------------------------ Host headers / domain rules
DOMAIN_RULES: List[str] = [
    "d1.example", "D1.Example", "d1.example:80", "d1.example:8080", "d1.example:8000", "d1.example:81",
    "10.0.0.8", "web80", "host8.example0", "d1.example.", "a",
]


def rule_name_port(rule: str) -> Tuple[str, str]:
    r = rule.rstrip(".")
    name, sep, port = r.rpartition(":")
    if sep and port.isdigit():
        return name, port
    return r, ""


def host_headers(rule: str, rng: random.Random) -> List[str]:
    """Host header spellings around a domain rule: same name with/without/other ports, case, near misses."""
    name, port = rule_name_port(rule)
    low = name.lower()
    ports = ["", "80", "8080", "8000", "88", "800", "81", "443", "8", "0"]
    if port and port not in ports:
        ports.append(port)
    out = [low + (":" + p if p else "") for p in ports]
    out += [low.upper(), low.upper() + ":8080", low.capitalize() + (":" + port if port else "")]
    out += [low + "0", low + "8", low[:-1] if len(low) > 1 else low + "x", "x" + low, low + ".", "other.example",
            "other.example:80"]
    rng.shuffle(out)
    return out


def substitute_domain(table: List[dict], old: str, new: str) -> List[dict]:
    t2 = copy.deepcopy(table)
    for e in t2:
        if e["domain"] == old:
            e["domain"] = new
    return t2


def domains_of(table: List[dict]) -> List[str]:
    out: List[str] = []
    for e in table:
        if e["domain"] and e["domain"] not in out:
            out.append(e["domain"])
    return out


def chunks(xs: Sequence[Any], n: int) -> Iterable[Sequence[Any]]:
    for k in range(0, len(xs), n):
        yield xs[k:k + n]
