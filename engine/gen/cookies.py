"""Generators for C16: host/path lattice, Set-Cookie header grammar, random histories.

Hosts are label lists (["a", "example", "com"]), paths are {"segs": [...], "trail": bool};
the same structures travel to the TLA+ reference (spec/CookieStore.tla), which interprets
them on label/segment sequences.  This module only *renders* them to the strings the real
code sees and *chooses* stimuli; it never decides whether a cookie may be sent.
"""
from __future__ import annotations

import calendar
import time as _time
from typing import Any, Dict, List, Optional

EXAMPLE = ["example", "com"]
A_EX = ["a", "example", "com"]
B_EX = ["b", "example", "com"]
X_EX = ["xexample", "com"]
COM = ["com"]
IP = ["10", "0", "0", "1"]
HOSTS: List[List[str]] = [EXAMPLE, A_EX, B_EX, X_EX, COM, IP]


def P(segs: List[str], trail: bool) -> dict:
    return {"segs": list(segs), "trail": bool(trail) if segs else True}


ROOT = P([], True)
PATHS: List[dict] = [ROOT, P(["p"], False), P(["p"], True), P(["p", "q"], False), P(["pq"], False)]
SCHEMES = ["http", "https"]
NAMES = ["n", "m"]
DOM_KINDS = ["absent", "same", "parent", "child", "sibling", "lookalike", "dotparent", "traildot", "upper"]

T0 = 10                                  # model clock at the start of a history
EPOCH0 = 1_000_000_000                   # real clock value that corresponds to model time 0
CLOCK_FRACTION = 0.5                     # the patched clock reads EPOCH0 + t + 0.5
EXP_PAST, EXP_FUTURE = 5, 13             # absolute model times used for Expires
EXP_EPOCH = 1                            # CookieStore!EpochDate: rendered literally as 1 Jan 1970 00:00:00 GMT
BAD_MAXAGE = -2                          # Max-Age present but not a number (RFC 6265 5.2.2: attribute ignored)
RC_VALUES = {"n": 1001, "m": 1002}       # values of per-request cookies (cookies= of a session call)


def host_str(labels: List[str]) -> str:
    return ".".join(labels)


def path_str(p: dict) -> str:
    if not p["segs"]:
        return "/"
    return "/" + "/".join(p["segs"]) + ("/" if p["trail"] else "")


def url_str(scheme: str, host: List[str], path: dict) -> str:
    return f"{scheme}://{host_str(host)}{path_str(path)}"


def battery(hosts: Optional[List[List[str]]] = None, paths: Optional[List[dict]] = None,
            schemes: Optional[List[str]] = None) -> List[dict]:
    return [{"host": list(h), "path": dict(p), "scheme": s}
            for h in (hosts or HOSTS) for p in (paths or PATHS) for s in (schemes or SCHEMES)]


# ---------------------------------------------------------------- Domain attribute kinds
_SIB = {"a": "b", "b": "a", "example": "xexample", "xexample": "example", "com": "org", "10": "1"}
_SHORT = {"xexample": "example", "example": "ample", "com": "om", "10": "0"}


def _da(present: bool, labels: List[str], lead: bool = False, trail: bool = False, up: bool = False) -> dict:
    return {"present": present, "labels": list(labels), "lead": lead, "trail": trail, "up": up}


def resolve_dom(host: List[str], kind: str) -> dict:
    """Same table as CookieStoreMC!ResolveDom (only used to *choose* stimuli)."""
    h = list(host)
    if kind == "absent":
        return _da(False, [])
    if kind == "same":
        return _da(True, h)
    if kind == "parent":
        return _da(True, h[1:])
    if kind == "child":
        if h == EXAMPLE:
            return _da(True, A_EX)
        if h == COM:
            return _da(True, EXAMPLE)
        return _da(True, ["c"] + h)
    if kind == "sibling":
        return _da(True, [_SIB.get(h[0], "z")] + h[1:])
    if kind == "lookalike":
        for i, l in enumerate(h):
            if l in _SHORT:
                return _da(True, [_SHORT[l]] + h[i + 1:])
        return _da(True, h)
    if kind == "dotparent":
        return _da(True, h[1:], lead=True)
    if kind == "traildot":
        return _da(True, h[1:] if len(h) > 1 else h, trail=True)
    if kind == "upper":
        return _da(True, h, up=(h != IP))        # digits have no case
    raise ValueError(kind)


def dom_attr_str(da: dict) -> str:
    s = ".".join(da["labels"])
    if da.get("up"):
        s = s.upper()
    return ("." if da.get("lead") else "") + s + ("." if da.get("trail") else "")


# ---------------------------------------------------------------- dates
_DAYS = ["Mon", "Tue", "Wed", "Thu", "Fri", "Sat", "Sun"]
_LONGDAYS = ["Monday", "Tuesday", "Wednesday", "Thursday", "Friday", "Saturday", "Sunday"]
_MONTHS = ["Jan", "Feb", "Mar", "Apr", "May", "Jun", "Jul", "Aug", "Sep", "Oct", "Nov", "Dec"]


def http_date(model_t: int, fmt: str = "rfc1123") -> str:
    real = 0 if model_t == EXP_EPOCH else EPOCH0 + model_t
    tm = _time.gmtime(real)
    assert calendar.timegm(tm) == real
    if fmt == "rfc850":
        return "%s, %02d-%s-%02d %02d:%02d:%02d GMT" % (_LONGDAYS[tm.tm_wday], tm.tm_mday, _MONTHS[tm.tm_mon - 1],
                                                        tm.tm_year % 100, tm.tm_hour, tm.tm_min, tm.tm_sec)
    if fmt == "asctime":
        return "%s %s %2d %02d:%02d:%02d %d" % (_DAYS[tm.tm_wday], _MONTHS[tm.tm_mon - 1], tm.tm_mday,
                                               tm.tm_hour, tm.tm_min, tm.tm_sec, tm.tm_year)
    return "%s, %02d %s %04d %02d:%02d:%02d GMT" % (_DAYS[tm.tm_wday], tm.tm_mday, _MONTHS[tm.tm_mon - 1],
                                                    tm.tm_year, tm.tm_hour, tm.tm_min, tm.tm_sec)


# ---------------------------------------------------------------- events
def blank_event(ev: str = "init") -> dict:
    return {"ev": ev, "host": [], "path": dict(ROOT), "scheme": "http", "name": "", "val": 0,
            "dom": _da(False, []), "pth": {"present": False, "segs": [], "trail": True},
            "secure": False, "maxage": -1, "expires": 0, "d": [], "n": 0, "re": 0,
            "via": "jar", "start": False, "rc": [0, 0]}


def receive_event(host: List[str], path: dict, scheme: str, name: str, val: int, dom: dict,
                  pth: Optional[dict], secure: bool, maxage: int, expires: int) -> dict:
    e = blank_event("Receive")
    e.update({"host": list(host), "path": dict(path), "scheme": scheme, "name": name, "val": val,
              "dom": dict(dom), "secure": bool(secure), "maxage": maxage, "expires": expires,
              "pth": {"present": pth is not None, "segs": list(pth["segs"]) if pth else [],
                      "trail": bool(pth["trail"]) if pth else True}})
    return e


def render_set_cookie(e: dict, rng: Any = None) -> str:
    """The literal Set-Cookie field value of a Receive event.  With rng: well-formed spelling
    variants (attribute order, attribute-name case, separators, date formats, extra
    attributes the store must ignore)."""
    attrs: List[str] = []

    def nm(s: str) -> str:
        if rng is None:
            return s
        return rng.choice([s, s, s.lower(), s.upper()])

    if e["dom"]["present"]:
        attrs.append(f"{nm('Domain')}={dom_attr_str(e['dom'])}")
    if e["pth"]["present"]:
        attrs.append(f"{nm('Path')}={path_str(e['pth'])}")
    if e["secure"]:
        attrs.append(nm("Secure"))
    if e["maxage"] >= 0:
        attrs.append(f"{nm('Max-Age')}={e['maxage']}")
    elif e["maxage"] == BAD_MAXAGE:
        attrs.append(f"{nm('Max-Age')}=" + ("2x" if rng is None else rng.choice(["2x", "abc", "1.5", "2s"])))
    if e["expires"]:
        fmt = "rfc1123" if rng is None else rng.choice(["rfc1123", "rfc1123", "rfc850", "asctime"])
        attrs.append(f"{nm('Expires')}={http_date(e['expires'], fmt)}")
    sep = "; "
    if rng is not None:
        if rng.random() < 0.3:
            attrs.append(rng.choice(["HttpOnly", "SameSite=Lax", "SameSite=None", "Version=1"]))
        rng.shuffle(attrs)
        sep = rng.choice(["; ", "; ", ";", " ; "])
    return sep.join([f"{e['name']}={e['val']}"] + attrs)


def random_lifetime(rng: Any) -> tuple:
    ma = rng.choice([-1] * 12 + [2] * 6 + [0, 0] + [BAD_MAXAGE])
    ex = rng.choice([0] * 14 + [EXP_FUTURE] * 4 + [EXP_PAST] * 2 + [EXP_EPOCH])
    if ma == BAD_MAXAGE and rng.random() < 0.7:
        ex = rng.choice([EXP_FUTURE, EXP_FUTURE, EXP_PAST])
    return ma, ex


# ---------------------------------------------------------------- re-sent cookies
def default_path(p: dict) -> dict:
    """Default path of a request path (only to *choose* an equivalent explicit Path attribute)."""
    if not p["segs"]:
        return dict(ROOT)
    if p["trail"]:
        return P(p["segs"], False)
    return P(p["segs"][:-1], False) if len(p["segs"]) > 1 else dict(ROOT)


def resend_event(rng: Any, e0: dict, ordinal: int) -> dict:
    """The origin issues the cookie of an earlier Receive again: same name, same VALUE (re = ordinal
    of that Receive), same (domain, path) spelled the same or equivalently, other attributes."""
    e = {k: (dict(v) if isinstance(v, dict) else list(v) if isinstance(v, list) else v) for k, v in e0.items()}
    e["re"] = ordinal
    e["scheme"] = rng.choice(SCHEMES)
    r = rng.random()
    if r < 0.7:
        e["secure"] = not e0["secure"]
    if r > 0.5 or rng.random() < 0.3:
        e["maxage"], e["expires"] = rng.choice([(-1, 0), (2, 0), (-1, EXP_FUTURE), (2, EXP_PAST)])
    d = e["dom"]
    usable = d["present"] and not d["trail"] and d["labels"]
    s = rng.random()
    if usable and s < 0.25:
        d["lead"] = not d["lead"]                         # ".example.com" == "example.com"
    elif usable and s < 0.35 and d["labels"] != IP:
        d["up"] = not d["up"]                             # case-insensitive
    elif usable and s < 0.55 and d["labels"] == e["host"]:
        e["dom"] = _da(False, [])                         # Domain=<host>  ->  host-only, same identity
    elif not usable and s < 0.3:
        e["dom"] = _da(True, e["host"])                   # host-only  ->  Domain=<host>
    if not e["pth"]["present"] and rng.random() < 0.4:
        dp = default_path(e["path"])                      # explicit Path equal to the default path
        e["pth"] = {"present": True, "segs": list(dp["segs"]), "trail": dp["trail"]}
    return e


# ---------------------------------------------------------------- random histories
def random_history(rng: Any, nmin: int = 4, nmax: int = 12, queries: bool = False) -> Dict[str, Any]:
    """A seeded history of stimuli, biased towards collisions (same name, related hosts,
    /p vs /p/, overwrite with/without expiry, save+load in the middle)."""
    unsafe = rng.random() < 0.2
    focus = rng.choice(["site", "site", "site", "lookalike", "ip", "all"])
    if focus == "site":
        hosts = [EXAMPLE, A_EX, B_EX]
    elif focus == "lookalike":
        hosts = [EXAMPLE, X_EX, COM, A_EX]
    elif focus == "ip":
        hosts = [IP, EXAMPLE, COM]
    else:
        hosts = HOSTS
    names = rng.choice([["n"], ["n"], ["n", "m"]])
    pathpool = rng.choice([PATHS, PATHS, [ROOT, PATHS[1], PATHS[2]], [ROOT, PATHS[1]]])
    stim: List[dict] = []
    now = T0
    n = rng.randint(nmin, nmax)
    val = 0
    for _ in range(n):
        r = rng.random()
        recv = [e for e in stim if e["ev"] == "Receive"]
        if recv and r < 0.10:
            k = rng.randrange(len(recv)) if rng.random() < 0.4 else len(recv) - 1
            stim.append(resend_event(rng, recv[k], k + 1))
        elif r < 0.62 or not stim:
            val += 1
            h = rng.choice(hosts)
            kind = rng.choice(["absent"] * 14 + ["same"] * 8 + ["parent"] * 6 + ["dotparent", "child", "sibling",
                                                                                   "lookalike", "traildot"] * 2 + ["upper"])
            pa = None if rng.random() < 0.4 else rng.choice(pathpool)
            ma, ex = random_lifetime(rng)
            stim.append(receive_event(h, rng.choice(pathpool), rng.choice(SCHEMES), rng.choice(names), val,
                                      resolve_dom(h, kind), pa, rng.random() < 0.25, ma, ex))
        elif r < 0.78:
            e = blank_event("Tick")
            e["n"] = rng.choice([1, 1, 1, 2, 3])
            now += e["n"]
            stim.append(e)
        elif r < 0.85:
            e = blank_event("ClearDomain")
            e["d"] = list(rng.choice(hosts))
            stim.append(e)
        elif r < 0.87:
            stim.append(blank_event("Clear"))
        elif r < 0.95 or not queries:
            stim.append(blank_event("SaveLoad"))
        else:
            e = blank_event("Query")
            e.update({"host": list(rng.choice(hosts)), "path": dict(rng.choice(pathpool)), "scheme": rng.choice(SCHEMES)})
            stim.append(e)
    return {"unsafe": unsafe, "stimuli": stim}


# ---------------------------------------------------------------- session-level histories
def hop_event(start: bool, host: List[str], path: dict, scheme: str, rc: Optional[List[int]] = None) -> dict:
    e = blank_event("Hop")
    e.update({"start": bool(start), "host": list(host), "path": dict(path), "scheme": scheme,
              "rc": list(rc or [0, 0]), "via": "session"})
    return e


def random_session_history(rng: Any) -> Dict[str, Any]:
    """Requests of a real ClientSession as sequences of hops: a jar filled by earlier responses, then
    1-3 requests of 1-4 hops each; redirect targets on the same origin (other path), on the same host
    with the other scheme, or on another host; Set-Cookie on some responses (3xx and final); jar
    changes between hops (clock, clear, another response arriving); per-request cookies= on some."""
    unsafe = rng.random() < 0.15
    hosts = rng.choice([[EXAMPLE, A_EX, B_EX], [EXAMPLE, A_EX, X_EX, COM], HOSTS, [EXAMPLE, A_EX]])
    paths = rng.choice([PATHS, PATHS, [ROOT, PATHS[1], PATHS[3]]])
    names = rng.choice([["n"], ["n", "m"]])
    stim: List[dict] = []

    def jar_receive(h: List[str], p: dict, sc: str, via: str = "jar") -> dict:
        kind = rng.choice(["absent"] * 5 + ["same"] * 2 + ["parent"] * 3 + ["dotparent", "sibling"])
        pa = None if rng.random() < 0.3 else rng.choice(paths)
        ma, ex = random_lifetime(rng)
        e = receive_event(h, p, sc, rng.choice(names), 0, resolve_dom(h, kind), pa, rng.random() < 0.25, ma, ex)
        e["via"] = via
        return e

    for _ in range(rng.randint(1, 4)):
        stim.append(jar_receive(rng.choice(hosts), rng.choice(paths), rng.choice(SCHEMES)))
    for _req in range(rng.randint(1, 3)):
        h, p, sc = rng.choice(hosts), rng.choice(paths), rng.choice(SCHEMES)
        rc = [0, 0]
        if rng.random() < 0.3:
            for k, nm in enumerate(NAMES):
                if nm in names and rng.random() < 0.6:
                    rc[k] = RC_VALUES[nm]
        stim.append(hop_event(True, h, p, sc, rc))
        for _hop in range(rng.randint(0, 3)):
            # what happens while the request waits for the response
            r = rng.random()
            if r < 0.15:
                t = blank_event("Tick")
                t["n"] = rng.choice([1, 2, 3])
                stim.append(t)
            elif r < 0.25:
                stim.append(jar_receive(rng.choice(hosts), rng.choice(paths), rng.choice(SCHEMES)))
            elif r < 0.30:
                c = blank_event("ClearDomain")
                c["d"] = list(rng.choice(hosts))
                stim.append(c)
            elif r < 0.33:
                stim.append(blank_event("SaveLoad"))
            if rng.random() < 0.35:                       # the 3xx response sets a cookie
                stim.append(jar_receive(h, p, sc, via="session"))
            r = rng.random()
            if r < 0.55:                                  # same origin, another path
                p = rng.choice([q for q in paths if q != p] or paths)
            elif r < 0.65:                                # same host, other scheme: another origin
                sc = "https" if sc == "http" else "http"
            else:
                h = rng.choice([x for x in hosts if x != h] or hosts)
                if rng.random() < 0.5:
                    p = rng.choice(paths)
            stim.append(hop_event(False, h, p, sc))
        if rng.random() < 0.3:                            # the final response sets a cookie
            stim.append(jar_receive(h, p, sc, via="session"))
        if rng.random() < 0.3:
            t = blank_event("Tick")
            t["n"] = rng.choice([1, 2])
            stim.append(t)
    return {"unsafe": unsafe, "stimuli": stim}
