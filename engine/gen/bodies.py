"""Payload corpus for C09 (body decoding): encoded bodies, reference decodings, framings,
segmentations, consumer schedules, and unit-structured payloads for replaying BodyFlow behaviours.

Nothing here judges anything.  The reference decoding is a one-shot decode with the codec
libraries themselves (zlib / brotli / zstd are trusted); aiohttp's own compression_utils is
never used on this side.

    CODECS                      codecs importable here: identity gzip deflate deflate-raw br zstd
    encode(codec, data)         one member / frame
    reference(codec, enc)       Ref(ok, data, why)   data = full decoding, or the longest prefix a
                                streaming decoder can emit before it fails (ok = False)
    digest(b)                   31-bit rolling digest used in traces
    corpus(rng, quick)          list[Body]
    frame(enc, framing, chunks) wire bytes of the body + offset map
    segmentations(...)          cut lists
    schedules(...)              consumer schedules
    UnitCodec(codec, U)         encoder producing one byte string per model input unit
"""
from __future__ import annotations

import zlib
from dataclasses import dataclass, field
from typing import Any, Callable, Dict, List, Optional, Tuple

try:
    import brotli  # type: ignore
    HAS_BR = True
except ImportError:  # pragma: no cover
    brotli = None
    HAS_BR = False
try:
    try:
        from compression import zstd  # type: ignore  # 3.14+
    except ImportError:
        from backports import zstd  # type: ignore
    HAS_ZSTD = True
except ImportError:  # pragma: no cover
    zstd = None
    HAS_ZSTD = False

CODECS = ["identity", "gzip", "deflate", "deflate-raw"] + (["br"] if HAS_BR else []) + (["zstd"] if HAS_ZSTD else [])
# codecs whose streams may concatenate members: the format defines it for gzip (RFC 1952 2.2) and
# zstd (RFC 8878 3.1); for deflate aiohttp documents it (compression_utils.ConcatDecompressionHandler:
# "Concatenated gzip/deflate members ... decode the same way"), so the reference follows that definition
MULTI = ("gzip", "zstd", "deflate", "deflate-raw")


def header_value(codec: str) -> Optional[str]:
    """Content-Encoding token for a codec (None = no header)."""
    return {"identity": None, "gzip": "gzip", "deflate": "deflate", "deflate-raw": "deflate",
            "br": "br", "zstd": "zstd"}[codec]


def digest(b: bytes, prev: int = 0) -> int:
    return zlib.crc32(b, prev)


def dg31(crc: int) -> int:
    return crc & 0x7FFFFFFF


# ---------------------------------------------------------------- encode
def encode(codec: str, data: bytes, level: int = 6) -> bytes:
    if codec == "identity":
        return data
    if codec == "gzip":
        c = zlib.compressobj(level, zlib.DEFLATED, 31)
        return c.compress(data) + c.flush()
    if codec == "deflate":
        c = zlib.compressobj(level, zlib.DEFLATED, 15)
        return c.compress(data) + c.flush()
    if codec == "deflate-raw":
        c = zlib.compressobj(level, zlib.DEFLATED, -15)
        return c.compress(data) + c.flush()
    if codec == "br":
        return brotli.compress(data, quality=min(level, 11))
    if codec == "zstd":
        return zstd.compress(data, level=min(max(level, 1), 19))
    raise ValueError(codec)


# ---------------------------------------------------------------- reference decode
@dataclass
class Ref:
    ok: bool
    data: bytes
    why: str = ""          # "", "truncated", "corrupt"


def _zlib_members(enc: bytes, wbits: int, multi: bool) -> Ref:
    out = bytearray()
    rest = enc
    first = True
    while first or (multi and rest):
        first = False
        d = zlib.decompressobj(wbits)
        try:
            out += d.decompress(rest)
        except zlib.error:
            return Ref(False, bytes(out), "corrupt")
        if not d.eof:
            return Ref(False, bytes(out), "truncated")
        rest = d.unused_data
    if rest:
        return Ref(False, bytes(out), "corrupt")      # bytes after the end of a single-member coding
    return Ref(True, bytes(out))


def _stream_prefix(make: Callable[[], Any], feed: Callable[[Any, bytes], bytes], enc: bytes) -> bytes:
    """Longest output a streaming decoder emits before it fails: feed byte by byte."""
    out = bytearray()
    d = make()
    for i in range(len(enc)):
        try:
            out += feed(d, enc[i:i + 1])
        except Exception:  # noqa: BLE001
            break
    return bytes(out)


def _zlib_stream_prefix(enc: bytes, wbits: int, multi: bool) -> bytes:
    out = bytearray()
    d = zlib.decompressobj(wbits)
    for i in range(len(enc)):
        if d.eof:
            if not multi:
                break
            d = zlib.decompressobj(wbits)
        try:
            out += d.decompress(enc[i:i + 1])
        except zlib.error:
            break
    return bytes(out)


def reference(codec: str, enc: bytes) -> Ref:
    """One-shot reference decoding of an encoded body (the trusted libraries decide)."""
    if codec == "identity":
        return Ref(True, enc)
    if codec in ("gzip", "deflate", "deflate-raw"):
        if codec == "gzip":
            wbits, multi = 31, True
        else:
            # HTTP "deflate" is the zlib format (RFC 9110 8.4.1.2); raw deflate streams are a
            # tolerated deviation recognised by the first byte not announcing CM = 8
            wbits = 15 if (enc and enc[0] & 0x0F == 8) else -15
            multi = True
        r = _zlib_members(enc, wbits, multi)
        if not r.ok:
            r.data = _zlib_stream_prefix(enc, wbits, multi)
        return r
    if codec == "br":
        try:
            return Ref(True, brotli.decompress(enc))
        except brotli.error:
            d = brotli.Decompressor()
            pre = _stream_prefix(brotli.Decompressor, lambda dd, b: dd.process(b), enc)
            truncated = False
            try:
                d.process(enc)
                truncated = not d.is_finished()
            except brotli.error:
                truncated = False
            return Ref(False, pre, "truncated" if truncated else "corrupt")
    if codec == "zstd":
        try:
            return Ref(True, zstd.decompress(enc))
        except Exception:  # noqa: BLE001  (ZstdError)
            out = bytearray()
            d = zstd.ZstdDecompressor()
            why = "truncated"
            for i in range(len(enc)):
                if d.eof:
                    d = zstd.ZstdDecompressor()
                try:
                    out += d.decompress(enc[i:i + 1])
                except Exception:  # noqa: BLE001
                    why = "corrupt"
                    break
            return Ref(False, bytes(out), why)
    raise ValueError(codec)


# ---------------------------------------------------------------- corpus
@dataclass
class Body:
    name: str
    codec: str
    enc: bytes
    ref: Ref
    kind: str                                   # random | bomb | members | empty-members | trunc | flip | plain
    marks: List[int] = field(default_factory=list)   # interesting offsets in enc (member boundaries)


def _rand_bytes(rng: Any, n: int, alphabet: int = 256) -> bytes:
    return bytes(rng.randrange(alphabet) for _ in range(n))


def _mixed(rng: Any, n: int) -> bytes:
    """Partly compressible data."""
    out = bytearray()
    while len(out) < n:
        k = rng.choice([1, 3, 8, 20, 60])
        if rng.random() < 0.5:
            out += bytes([rng.randrange(256)]) * k
        else:
            out += _rand_bytes(rng, k, rng.choice([4, 256]))
    return bytes(out[:n])


def concat_members(codec: str, parts: List[bytes]) -> Tuple[bytes, List[int]]:
    enc = bytearray()
    marks = []
    for p in parts:
        enc += encode(codec, p)
        marks.append(len(enc))
    return bytes(enc), marks[:-1]


def bomb(codec: str, out_len: int) -> bytes:
    return encode(codec, b"\0" * out_len, level=9)


def corpus(rng: Any, quick: bool = True, codecs: Optional[List[str]] = None) -> List[Body]:
    """Small bodies for exhaustive-ish segmentation (bombs are produced separately: bombs())."""
    out: List[Body] = []
    codecs = codecs or CODECS
    for codec in codecs:
        datas = [b"a", b"hello world, hello world", _mixed(rng, rng.choice([40, 90])), _rand_bytes(rng, 33),
                 b"\0" * 400]
        if not quick:
            datas += [_mixed(rng, 700), _rand_bytes(rng, 300), b"ab" * 2000]
        for k, d in enumerate(datas):
            enc = encode(codec, d)
            out.append(Body(f"{codec}/rand{k}", codec, enc, reference(codec, enc), "random" if codec != "identity" else "plain"))
        if codec in MULTI:
            parts = [b"first member ", b"", _mixed(rng, 50), b"", b"\0" * 200, b"tail"]
            enc, marks = concat_members(codec, parts)
            out.append(Body(f"{codec}/members", codec, enc, reference(codec, enc), "members", marks))
            enc, marks = concat_members(codec, [b"", b"", b"x", b""])
            out.append(Body(f"{codec}/empty-members", codec, enc, reference(codec, enc), "empty-members", marks))
            enc, marks = concat_members(codec, [b"\0" * 300, b"\1" * 300])
            out.append(Body(f"{codec}/two-bomblets", codec, enc, reference(codec, enc), "members", marks))
            if not quick:
                enc, marks = concat_members(codec, [bytes([65 + i % 26]) * (i % 7) for i in range(40)])
                out.append(Body(f"{codec}/many-members", codec, enc, reference(codec, enc), "members", marks))
        if codec == "identity":
            continue
        # truncation at every byte of a short stream, single bit flips
        short = encode(codec, b"The quick brown fox jumps over the lazy dog. " * 2)
        cuts = range(1, len(short)) if not quick else sorted(set(
            list(range(1, min(12, len(short)))) + list(range(len(short) - 10, len(short)))
            + [rng.randrange(1, len(short)) for _ in range(4)]))
        for c in cuts:
            enc = short[:c]
            out.append(Body(f"{codec}/trunc@{c}", codec, enc, reference(codec, enc), "trunc"))
        nflip = 10 if quick else 60
        for _ in range(nflip):
            i = rng.randrange(len(short) * 8)
            enc = bytearray(short)
            enc[i // 8] ^= 1 << (i % 8)
            enc = bytes(enc)
            out.append(Body(f"{codec}/flip@{i}", codec, enc, reference(codec, enc), "flip"))
        if codec in MULTI:
            enc, marks = concat_members(codec, [b"good member", b"second"])
            bad = enc[:marks[0]] + b"\x07garbage"
            out.append(Body(f"{codec}/garbage-after-member", codec, bad, reference(codec, bad), "flip", marks))
            # truncation inside a LATER member: a few bytes in (before it has produced output), and deeper
            enc, marks = concat_members(codec, [b"first member " * 20, b"second member " * 20, b"third " * 9])
            ends = marks + [len(enc)]
            for mi, m in enumerate(marks):
                ks = [1, 2, 3] if quick else list(range(1, min(12, ends[mi + 1] - m)))
                ks.append(rng.randrange(4, ends[mi + 1] - m))
                for k in sorted(set(ks)):
                    cut_enc = enc[:m + k]
                    out.append(Body(f"{codec}/member{mi + 2}-trunc+{k}", codec, cut_enc, reference(codec, cut_enc),
                                    "trunc", [x for x in marks if x <= m]))
    return out


def bombs(quick: bool, codecs: Optional[List[str]] = None) -> List[Body]:
    """1 KiB-ish inputs that decode to MiBs of zeros (size capped in the quick tier)."""
    out = []
    for codec in codecs or CODECS:
        if codec == "identity":
            continue
        sizes = [1 << 20] if quick else [10 << 20, 100 << 20 if codec in ("br", "zstd", "gzip") else 30 << 20]
        for n in sizes:
            enc = bomb(codec, n)
            # the reference of a bomb is known by construction; decode once to confirm the length only
            out.append(Body(f"{codec}/bomb{n >> 20}M", codec, enc, Ref(True, b""), "bomb"))
            out[-1].ref = BombRef(n)
    return out


class BombRef(Ref):
    """Reference of N zero bytes without materialising comparisons in Python."""

    def __init__(self, n: int) -> None:
        super().__init__(True, b"", "")
        self.n = n

    @property
    def length(self) -> int:
        return self.n

    def crc(self) -> int:
        crc = 0
        block = b"\0" * 65536
        left = self.n
        while left > 0:
            k = min(left, len(block))
            crc = zlib.crc32(block[:k], crc)
            left -= k
        return crc


def ref_len(ref: Ref) -> int:
    return ref.n if isinstance(ref, BombRef) else len(ref.data)


def ref_crc(ref: Ref) -> int:
    return ref.crc() if isinstance(ref, BombRef) else zlib.crc32(ref.data)


def ref_prefix_crc(ref: Ref, n: int) -> int:
    """Digest of the first n bytes of the reference (-1 if the reference is shorter)."""
    if n > ref_len(ref):
        return -1
    if isinstance(ref, BombRef):
        return BombRef(n).crc()
    return zlib.crc32(ref.data[:n])


# ---------------------------------------------------------------- where does input decode to nothing?
def first_error_offset(codec: str, enc: bytes) -> int:
    """Index of the input byte at which a streaming decoder fed byte by byte raises (-1: never)."""
    return stream_profile(codec, enc, _want_error=True)  # type: ignore[return-value]


def stream_profile(codec: str, enc: bytes, _want_error: bool = False) -> List[int]:
    """cum[i] = bytes a streaming decoder has emitted after the first i input bytes (fed one by one;
    members are chained).  Stops growing at the first decoding error."""
    cum = [0]
    if codec == "identity":
        return -1 if _want_error else list(range(len(enc) + 1))  # type: ignore[return-value]
    if codec in ("gzip", "deflate", "deflate-raw"):
        wbits = 31 if codec == "gzip" else (15 if (enc and enc[0] & 0x0F == 8) else -15)
        mk: Callable[[], Any] = lambda: zlib.decompressobj(wbits)
        fin: Callable[[Any], bool] = lambda d: d.eof
        feed: Callable[[Any, bytes], bytes] = lambda d, b: d.decompress(b)
    elif codec == "zstd":
        mk, fin, feed = zstd.ZstdDecompressor, (lambda d: d.eof), (lambda d, b: d.decompress(b))
    else:
        mk, fin, feed = brotli.Decompressor, (lambda d: False), (lambda d, b: d.process(b))
    d = mk()
    dead = False
    for i in range(len(enc)):
        n = 0
        if not dead:
            try:
                if fin(d):
                    d = mk()
                n = len(feed(d, enc[i:i + 1]))
            except Exception:  # noqa: BLE001
                dead = True
                if _want_error:
                    return i  # type: ignore[return-value]
        cum.append(cum[-1] + n)
    return -1 if _want_error else cum  # type: ignore[return-value]


def plateaus(cum: List[int], min_len: int = 1) -> List[Tuple[int, int]]:
    """Maximal input ranges (i, j), 0 < i < j <= len(enc), such that the bytes enc[i:j] add no output
    although output was produced before i (trailers, checksums, headers of a following member, empty
    blocks, bits that complete no symbol)."""
    out = []
    n = len(cum) - 1
    i = 1
    while i < n:
        if cum[i] > 0:
            j = i
            while j < n and cum[j + 1] == cum[i]:
                j += 1
            if j - i >= min_len:
                out.append((i, j))
            i = j + 1
        else:
            i += 1
    return out


def wire_offset(offmap: Dict[int, int], body_off: int) -> int:
    """Wire offset of body byte body_off in a chunked rendering (offmap from frame())."""
    start = max(k for k in offmap if k <= body_off)
    return offmap[start] + (body_off - start)


# ---------------------------------------------------------------- multipart/form-data request bodies
BOUNDARY = "c09BoundaryX"


def multipart_form(fields: List[Tuple[str, Optional[str], bytes]], boundary: str = BOUNDARY) -> bytes:
    """fields: (name, filename or None, value).  Canonical rendering - the harness re-renders what the
    server parsed with the same function, so equality of digests means equality of all fields."""
    out = bytearray()
    for name, filename, value in fields:
        out += b"--" + boundary.encode() + b"\r\n"
        disp = f'Content-Disposition: form-data; name="{name}"'
        if filename is not None:
            disp += f'; filename="{filename}"'
        out += disp.encode() + b"\r\n"
        if filename is not None:
            out += b"Content-Type: application/octet-stream\r\n"
        out += b"\r\n" + value + b"\r\n"
    out += b"--" + boundary.encode() + b"--\r\n"
    return bytes(out)


# ---------------------------------------------------------------- framing
def frame(enc: bytes, framing: str, chunk_sizes: Optional[List[int]] = None) -> Tuple[bytes, Dict[int, int]]:
    """Wire form of an encoded body.  Returns (wire, offmap) where offmap maps a body offset to the
    wire offset where that body byte starts (only for offsets that start a chunk or are asked for)."""
    if framing in ("length", "eof"):
        return enc, {}
    assert framing == "chunked"
    sizes = list(chunk_sizes or [len(enc)])
    out = bytearray()
    offmap: Dict[int, int] = {}
    pos = 0
    for s in sizes:
        if pos >= len(enc):
            break
        s = max(1, min(s, len(enc) - pos))
        out += b"%x\r\n" % s
        offmap[pos] = len(out)
        out += enc[pos:pos + s] + b"\r\n"
        pos += s
    if pos < len(enc):
        s = len(enc) - pos
        out += b"%x\r\n" % s
        offmap[pos] = len(out)
        out += enc[pos:] + b"\r\n"
    offmap[len(enc)] = len(out)
    out += b"0\r\n\r\n"
    return bytes(out), offmap


def chunk_plans(rng: Any, n: int, marks: List[int]) -> List[List[int]]:
    """Chunk size lists for a body of n bytes (one chunk, byte chunks, at member boundaries, random)."""
    plans = [[n], [1] * n if n <= 64 else [7] * (n // 7 + 1)]
    if marks:
        cuts = [0] + [m for m in marks if 0 < m < n] + [n]
        plans.append([b - a for a, b in zip(cuts, cuts[1:]) if b > a])
    sizes = []
    left = n
    while left > 0:
        s = min(left, rng.choice([1, 2, 5, 17, 64, 300]))
        sizes.append(s)
        left -= s
    plans.append(sizes)
    return plans


def segmentations(rng: Any, n: int, marks: List[int], count: int) -> List[List[int]]:
    """Cut lists (sorted offsets in 1..n-1) for wire bytes of length n."""
    segs: List[List[int]] = [[]]
    if n <= 1:
        return segs
    if n <= 200:
        segs.append(list(range(1, n)))                      # byte by byte
    ms = sorted({m for m in marks if 0 < m < n})
    if ms:
        segs.append(ms)                                     # member boundary exactly at a piece boundary
        segs.append(sorted({m + d for m in ms for d in (-1, 1) if 0 < m + d < n}))
    segs.append([n // 2])
    while len(segs) < count:
        k = rng.choice([1, 2, 3, 5, 9])
        segs.append(sorted({rng.randrange(1, n) for _ in range(k)}))
    return segs[:max(count, 1)]


def cut(wire: bytes, cuts: List[int]) -> List[bytes]:
    ps = [0] + list(cuts) + [len(wire)]
    return [wire[a:b] for a, b in zip(ps, ps[1:]) if b > a]


# ---------------------------------------------------------------- consumer schedules
def schedules(rng: Any, limit: int, count: int) -> List[List[tuple]]:
    """Consumer schedules: lists of ops; the last read op is repeated until EOF / error.
    ops: ("read", n) ("readany",) ("iter_chunked", n) ("iter_any",) ("readall",) ("readchunk",) ("pause", k)"""
    base: List[List[tuple]] = [
        [("read", 1)],
        [("readany",)],
        [("read", max(1, limit))],
        [("read", limit + 1)],
        [("read", 3 * limit + 5)],
        [("iter_chunked", max(1, limit // 2 or 1))],
        [("iter_chunked", 2 * limit + 1)],
        [("iter_any",)],
        [("readall",)],
        [("pause", 7), ("readany",)],
        [("pause", 40), ("read", 1), ("pause", 3), ("read", 2)],
        [("read", 1), ("pause", 25), ("readall",)],
        [("readchunk",)],
    ]
    out = list(base)
    while len(out) < count:
        s: List[tuple] = []
        for _ in range(rng.randint(1, 4)):
            r = rng.random()
            if r < 0.35:
                s.append(("pause", rng.choice([1, 2, 5, 13, 60])))
            elif r < 0.7:
                s.append(("read", rng.choice([1, 2, 3, limit, limit + 1, 2 * limit, 5 * limit + 1, 1000])))
            elif r < 0.85:
                s.append(("readany",))
            else:
                s.append(("readchunk",))
        if all(o[0] == "pause" for o in s):
            s.append(("readany",))
        out.append(s)
    return out[:count]


# ---------------------------------------------------------------- unit payloads (model replay)
class UnitCodec:
    """Encodes a body unit by unit so that feeding unit i to a streaming decoder yields exactly
    E(i) * U output bytes (given enough output budget): every unit ends on a flush boundary.

    codec "gzip": one gzip stream, Z_SYNC_FLUSH after every unit; a unit with E = 0 is an empty
    stored block; M ends the member (Z_FINISH + trailer) - the next unit starts a new member;
    X is a reserved deflate block type (the decoder raises).  codec "zstd": FLUSH_BLOCK per unit,
    E = 0 is an empty raw block (an empty frame when no frame is open), M ends the frame.  codec "identity": the unit is its own output."""

    def __init__(self, codec: str, U: int, rng: Any) -> None:
        self.codec = codec
        self.U = U
        self.rng = rng
        self._c: Any = None
        self.plain = bytearray()      # reference output
        self.ok = True

    def _open(self) -> None:
        if self._c is None:
            if self.codec == "gzip":
                self._c = zlib.compressobj(6, zlib.DEFLATED, 31)
            elif self.codec == "zstd":
                self._c = zstd.ZstdCompressor()

    def unit(self, u: int) -> bytes:
        """u = expansion factor, or 100 (member end), 101 (corrupt)."""
        U = self.U
        if self.codec == "identity":
            d = bytes(self.rng.randrange(256) for _ in range(max(u, 0) * U)) if u < 100 else b""
            self.plain += d
            return d
        if u == 101:
            self.ok = False
            if self.codec == "gzip":
                self._open()
                return self._c.flush(zlib.Z_SYNC_FLUSH) + b"\x07\xff\xff"     # BTYPE = 11 reserved
            return b"\x28\xb5\x2f\xfd\xff\xff\xff\xff\xff"                        # bad zstd frame header
        if self.codec == "gzip":
            self._open()
            if u == 100:
                out = self._c.flush(zlib.Z_FINISH)
                self._c = None
                return out
            if u == 0:
                return self._c.flush(zlib.Z_SYNC_FLUSH) + b"\x00\x00\x00\xff\xff"
            d = (bytes(self.rng.randrange(256) for _ in range(U)) if u == 1 else bytes([self.rng.randrange(256)]) * (u * U))
            if self.ok:
                self.plain += d
            return self._c.compress(d) + self._c.flush(zlib.Z_SYNC_FLUSH)
        if self.codec == "zstd":
            started = self._c is not None
            self._open()
            if u == 0 and started:
                return b"\x00\x00\x00"          # an empty raw block inside the running frame
            if u in (0, 100):
                out = self._c.flush(zstd.ZstdCompressor.FLUSH_FRAME)
                self._c = None
                return out
            d = (bytes(self.rng.randrange(256) for _ in range(U)) if u == 1 else bytes([self.rng.randrange(256)]) * (u * U))
            if self.ok:
                self.plain += d
            return self._c.compress(d, zstd.ZstdCompressor.FLUSH_BLOCK)
        raise ValueError(self.codec)

    def close(self) -> bytes:
        """Bytes that end the stream properly (sent with the last piece)."""
        if self._c is None or self.codec == "identity":
            return b""
        if self.codec == "gzip":
            out = self._c.flush(zlib.Z_FINISH)
        else:
            out = self._c.flush(zstd.ZstdCompressor.FLUSH_FRAME)
        self._c = None
        return out
