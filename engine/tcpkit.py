"""TCP-level client kit: a real ClientSession on a real TCPConnector whose *socket layer*
is in memory and can be stalled.

What is real (code under test, imported from the repository):
    ClientSession._request, ClientRequest/ClientResponse, TCPConnector.connect(),
    _create_direct_connection(), _resolve_host() with the throttled shared lookup and the
    shielded resolver task, _wrap_create_connection() with its sock_connect ceil_timeout,
    aiohappyeyeballs.start_connection(), asyncio's BaseEventLoop.create_connection(),
    ResponseHandler, HttpResponseParser, StreamReader, pool accounting.

What is replaced (below the code under test):
    * the resolver       StallResolver(AbstractResolver): every resolve() call parks on a
                         future the harness completes (addresses / exception) - or never;
    * socket creation    TCPConnector(socket_factory=...) hands out FakeSocket objects;
    * loop.sock_connect  parks on a future the harness completes (ok / OSError) - or never;
    * loop._make_socket_transport   returns a MemTransport (engine.memnet); the harness is
                         the scripted peer (PeerConn from engine.clikit).

    kit = TcpKit(loop, limit=1)
    t = kit.spawn("v", coro)
    kit.dns_calls / kit.sock_calls      pending and finished stubs, in call order
    kit.dns_gate / kit.sock_gate        True: calls park until the harness completes them;
                                        False: they complete on a later loop step
    call.ok() / call.fail(exc)          complete a parked call
    kit.conns                           PeerConn objects (engine.clikit) in creation order
"""
from __future__ import annotations

import asyncio
import socket
from typing import Any, Callable, Dict, List, Optional

from .clikit import PeerConn
from .memnet import MemTransport


class FakeSocket:
    """Just enough of socket.socket for aiohappyeyeballs and BaseEventLoop.create_connection."""

    def __init__(self, kit: "TcpKit", addr_info: Any) -> None:
        self.family, self._type, self.proto, _, self.address = addr_info
        self.kit = kit
        self.idx = len(kit.sockets)
        self.closed = False
        self.connected = False
        kit.sockets.append(self)

    @property
    def type(self) -> int:
        return socket.SOCK_STREAM

    def setblocking(self, flag: bool) -> None:
        pass

    def bind(self, addr: Any) -> None:
        pass

    def close(self) -> None:
        self.closed = True

    def fileno(self) -> int:
        return -1 if self.closed else 1000 + self.idx

    def getpeername(self) -> Any:
        return self.address

    def getsockname(self) -> Any:
        return ("127.0.0.1", 40000 + self.idx)

    def setsockopt(self, *a: Any) -> None:
        pass

    def getsockopt(self, *a: Any) -> int:
        return 0

    def __repr__(self) -> str:
        return f"<FakeSocket {self.idx} {self.address} closed={self.closed}>"


class StubCall:
    """One parked resolve() / sock_connect() call."""

    def __init__(self, kit: "TcpKit", kind: str, what: Any, owner: str) -> None:
        self.kit = kit
        self.kind = kind
        self.what = what
        self.owner = owner
        self.fut: asyncio.Future = kit.loop.create_future()
        self.t_start = kit.loop.time()
        self.cancelled_by_caller = False
        self.finished = False            # the awaiting coroutine has resumed (result consumed)
        self.sock: Optional[FakeSocket] = None

    @property
    def pending(self) -> bool:
        return not self.fut.done()

    def ok(self, value: Any = None) -> None:
        if not self.fut.done():
            self.fut.set_result(value)

    def fail(self, exc: BaseException) -> None:
        if not self.fut.done():
            self.fut.set_exception(exc)


class TcpKit:
    def __init__(self, loop: Any, *, limit: int = 100, limit_per_host: int = 0,
                 keepalive_timeout: float = 3600.0, force_close: bool = False,
                 use_dns_cache: bool = True, addrs: Optional[List[str]] = None,
                 happy_eyeballs_delay: Optional[float] = 0.25,
                 session_kw: Optional[dict] = None) -> None:
        import aiohttp
        from aiohttp.abc import AbstractResolver
        import aiohttp.connector as _connector_mod
        from aiohttp.connector import TCPConnector

        # the optional accelerated transport package needs real file descriptors; without it
        # aiohttp.connector.create_connection() goes through loop.create_connection() (harness
        # process only, nothing in the repository is touched)
        _connector_mod.aiofastnet = None  # type: ignore[attr-defined]
        self.loop = loop
        self.conns: List[PeerConn] = []
        self.sockets: List[FakeSocket] = []
        self.dns_calls: List[StubCall] = []
        self.sock_calls: List[StubCall] = []
        self.dns_gate = False
        self.sock_gate = False
        self.addrs = list(addrs or ["10.0.0.1"])
        self.on_create: Optional[Callable[[PeerConn], None]] = None
        self.current: Optional[str] = None
        self.tasks: Dict[str, asyncio.Task] = {}
        self.acquire_log: List[tuple] = []
        self.release_log: List[tuple] = []
        kit = self

        class StallResolver(AbstractResolver):
            async def resolve(self, host: str, port: int = 0, family: int = socket.AF_INET) -> list:  # type: ignore[override]
                call = StubCall(kit, "dns", (host, port), kit.current or "?")
                kit.dns_calls.append(call)
                if not kit.dns_gate:
                    kit.loop.call_soon(call.ok)
                try:
                    res = await call.fut
                except asyncio.CancelledError:
                    call.cancelled_by_caller = True
                    raise
                finally:
                    call.finished = True
                addrs = res if isinstance(res, list) else kit.addrs
                return [{"hostname": host, "host": a, "port": port, "family": socket.AF_INET,
                         "proto": 0, "flags": socket.AI_NUMERICHOST} for a in addrs]

            async def close(self) -> None:
                pass

        class KitTCPConnector(TCPConnector):
            async def connect(self, req: Any, traces: Any, timeout: Any) -> Any:  # type: ignore[override]
                conn = await super().connect(req, traces, timeout)
                name = kit._task_name()
                pc = kit.by_proto(conn.protocol)
                if pc is not None:
                    pc.key = req.connection_key
                    pc.owner = name
                    pc.history.append(name)
                    kit.acquire_log.append((name, pc.idx, req.connection_key))
                    conn.add_callback(lambda pc=pc, name=name: kit._released(pc, name))
                return conn

        self.resolver = StallResolver()
        self.connector = KitTCPConnector(
            limit=limit, limit_per_host=limit_per_host, keepalive_timeout=keepalive_timeout,
            force_close=force_close, enable_cleanup_closed=False, resolver=self.resolver,
            use_dns_cache=use_dns_cache, ttl_dns_cache=None, happy_eyeballs_delay=happy_eyeballs_delay,
            socket_factory=lambda ai: FakeSocket(kit, ai))
        # the layer below aiohappyeyeballs / BaseEventLoop.create_connection
        loop.sock_connect = self._sock_connect            # type: ignore[attr-defined]
        loop._make_socket_transport = self._make_socket_transport  # type: ignore[attr-defined]
        kw = dict(session_kw or {})
        self.session = aiohttp.ClientSession(connector=self.connector, **kw)

    # ---- the stubbed socket layer
    async def _sock_connect(self, sock: FakeSocket, address: Any) -> None:
        call = StubCall(self, "sock", address, self._task_name())
        call.sock = sock
        self.sock_calls.append(call)
        if not self.sock_gate:
            self.loop.call_soon(call.ok)
        try:
            res = await call.fut
        except asyncio.CancelledError:
            call.cancelled_by_caller = True
            raise
        finally:
            call.finished = True
        if isinstance(res, BaseException):
            raise res
        sock.connected = True

    def _make_socket_transport(self, sock: FakeSocket, protocol: Any, waiter: Any = None, *,
                               extra: Any = None, server: Any = None) -> MemTransport:
        tr = MemTransport(self.loop, protocol, name=f"c{len(self.conns)}")
        pc = PeerConn(self, len(self.conns), None, protocol, tr)  # type: ignore[arg-type]
        pc.sock = sock                                           # type: ignore[attr-defined]
        pc.creator = self._task_name()                           # type: ignore[attr-defined]
        self.conns.append(pc)
        orig_close = tr.close

        def close_both() -> None:
            sock.closed = True
            orig_close()

        tr.close = close_both                                    # type: ignore[method-assign]
        # like _SelectorSocketTransport.__init__: connection_made and the waiter are call_soon'ed
        self.loop.call_soon(protocol.connection_made, tr)
        if self.on_create is not None:
            self.loop.call_soon(self.on_create, pc)
        if waiter is not None:
            self.loop.call_soon(asyncio.futures._set_result_unless_cancelled, waiter, None)
        return tr

    # ---- bookkeeping shared with ClientKit
    def _released(self, pc: PeerConn, name: str) -> None:
        if pc.owner == name:
            pc.owner = None
        self.release_log.append((name, pc.idx))

    def _task_name(self) -> str:
        t = asyncio.current_task()
        for n, tk in self.tasks.items():
            if tk is t:
                return n
        return self.current or "?"

    def by_proto(self, proto: Any) -> Optional[PeerConn]:
        for pc in self.conns:
            if pc.proto is proto:
                return pc
        return None

    def spawn(self, name: str, coro: Any) -> asyncio.Task:
        t = self.loop.create_task(coro)
        self.tasks[name] = t
        return t

    def resolver_tasks(self) -> list:
        return list(getattr(self.connector, "_resolve_host_tasks", ()))

    def close(self) -> None:
        async def _c() -> None:
            await self.session.close()

        for c in self.dns_calls + self.sock_calls:
            if c.pending:
                c.fail(OSError("harness teardown"))
        t = self.loop.create_task(_c())
        self.loop.run_until_idle()
        for tk in list(self.tasks.values()):
            if not tk.done():
                tk.cancel()
        self.loop.run_until_idle()
        for tk in self.tasks.values():
            if tk.done() and not tk.cancelled():
                tk.exception()
        if t.done() and not t.cancelled():
            t.exception()
        self.loop._scheduled.clear()
        self.loop.exc_contexts.clear()
        for attr in ("sock_connect", "_make_socket_transport"):
            self.loop.__dict__.pop(attr, None)
